#!/usr/bin/env python3
"""Rewrites the generated tables of /verif/DESIGN.md (between the
<!-- BEGIN GENERATED:x --> / <!-- END GENERATED:x --> markers) from the
evidence files, the stored seeds, the mutant files and known_findings.json."""
import json, glob, os, re

V = '/verif'

def cell(s, n=None):
    s = ' '.join(str(s).split()).replace('|', '\\|')
    if n and len(s) > n:
        s = s[:n - 1] + '…'
    return s

def summary_table():
    rows = ['| property | obligations (quick) | rule groups | stored variants (breaking / behaviour-preserving) | kept seeded changes (caught) | open findings |',
            '|---|---|---|---|---|---|']
    kf = json.load(open(V + '/known_findings.json'))['findings']
    for i in range(1, 21):
        pid = 'C%02d' % i
        ev = V + '/evidence/%s.json' % pid
        ob, rules = '-', '-'
        if os.path.exists(ev):
            c = json.load(open(ev))['coverage']
            ob = c['obligations']
            rules = ' '.join(r for r in c['rules'] if re.match(r'C\d\d\.\d+[a-z]?$', r))
        mf = V + '/selftest/mutants/%s.json' % pid.lower()
        nb = ns = 0
        if os.path.exists(mf):
            for m in json.load(open(mf)):
                if m.get('expect') == 'silent':
                    ns += 1
                else:
                    nb += 1
        seeds = [json.load(open(p)) for p in sorted(glob.glob(V + '/seeded/%s-*/meta.json' % pid))]
        caught = sum(1 for s in seeds if s.get('confirmed', {}).get('detected'))
        nopen = sum(1 for f in kf if f['property'] == pid and f['status'] == 'open')
        rows.append('| %s | %s | %s | %d / %d | %d (%d) | %d |' % (pid, ob, rules, nb, ns, len(seeds), caught, nopen))
    return '\n'.join(rows)

def seeds_table():
    rows = ['| seeded change (`/verif/seeded/<id>`) | what was changed | needs | check exit | rules that fired |',
            '|---|---|---|---|---|']
    for p in sorted(glob.glob(V + '/seeded/*/meta.json')):
        m = json.load(open(p))
        cf = m.get('confirmed', {})
        rows.append('| %s | %s | %s | %s | %s |' % (os.path.basename(os.path.dirname(p)), cell(m.get('summary', ''), 260), cell(m.get('needs', ''), 160),
                                                 cf.get('check_exit', '?'), ' '.join(cf.get('caught_by_rules', [])) or '—'))
    return '\n'.join(rows)

def findings_table():
    kf = json.load(open(V + '/known_findings.json'))['findings']
    refs = {}
    for f in kf:
        refs.setdefault(f['ref'], set()).add('open' if f['status'] == 'open' else 'fixed')
    nopen = sum(1 for r, st in refs.items() if 'open' in st)
    rows = ['Distinct findings (F numbers): **%d**, of which **%d** have at least one open entry and **%d** are completely repaired; %d obligation keys in total.' % (len(refs), nopen, len(refs) - nopen, len(kf)), '',
            '| # | property | obligation key | status | what fails |', '|---|---|---|---|---|']
    def num(f):
        m = re.match(r'F(\d+)', f['ref'])
        return int(m.group(1)) if m else 999
    for f in sorted(kf, key=lambda f: (num(f), f['property'], f['key'])):
        rows.append('| %s | %s | `%s` | %s | %s |' % (f['ref'], f['property'], cell(f['key'], 150), f['status'], cell(f['what'], 330)))
    return '\n'.join(rows)

def main():
    p = V + '/DESIGN.md'
    s = open(p).read()
    for name, fn in (('summary', summary_table), ('seeds', seeds_table), ('findings', findings_table)):
        b, e = '<!-- BEGIN GENERATED:%s -->' % name, '<!-- END GENERATED:%s -->' % name
        if b not in s:
            print('marker missing:', name)
            continue
        i, j = s.index(b) + len(b), s.index(e)
        s = s[:i] + '\n' + fn() + '\n' + s[j:]
    open(p, 'w').write(s)

main()
