#!/usr/bin/env python3
"""Regenerates /verif/MANIFEST.json from the table below and the list of
properties registered in the checker binary (xmppcheck -list)."""
import json, subprocess, sys

CLAIMS = {
 "C01": dict(text="Structural necessary conditions of the property decided on every path: 14 rule groups (C01.1-C01.14) over negotiateFeatures / readStreamFeatures / writeStreamFeatures / negotiateSession / the negotiator closure show by edge-dominance with branch facts that Negotiate is called only behind the advertised / not-yet-negotiated / negotiable guards (receiver) or for cache entries passing the same tests (initiator), voluntary features are taken first, the negotiated set is recorded before the loop continues, state bits are only OR-ed in and only after a nil error, Ready is produced only under its three licences, advertisement uses exactly the prerequisite masks, and a restart clears per-stream state and sends/expects a fresh header. This is a for-all-paths fact (every advertisement order, map order, feature set), which no finite set of transcripts gives; it is 'other' because it decides the code shape that implies the behaviour, not the behaviour on executed transcripts.",
             ref="DESIGN.md section 2, C01", tech="static analysis: go/cfg edge-dominance with branch facts, restricted reaching definitions, who-may-write, constant folding",
             note="Trusted: go/types, go/cfg, the obligation tables; not decided: third-party features' own masks and Negotiate bodies, run-time satisfiability of jointly dominating facts."),
 "C02": dict(text="Structural necessary conditions decided on every path: the forced-STARTTLS selection and the Ready licences (C01.4/C01.9), the first-features-list indicator (C02.2: true exactly until a features list was consumed, also with the tee on), prerequisite masks of the built-in features (C02.3), TLS built on the raw connection with the session's own domain as default ServerName and fresh coders after the restart (C02.4/C01.12), statelessness of all 16 feature closures (C02.5), the <proceed/> guard and the single success return of the STARTTLS step (C02.6), closed lists of raw-connection uses (C02.7) and of producers of the Secure bit (C02.8). Level 'other': the check decides the code shape that every clear-text-downgrade scenario must go through, for all peers' answers, not the TLS handshake or byte-level transcript equality.",
             ref="DESIGN.md section 2, C02", tech="static analysis: edge-dominance over go/cfg fact graphs, captured-variable write detection, constant folding, who-may-call tables",
             note="Trusted: crypto/tls, go/types, go/cfg; not decided: TLS handshake, peer behaviour after <proceed/>, transcript equality with/without the tee."),
 "C03": dict(text="Structural necessary conditions decided on every path of sasl.go: closed list of producers of the Authn bit, server success dominated by a nil-error Step of a negotiator built by sasl.NewServer with the permission callback passed through unchanged and by the mechanism's !more, mechanism selection only among names offered by both sides, the client's success dominated on every path by success evidence from the receiver (decodeSASLChallenge's contract checked separately), no dropped error in the SASL functions (pending-error dataflow). Level 'other': decides that no control-flow path yields Authn without these events, for every peer message sequence; mechanisms' own state machines are trusted.",
             ref="DESIGN.md section 2, C03", tech="static analysis: edge-dominance (incl. disjunctive), restricted reaching definitions, parameter pass-through, pending-error dataflow",
             note="Trusted: mellium.im/sasl mechanisms and Negotiator.Step contract (more/err), encoding/xml decoding."),
 "C04": dict(text="Error discipline decided exactly, cancellation structurally: a pending-error may-dataflow over every repository function reachable (VTA) from negotiateSession (plus all feature closures) proves that no path overwrites or drops a non-nil error assigned from a call; every unassigned error result is in a reasoned accept table and success returns after writes are preceded by an explicit Flush; state bits are applied only after a nil error; the deadline watcher is started unconditionally for net.Conn transports and Expect polls ctx before each read; no bare assertion / explicit panic in the negotiation functions. Holds for every fault index because it is a fact about all paths. Level 'other': does not decide timing of cancellation against blocking I/O.",
             ref="DESIGN.md section 2, C04", tech="static analysis: pending-error (may) dataflow over go/cfg, VTA call-graph reachability, must-pass-through, accept tables",
             note="Trusted: VTA call graph soundness for the negotiation entry set, net.Conn deadline semantics; not decided: timing, goroutine liveness, transports without deadlines."),
 "C05": dict(text="Structural necessary conditions decided on every path: must-lockset dataflow shows every use of the session encoder happens under the output lock (with acquire-wrapper summaries for TokenWriter and the typestate of the closer types), lock pairing, start < payload < end < flush order on every success path of send, flush on every success path of the marshal helpers, no dropped parameter in the transmit API, the attribute-completion guards of the stanza encoder with exact guard sets and name tables, kind test and id completion before any transmit, closed list of raw-connection writers. Level 'other': decides non-interleaving and completeness of the write sequence by code shape for every number of goroutines; does not decide that the bytes denote the arguments.",
             ref="DESIGN.md section 3, C05", tech="static analysis: must-lockset dataflow with wrapper summaries, typestate of closer types, must-pass-through ordering, exact-guard-set dominance, boolean table extraction",
             note="Trusted: sync.Mutex semantics, xml.Encoder/xmlstream.Copy contracts; locks identified by field class. Known findings F6/F7 (open) listed in known_findings.json."),
 "C10": dict(text="Structural necessary conditions decided on every path: closeSession writes the closing tag only behind the closed-bit test, after setting the bit, with both locks held at every call site and nowhere else; every function that writes through the session encoder passes the closed-bit test under stateMutex with ErrOutputStreamClosed on the other edge; reads are guarded by the input-closed bit; Serve's deferred shutdown, io.EOF mapping and sendError ordering/locking; lock discipline for Session.state and the close-deadline context; typestate of the lock-owning closers (Close unlocks once). Level 'other': the lock/guard shape that idempotent, final closing needs in every interleaving; timing (deadline expiry) is not decided.",
             ref="DESIGN.md section 3, C10", tech="static analysis: edge-dominance, must-lockset dataflow, requires-lock call-site summaries, typestate, must-pass-through",
             note="Trusted: sync primitives, net.Conn deadlines. Known finding F32 (open): stream error not flushed before the closing tag."),
 "C07": dict(text="Structural necessary conditions decided on every path: the session's default reply is dominated by (IQ) and (get or set) and (no reply detected) and the handler's nil-error edge, is the only write of handleInputStream, and carries the request's id, type error and parsed sender; the reply detector sets its flag only under all five conjuncts, keeps a symmetric depth count, forwards every token, and Encode/EncodeElement route through it; the handler gets the detector; the multiplexer fallback answers only get/set with swapped addresses. Level 'other': 'exactly once, never both, never for replies' follows from these guards for every input element; what user handlers write is not decided.",
             ref="DESIGN.md section 3, C07", tech="static analysis: edge-dominance with branch facts, exact guard sets, literal/constant checks, parameter flow",
             note="Trusted: xmlstream.Copy, stanza.IQ.Wrap token order, getIDTyp's local-name matching (documented)."),
 "C08": dict(text="Structural necessary conditions decided on every path: the handler's reader is InnerElement over the stream-level filter over the locked reader; after the handler every non-error path discards the rest of the element and returns the discard's error; the filter has arms for all six token kinds and errors for PI/comment/directive/non-whitespace top-level text/foreign stream-namespace elements, returns received stream errors as errors, maps the closing tag to io.EOF, counts depth symmetrically; whitespace is ignored; the 'from' normalisation blanks only the compared attribute under its three conditions; the input lock is released on every exit. Level 'other': token-boundary behaviour of xmlstream.InnerElement/encoding/xml is trusted.",
             ref="DESIGN.md section 3, C08", tech="static analysis: parameter provenance in normal form, type-switch exhaustiveness, edge-dominance, must-pass-through, pending-error dataflow",
             note="Trusted: mellium.im/xmlstream.InnerElement/Inner/Copy, encoding/xml tokenisation."),
 "C06": dict(text="Protocol lints only (structural preconditions of the schedule-quantified property): registration before send and deferred removal under the mutex in sendResp; lock discipline of all waiter tables by must-lockset dataflow; the hand-off select guarded by the table hit, the stanza-name test and the reply types, with an escape arm, followed by an unconditional wait for the caller's Close; every channel operation reachable from the serve loop or a handler has an escape arm or is provably non-blocking; per channel class, send and close share a lock and non-blocking notifies have a buffered channel; blocking helpers select on ctx.Done() and return ctx.Err(); the MUC join hand-off's escape channel is tied to a deferred cancel. Level 'other': exactly-once delivery under all interleavings is NOT decided; what is decided is the lock/guard/escape shape that it needs, for every schedule because it is a property of the code.",
             ref="DESIGN.md section 3, C06", tech="static analysis: must-lockset dataflow, channel-class analysis (send/close/capacity) over the type-checked AST, edge-dominance, must-pass-through, VTA reachability for the handler scope",
             note="Trusted: Go channel/select semantics, VTA call graph. 7 open known findings (history/ibb blocking sends, ibb readReady/Listener races, lost wake-up) with reproductions under /verif/findings."),
 "C09": dict(text="No-panic / no-wedge rules over every repository function reachable (VTA) from the serve loop, handlers, Unmarshal* methods and reply-parsing request helpers (about 290 functions): no bare type assertion, no explicit panic or Must* on non-constant input, Index* sentinels never reach a slice bound, constant slice indices and subtractive make sizes have a dominating length fact, the nil contract of Iter.Current is honoured at every call site, responses are closed at most once, plus the channel rules shared with C06. Level 'other': each rule instance is a necessary condition that holds for every byte sequence a peer can send; panics inside encoding/xml and computed-index bounds beyond the three index rules are not decided.",
             ref="DESIGN.md section 3, C09", tech="static analysis: VTA call-graph reachability, AST/type rules (assertions, panics, Must*), dominance-based index/sentinel/nil-contract rules, channel-class analysis",
             note="Trusted: VTA soundness for the entry set, encoding/xml and xmlstream not panicking. Open known findings shared with C06 (channel rules)."),
 "C12": dict(text="Structural necessary conditions decided on every path: taint rule for the stream header (every non-constant string is escaped, typed harmless, or constant/RandomID at all call sites; content namespace constant before every Send); Expect's single success return dominated by the framing name test, nil FromStartElement error, version 1.0, supported namespace and stream id; an arm per header attribute in FromStartElement; restart address checks against snapshots taken before the header is read; bind request/response literals, guard/use agreement of the bind payload, UpdateAddr only for our id and a result, bound address from the callback or a per-request random resource. Level 'other': a peer's parser recovering the same values (round trip) is not decided.",
             ref="DESIGN.md section 2, C12", tech="static analysis: taint (source/sanitiser/sink with call-site provenance), edge-dominance incl. role-restricted and from-point dominance, must-pass-through ordering, literal checks",
             note="Trusted: xml.EscapeText escapes attribute-unsafe characters; jid.JID.String is the canonical form."),
 "C14": dict(text="Complete for lookup order: the tables are Go maps keyed by the full pattern, so specificity = order of the looked-up keys. An abstract evaluator executes IQHandler/MessageHandler/PresenceHandler/Handler symbolically over payload name (S,L) and type T (straight-line code, return-on-hit ifs and unrolled literal loops; anything else is undecided = failed) and requires the key sequence exact -> local only -> namespace only -> type wildcard in the function's own table with its own kind constant, then the documented fallback; plus router argument flow, replay-buffer shape (offset zero, buffer kept, copies only), empty-stanza arm, registration guards and who-may-write for the tables. Level 'other' (static): holds for every pattern set and every element because no registration or input is sampled.",
             ref="DESIGN.md section 4, C14", tech="static analysis: purpose-built abstract interpreter recording map-lookup keys (E-sym), edge-dominance, who-may-write, literal checks",
             note="Trusted: Go map semantics, xmlstream.Iter; how much of the replay a handler reads is not decided."),
}

def main():
    props = [json.loads(l) for l in open('/verif/properties.jsonl')]
    base = json.load(open('/root/.vp/BASELINE.json'))
    try:
        reg = subprocess.run(['/verif/bin/xmppcheck', '-list'], capture_output=True, text=True).stdout.split()
    except Exception:
        reg = []
    na_reasons = json.load(open('/verif/tools/not_applicable.json'))
    checks, na = [], []
    for p in props:
        pid = p['id']
        if pid in CLAIMS and pid in reg:
            c = CLAIMS[pid]
            checks.append({
                "property_id": pid,
                "quick_cmd": "/verif/bin/xmppcheck -property %s -tier quick" % pid,
                "thorough_cmd": "/verif/bin/xmppcheck -property %s -tier thorough" % pid,
                "evidence_file": "/verif/evidence/%s.json" % pid,
                "replay_cmd_template": "cat {path}",
                "engine": "xmppcheck",
                "level_claimed": {"category": "other", "text": c['text'], "design_ref": c['ref']},
                "level_note": c['note'],
                "technique": c['tech'],
            })
        else:
            na.append({"property_id": pid, "reason": na_reasons.get(pid, "check under construction (static analysis framework being built; see DESIGN.md)")})
    m = {
        "version": 1,
        "setup_cmd": "cd /verif/checker && env -u GOWORK GOFLAGS=-mod=mod GOPROXY=off GOSUMDB=off GOTOOLCHAIN=local go build -o /verif/bin/xmppcheck .",
        "hooks": {"guard": "verif", "enable": "(none: static analysis needs no instrumentation; no source commits under the guard)", "baseline_off_cmd": base['cmd'], "source_commits": [], "add_only": True},
        "engines": [{"name": "xmppcheck", "path": "/verif/checker", "serves_properties": [c['property_id'] for c in checks], "kind_free_text": "repository-specific static analyser (go/packages + go/cfg fact graphs + go/ssa VTA call graph), one obligation table per property"}],
        "checks": checks,
        "not_applicable": na,
        "notes": "Technique family: static analysis only. Every check re-loads /repo's current working tree; evidence lists the obligations decided. Known genuine defects: /verif/known_findings.json.",
    }
    json.dump(m, open('/verif/MANIFEST.json', 'w'), indent=1)
    print("checks:", [c['property_id'] for c in checks], "n/a:", len(na))

main()
