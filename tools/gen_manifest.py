#!/usr/bin/env python3
"""Regenerates /verif/MANIFEST.json from the table below and the list of
properties registered in the checker binary (xmppcheck -list)."""
import json, subprocess, sys

CLAIMS = {
 "C01": dict(text="Structural necessary conditions of the property decided on every path: 14 rule groups (C01.1-C01.14) over negotiateFeatures / readStreamFeatures / writeStreamFeatures / negotiateSession / the negotiator closure show by edge-dominance with branch facts that Negotiate is called only behind the advertised / not-yet-negotiated / negotiable guards (receiver) or for cache entries passing the same tests (initiator), voluntary features are taken first, the negotiated set is recorded before the loop continues, state bits are only OR-ed in and only after a nil error, Ready is produced only under its three licences, advertisement uses exactly the prerequisite masks, and a restart clears per-stream state and sends/expects a fresh header. This is a for-all-paths fact (every advertisement order, map order, feature set), which no finite set of transcripts gives; it is 'other' because it decides the code shape that implies the behaviour, not the behaviour on executed transcripts.",
             ref="DESIGN.md section 2, C01", tech="static analysis: go/cfg edge-dominance with branch facts, restricted reaching definitions, who-may-write, constant folding",
             note="Trusted: go/types, go/cfg, the obligation tables; not decided: third-party features' own masks and Negotiate bodies, run-time satisfiability of jointly dominating facts."),
}

def main():
    props = [json.loads(l) for l in open('/verif/properties.jsonl')]
    base = json.load(open('/root/.vp/BASELINE.json'))
    try:
        reg = subprocess.run(['/verif/bin/xmppcheck', '-list'], capture_output=True, text=True).stdout.split()
    except Exception:
        reg = []
    na_reasons = json.load(open('/verif/tools/not_applicable.json'))
    checks, na = [], []
    for p in props:
        pid = p['id']
        if pid in CLAIMS and pid in reg:
            c = CLAIMS[pid]
            checks.append({
                "property_id": pid,
                "quick_cmd": "/verif/bin/xmppcheck -property %s -tier quick" % pid,
                "thorough_cmd": "/verif/bin/xmppcheck -property %s -tier thorough" % pid,
                "evidence_file": "/verif/evidence/%s.json" % pid,
                "replay_cmd_template": "cat {path}",
                "engine": "xmppcheck",
                "level_claimed": {"category": "other", "text": c['text'], "design_ref": c['ref']},
                "level_note": c['note'],
                "technique": c['tech'],
            })
        else:
            na.append({"property_id": pid, "reason": na_reasons.get(pid, "check under construction (static analysis framework being built; see DESIGN.md)")})
    m = {
        "version": 1,
        "setup_cmd": "cd /verif/checker && env -u GOWORK GOFLAGS=-mod=mod GOPROXY=off GOSUMDB=off GOTOOLCHAIN=local go build -o /verif/bin/xmppcheck .",
        "hooks": {"guard": "verif", "enable": "(none: static analysis needs no instrumentation; no source commits under the guard)", "baseline_off_cmd": base['cmd'], "source_commits": [], "add_only": True},
        "engines": [{"name": "xmppcheck", "path": "/verif/checker", "serves_properties": [c['property_id'] for c in checks], "kind_free_text": "repository-specific static analyser (go/packages + go/cfg fact graphs + go/ssa VTA call graph), one obligation table per property"}],
        "checks": checks,
        "not_applicable": na,
        "notes": "Technique family: static analysis only. Every check re-loads /repo's current working tree; evidence lists the obligations decided. Known genuine defects: /verif/known_findings.json.",
    }
    json.dump(m, open('/verif/MANIFEST.json', 'w'), indent=1)
    print("checks:", [c['property_id'] for c in checks], "n/a:", len(na))

main()
