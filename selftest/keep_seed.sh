#!/bin/bash
# usage: keep_seed.sh <src-dir> <seed-id>   — confirm (scratch copy: build, existing suite, demo both ways),
# then run the property check against /repo itself with the patch applied (git apply / git checkout -- .),
# and store everything as /verif/seeded/<seed-id>/.
set -u
SRC=$(realpath $1); ID=$2; DST=/verif/seeded/$ID
export GOFLAGS=-mod=mod GOPROXY=off GOSUMDB=off GOTOOLCHAIN=local; unset GOWORK
PROP=$(python3 -c "import json;print(json.load(open('$SRC/meta.json'))['property'])")
if [ "${CONFIRMED:-0}" != 1 ]; then   # keep_round2.sh has done the confirmation already (in parallel)
OUT=$(SUITE=1 /verif/selftest/try_seed.sh $SRC 2>&1); echo "$OUT" | cut -c1-200
echo "$OUT" | grep -A1 "demo on unpatched" | grep -q "exit=0" || { echo "REJECT: demo does not pass on the unpatched tree"; exit 1; }
echo "$OUT" | grep -A1 "demo on patched" | grep -q "exit=[1-9]" || { echo "REJECT: demo does not fail on the patched tree"; exit 1; }
echo "$OUT" | grep -A1 "existing suite" | grep -q "exit=0" || { echo "REJECT: existing suite fails with the patch"; exit 1; }
fi
# the formal run: against /repo itself
git -C /repo diff --quiet || { echo "/repo not clean"; exit 2; }
git -C /repo apply $SRC/patch.diff || (cd /repo && patch -p1 -s --no-backup-if-mismatch < $SRC/patch.diff) || { echo "apply failed"; git -C /repo checkout -- .; exit 2; }
mkdir -p /tmp/keepseed.$$ ; cp /verif/known_findings.json /tmp/keepseed.$$/
RES=$(${XMPPCHECK:-/verif/bin/xmppcheck} -property $PROP -verif /tmp/keepseed.$$ 2>&1); RC=$?
git -C /repo checkout -- .
rm -rf /tmp/keepseed.$$
CAUGHT=$(echo "$RES" | grep "^  FAIL" | sed 's/^  FAIL [^ ]* \([^ ]*\).*/\1/' | cut -d'|' -f1 | sort -u | tr '\n' ' ')
echo "check exit=$RC rules: $CAUGHT"
mkdir -p $DST; cp $SRC/patch.diff $DST/patch.diff
[ -f $SRC/patch.orig.diff ] && cp $SRC/patch.orig.diff $DST/patch.orig.diff
[ -f $SRC/demo_test.go ] && cp $SRC/demo_test.go $DST/demo_test.go.txt
python3 - "$SRC/meta.json" "$DST/meta.json" "$RC" "$CAUGHT" <<'PY'
import json,sys
m=json.load(open(sys.argv[1]))
m['confirmed']={'by':'selftest/keep_seed.sh','ran':['go build ./... (patched scratch copy)','go test -vet=off -count=1 ./... (patched, without the demo): pass','demo on unpatched tree: pass','demo on patched tree: FAIL','git -C /repo apply patch.diff; ${XMPPCHECK:-/verif/bin/xmppcheck} -property %s; git -C /repo checkout -- .'%m['property']],
  'check_exit':int(sys.argv[3]),'caught_by_rules':sys.argv[4].split(),'detected':int(sys.argv[3])!=0,'baseline':'/repo HEAD at the time of confirmation (includes the fix: commits)'}
m['demo_file']='demo_test.go.txt (rename to zz_seed_demo_test.go in demo_dir)'
json.dump(m,open(sys.argv[2],'w'),indent=1)
PY
echo "kept $DST"
