#!/usr/bin/env python3
"""Development-time validation of the checker (DESIGN.md 1.7): apply one
mutant at a time to a scratch copy of /repo (outside /repo and /verif), require
that it still compiles, run the property check against the copy and require a
VIOLATION (mutants) or silence (benign edits).  Not a registered command.

usage: run_mutants.py [-k substring] [--tests] [file.json ...]
"""
import json, os, shutil, subprocess, sys, tempfile, glob

ENV = dict(os.environ, GOFLAGS="-mod=mod", GOPROXY="off", GOSUMDB="off", GOTOOLCHAIN="local")
ENV.pop("GOWORK", None)
HERE = os.path.dirname(os.path.abspath(__file__))

def run(m, with_tests):
    tmp = tempfile.mkdtemp(prefix="xmppmut-")
    try:
        repo = os.path.join(tmp, "repo")
        shutil.copytree("/repo", repo, ignore=shutil.ignore_patterns(".git"))
        ver = os.path.join(tmp, "verif")
        os.makedirs(ver)
        if os.path.exists("/verif/known_findings.json"):
            shutil.copy("/verif/known_findings.json", ver)
        for e in m["edits"]:
            p = os.path.join(repo, e["file"])
            s = open(p).read()
            if s.count(e["old"]) != e.get("count", 1):
                return "BROKEN-MUTANT", "pattern occurs %d times in %s" % (s.count(e["old"]), e["file"])
            s = s.replace(e["old"], e["new"])
            open(p, "w").write(s)
        b = subprocess.run(["go", "build", "./..."], cwd=repo, env=ENV, capture_output=True, text=True)
        if b.returncode != 0:
            return "NO-COMPILE", b.stderr[-400:]
        tests = ""
        if with_tests:
            pk = m.get("test_pkg", "./...")
            t = subprocess.run(["go", "test", "-vet=off", "-count=1", pk], cwd=repo, env=ENV, capture_output=True, text=True)
            tests = " tests=" + ("pass" if t.returncode == 0 else "FAIL")
        c = subprocess.run(["/verif/bin/xmppcheck", "-property", m["property"], "-repo", repo, "-verif", ver],
                           capture_output=True, text=True, env=ENV)
        fired = c.returncode != 0 and "VIOLATION property=" + m["property"] in c.stdout
        fails = [l.strip() for l in c.stdout.splitlines() if l.strip().startswith("FAIL")]
        want = m.get("expect", "violation")
        if want == "violation":
            if not fired:
                return "MISSED" + tests, c.stdout[-300:]
            rule = m.get("rule")
            if rule and not any(rule in f for f in fails):
                return "WRONG-RULE" + tests, "; ".join(fails)[:600]
            return "caught" + tests, "; ".join(f.split(" ")[2] if len(f.split(" ")) > 2 else f for f in fails)[:300]
        else:
            if fired or c.returncode != 0:
                return "FALSE-ALARM" + tests, "; ".join(fails)[:600] + c.stderr[-200:]
            return "silent" + tests, ""
    finally:
        shutil.rmtree(tmp, ignore_errors=True)

def main():
    args = sys.argv[1:]
    key = None
    with_tests = False
    files = []
    while args:
        a = args.pop(0)
        if a == "-k":
            key = args.pop(0)
        elif a == "--tests":
            with_tests = True
        else:
            files.append(a)
    if not files:
        files = sorted(glob.glob(os.path.join(HERE, "mutants", "*.json")))
    bad = 0
    for f in files:
        for m in json.load(open(f)):
            if key and key not in m["id"]:
                continue
            st, info = run(m, with_tests)
            ok = st.startswith("caught") or st.startswith("silent")
            if not ok:
                bad += 1
            print("%-14s %-40s %s" % (st, m["id"], info if not ok or "-v" in sys.argv else info[:120]))
            sys.stdout.flush()
    sys.exit(1 if bad else 0)

main()
