#!/bin/bash
# usage: robust.sh [mode...]   (default: all modes)
# For every transformation mode of selftest/renamer: export HEAD of /repo to a
# scratch copy, transform it, check that it still builds, and run all 20 checks
# against it. Each check must give the same verdict as on /repo (no violation).
set -u
export GOFLAGS=-mod=mod GOPROXY=off GOSUMDB=off GOTOOLCHAIN=local; unset GOWORK
MODES=${*:-rename flip switch unswitch hoist fold incdec condvar elseadd elsestrip nop swap retvar argvar emptystr demorgan rangeidx}
( cd /verif/selftest/renamer && go build -o /tmp/renamer.bin . ) || exit 2
rc=0
for m in $MODES; do
  T=$(mktemp -d /tmp/robust.XXXXXX)
  mkdir -p $T/repo $T/verif; git -C /repo archive HEAD | tar -x -C $T/repo; cp /verif/known_findings.json $T/verif/
  /tmp/renamer.bin $T/repo $m > $T/renamer.log 2>&1 || { echo "$m: renamer failed"; tail -3 $T/renamer.log; rc=1; }
  ( cd $T/repo && go build ./... ) || { echo "$m: transformed copy does not build"; rc=1; }
  bad=""
  for p in $(seq -w 1 20); do
    ( /verif/bin/xmppcheck -property C$p -tier quick -repo $T/repo -verif $T/verif > $T/C$p.out 2>&1; echo $? > $T/C$p.rc ) &
    [ $((10#$p % 5)) -eq 0 ] && wait
  done; wait
  for p in $(seq -w 1 20); do
    if [ "$(cat $T/C$p.rc)" != 0 ]; then bad="$bad C$p"; grep "FAIL" $T/C$p.out | cut -c1-300 | head -5; fi
  done
  echo "$m: $(tail -1 $T/renamer.log | cut -c1-100) -- failing:${bad:- none}"
  [ -n "$bad" ] && rc=1
  rm -rf $T
done
rm -f /tmp/renamer.bin
exit $rc
