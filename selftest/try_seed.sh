#!/bin/bash
# usage: try_seed.sh <seed-dir> [property]   (seed-dir has patch.diff, demo_test.go|demo/, meta.json)
# Applies the seeded change to a scratch copy of /repo's working tree, checks that it
# builds, that the demonstration fails with it and passes without it, and runs the
# property check against the patched copy.
set -u
export GOFLAGS=-mod=mod GOPROXY=off GOSUMDB=off GOTOOLCHAIN=local; unset GOWORK
D=$(realpath "$1"); PROP=${2:-$(python3 -c "import json;print(json.load(open('$D/meta.json'))['property'])")}
T=$(mktemp -d /tmp/seedtry.XXXXXX); trap 'rm -rf $T' EXIT
rsync -a --exclude .git /repo/ $T/repo/; mkdir -p $T/verif; cp /verif/known_findings.json $T/verif/ 2>/dev/null
DEMODIR=$(python3 -c "import json;print(json.load(open('$D/meta.json')).get('demo_dir','.') or '.')")
RUN=$(python3 -c "import json;print(json.load(open('$D/meta.json')).get('demo_run',''))")
cd $T/repo
if [ -f $D/demo_test.go ]; then cp $D/demo_test.go $DEMODIR/zz_seed_demo_test.go; fi
[ -z "$RUN" ] && RUN="go test -vet=off -count=1 ./$DEMODIR"
echo "== demo on unpatched tree: $RUN"
( cd $T/repo; [[ "$RUN" == *" ./"* || "$RUN" == *" ."* ]] || cd $DEMODIR; timeout 300 bash -c "$RUN" > $T/base.log 2>&1 ); B=$?
echo "   exit=$B"; [ $B -ne 0 ] && tail -5 $T/base.log
if ! git apply --check $D/patch.diff 2>/dev/null && ! patch -p1 --dry-run < $D/patch.diff >/dev/null 2>&1; then echo "PATCH-DOES-NOT-APPLY"; patch -p1 --dry-run < $D/patch.diff | tail -5; exit 3; fi
patch -p1 -s --no-backup-if-mismatch < $D/patch.diff || exit 3
go build ./... || { echo NO-COMPILE; exit 4; }
echo "== demo on patched tree"
( cd $T/repo; [[ "$RUN" == *" ./"* || "$RUN" == *" ."* ]] || cd $DEMODIR; timeout 300 bash -c "$RUN" > $T/mut.log 2>&1 ); M=$?
echo "   exit=$M"; [ $M -eq 0 ] && echo "   (demo did not fail!)"
rm -f $DEMODIR/zz_seed_demo_test.go
if [ "${SUITE:-0}" = 1 ]; then
  echo "== existing suite on patched tree"
  # TestResponseToTimedOutIQ of the root package is a known flake (it hangs
  # now and then on the unmodified tree): short timeout, one retry
  ( timeout 900 go test -vet=off -count=1 -timeout 60s ./... || timeout 900 go test -vet=off -count=1 -timeout 60s ./... ) > $T/suite.log 2>&1; S=$?
  echo "   exit=$S"; [ $S -ne 0 ] && grep -v "^ok\|no test files" $T/suite.log | tail -5
fi
echo "== check $PROP on patched tree"
${XMPPCHECK:-/verif/bin/xmppcheck} -property $PROP -repo $T/repo -verif $T/verif | cut -c1-400 | tail -8
