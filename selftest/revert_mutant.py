#!/usr/bin/env python3
"""Builds a stored variant that re-introduces a repaired defect: the reverse of
one fix: commit of /repo restricted to one file.
usage: revert_mutant.py <sha> <file> <id> <property> <rule>  -> prints JSON"""
import subprocess, sys, json
sha, path, mid, prop, rule = sys.argv[1:6]
diff = subprocess.run(['git', '-C', '/repo', 'show', '-U4', '--format=', sha, '--', path], capture_output=True, text=True).stdout
edits, old, new, inh = [], [], [], False
def flush():
    global old, new
    if old != new and (old or new):
        edits.append({"file": path, "old": ''.join(new), "new": ''.join(old)})
    old, new = [], []
for line in diff.split('\n'):
    if line.startswith('@@'):
        flush(); inh = True; continue
    if not inh or line.startswith('\\'):
        continue
    if line.startswith('diff ') or line.startswith('index ') or line.startswith('--- ') or line.startswith('+++ '):
        continue
    if line.startswith('+'):
        new.append(line[1:] + '\n')
    elif line.startswith('-'):
        old.append(line[1:] + '\n')
    elif line.startswith(' ') or line == '':
        t = line[1:] + '\n' if line else '\n'
        old.append(t); new.append(t)
flush()
# drop the artificial trailing newline of the last hunk
for e in edits:
    if e['old'].endswith('\n\n') and e['new'].endswith('\n\n'):
        e['old'] = e['old'][:-1]; e['new'] = e['new'][:-1]
print(json.dumps({"id": mid, "property": prop, "rule": rule, "edits": edits, "note": "reverse of /repo commit " + sha}))
