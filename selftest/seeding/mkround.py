#!/usr/bin/env python3
"""usage: mkround.py <round-dir e.g. /tmp/seed8> ["extra hint text"]
Creates one detached git worktree of /repo per property under <round-dir>/Cxx
and a prompt file <round-dir>/Cxx.prompt.txt from PROMPT.tmpl, the property
text (Cxx.prop.txt) and the summaries of all kept seeds of that property (so
that the new changes use different mechanisms). A seeding agent is then started
per property with: "Your complete task instructions are in the file
<round-dir>/Cxx.prompt.txt - read that file first and follow it exactly. Work
only inside <round-dir>/Cxx. Do not read anything under /verif or /repo. Never
use git stash." Outputs land in <round-dir>/Cxx/_out/{1,2,baseline}; process
them with selftest/try_seed.sh, keep with selftest/keep_seed.sh, then remove
the worktrees (git -C /repo worktree remove --force)."""
import json, os, glob, subprocess, sys
rd = sys.argv[1].rstrip('/')
hint = sys.argv[2] if len(sys.argv) > 2 else ''
here = os.path.dirname(os.path.abspath(__file__))
tmpl = open(here + '/PROMPT.tmpl').read()
prev = {}
for d in sorted(glob.glob('/verif/seeded/*')):
    m = json.load(open(d + '/meta.json'))
    prev.setdefault(m['property'], []).append(m['summary'])
os.makedirs(rd, exist_ok=True)
for i in range(1, 21):
    pid = 'C%02d' % i
    wt = rd + '/' + pid
    subprocess.run(['git', '-C', '/repo', 'worktree', 'add', '--detach', '-q', wt, 'HEAD'], check=True)
    prop = open(here + '/%s.prop.txt' % pid).read()
    t = tmpl.replace('__WT__', wt).replace('__ID__', pid).replace('__PROP__', prop)
    t = t.replace('/tmp/seed than your own', rd + ' than your own')
    t = t.replace('`git stash`/revert the library change', '`git diff > _p.diff; git checkout -- .` (NEVER use `git stash`: it is shared between worktrees) to revert the library change')
    extra = '\n\nNOTE: earlier rounds already produced the following changes for this property; yours must use DIFFERENT mechanisms (different functions / clauses / kinds of mistake) from these, and preferably touch source files or functions that none of them touched. ' + hint + '\n' + ''.join(' - ' + s[:150] + '\n' for s in prev.get(pid, []))
    extra += '\nRun the existing suite with `go test -vet=off -count=1 -timeout 120s ./...`; the test TestResponseToTimedOutIQ in the root package is known to hang occasionally on the unmodified code: if it times out, run the suite again, but a change that makes it hang most of the time does NOT pass the suite.\n'
    extra += '\nADDITIONALLY: if, while reading, you find that the UNMODIFIED library already violates the property for some input, schedule or fault (a genuine bug in the original code), do not use it as one of your changes; instead write it up in %s/%s/_out/baseline/ as finding.md (what fails, for which input) plus a Go test file that FAILS on the unmodified code, and mention it in your reply. Only report bugs you have demonstrated with a failing test.\n' % (rd, pid)
    t = t.replace('Finally restore the worktree', extra.strip('\n') + '\n\nFinally restore the worktree')
    open('%s/%s.prompt.txt' % (rd, pid), 'w').write(t)
print('prompts written to', rd)
