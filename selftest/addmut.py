import json,subprocess,sys
items=[l.split() for l in open('/tmp/muts.txt') if l.strip()]
for kind,*a in items:
    if kind=='revert':
        sha,path,mid,prop,rule=a
        r=subprocess.run(['python3','/verif/selftest/revert_mutant.py',sha,path,mid,prop,rule],capture_output=True,text=True)
    else:
        sid,rule=a
        r=subprocess.run(['python3','/verif/selftest/seed_mutant.py',sid,rule],capture_output=True,text=True)
        mid=sid
    if r.returncode!=0 or not r.stdout.strip():
        print('SKIP',mid,r.stderr.strip()[:150]); continue
    m=json.loads(r.stdout)
    fn='/verif/selftest/mutants/%s.json'%m['property'].lower()
    d=json.load(open(fn))
    d=[x for x in d if x['id']!=m['id']]
    d.append(m)
    json.dump(d,open(fn,'w'),indent=1)
    print('added',m['id'],m['property'],m['rule'])
