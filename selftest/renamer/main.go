// Command renamer writes a behaviour-preserving variant of a Go module: every
// local variable, parameter and named result of every function gets a new
// name (suffix "Zz"). Used to test that no rule of the checker depends on the
// spelling of a local (development-time tool, not a registered command).
//
// usage: renamer <module dir>   (rewrites the files in place: run on a scratch copy)
package main

import (
	"bytes"
	"fmt"
	"go/ast"
	"go/format"
	"go/parser"
	"go/printer"
	"go/token"
	"go/types"
	"os"
	"strings"

	"golang.org/x/tools/go/packages"
)

// flip rewrites `if c { A } else { B }` into `if !(c) { B } else { A }` and
// swaps the operands of == and != (behaviour-preserving; operands here have no
// side effects that depend on order of evaluation in this code base's guards).
func flip(file *ast.File) int {
	n := 0
	ast.Inspect(file, func(x ast.Node) bool {
		switch v := x.(type) {
		case *ast.IfStmt:
			if eb, ok := v.Else.(*ast.BlockStmt); ok && v.Init == nil {
				v.Cond = &ast.UnaryExpr{Op: token.NOT, X: &ast.ParenExpr{X: v.Cond}}
				v.Body, v.Else = eb, v.Body
				n++
			}
		case *ast.BinaryExpr:
			if v.Op == token.EQL || v.Op == token.NEQ {
				_, xc := v.X.(*ast.CallExpr)
				_, yc := v.Y.(*ast.CallExpr)
				if !xc && !yc {
					v.X, v.Y = v.Y, v.X
					n++
				}
			}
		}
		return true
	})
	return n
}

// hasBreak reports an unlabeled break that would bind to a switch wrapped
// around n (i.e. not nested in an inner for/switch/select).
func hasBreak(n ast.Node) bool {
	found := false
	var walk func(n ast.Node)
	walk = func(n ast.Node) {
		ast.Inspect(n, func(x ast.Node) bool {
			if x == nil || found {
				return false
			}
			switch v := x.(type) {
			case *ast.BranchStmt:
				if v.Tok == token.BREAK && v.Label == nil {
					found = true
				}
			case *ast.ForStmt, *ast.RangeStmt, *ast.SwitchStmt, *ast.TypeSwitchStmt, *ast.SelectStmt, *ast.FuncLit:
				if x != n {
					return false
				}
			}
			return true
		})
	}
	walk(n)
	return found
}

// toSwitch rewrites if statements without an init clause whose bodies contain
// no unlabeled break into tagless switch statements (in statement lists only).
func toSwitch(file *ast.File, info *types.Info) int {
	n := 0
	// a case expression of a tagless switch is compared with the untyped
	// constant true converted to bool: a condition of a named boolean type
	// does not compile there
	plain := func(is *ast.IfStmt) bool {
		for cur := is; cur != nil; {
			if t := info.TypeOf(cur.Cond); t == nil || !(types.Identical(t, types.Typ[types.Bool]) || types.Identical(t, types.Typ[types.UntypedBool])) {
				return false
			}
			next, _ := cur.Else.(*ast.IfStmt)
			if next == nil || next.Init != nil {
				break
			}
			cur = next
		}
		return true
	}
	conv := func(list []ast.Stmt) {
		for i, st := range list {
			is, ok := st.(*ast.IfStmt)
			if !ok || is.Init != nil || hasBreak(is) || !plain(is) {
				continue
			}
			sw := &ast.SwitchStmt{Body: &ast.BlockStmt{}}
			cur := is
			for {
				sw.Body.List = append(sw.Body.List, &ast.CaseClause{List: []ast.Expr{cur.Cond}, Body: cur.Body.List})
				if cur.Else == nil {
					break
				}
				if eb, ok := cur.Else.(*ast.BlockStmt); ok {
					sw.Body.List = append(sw.Body.List, &ast.CaseClause{Body: eb.List})
					break
				}
				next := cur.Else.(*ast.IfStmt)
				if next.Init != nil {
					// keep the rest as an if inside a default clause
					sw.Body.List = append(sw.Body.List, &ast.CaseClause{Body: []ast.Stmt{next}})
					break
				}
				cur = next
			}
			list[i] = sw
			n++
		}
	}
	ast.Inspect(file, func(x ast.Node) bool {
		switch v := x.(type) {
		case *ast.BlockStmt:
			conv(v.List)
		case *ast.CaseClause:
			conv(v.Body)
		case *ast.CommClause:
			conv(v.Body)
		}
		return true
	})
	return n
}

// unswitch rewrites expression switches `switch tag { case a, b: … default: … }`
// (no init clause, no fallthrough, no unlabeled break inside, a tag without
// calls so that it may be evaluated several times) into if / else-if chains
// `if tag == a || tag == b {…} else {…}`. The reverse of toSwitch for tagged
// switches.
func unswitch(file *ast.File, info *types.Info) int {
	n := 0
	hasCall := func(e ast.Expr) bool {
		found := false
		ast.Inspect(e, func(x ast.Node) bool {
			if _, ok := x.(*ast.CallExpr); ok {
				found = true
			}
			return !found
		})
		return found
	}
	conv := func(list []ast.Stmt) {
		for i, st := range list {
			sw, ok := st.(*ast.SwitchStmt)
			if !ok || sw.Init != nil || sw.Tag == nil || hasCall(sw.Tag) || hasBreak(sw) {
				continue
			}
			// comparable with == : basic, named basic, pointer, interface with constants
			if t := info.TypeOf(sw.Tag); t == nil {
				continue
			} else if _, isIface := t.Underlying().(*types.Interface); isIface {
				continue // case values of other dynamic types: keep
			}
			okAll := true
			var def *ast.CaseClause
			var clauses []*ast.CaseClause
			for _, c := range sw.Body.List {
				cc := c.(*ast.CaseClause)
				for _, b := range cc.Body {
					if br, ok := b.(*ast.BranchStmt); ok && br.Tok == token.FALLTHROUGH {
						okAll = false
					}
				}
				if cc.List == nil {
					def = cc
					continue
				}
				clauses = append(clauses, cc)
			}
			// the default clause must be last for the chain to keep its meaning
			if def != nil && sw.Body.List[len(sw.Body.List)-1] != ast.Stmt(def) {
				okAll = false
			}
			if !okAll || len(clauses) == 0 {
				continue
			}
			var head, cur *ast.IfStmt
			for _, cc := range clauses {
				var parts []string
				for _, v := range cc.List {
					parts = append(parts, "("+types.ExprString(sw.Tag)+") == ("+types.ExprString(v)+")")
				}
				cond, perr := parser.ParseExpr(strings.Join(parts, " || "))
				if perr != nil {
					okAll = false
					break
				}
				is := &ast.IfStmt{Cond: cond, Body: &ast.BlockStmt{List: cc.Body}}
				if head == nil {
					head, cur = is, is
				} else {
					cur.Else = is
					cur = is
				}
			}
			if !okAll {
				continue
			}
			if def != nil {
				cur.Else = &ast.BlockStmt{List: def.Body}
			}
			list[i] = head
			n++
		}
	}
	ast.Inspect(file, func(x ast.Node) bool {
		switch v := x.(type) {
		case *ast.BlockStmt:
			conv(v.List)
		case *ast.CaseClause:
			conv(v.Body)
		case *ast.CommClause:
			conv(v.Body)
		}
		return true
	})
	return n
}

// hoist moves the init clause of `if x := f(); cond {…}` in front of the if
// statement. The variables it defines get fresh names (x -> xH<n>) throughout
// the if statement, so the move neither shadows nor redeclares anything.
func hoist(file *ast.File, info *types.Info) int {
	n := 0
	fresh := 0
	conv := func(list []ast.Stmt) []ast.Stmt {
		var out []ast.Stmt
		for _, st := range list {
			is, ok := st.(*ast.IfStmt)
			if !ok || is.Init == nil {
				out = append(out, st)
				continue
			}
			as, ok := is.Init.(*ast.AssignStmt)
			if !ok || as.Tok != token.DEFINE {
				out = append(out, st)
				continue
			}
			objs := map[types.Object]string{}
			for _, l := range as.Lhs {
				if id, ok := l.(*ast.Ident); ok && id.Name != "_" {
					if o := info.Defs[id]; o != nil {
						fresh++
						objs[o] = fmt.Sprintf("%sH%d", id.Name, fresh)
					}
				}
			}
			if len(objs) == 0 {
				out = append(out, st)
				continue
			}
			ast.Inspect(is, func(x ast.Node) bool {
				if id, ok := x.(*ast.Ident); ok {
					if nm, ok := objs[info.ObjectOf(id)]; ok {
						id.Name = nm
					}
				}
				return true
			})
			is.Init = nil
			out = append(out, as, is)
			n++
		}
		return out
	}
	ast.Inspect(file, func(x ast.Node) bool {
		switch v := x.(type) {
		case *ast.BlockStmt:
			v.List = conv(v.List)
		case *ast.CaseClause:
			v.Body = conv(v.Body)
		case *ast.CommClause:
			v.Body = conv(v.Body)
		}
		return true
	})
	return n
}

// fold is the reverse of hoist: `x := f(); if cond {…}` becomes
// `if x := f(); cond {…}` when every variable the assignment defines is new
// and is used only inside the if statement.
func fold(file *ast.File, info *types.Info) int {
	n := 0
	uses := map[types.Object][]token.Pos{}
	ast.Inspect(file, func(x ast.Node) bool {
		if id, ok := x.(*ast.Ident); ok {
			if o := info.Uses[id]; o != nil {
				uses[o] = append(uses[o], id.Pos())
			}
		}
		return true
	})
	conv := func(list []ast.Stmt) []ast.Stmt {
		var out []ast.Stmt
		for i := 0; i < len(list); i++ {
			st := list[i]
			as, ok := st.(*ast.AssignStmt)
			if !ok || as.Tok != token.DEFINE || i+1 >= len(list) {
				out = append(out, st)
				continue
			}
			is, ok := list[i+1].(*ast.IfStmt)
			if !ok || is.Init != nil {
				out = append(out, st)
				continue
			}
			safe, any := true, false
			for _, r := range as.Rhs {
				// a composite literal in an if header needs parentheses
				ast.Inspect(r, func(x ast.Node) bool {
					switch x.(type) {
					case *ast.CompositeLit, *ast.FuncLit:
						safe = false
					}
					return safe
				})
			}
			for _, l := range as.Lhs {
				id, ok := l.(*ast.Ident)
				if !ok {
					safe = false
					break
				}
				if id.Name == "_" {
					continue
				}
				o := info.Defs[id]
				if o == nil {
					safe = false
					break
				}
				any = true
				for _, p := range uses[o] {
					if p < is.Pos() || p >= is.End() {
						safe = false
					}
				}
			}
			if !safe || !any {
				out = append(out, st)
				continue
			}
			is.Init = as
			out = append(out, is)
			i++
			n++
		}
		return out
	}
	ast.Inspect(file, func(x ast.Node) bool {
		switch v := x.(type) {
		case *ast.BlockStmt:
			v.List = conv(v.List)
		case *ast.CaseClause:
			v.Body = conv(v.Body)
		case *ast.CommClause:
			v.Body = conv(v.Body)
		}
		return true
	})
	return n
}

// incdec rewrites x++ / x-- into x += 1 / x -= 1 (statement lists and for
// post statements).
func incdec(file *ast.File) int {
	n := 0
	conv := func(st ast.Stmt) ast.Stmt {
		id, ok := st.(*ast.IncDecStmt)
		if !ok {
			return st
		}
		n++
		tok := token.ADD_ASSIGN
		if id.Tok == token.DEC {
			tok = token.SUB_ASSIGN
		}
		return &ast.AssignStmt{Lhs: []ast.Expr{id.X}, TokPos: id.TokPos, Tok: tok, Rhs: []ast.Expr{&ast.BasicLit{Kind: token.INT, Value: "1"}}}
	}
	ast.Inspect(file, func(x ast.Node) bool {
		switch v := x.(type) {
		case *ast.BlockStmt:
			for i := range v.List {
				v.List[i] = conv(v.List[i])
			}
		case *ast.CaseClause:
			for i := range v.Body {
				v.Body[i] = conv(v.Body[i])
			}
		case *ast.CommClause:
			for i := range v.Body {
				v.Body[i] = conv(v.Body[i])
			}
		case *ast.ForStmt:
			if v.Post != nil {
				v.Post = conv(v.Post)
			}
		}
		return true
	})
	return n
}

// condvar names the condition of an if statement: `if a != b {…}` becomes
// `cvN := a != b; if cvN {…}` (conditions without calls, receives or function
// literals only, so that nothing is evaluated earlier than before).
func condvar(file *ast.File) int {
	n := 0
	pure := func(e ast.Expr) bool {
		ok := true
		ast.Inspect(e, func(x ast.Node) bool {
			switch y := x.(type) {
			case *ast.CallExpr, *ast.FuncLit:
				ok = false
			case *ast.UnaryExpr:
				if y.Op == token.ARROW {
					ok = false
				}
			}
			return ok
		})
		return ok
	}
	conv := func(list []ast.Stmt) []ast.Stmt {
		var out []ast.Stmt
		for _, st := range list {
			is, ok := st.(*ast.IfStmt)
			if !ok || is.Init != nil || !pure(is.Cond) {
				out = append(out, st)
				continue
			}
			if _, isID := is.Cond.(*ast.Ident); isID {
				out = append(out, st)
				continue
			}
			n++
			name := ast.NewIdent(fmt.Sprintf("cvZz%d", n))
			out = append(out, &ast.AssignStmt{Lhs: []ast.Expr{name}, Tok: token.DEFINE, Rhs: []ast.Expr{is.Cond}})
			is.Cond = ast.NewIdent(name.Name)
			out = append(out, is)
		}
		return out
	}
	ast.Inspect(file, func(x ast.Node) bool {
		switch v := x.(type) {
		case *ast.BlockStmt:
			v.List = conv(v.List)
		case *ast.CaseClause:
			v.Body = conv(v.Body)
		case *ast.CommClause:
			v.Body = conv(v.Body)
		}
		return true
	})
	return n
}

// terminates reports whether a statement list always leaves the enclosing list
// (return, branch statement or a call of panic as the last statement).
func terminates(list []ast.Stmt) bool {
	if len(list) == 0 {
		return false
	}
	switch v := list[len(list)-1].(type) {
	case *ast.ReturnStmt:
		return true
	case *ast.BranchStmt:
		return v.Tok != token.FALLTHROUGH
	case *ast.ExprStmt:
		if c, ok := v.X.(*ast.CallExpr); ok {
			if id, ok := c.Fun.(*ast.Ident); ok && id.Name == "panic" {
				return true
			}
		}
	}
	return false
}

func declares(list []ast.Stmt) bool {
	for _, st := range list {
		switch v := st.(type) {
		case *ast.DeclStmt, *ast.LabeledStmt:
			return true
		case *ast.AssignStmt:
			if v.Tok == token.DEFINE {
				return true
			}
		case *ast.BranchStmt:
			if v.Tok == token.FALLTHROUGH {
				return true
			}
		}
	}
	return false
}

func mapLists(file *ast.File, conv func([]ast.Stmt) []ast.Stmt) {
	ast.Inspect(file, func(x ast.Node) bool {
		switch v := x.(type) {
		case *ast.BlockStmt:
			if len(v.List) > 0 {
				switch v.List[0].(type) {
				case *ast.CaseClause, *ast.CommClause:
					return true
				}
			}
			v.List = conv(v.List)
		case *ast.CaseClause:
			v.Body = conv(v.Body)
		case *ast.CommClause:
			v.Body = conv(v.Body)
		}
		return true
	})
}

// elsestrip rewrites `if c { …; return } else { B }` into `if c { …; return }; B`
// when B declares nothing at its top level.
func elsestrip(file *ast.File) int {
	n := 0
	mapLists(file, func(list []ast.Stmt) []ast.Stmt {
		var out []ast.Stmt
		for _, st := range list {
			is, ok := st.(*ast.IfStmt)
			if ok && is.Init == nil {
				if eb, ok := is.Else.(*ast.BlockStmt); ok && terminates(is.Body.List) && !declares(eb.List) {
					is.Else = nil
					out = append(out, is)
					out = append(out, eb.List...)
					n++
					continue
				}
			}
			out = append(out, st)
		}
		return out
	})
	return n
}

// elseadd rewrites `if c { …; return }; rest…` into `if c { …; return } else { rest… }`.
func elseadd(file *ast.File) int {
	n := 0
	hasLabel := func(list []ast.Stmt) bool {
		found := false
		for _, st := range list {
			ast.Inspect(st, func(x ast.Node) bool {
				switch v := x.(type) {
				case *ast.LabeledStmt:
					found = true
				case *ast.BranchStmt:
					if v.Tok == token.FALLTHROUGH {
						found = true
					}
				case *ast.FuncLit:
					return false
				}
				return !found
			})
		}
		return found
	}
	mapLists(file, func(list []ast.Stmt) []ast.Stmt {
		for i, st := range list {
			is, ok := st.(*ast.IfStmt)
			if !ok || is.Init != nil || is.Else != nil || !terminates(is.Body.List) || i == len(list)-1 {
				continue
			}
			rest := list[i+1:]
			if hasLabel(rest) {
				continue
			}
			is.Else = &ast.BlockStmt{List: append([]ast.Stmt(nil), rest...)}
			n++
			return append(list[:i:i], is)
		}
		return list
	})
	return n
}

// nop inserts the statement `_ = 0` in front of every statement of every
// statement list (statement positions and adjacency change, behaviour does not).
func nop(file *ast.File) int {
	n := 0
	mapLists(file, func(list []ast.Stmt) []ast.Stmt {
		var out []ast.Stmt
		for _, st := range list {
			if as, ok := st.(*ast.AssignStmt); ok && len(as.Lhs) == 1 {
				if id, ok := as.Lhs[0].(*ast.Ident); ok && id.Name == "_" {
					if bl, ok := as.Rhs[0].(*ast.BasicLit); ok && bl.Value == "0" {
						out = append(out, st)
						continue
					}
				}
			}
			out = append(out, &ast.AssignStmt{Lhs: []ast.Expr{&ast.Ident{Name: "_", NamePos: st.Pos()}}, TokPos: st.Pos(), Tok: token.ASSIGN, Rhs: []ast.Expr{&ast.BasicLit{Kind: token.INT, Value: "0", ValuePos: st.Pos()}}})
			out = append(out, st)
			n++
		}
		return out
	})
	return n
}

// swap exchanges two adjacent statements that cannot affect each other: both
// are assignments / short variable declarations of pure expressions (no call,
// receive, index, slice, dereference, division, function literal, selector
// through a pointer is not excluded by syntax so selectors are excluded too)
// to plain identifiers, and neither mentions an identifier the other assigns.
func swap(file *ast.File) int {
	n := 0
	type eff struct{ wID, wF, rID, rF, wRoot map[string]bool }
	simple := func(st ast.Stmt) (eff, bool) {
		e := eff{map[string]bool{}, map[string]bool{}, map[string]bool{}, map[string]bool{}, map[string]bool{}}
		as, isAs := st.(*ast.AssignStmt)
		if !isAs || (as.Tok != token.ASSIGN && as.Tok != token.DEFINE) || len(as.Lhs) != len(as.Rhs) {
			return e, false
		}
		for _, l := range as.Lhs {
			switch x := l.(type) {
			case *ast.Ident:
				if x.Name == "_" {
					return e, false
				}
				e.wID[x.Name] = true
			case *ast.SelectorExpr:
				root, isID := x.X.(*ast.Ident)
				if !isID {
					return e, false
				}
				e.wF[x.Sel.Name] = true
				e.rID[root.Name] = true
				e.wRoot[root.Name] = true
			default:
				return e, false
			}
		}
		pure := true
		for _, r := range as.Rhs {
			ast.Inspect(r, func(x ast.Node) bool {
				switch y := x.(type) {
				case *ast.CallExpr, *ast.FuncLit, *ast.TypeAssertExpr:
					pure = false
				case *ast.UnaryExpr:
					if y.Op == token.ARROW {
						pure = false
					}
				case *ast.SelectorExpr:
					e.rF[y.Sel.Name] = true
				case *ast.Ident:
					e.rID[y.Name] = true
				}
				return pure
			})
		}
		return e, pure
	}
	meets := func(a, b map[string]bool) bool {
		for k := range a {
			if b[k] {
				return true
			}
		}
		return false
	}
	mapLists(file, func(list []ast.Stmt) []ast.Stmt {
		for i := 0; i+1 < len(list); i++ {
			a, ok1 := simple(list[i])
			b, ok2 := simple(list[i+1])
			if !ok1 || !ok2 {
				continue
			}
			if meets(a.wID, b.rID) || meets(a.wID, b.wID) || meets(b.wID, a.rID) || meets(a.wF, b.rF) || meets(a.wF, b.wF) || meets(b.wF, a.rF) || meets(a.wRoot, b.rID) || meets(a.wRoot, b.wID) || meets(b.wRoot, a.rID) || meets(b.wRoot, a.wID) {
				continue
			}
			list[i], list[i+1] = list[i+1], list[i]
			n++
			i++
		}
		return list
	})
	return n
}

// retvar names the results of a returned call: `return f(x)` becomes
// `rvZzN_0, rvZzN_1 := f(x); return rvZzN_0, rvZzN_1` (statement lists only).
func retvar(file *ast.File, info *types.Info) int {
	n := 0
	mapLists(file, func(list []ast.Stmt) []ast.Stmt {
		var out []ast.Stmt
		for _, st := range list {
			rs, ok := st.(*ast.ReturnStmt)
			if !ok || len(rs.Results) != 1 {
				out = append(out, st)
				continue
			}
			call, ok := rs.Results[0].(*ast.CallExpr)
			if !ok {
				out = append(out, st)
				continue
			}
			// conversions and builtins stay
			if tv, ok := info.Types[call.Fun]; ok && (tv.IsType() || tv.IsBuiltin()) {
				out = append(out, st)
				continue
			}
			k := 1
			if tup, ok := info.TypeOf(call).(*types.Tuple); ok {
				k = tup.Len()
			}
			if k == 0 {
				out = append(out, st)
				continue
			}
			n++
			var lhs, res []ast.Expr
			for i := 0; i < k; i++ {
				nm := fmt.Sprintf("rvZz%d_%d", n, i)
				lhs = append(lhs, &ast.Ident{Name: nm, NamePos: rs.Pos()})
				res = append(res, &ast.Ident{Name: nm, NamePos: rs.Pos()})
			}
			out = append(out, &ast.AssignStmt{Lhs: lhs, Tok: token.DEFINE, Rhs: []ast.Expr{call}, TokPos: rs.Pos()})
			out = append(out, &ast.ReturnStmt{Return: rs.Return, Results: res})
		}
		return out
	})
	return n
}

// argvar names a call that is the only call among the arguments of the call a
// statement consists of: `f(a, g(x))` becomes `avZzN := g(x); f(a, avZzN)`
// (expression statements, single-call assignments and single-call returns).
func argvar(file *ast.File, info *types.Info) int {
	n := 0
	hasCall := func(e ast.Expr) bool {
		found := false
		ast.Inspect(e, func(x ast.Node) bool {
			switch y := x.(type) {
			case *ast.CallExpr:
				if tv, ok := info.Types[y.Fun]; ok && tv.IsType() {
					return true // a conversion evaluates its operand only
				}
				found = true
			case *ast.FuncLit:
				found = true
			case *ast.UnaryExpr:
				if y.Op == token.ARROW {
					found = true
				}
			}
			return !found
		})
		return found
	}
	outer := func(st ast.Stmt) *ast.CallExpr {
		switch v := st.(type) {
		case *ast.ExprStmt:
			c, _ := v.X.(*ast.CallExpr)
			return c
		case *ast.AssignStmt:
			if len(v.Rhs) == 1 {
				for _, l := range v.Lhs {
					if hasCall(l) {
						return nil
					}
				}
				c, _ := v.Rhs[0].(*ast.CallExpr)
				return c
			}
		case *ast.ReturnStmt:
			if len(v.Results) == 1 {
				c, _ := v.Results[0].(*ast.CallExpr)
				return c
			}
		}
		return nil
	}
	mapLists(file, func(list []ast.Stmt) []ast.Stmt {
		var out []ast.Stmt
		for _, st := range list {
			oc := outer(st)
			if oc == nil || oc.Ellipsis.IsValid() {
				out = append(out, st)
				continue
			}
			if tv, ok := info.Types[oc.Fun]; ok && (tv.IsType() || tv.IsBuiltin()) {
				out = append(out, st)
				continue
			}
			if hasCall(oc.Fun) {
				out = append(out, st)
				continue
			}
			idx := -1
			okAll := true
			for i, a := range oc.Args {
				if !hasCall(a) {
					continue
				}
				ic, isCall := a.(*ast.CallExpr)
				if !isCall || idx != -1 {
					okAll = false
					break
				}
				if _, isTup := info.TypeOf(ic).(*types.Tuple); isTup || info.TypeOf(ic) == nil {
					okAll = false
					break
				}
				if b, ok := info.TypeOf(ic).(*types.Basic); ok && b.Info()&types.IsUntyped != 0 {
					okAll = false
					break
				}
				for _, ia := range ic.Args {
					if hasCall(ia) {
						okAll = false
					}
				}
				idx = i
			}
			if !okAll || idx == -1 {
				out = append(out, st)
				continue
			}
			n++
			nm := fmt.Sprintf("avZz%d", n)
			out = append(out, &ast.AssignStmt{Lhs: []ast.Expr{&ast.Ident{Name: nm, NamePos: st.Pos()}}, Tok: token.DEFINE, Rhs: []ast.Expr{oc.Args[idx]}, TokPos: st.Pos()})
			oc.Args[idx] = &ast.Ident{Name: nm, NamePos: oc.Args[idx].Pos()}
			out = append(out, st)
		}
		return out
	})
	return n
}


// pure: an expression without calls, receives or function literals.
func pure(e ast.Expr) bool {
	ok := true
	ast.Inspect(e, func(x ast.Node) bool {
		switch v := x.(type) {
		case *ast.CallExpr, *ast.FuncLit:
			ok = false
		case *ast.UnaryExpr:
			if v.Op == token.ARROW {
				ok = false
			}
		}
		return ok
	})
	return ok
}

// emptystr rewrites s == "" into len(s) == 0 and s != "" into len(s) != 0
// for string-typed s, and len(s) == 0 / len(s) != 0 / len(s) > 0 back into
// the comparison with "" (both spellings of the emptiness test are common).
func emptystr(file *ast.File, info *types.Info) int {
	n := 0
	isStr := func(e ast.Expr) bool {
		t := info.TypeOf(e)
		if t == nil {
			return false
		}
		b, ok := t.Underlying().(*types.Basic)
		return ok && b.Info()&types.IsString != 0
	}
	isEmptyLit := func(e ast.Expr) bool {
		bl, ok := ast.Unparen(e).(*ast.BasicLit)
		return ok && bl.Kind == token.STRING && (bl.Value == `""` || bl.Value == "``")
	}
	done := map[*ast.BinaryExpr]bool{}
	ast.Inspect(file, func(x ast.Node) bool {
		be, ok := x.(*ast.BinaryExpr)
		if !ok || done[be] {
			return true
		}
		// a constant expression stays one
		if tv, ok := info.Types[be]; ok && tv.Value != nil {
			return true
		}
		if (be.Op == token.EQL || be.Op == token.NEQ) && pure(be) {
			var s ast.Expr
			switch {
			case isEmptyLit(be.Y) && isStr(be.X):
				s = be.X
			case isEmptyLit(be.X) && isStr(be.Y):
				s = be.Y
			}
			if s != nil {
				if tv, ok := info.Types[s]; ok && tv.Value != nil {
					return true
				}
				be.X = &ast.CallExpr{Fun: ast.NewIdent("len"), Args: []ast.Expr{s}}
				be.Y = &ast.BasicLit{Kind: token.INT, Value: "0"}
				done[be] = true
				n++
				return false
			}
		}
		// len(s) == 0, len(s) != 0, len(s) > 0 with s a string
		if cl, ok := ast.Unparen(be.X).(*ast.CallExpr); ok && len(cl.Args) == 1 && isStr(cl.Args[0]) && pure(cl.Args[0]) {
			if id, ok := cl.Fun.(*ast.Ident); ok && id.Name == "len" && info.Uses[id] == types.Universe.Lookup("len") {
				if bl, ok := ast.Unparen(be.Y).(*ast.BasicLit); ok && bl.Kind == token.INT && bl.Value == "0" {
					op := token.ILLEGAL
					switch be.Op {
					case token.EQL:
						op = token.EQL
					case token.NEQ, token.GTR:
						op = token.NEQ
					}
					if op != token.ILLEGAL {
						be.X = cl.Args[0]
						be.Y = &ast.BasicLit{Kind: token.STRING, Value: `""`}
						be.Op = op
						done[be] = true
						n++
						return false
					}
				}
			}
		}
		return true
	})
	return n
}

// demorgan rewrites the condition of `if a || b` into `!(!a && !b)` and of
// `if a && b` into `!(!a || !b)` (top-level operator of if conditions only).
func demorgan(file *ast.File) int {
	n := 0
	not := func(e ast.Expr) ast.Expr {
		if u, ok := ast.Unparen(e).(*ast.UnaryExpr); ok && u.Op == token.NOT {
			return u.X
		}
		return &ast.UnaryExpr{Op: token.NOT, X: &ast.ParenExpr{X: e}}
	}
	ast.Inspect(file, func(x ast.Node) bool {
		is, ok := x.(*ast.IfStmt)
		if !ok {
			return true
		}
		be, ok := ast.Unparen(is.Cond).(*ast.BinaryExpr)
		if !ok || (be.Op != token.LOR && be.Op != token.LAND) {
			return true
		}
		op := token.LAND
		if be.Op == token.LAND {
			op = token.LOR
		}
		is.Cond = &ast.UnaryExpr{Op: token.NOT, X: &ast.ParenExpr{X: &ast.BinaryExpr{X: not(be.X), Op: op, Y: not(be.Y)}}}
		n++
		return true
	})
	return n
}

// rangeidx rewrites `for _, v := range xs { body }` over a slice or array xs
// (a pure variable or field path that the body does not assign to, with v
// neither assigned nor address-taken in the body) into
// `for i := range xs { v := xs[i]; body }`.
func rangeidx(file *ast.File, info *types.Info) int {
	n := 0
	ast.Inspect(file, func(x ast.Node) bool {
		rs, ok := x.(*ast.RangeStmt)
		if !ok || rs.Tok != token.DEFINE || rs.Value == nil {
			return true
		}
		if k, ok := rs.Key.(*ast.Ident); !ok || k.Name != "_" {
			return true
		}
		v, ok := rs.Value.(*ast.Ident)
		if !ok || v.Name == "_" {
			return true
		}
		t := info.TypeOf(rs.X)
		if t == nil {
			return true
		}
		switch t.Underlying().(type) {
		case *types.Slice:
		default:
			return true
		}
		if !pure(rs.X) {
			return true
		}
		switch ast.Unparen(rs.X).(type) {
		case *ast.Ident, *ast.SelectorExpr:
		default:
			return true
		}
		xs := types.ExprString(rs.X)
		vo := info.Defs[v]
		safe := true
		ast.Inspect(rs.Body, func(y ast.Node) bool {
			switch w := y.(type) {
			case *ast.AssignStmt:
				for _, l := range w.Lhs {
					ls := types.ExprString(l)
					if ls == xs || strings.HasPrefix(ls, xs+"[") || strings.HasPrefix(ls, xs+".") || strings.HasPrefix(xs, ls+".") {
						safe = false
					}
					if id, ok := l.(*ast.Ident); ok && info.ObjectOf(id) == vo {
						safe = false
					}
				}
			case *ast.IncDecStmt:
				if id, ok := w.X.(*ast.Ident); ok && info.ObjectOf(id) == vo {
					safe = false
				}
			case *ast.UnaryExpr:
				if w.Op == token.AND {
					safe = false // &v or &xs[..]: aliasing differs
				}
			case *ast.FuncLit, *ast.GoStmt, *ast.DeferStmt:
				safe = false
			case *ast.CallExpr:
				// a call might modify xs behind our back only through a pointer;
				// appends to xs are caught by the assignment test above
			}
			return safe
		})
		if !safe {
			return true
		}
		idx := &ast.Ident{Name: "idxZq", NamePos: v.Pos()}
		rs.Key = idx
		rs.Value = nil
		at := rs.Body.Lbrace
		// the operand is printed a second time: a copy without positions
		xcopy, err := parser.ParseExpr(xs)
		if err != nil {
			return true
		}
		decl := &ast.AssignStmt{Lhs: []ast.Expr{&ast.Ident{Name: v.Name, NamePos: at}}, Tok: token.DEFINE, TokPos: at, Rhs: []ast.Expr{&ast.IndexExpr{X: xcopy, Index: ast.NewIdent("idxZq")}}}
		rs.Body.List = append([]ast.Stmt{decl}, rs.Body.List...)
		n++
		return true
	})
	return n
}

func main() {
	dir := os.Args[1]
	mode := "rename"
	if len(os.Args) > 2 {
		mode = os.Args[2]
	}
	cfg := &packages.Config{Mode: packages.NeedName | packages.NeedFiles | packages.NeedCompiledGoFiles | packages.NeedSyntax | packages.NeedTypes | packages.NeedTypesInfo | packages.NeedImports | packages.NeedDeps, Dir: dir,
		Env: append(os.Environ(), "GOFLAGS=-mod=mod", "GOPROXY=off", "GOSUMDB=off", "GOTOOLCHAIN=local", "GOWORK=off")}
	pkgs, err := packages.Load(cfg, "./...")
	if err != nil {
		fmt.Fprintln(os.Stderr, err)
		os.Exit(2)
	}
	n := 0
	for _, pk := range pkgs {
		for i, file := range pk.Syntax {
			path := pk.CompiledGoFiles[i]
			changed := false
			if mode == "flip" || mode == "switch" || mode == "hoist" || mode == "fold" || mode == "incdec" || mode == "condvar" || mode == "unswitch" || mode == "elsestrip" || mode == "elseadd" || mode == "nop" || mode == "swap" || mode == "retvar" || mode == "argvar" || mode == "emptystr" || mode == "demorgan" || mode == "rangeidx" {
				k := 0
				switch mode {
				case "flip":
					k = flip(file)
				case "switch":
					k = toSwitch(file, pk.TypesInfo)
				case "unswitch":
					k = unswitch(file, pk.TypesInfo)
				case "fold":
					k = fold(file, pk.TypesInfo)
				case "incdec":
					k = incdec(file)
				case "condvar":
					k = condvar(file)
				case "elsestrip":
					k = elsestrip(file)
				case "elseadd":
					k = elseadd(file)
				case "nop":
					k = nop(file)
				case "swap":
					k = swap(file)
				case "retvar":
					k = retvar(file, pk.TypesInfo)
				case "argvar":
					k = argvar(file, pk.TypesInfo)
				case "emptystr":
					k = emptystr(file, pk.TypesInfo)
				case "demorgan":
					k = demorgan(file)
				case "rangeidx":
					k = rangeidx(file, pk.TypesInfo)
				default:
					k = hoist(file, pk.TypesInfo)
				}
				if k > 0 {
					n += k
					var buf bytes.Buffer
					if err := format.Node(&buf, pk.Fset, file); err != nil {
						fmt.Fprintln(os.Stderr, path, err)
						if os.Getenv("RENAMER_DEBUG") != "" {
							printer.Fprint(os.Stderr, pk.Fset, file)
						}
						os.Exit(2)
					}
					if err := os.WriteFile(path, buf.Bytes(), 0o644); err != nil {
						fmt.Fprintln(os.Stderr, err)
						os.Exit(2)
					}
				}
				continue
			}
			// the symbolic variable of a type switch has no object of its own at
			// its declaration (one implicit object per clause)
			ast.Inspect(file, func(x ast.Node) bool {
				if ts, ok := x.(*ast.TypeSwitchStmt); ok {
					if as, ok := ts.Assign.(*ast.AssignStmt); ok && len(as.Lhs) == 1 {
						if id, ok := as.Lhs[0].(*ast.Ident); ok && id.Name != "_" {
							id.Name = id.Name + "Zz"
							changed = true
						}
					}
				}
				return true
			})
			ast.Inspect(file, func(x ast.Node) bool {
				id, ok := x.(*ast.Ident)
				if !ok || id.Name == "_" {
					return true
				}
				o := pk.TypesInfo.ObjectOf(id)
				v, ok := o.(*types.Var)
				if !ok || v.IsField() || v.Pkg() == nil || v.Parent() == nil || v.Parent() == v.Pkg().Scope() || v.Parent() == types.Universe {
					return true
				}
				// embedded-field style implicit objects (type switch symbolic vars) are fine too
				id.Name = id.Name + "Zz"
				changed = true
				n++
				return true
			})
			if !changed {
				continue
			}
			var buf bytes.Buffer
			if err := format.Node(&buf, pk.Fset, file); err != nil {
				fmt.Fprintln(os.Stderr, path, err)
				os.Exit(2)
			}
			if err := os.WriteFile(path, buf.Bytes(), 0o644); err != nil {
				fmt.Fprintln(os.Stderr, err)
				os.Exit(2)
			}
		}
	}
	fmt.Println("renamed identifiers:", n)
}
