#!/bin/bash
# usage: keep_round2.sh <round-dir> <round-tag e.g. r11> [PAR]
# Like keep_round.sh, but the confirmation (scratch copy: build, existing
# suite, demonstration both ways) runs PAR seeds at a time; only the formal
# run against /repo itself (git apply, check, git checkout) is sequential.
RD=${1%/}; TAG=$2; PAR=${3:-5}; LOG=$RD.keep; mkdir -p $LOG
cd /verif
export GOFLAGS=-mod=mod GOPROXY=off GOSUMDB=off GOTOOLCHAIN=local; unset GOWORK
for p in $(seq -w 1 20); do for k in 1 2 3; do
  d=$RD/C$p/_out/$k
  [ -f $d/meta.json ] && [ -f $d/patch.diff ] || continue
  [ -f $LOG/C$p.$k.confirm ] && continue
  ( SUITE=1 selftest/try_seed.sh $d C$p > $LOG/C$p.$k.confirm 2>&1 ) &
  while [ $(jobs -r | wc -l) -ge $PAR ]; do sleep 1; done
done; done; wait
for p in $(seq -w 1 20); do for k in 1 2 3; do
  d=$RD/C$p/_out/$k; f=$LOG/C$p.$k.confirm
  [ -f $f ] || continue
  slug=$(python3 - $d/meta.json <<'PY'
import json,sys,re
m=json.load(open(sys.argv[1]))
w=re.findall(r'[A-Za-z]+',m.get('summary',''))[:4]
print('-'.join(x.lower() for x in w) or 'seed')
PY
)
  id="C$p-$TAG-$k-$slug"
  echo "=== $id"
  grep -A1 "demo on unpatched" $f | grep -q "exit=0" || { echo "REJECT: demo does not pass on the unpatched tree"; continue; }
  grep -A1 "demo on patched" $f | grep -q "exit=[1-9]" || { echo "REJECT: demo does not fail on the patched tree"; continue; }
  grep -A1 "existing suite" $f | grep -q "exit=0" || { echo "REJECT: existing suite fails with the patch"; grep -A6 "existing suite" $f | tail -5; continue; }
  CONFIRMED=1 selftest/keep_seed.sh $d $id 2>&1 | tail -3
done; done
