#!/bin/bash
# usage: keep_round.sh <round-dir> <round-tag e.g. r8>   (sequential: applies each patch to /repo itself)
RD=${1%/}; TAG=$2
cd /verif
for p in $(seq -w 1 20); do for k in 1 2; do
  d=$RD/C$p/_out/$k
  [ -f $d/meta.json ] || continue
  slug=$(python3 - $d/meta.json <<'PY'
import json,sys,re
m=json.load(open(sys.argv[1]))
w=re.findall(r'[A-Za-z]+',m.get('summary',''))[:4]
print('-'.join(x.lower() for x in w) or 'seed')
PY
)
  id="C$p-$TAG-$k-$slug"
  echo "=== $id"
  selftest/keep_seed.sh $d $id 2>&1 | tail -4
done; done
