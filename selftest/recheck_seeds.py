#!/usr/bin/env python3
"""Development-time: re-run every kept seeded change against the current
checker. For each /verif/seeded/<id>: copy /repo to a scratch dir, apply
patch.diff (skip if it no longer applies to today's tree), require that it
builds, run the property's check and compare with meta.json's `detected`."""
import json, os, glob, shutil, subprocess, tempfile, sys
ENV = dict(os.environ, GOFLAGS="-mod=mod", GOPROXY="off", GOSUMDB="off", GOTOOLCHAIN="local"); ENV.pop("GOWORK", None)
from concurrent.futures import ThreadPoolExecutor
# usage: recheck_seeds.py [-j N] [substring ...]   (only seeds whose id contains one of the substrings)
args = sys.argv[1:]
PAR = 6
if args[:1] == ['-j']:
    PAR = int(args[1]); args = args[2:]
res = {}
def one(d):
    m = json.load(open(d + '/meta.json'))
    tmp = tempfile.mkdtemp(prefix='seedre-')
    try:
        repo = tmp + '/repo'
        shutil.copytree('/repo', repo, ignore=shutil.ignore_patterns('.git'))
        os.makedirs(tmp + '/verif'); shutil.copy('/verif/known_findings.json', tmp + '/verif/')
        a = subprocess.run(['patch', '-p1', '-s', '--no-backup-if-mismatch', '-i', d + '/patch.diff'], cwd=repo, capture_output=True, text=True)
        if a.returncode != 0:
            res[os.path.basename(d)] = 'stale-patch'; return
        b = subprocess.run(['go', 'build', './...'], cwd=repo, env=ENV, capture_output=True, text=True)
        if b.returncode != 0:
            res[os.path.basename(d)] = 'no-compile'; return
        c = subprocess.run(['/verif/bin/xmppcheck', '-property', m['property'], '-repo', repo, '-verif', tmp + '/verif'], capture_output=True, text=True, env=ENV)
        want = m.get('confirmed', {}).get('detected', True)
        got = c.returncode != 0
        res[os.path.basename(d)] = 'caught' if got else ('MISSED' if want else 'undetected (as recorded)')
    finally:
        shutil.rmtree(tmp, ignore_errors=True)
dirs = [d for d in sorted(glob.glob('/verif/seeded/*')) if not args or any(a in os.path.basename(d) for a in args)]
with ThreadPoolExecutor(PAR) as ex:
    list(ex.map(one, dirs))
res = dict(sorted(res.items()))
from collections import Counter
for k, v in res.items():
    if v not in ('caught',):
        print('%-60s %s' % (k, v))
print(Counter(res.values()))
sys.exit(1 if 'MISSED' in res.values() else 0)
