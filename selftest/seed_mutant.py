#!/usr/bin/env python3
"""Turns a kept seeded change (/verif/seeded/<id>/patch.diff) into a stored
variant for the thorough tier: one {file, old, new} edit per hunk (the hunk's
context plus removed lines -> context plus added lines). Hunks whose old text
does not occur exactly once in /repo's current file are reported and the
variant is not produced.
usage: seed_mutant.py <seed-id> <rule>  -> prints JSON or exits 1"""
import json, re, sys
sid, rule = sys.argv[1:3]
d = '/verif/seeded/' + sid
meta = json.load(open(d + '/meta.json'))
diff = open(d + '/patch.diff').read()
edits = []
for f in re.split(r'(?m)^diff --git ', diff)[1:]:
    path = f.split('\n')[0].split(' b/')[1]
    for h in re.split(r'(?m)^@@ [^\n]*\n', f)[1:]:
        old, new = [], []
        for line in h.split('\n'):
            if line.startswith('\\'):
                continue
            if line.startswith('+'):
                new.append(line[1:])
            elif line.startswith('-'):
                old.append(line[1:])
            elif line.startswith(' '):
                old.append(line[1:]); new.append(line[1:])
            elif line == '':
                continue
        o, n = '\n'.join(old) + '\n', '\n'.join(new) + '\n'
        try:
            cur = open('/repo/' + path).read()
        except FileNotFoundError:
            print('no such file', path, file=sys.stderr); sys.exit(1)
        if cur.count(o) != 1:
            print('hunk does not match the current tree:', path, file=sys.stderr); sys.exit(1)
        edits.append({"file": path, "old": o, "new": n})
print(json.dumps({"id": sid, "property": meta['property'], "rule": rule, "edits": edits, "note": "seeded change " + sid + ": " + meta.get('summary', '')[:200]}))
