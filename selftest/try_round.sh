#!/bin/bash
# usage: try_round.sh <round-dir>   (FORCE=1 re-tries seeds that were tried before)
# Tries every finished seed <round-dir>/Cxx/_out/{1,2} with try_seed.sh (6 at a
# time); logs go to <round-dir>.try/ (outside the agents' directories).
RD=${1%/}; LOG=$RD.try; mkdir -p $LOG
cd /verif
for p in $(seq -w 1 20); do for k in 1 2 3; do
  d=$RD/C$p/_out/$k
  [ -f $d/meta.json ] && [ -f $d/patch.diff ] || continue
  [ -f $LOG/C$p.$k.try ] && [ "${FORCE:-0}" != 1 ] && continue
  ( selftest/try_seed.sh $d C$p > $LOG/C$p.$k.try 2>&1 ) &
  while [ $(jobs -r | wc -l) -ge 6 ]; do sleep 1; done
done; done; wait
for p in $(seq -w 1 20); do for k in 1 2 3; do f=$LOG/C$p.$k.try; [ -f $f ] || { echo "C$p/$k -"; continue; }
  echo "C$p/$k $(grep -o 'exit=[0-9]*' $f | tr '\n' ' ') $(grep -o 'violations=[0-9]*' $f | tail -1) $(grep -c 'PATCH-DOES\|NO-COMPILE' $f) $(grep '^  FAIL' $f | sed 's/^  FAIL [^ ]* \([^|]*\)|.*/\1/' | sort -u | tr '\n' ' ')"; done; done
