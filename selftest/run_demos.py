import json,glob,os,shutil,subprocess,tempfile
ENV=dict(os.environ,GOFLAGS="-mod=mod",GOPROXY="off",GOSUMDB="off",GOTOOLCHAIN="local"); ENV.pop("GOWORK",None)
tmp=tempfile.mkdtemp(prefix='demos-')
repo=tmp+'/repo'
shutil.copytree(os.environ.get('REPO','/repo'),repo,ignore=shutil.ignore_patterns('.git'))
res={}
for d in sorted(glob.glob('/verif/seeded/*')):
    sid=os.path.basename(d)
    m=json.load(open(d+'/meta.json'))
    demo=d+'/demo_test.go.txt'
    if not os.path.exists(demo): res[sid]='no-demo'; continue
    dd=m.get('demo_dir','.') or '.'
    dst=os.path.join(repo,dd,'zz_seed_demo_test.go')
    if not os.path.isdir(os.path.join(repo,dd)): res[sid]='no-dir'; continue
    shutil.copy(demo,dst)
    try:
        r=subprocess.run(['go','test','-vet=off','-count=1','-timeout','120s','./'+dd],cwd=repo,env=ENV,capture_output=True,text=True,timeout=300)
        if r.returncode==0: res[sid]='pass'
        else:
            # retry once (flaky)
            r=subprocess.run(['go','test','-vet=off','-count=1','-timeout','120s','./'+dd],cwd=repo,env=ENV,capture_output=True,text=True,timeout=300)
            res[sid]='pass' if r.returncode==0 else 'FAIL: '+' | '.join([l for l in r.stdout.split('\n') if l.startswith('--- FAIL') or 'panic' in l or 'cannot' in l or 'undefined' in l][:3])
    except subprocess.TimeoutExpired:
        res[sid]='TIMEOUT'
    os.remove(dst)
shutil.rmtree(tmp,ignore_errors=True)
from collections import Counter
for k,v in res.items():
    if v!='pass': print('%-62s %s'%(k,v[:200]))
print(Counter(v.split(':')[0] for v in res.values()))
