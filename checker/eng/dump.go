package eng

import (
	"bytes"
	"fmt"
	"go/ast"
	"go/format"
	"strings"
)

// NodeStr formats an AST node on one line.
func (p *Prog) NodeStr(n ast.Node) string {
	var buf bytes.Buffer
	format.Node(&buf, p.Fset, n)
	s := buf.String()
	s = strings.Join(strings.Fields(s), " ")
	if len(s) > 160 {
		s = s[:157] + "..."
	}
	return s
}

// Dump prints the graph with its edge facts (debugging aid).
func (g *Graph) Dump() string {
	var sb strings.Builder
	p := g.Fn.Prog
	fmt.Fprintf(&sb, "func %s\n", g.Fn.Name)
	for _, b := range g.Blocks {
		if !b.Live {
			continue
		}
		fmt.Fprintf(&sb, ".%d %s\n", b.Index, b.Kind)
		for i, n := range b.Nodes {
			fmt.Fprintf(&sb, "    %d.%d  L%d %s\n", b.Index, i, p.Fset.Position(n.Pos()).Line, p.NodeStr(n))
		}
		for si, s := range b.Succs {
			fm := g.EdgeForm(Edge{int(b.Index), si})
			fs := ""
			if fm != nil {
				var as []string
				for _, a := range fm.Implied() {
					as = append(as, a.S)
				}
				fs = "  [" + strings.Join(as, " ; ") + "]"
			}
			fmt.Fprintf(&sb, "    -> .%d%s\n", s.Index, fs)
		}
	}
	return sb.String()
}
