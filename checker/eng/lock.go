package eng

import (
	"go/ast"
	"sort"
	"strings"
)

// LockSet maps a lock class (field class of the mutex) to its mode: 'W'
// (exclusive) or 'R' (shared).
type LockSet map[string]byte

func (l LockSet) clone() LockSet {
	o := LockSet{}
	for k, v := range l {
		o[k] = v
	}
	return o
}

// With returns a copy of the set in which class is held exclusively.
func (l LockSet) With(class string) LockSet {
	o := l.clone()
	o[class] = 'W'
	return o
}

// Has reports whether class is held (write=true requires exclusive mode).
func (l LockSet) Has(class string, write bool) bool {
	m, ok := l[class]
	if !ok {
		return false
	}
	return !write || m == 'W'
}

func (l LockSet) String() string {
	var ks []string
	for k, v := range l {
		ks = append(ks, k+":"+string(v))
	}
	sort.Strings(ks)
	return "{" + strings.Join(ks, ",") + "}"
}

// LockAliases maps lock classes that denote the same mutex object by
// construction (checked by the rules that use them).
var LockAliases = map[string]string{
	"xmpp.lockWriteCloser.m": "xmpp.Session.out",
	"xmpp.lockReadCloser.m":  "xmpp.Session.in",
}

// LockClass returns the canonical class of the mutex expression e.
func (f *Fn) LockClass(e ast.Expr) (string, bool) {
	cls, ok := f.FieldClass(e)
	if !ok {
		return "", false
	}
	cls = strings.TrimSuffix(cls, ".Locker")
	if a, ok := LockAliases[cls]; ok {
		cls = a
	}
	return cls, true
}

// lockOp classifies a call: +1 acquire, -1 release, 0 none.
func (f *Fn) lockOp(call *ast.CallExpr) (op int, class string, mode byte) {
	sel, ok := ast.Unparen(call.Fun).(*ast.SelectorExpr)
	if !ok {
		return 0, "", 0
	}
	id := f.CalleeID(call)
	switch id {
	case "sync.Mutex.Lock", "sync.RWMutex.Lock", "sync.Locker.Lock":
		op, mode = 1, 'W'
	case "sync.RWMutex.RLock":
		op, mode = 1, 'R'
	case "sync.Mutex.Unlock", "sync.RWMutex.Unlock", "sync.Locker.Unlock", "sync.RWMutex.RUnlock":
		op = -1
	default:
		return 0, "", 0
	}
	cls, ok := f.LockClass(sel.X)
	if !ok {
		return 0, "", 0
	}
	return op, cls, mode
}

// LockOp is the exported form of lockOp.
func (f *Fn) LockOp(call *ast.CallExpr) (op int, class string, mode byte) { return f.lockOp(call) }

// LockInfo is the must-lockset analysis of one function.
type LockInfo struct {
	g    *Graph
	in   []LockSet
	live []bool
	wrap map[string][2]string // callee id -> {class, mode} acquired by calling it
	rel  map[string]string    // callee id -> class released by calling it
}

// LockWrappers computes, for every function of the program, whether calling it
// returns with a lock held (acquire wrapper: all returns hold the class) or
// releases a lock it did not take (release wrapper).
func (p *Prog) LockWrappers() (acq map[string][2]string, rel map[string]string) {
	if p.lockAcq != nil {
		return p.lockAcq, p.lockRel
	}
	acq = map[string][2]string{}
	rel = map[string]string{}
	for _, f := range p.Fns {
		if f.Body == nil || f.Obj == nil {
			continue
		}
		direct := false
		var unlocked []string
		f.WalkBody(func(n ast.Node) bool {
			if c, ok := n.(*ast.CallExpr); ok {
				if op, cls, _ := f.lockOp(c); op != 0 {
					direct = true
					if op < 0 {
						unlocked = append(unlocked, cls)
					}
				}
			}
			return true
		})
		if !direct {
			continue
		}
		li := f.Graph().locks(nil, nil, nil)
		// classes held at every return
		var common LockSet
		for _, rs := range f.Graph().Returns {
			pt, _ := f.Graph().Where(rs)
			at := li.At(pt)
			if common == nil {
				common = at.clone()
			} else {
				for k := range common {
					if _, ok := at[k]; !ok {
						delete(common, k)
					}
				}
			}
		}
		for k := range f.Graph().DeferredUnlocks() {
			delete(common, k)
		}
		for k, m := range common {
			acq[ObjID(f.Obj)] = [2]string{k, string(m)}
		}
		// releases a class it never acquires
		for _, u := range unlocked {
			took := false
			f.WalkBody(func(n ast.Node) bool {
				if c, ok := n.(*ast.CallExpr); ok {
					if op, cls, _ := f.lockOp(c); op > 0 && cls == u {
						took = true
					}
				}
				return true
			})
			if !took {
				rel[ObjID(f.Obj)] = u
			}
		}
	}
	p.lockAcq, p.lockRel = acq, rel
	return acq, rel
}

// Locks runs the must-lockset analysis with the given entry lockset.
func (g *Graph) Locks(entry LockSet) *LockInfo {
	acq, rel := g.Fn.Prog.LockWrappers()
	return g.locks(entry, acq, rel)
}

func (g *Graph) locks(entry LockSet, acq map[string][2]string, rel map[string]string) *LockInfo {
	li := &LockInfo{g: g, wrap: acq, rel: rel}
	nb := len(g.Blocks)
	li.in = make([]LockSet, nb)
	li.live = make([]bool, nb)
	if entry == nil {
		entry = LockSet{}
	}
	li.in[0] = entry.clone()
	li.live[0] = true
	changed := true
	for changed {
		changed = false
		for _, b := range g.Blocks {
			bi := int(b.Index)
			if !li.live[bi] {
				continue
			}
			out := li.in[bi].clone()
			for _, n := range b.Nodes {
				li.transfer(n, out)
			}
			for _, s := range b.Succs {
				si := int(s.Index)
				if !li.live[si] {
					li.live[si] = true
					li.in[si] = out.clone()
					changed = true
					continue
				}
				// intersect
				for k, m := range li.in[si] {
					om, ok := out[k]
					if !ok {
						delete(li.in[si], k)
						changed = true
					} else if om != m && m == 'W' {
						li.in[si][k] = 'R'
						changed = true
					}
				}
			}
		}
	}
	return li
}

func (li *LockInfo) transfer(n ast.Node, ls LockSet) {
	f := li.g.Fn
	switch n.(type) {
	case *ast.DeferStmt, *ast.GoStmt:
		return
	}
	ast.Inspect(n, func(x ast.Node) bool {
		switch c := x.(type) {
		case *ast.FuncLit:
			return false
		case *ast.CallExpr:
			if op, cls, mode := f.lockOp(c); op > 0 {
				ls[cls] = mode
			} else if op < 0 {
				delete(ls, cls)
			} else {
				id := f.CalleeID(c)
				if w, ok := li.wrap[id]; ok {
					ls[w[0]] = w[1][0]
				}
				if r, ok := li.rel[id]; ok {
					delete(ls, r)
				}
				// Close on a value produced by an acquire wrapper releases it
				if sel, ok := ast.Unparen(c.Fun).(*ast.SelectorExpr); ok && sel.Sel.Name == "Close" {
					if pt, ok := li.g.Where(c); ok {
						src := f.Norm(sel.X, &pt)
						for wid, w := range li.wrap {
							if strings.HasPrefix(src, wid+"[") {
								delete(ls, w[0])
							}
						}
					}
				}
			}
		}
		return true
	})
}

// At returns the locks held just before node p.I of block p.B executes.
func (li *LockInfo) At(p Point) LockSet {
	if !li.live[p.B] {
		return LockSet{}
	}
	ls := li.in[p.B].clone()
	b := li.g.Blocks[p.B]
	for i := 0; i < p.I && i < len(b.Nodes); i++ {
		li.transfer(b.Nodes[i], ls)
	}
	return ls
}

// AtNode returns the lockset before the CFG node containing n. For uses inside
// the same statement as a lock call the statement-level precision applies.
func (li *LockInfo) AtNode(n ast.Node) (LockSet, bool) {
	p, ok := li.g.Where(n)
	if !ok {
		return nil, false
	}
	return li.At(p), true
}

// DeferredUnlocks lists the lock classes released by deferred calls.
func (g *Graph) DeferredUnlocks() map[string]bool {
	out := map[string]bool{}
	for _, d := range g.Defers {
		if op, cls, _ := g.Fn.lockOp(d.Call); op < 0 {
			out[cls] = true
		}
	}
	return out
}
