package eng

import (
	"go/token"
	"go/types"
	"sort"
	"strings"

	"golang.org/x/tools/go/callgraph"
	"golang.org/x/tools/go/callgraph/cha"
	"golang.org/x/tools/go/callgraph/vta"
	"golang.org/x/tools/go/ssa"
	"golang.org/x/tools/go/ssa/ssautil"
)

// SSA is the whole-program SSA form and VTA call graph.
type SSA struct {
	Prog  *ssa.Program
	Pkgs  []*ssa.Package
	Graph *callgraph.Graph
	All   map[*ssa.Function]bool
	prog  *Prog
}

// SSA builds (once) the SSA program and VTA call graph.
func (p *Prog) SSA() *SSA {
	if p.ssa != nil {
		return p.ssa
	}
	prog, pkgs := ssautil.AllPackages(p.All, ssa.InstantiateGenerics)
	prog.Build()
	all := ssautil.AllFunctions(prog)
	g := vta.CallGraph(all, cha.CallGraph(prog))
	p.ssa = &SSA{Prog: prog, Pkgs: pkgs, Graph: g, All: all, prog: p}
	return p.ssa
}

// InRepo reports whether fn belongs to a library package in scope.
func (s *SSA) InRepo(fn *ssa.Function) bool {
	if fn == nil {
		return false
	}
	pk := fn.Package()
	if pk == nil {
		if fn.Parent() != nil {
			return s.InRepo(fn.Parent())
		}
		if o := fn.Origin(); o != nil && o != fn {
			return s.InRepo(o)
		}
		return false
	}
	path := pk.Pkg.Path()
	if !strings.HasPrefix(path, ModPath) || outOfScope(path) {
		return false
	}
	if fn.Pos().IsValid() {
		if strings.HasSuffix(s.Prog.Fset.Position(fn.Pos()).Filename, "_test.go") {
			return false
		}
	}
	return true
}

// FuncOf returns the ssa.Function for a source Fn.
func (s *SSA) FuncOf(f *Fn) *ssa.Function {
	if f.Obj != nil {
		return s.Prog.FuncValue(f.Obj)
	}
	if f.Parent != nil {
		pf := s.FuncOf(f.Parent)
		if pf == nil {
			// package-level var initialiser: search the package's init
			for fn := range s.All {
				if fn.Syntax() == f.Lit {
					return fn
				}
			}
			return nil
		}
		for _, an := range pf.AnonFuncs {
			if an.Syntax() == f.Lit {
				return an
			}
		}
	}
	return nil
}

// FnOfSSA maps an ssa.Function back to the source Fn.
func (s *SSA) FnOfSSA(fn *ssa.Function) *Fn {
	if fn == nil {
		return nil
	}
	if o, ok := fn.Object().(*types.Func); ok && o != nil {
		if f := s.prog.FnOf(o); f != nil {
			return f
		}
	}
	if syn := fn.Syntax(); syn != nil {
		for _, f := range s.prog.Fns {
			if f.Lit != nil && f.Lit == syn {
				return f
			}
		}
	}
	return nil
}

// Name is a canonical name for an ssa.Function (matches Fn.Name for source
// functions; closures are parent$N).
func (s *SSA) Name(fn *ssa.Function) string {
	if f := s.FnOfSSA(fn); f != nil {
		return f.Name
	}
	return fn.String()
}

// Reach returns the repository functions reachable from roots through
// repository functions only (calls into other modules are not followed), with
// one shortest call path per function.
func (s *SSA) Reach(roots []*ssa.Function) map[*ssa.Function][]*ssa.Function {
	out := map[*ssa.Function][]*ssa.Function{}
	var queue []*ssa.Function
	for _, r := range roots {
		if r == nil {
			continue
		}
		if _, ok := out[r]; !ok {
			out[r] = []*ssa.Function{r}
			queue = append(queue, r)
		}
	}
	for len(queue) > 0 {
		fn := queue[0]
		queue = queue[1:]
		var next []*ssa.Function
		if n := s.Graph.Nodes[fn]; n != nil {
			for _, e := range n.Out {
				next = append(next, e.Callee.Func)
			}
		}
		// closures created here may run later: treat as reachable
		for _, an := range fn.AnonFuncs {
			next = append(next, an)
		}
		sort.Slice(next, func(i, j int) bool { return next[i].String() < next[j].String() })
		for _, c := range next {
			if !s.InRepo(c) {
				continue
			}
			if _, ok := out[c]; ok {
				continue
			}
			path := append(append([]*ssa.Function{}, out[fn]...), c)
			out[c] = path
			queue = append(queue, c)
		}
	}
	return out
}

// Callers returns the repository call sites of fn.
func (s *SSA) Callers(fn *ssa.Function) []*callgraph.Edge {
	n := s.Graph.Nodes[fn]
	if n == nil {
		return nil
	}
	var out []*callgraph.Edge
	for _, e := range n.In {
		if s.InRepo(e.Caller.Func) {
			out = append(out, e)
		}
	}
	sort.Slice(out, func(i, j int) bool { return out[i].Pos() < out[j].Pos() })
	return out
}

// PathStr prints a call path.
func (s *SSA) PathStr(path []*ssa.Function) string {
	var parts []string
	for _, f := range path {
		parts = append(parts, strings.TrimPrefix(s.Name(f), ModPath))
	}
	return strings.Join(parts, " -> ")
}

var _ = token.NoPos
