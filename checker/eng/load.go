// Package eng holds the analysis engines shared by all rules: loading,
// per-function control-flow graphs with branch facts, normal forms, lock sets,
// pending-error dataflow and the SSA/VTA call graph.
package eng

import (
	"fmt"
	"go/ast"
	"go/token"
	"go/types"
	"os"
	"path/filepath"
	"sort"
	"strings"

	"golang.org/x/tools/go/packages"
)

// ModPath is the module analysed.
const ModPath = "mellium.im/xmpp"

// Prog is the loaded, type-checked repository.
type Prog struct {
	Repo   string
	Fset   *token.FileSet
	All    []*packages.Package // every package of the module that loaded
	Pkgs   []*packages.Package // library packages in scope (harness code removed)
	ByPath map[string]*packages.Package
	Fns    []*Fn
	byName map[string]*Fn
	byObj  map[*types.Func]*Fn
	byLit  map[*ast.FuncLit]*Fn

	Skipped         []string // packages out of scope
	RangeNormalised int      // indexed range loops read as value range loops (normaliseIndexedRanges)
	Ignored         []string // files excluded by build constraints

	ssa *SSA

	lockAcq map[string][2]string
	lockRel map[string]string
}

// Out-of-scope packages: harness, generators, integration drivers, examples.
func outOfScope(path string) bool {
	rel := strings.TrimPrefix(path, ModPath)
	for _, p := range []string{"/internal/integration", "/internal/xmpptest", "/internal/gen", "/examples", "/internal/cmd"} {
		if strings.HasPrefix(rel, p) {
			return true
		}
	}
	return false
}

// Load loads ./... of repo with full syntax and types. Any type error, a too
// small package count, or library files dropped by build constraints fail.
func Load(repo string) (*Prog, error) { return LoadWith(repo, nil, nil) }

// LoadWith loads the repository with replacement contents for some files
// (absolute path -> source; used by the thorough tier to analyse variants of
// the current tree without touching it) and extra environment entries (e.g.
// GOARCH=386).
func LoadWith(repo string, overlay map[string][]byte, extraEnv []string) (*Prog, error) {
	if _, err := os.Stat(filepath.Join(repo, "go.mod")); err != nil {
		return nil, fmt.Errorf("no go.mod in %s", repo)
	}
	env := append(os.Environ(), "GOFLAGS=-mod=mod", "GOPROXY=off", "GOSUMDB=off", "GOTOOLCHAIN=local", "GOWORK=off")
	env = append(env, extraEnv...)
	cfg := &packages.Config{
		Overlay: overlay,
		Mode: packages.NeedName | packages.NeedFiles | packages.NeedCompiledGoFiles | packages.NeedSyntax |
			packages.NeedTypes | packages.NeedTypesInfo | packages.NeedTypesSizes | packages.NeedImports | packages.NeedDeps | packages.NeedModule,
		Dir:   repo,
		Env:   env,
		Tests: false,
	}
	pkgs, err := packages.Load(cfg, "./...")
	if err != nil {
		return nil, err
	}
	p := &Prog{Repo: repo, ByPath: map[string]*packages.Package{}, byName: map[string]*Fn{}, byObj: map[*types.Func]*Fn{}, byLit: map[*ast.FuncLit]*Fn{}}
	var errs []string
	for _, pk := range pkgs {
		for _, e := range pk.Errors {
			errs = append(errs, pk.PkgPath+": "+e.Error())
		}
		if p.Fset == nil {
			p.Fset = pk.Fset
		}
	}
	// errors in dependencies (type errors anywhere in the import graph)
	packages.Visit(pkgs, nil, func(pk *packages.Package) {
		if strings.HasPrefix(pk.PkgPath, ModPath) {
			return
		}
		for _, e := range pk.Errors {
			errs = append(errs, pk.PkgPath+": "+e.Error())
		}
	})
	if len(errs) > 0 {
		sort.Strings(errs)
		if len(errs) > 10 {
			errs = errs[:10]
		}
		return nil, fmt.Errorf("load errors: %s", strings.Join(errs, "; "))
	}
	sort.Slice(pkgs, func(i, j int) bool { return pkgs[i].PkgPath < pkgs[j].PkgPath })
	for _, pk := range pkgs {
		p.All = append(p.All, pk)
		if outOfScope(pk.PkgPath) {
			p.Skipped = append(p.Skipped, pk.PkgPath)
			continue
		}
		for _, f := range pk.IgnoredFiles {
			b := filepath.Base(f)
			if strings.HasSuffix(b, "_test.go") || b == "tools.go" || generatorFile(f) {
				continue
			}
			p.Ignored = append(p.Ignored, f)
		}
		p.Pkgs = append(p.Pkgs, pk)
		p.ByPath[pk.PkgPath] = pk
	}
	if len(p.Pkgs) < 45 {
		return nil, fmt.Errorf("only %d library packages loaded (floor 45)", len(p.Pkgs))
	}
	for _, pk := range p.Pkgs {
		for _, file := range pk.Syntax {
			p.RangeNormalised += normaliseIndexedRanges(file, pk.TypesInfo)
		}
	}
	p.indexFuncs()
	return p, nil
}

// normaliseIndexedRanges gives the two spellings of a loop over the elements
// of a slice one syntax tree:
//
//	for i := range xs { v := xs[i]; ... }   is read as   for i, v := range xs { ... }
//
// when xs is a call-free variable or field path of slice or array type that
// the body does not assign to, and i is not assigned in the body (the element
// read at the top of an iteration is then the element the range clause would
// have produced). The rules look at range statements; without this step a
// loop rewritten from one spelling to the other would no longer be recognised.
func normaliseIndexedRanges(file *ast.File, info *types.Info) int {
	n := 0
	ast.Inspect(file, func(x ast.Node) bool {
		rs, ok := x.(*ast.RangeStmt)
		if !ok || rs.Tok != token.DEFINE || rs.Value != nil || rs.Body == nil || len(rs.Body.List) == 0 {
			return true
		}
		key, ok := rs.Key.(*ast.Ident)
		if !ok || key.Name == "_" {
			return true
		}
		t := info.TypeOf(rs.X)
		if t == nil {
			return true
		}
		switch t.Underlying().(type) {
		case *types.Slice, *types.Array:
		default:
			return true
		}
		switch ast.Unparen(rs.X).(type) {
		case *ast.Ident, *ast.SelectorExpr:
		default:
			return true
		}
		pure := true
		ast.Inspect(rs.X, func(y ast.Node) bool {
			switch y.(type) {
			case *ast.CallExpr, *ast.IndexExpr, *ast.StarExpr:
				pure = false
			}
			return pure
		})
		if !pure {
			return true
		}
		as, ok := rs.Body.List[0].(*ast.AssignStmt)
		if !ok || as.Tok != token.DEFINE || len(as.Lhs) != 1 || len(as.Rhs) != 1 {
			return true
		}
		v, ok := as.Lhs[0].(*ast.Ident)
		if !ok || v.Name == "_" {
			return true
		}
		ix, ok := ast.Unparen(as.Rhs[0]).(*ast.IndexExpr)
		if !ok {
			return true
		}
		xs := types.ExprString(rs.X)
		if types.ExprString(ix.X) != xs {
			return true
		}
		kid, ok := ast.Unparen(ix.Index).(*ast.Ident)
		if !ok || info.ObjectOf(kid) != info.ObjectOf(key) {
			return true
		}
		safe := true
		for _, st := range rs.Body.List[1:] {
			ast.Inspect(st, func(y ast.Node) bool {
				switch w := y.(type) {
				case *ast.AssignStmt:
					for _, l := range w.Lhs {
						ls := types.ExprString(l)
						if ls == xs || strings.HasPrefix(xs, ls+".") {
							safe = false
						}
						if id, ok := l.(*ast.Ident); ok && info.ObjectOf(id) == info.ObjectOf(key) {
							safe = false
						}
					}
				case *ast.IncDecStmt:
					if id, ok := w.X.(*ast.Ident); ok && info.ObjectOf(id) == info.ObjectOf(key) {
						safe = false
					}
				case *ast.UnaryExpr:
					if id, ok := ast.Unparen(w.X).(*ast.Ident); ok && w.Op == token.AND && info.ObjectOf(id) == info.ObjectOf(key) {
						safe = false
					}
				}
				return safe
			})
		}
		if !safe {
			return true
		}
		rs.Value = v
		rs.Body.List = rs.Body.List[1:]
		n++
		return true
	})
	return n
}

// generatorFile reports whether the file is a stand-alone program excluded by
// "//go:build ignore" or "tools" (code generators, never part of the library).
func generatorFile(path string) bool {
	b, err := os.ReadFile(path)
	if err != nil {
		return false
	}
	for _, line := range strings.Split(string(b), "\n") {
		line = strings.TrimSpace(line)
		if strings.HasPrefix(line, "package ") {
			return false
		}
		if line == "//go:build ignore" || line == "//go:build tools" {
			return true
		}
	}
	return false
}

// Pkg returns the package with the module-relative path rel ("" = root).
func (p *Prog) Pkg(rel string) *packages.Package {
	path := ModPath
	if rel != "" {
		path += "/" + rel
	}
	return p.ByPath[path]
}

// Pos formats a position relative to the repository root.
func (p *Prog) Pos(pos token.Pos) string {
	if !pos.IsValid() {
		return "-"
	}
	ps := p.Fset.Position(pos)
	f := ps.Filename
	if r, err := filepath.Rel(p.Repo, f); err == nil && !strings.HasPrefix(r, "..") {
		f = r
	}
	return fmt.Sprintf("%s:%d", f, ps.Line)
}

// Fn is one source function, method or function literal.
type Fn struct {
	Prog   *Prog
	Pkg    *packages.Package
	Name   string // pkgpath.Name, pkgpath.(*T).M, pkgpath.T.M, parent$N for literals
	Short  string // Name without the module path prefix
	Decl   *ast.FuncDecl
	Lit    *ast.FuncLit
	Body   *ast.BlockStmt
	Type   *ast.FuncType
	Obj    *types.Func
	Parent *Fn
	Lits   []*Fn // directly nested literals in source order
	File   *ast.File

	g *Graph
}

func (f *Fn) Info() *types.Info { return f.Pkg.TypesInfo }
func (f *Fn) Pos() token.Pos {
	if f.Decl != nil {
		return f.Decl.Pos()
	}
	return f.Lit.Pos()
}

// Sig returns the signature.
func (f *Fn) Sig() *types.Signature {
	if f.Obj != nil {
		return f.Obj.Type().(*types.Signature)
	}
	if t, ok := f.Info().Types[f.Lit]; ok {
		if s, ok := t.Type.(*types.Signature); ok {
			return s
		}
	}
	return nil
}

func funcName(obj *types.Func) string {
	sig := obj.Type().(*types.Signature)
	pkg := ""
	if obj.Pkg() != nil {
		pkg = obj.Pkg().Path()
	}
	if r := sig.Recv(); r != nil {
		t := r.Type()
		ptr := false
		if pt, ok := t.(*types.Pointer); ok {
			t = pt.Elem()
			ptr = true
		}
		tn := "?"
		if n, ok := t.(*types.Named); ok {
			tn = n.Obj().Name()
		}
		if ptr {
			return fmt.Sprintf("%s.(*%s).%s", pkg, tn, obj.Name())
		}
		return fmt.Sprintf("%s.%s.%s", pkg, tn, obj.Name())
	}
	return pkg + "." + obj.Name()
}

// FuncName is the canonical name of a function object.
func FuncName(obj *types.Func) string { return funcName(obj) }

func (p *Prog) indexFuncs() {
	for _, pk := range p.Pkgs {
		for _, file := range pk.Syntax {
			fname := p.Fset.Position(file.Pos()).Filename
			if strings.HasSuffix(fname, "_test.go") {
				continue
			}
			for _, d := range file.Decls {
				fd, ok := d.(*ast.FuncDecl)
				if !ok || fd.Body == nil {
					continue
				}
				obj, _ := pk.TypesInfo.Defs[fd.Name].(*types.Func)
				if obj == nil {
					continue
				}
				fn := &Fn{Prog: p, Pkg: pk, Name: funcName(obj), Decl: fd, Body: fd.Body, Type: fd.Type, Obj: obj, File: file}
				p.add(fn)
				p.indexLits(fn, fd.Body)
			}
			// function literals in package-level var initialisers
			for _, d := range file.Decls {
				gd, ok := d.(*ast.GenDecl)
				if !ok {
					continue
				}
				for _, sp := range gd.Specs {
					vs, ok := sp.(*ast.ValueSpec)
					if !ok {
						continue
					}
					for i, v := range vs.Values {
						name := "_"
						if i < len(vs.Names) {
							name = vs.Names[i].Name
						}
						holder := &Fn{Prog: p, Pkg: pk, Name: pk.PkgPath + ".var:" + name, File: file}
						p.indexLits(holder, v)
					}
				}
			}
		}
	}
}

func (p *Prog) add(fn *Fn) {
	fn.Short = strings.TrimPrefix(strings.TrimPrefix(fn.Name, ModPath), "/")
	if strings.HasPrefix(fn.Short, ".") {
		fn.Short = "xmpp" + fn.Short
	}
	p.Fns = append(p.Fns, fn)
	p.byName[fn.Name] = fn
	if fn.Obj != nil {
		p.byObj[fn.Obj] = fn
	}
	if fn.Lit != nil {
		p.byLit[fn.Lit] = fn
	}
}

func (p *Prog) indexLits(parent *Fn, root ast.Node) {
	n := 0
	ast.Inspect(root, func(x ast.Node) bool {
		lit, ok := x.(*ast.FuncLit)
		if !ok {
			return true
		}
		n = len(parent.Lits) + 1
		fn := &Fn{Prog: p, Pkg: parent.Pkg, Name: fmt.Sprintf("%s$%d", parent.Name, n), Lit: lit, Body: lit.Body, Type: lit.Type, Parent: parent, File: parent.File}
		parent.Lits = append(parent.Lits, fn)
		p.add(fn)
		p.indexLits(fn, lit.Body)
		return false
	})
}

// Func finds a function by module-relative package and name, e.g.
// Func("", "negotiateFeatures"), Func("", "(*Session).Serve"), Func("mux", "(*ServeMux).HandleXMPP").
func (p *Prog) Func(rel, name string) *Fn {
	path := ModPath
	if rel != "" {
		path += "/" + rel
	}
	if f := p.byName[path+"."+name]; f != nil {
		return f
	}
	// a method is found under either receiver kind: T.M and (*T).M name the
	// same anchor (moving a method between value and pointer receiver does not
	// by itself change what it does)
	if i := strings.Index(name, "."); i > 0 {
		recv, m := name[:i], name[i+1:]
		if strings.HasPrefix(recv, "(*") && strings.HasSuffix(recv, ")") {
			return p.byName[path+"."+recv[2:len(recv)-1]+"."+m]
		}
		return p.byName[path+".(*"+recv+")."+m]
	}
	return nil
}

// FnOf returns the source function for a types.Func, if it is in scope.
func (p *Prog) FnOf(obj *types.Func) *Fn {
	if obj == nil {
		return nil
	}
	return p.byObj[obj.Origin()]
}

// FnOfLit returns the Fn of a function literal.
func (p *Prog) FnOfLit(l *ast.FuncLit) *Fn { return p.byLit[l] }

// Enclosing returns the innermost Fn whose body contains pos.
func (p *Prog) Enclosing(pos token.Pos) *Fn {
	var best *Fn
	for _, f := range p.Fns {
		if f.Body == nil {
			continue
		}
		if f.Body.Pos() <= pos && pos < f.Body.End() {
			if best == nil || (best.Body.Pos() <= f.Body.Pos() && f.Body.End() <= best.Body.End()) {
				best = f
			}
		}
	}
	return best
}

// WalkBody visits the nodes of f's own body, not descending into nested
// function literals (they are separate Fns).
func (f *Fn) WalkBody(visit func(n ast.Node) bool) {
	if f.Body == nil {
		return
	}
	ast.Inspect(f.Body, func(n ast.Node) bool {
		if n == nil {
			return false
		}
		if l, ok := n.(*ast.FuncLit); ok && l != f.Lit {
			visit(n)
			return false
		}
		return visit(n)
	})
}
