package eng

import (
	"go/ast"
	"go/token"
	"go/types"
	"sort"
)

// ErrDrop is a non-nil error that may die unconsumed.
type ErrDrop struct {
	Callee string
	Pos    token.Pos
	Why    string
}

// ErrUnassigned is an error result that is never bound to a variable.
type ErrUnassigned struct {
	Callee string
	Pos    token.Pos
	Defer  bool
}

// ErrResult is the outcome of the pending-error analysis of one function.
type ErrResult struct {
	Sources    int
	Dropped    []ErrDrop
	Unassigned []ErrUnassigned
}

func isErrorType(t types.Type) bool {
	return t != nil && types.Identical(t, errorType)
}

type errSite struct {
	id     int
	callee string
	pos    token.Pos
}

// PendingErrors runs the pending-error may-analysis over f (E-err).
//
// A variable of type error assigned from a call is Pending. A pure nil test
// refines (nil edge: clean). Any other read consumes. Overwriting a pending
// variable, or reaching a return that does not read it and whose error operand
// may be nil, is a drop. Accepted idioms: conversion (the return yields a
// syntactically non-nil error) and "first error wins".
func PendingErrors(f *Fn) ErrResult {
	g := f.Graph()
	info := f.Info()
	var res ErrResult
	// variables referenced by nested literals are consumed at exit
	captured := map[*types.Var]bool{}
	f.WalkBody(func(n ast.Node) bool {
		if l, ok := n.(*ast.FuncLit); ok && l != f.Lit {
			ast.Inspect(l.Body, func(x ast.Node) bool {
				if id, ok := x.(*ast.Ident); ok {
					if v, ok := info.Uses[id].(*types.Var); ok {
						captured[v] = true
					}
				}
				return true
			})
		}
		return true
	})
	errVar := func(e ast.Expr) *types.Var {
		v := g.localVar(e)
		if v == nil || !isErrorType(v.Type()) {
			return nil
		}
		return v
	}
	sites := map[ast.Node]map[*types.Var]*errSite{}
	nsite := 0
	siteOf := func(n ast.Node, v *types.Var, call *ast.CallExpr) *errSite {
		m := sites[n]
		if m == nil {
			m = map[*types.Var]*errSite{}
			sites[n] = m
		}
		if s, ok := m[v]; ok {
			return s
		}
		nsite++
		s := &errSite{nsite, f.CalleeID(call), call.Pos()}
		m[v] = s
		return s
	}
	type state map[*types.Var]map[*errSite]bool
	clone := func(s state) state {
		o := state{}
		for v, m := range s {
			mm := map[*errSite]bool{}
			for k := range m {
				mm[k] = true
			}
			o[v] = mm
		}
		return o
	}
	dropped := map[[2]int]ErrDrop{}
	report := func(s *errSite, kind int, why string) {
		k := [2]int{s.id, kind}
		if _, ok := dropped[k]; !ok {
			dropped[k] = ErrDrop{s.callee, s.pos, why}
		}
	}
	// reads of v in node n, excluding assignment targets
	reads := func(n ast.Node, skipCond bool) map[*types.Var]bool {
		out := map[*types.Var]bool{}
		lhs := map[*ast.Ident]bool{}
		switch s := n.(type) {
		case *ast.AssignStmt:
			if s.Tok == token.ASSIGN || s.Tok == token.DEFINE {
				for _, l := range s.Lhs {
					if id, ok := ast.Unparen(l).(*ast.Ident); ok {
						lhs[id] = true
					}
				}
			}
		}
		var walk func(x ast.Node, pureNil bool)
		walk = func(x ast.Node, cond bool) {
			ast.Inspect(x, func(y ast.Node) bool {
				switch z := y.(type) {
				case *ast.FuncLit:
					return false
				case *ast.BinaryExpr:
					if cond && (z.Op == token.EQL || z.Op == token.NEQ) {
						// pure nil test: not a consumption
						if isNilIdent(info, z.Y) && errVar(z.X) != nil {
							return false
						}
						if isNilIdent(info, z.X) && errVar(z.Y) != nil {
							return false
						}
					}
				case *ast.Ident:
					if lhs[z] {
						return true
					}
					if v := errVar(z); v != nil && info.Uses[z] != nil {
						out[v] = true
					}
				}
				return true
			})
		}
		walk(n, skipCond)
		return out
	}
	isCond := func(b int, i int) bool {
		blk := g.Blocks[b]
		if len(blk.Succs) != 2 || i != len(blk.Nodes)-1 {
			return false
		}
		_, ok := blk.Nodes[i].(ast.Expr)
		return ok
	}
	transfer := func(b int, in state, final bool) state {
		cur := clone(in)
		blk := g.Blocks[b]
		for i, n := range blk.Nodes {
			for v := range reads(n, isCond(b, i)) {
				delete(cur, v)
			}
			switch s := n.(type) {
			case *ast.AssignStmt:
				if s.Tok != token.ASSIGN && s.Tok != token.DEFINE {
					break
				}
				var call *ast.CallExpr
				if len(s.Rhs) == 1 {
					call, _ = ast.Unparen(s.Rhs[0]).(*ast.CallExpr)
				}
				for li, l := range s.Lhs {
					v := errVar(l)
					if v == nil {
						continue
					}
					var src *ast.CallExpr
					if len(s.Lhs) == len(s.Rhs) {
						src, _ = ast.Unparen(s.Rhs[li]).(*ast.CallExpr)
						if src != nil {
							if tv, ok := info.Types[src.Fun]; ok && tv.IsType() {
								src = nil // conversion
							}
						}
					} else {
						src = call
					}
					if pend := cur[v]; len(pend) > 0 && final {
						for p := range pend {
							report(p, 0, "the error of "+p.callee+" (assigned at "+f.Prog.Pos(p.pos)+") is overwritten at "+f.Prog.Pos(s.Pos())+" before being tested or returned")
						}
					}
					delete(cur, v)
					if src != nil {
						cur[v] = map[*errSite]bool{siteOf(s, v, src): true}
					}
				}
			case *ast.ValueSpec:
				for vi, name := range s.Names {
					v, _ := info.Defs[name].(*types.Var)
					if v == nil || !isErrorType(v.Type()) {
						continue
					}
					var src *ast.CallExpr
					if len(s.Values) == len(s.Names) {
						src, _ = ast.Unparen(s.Values[vi]).(*ast.CallExpr)
					} else if len(s.Values) == 1 {
						src, _ = ast.Unparen(s.Values[0]).(*ast.CallExpr)
					}
					delete(cur, v)
					if src != nil {
						cur[v] = map[*errSite]bool{siteOf(s, v, src): true}
					}
				}
			case *ast.ReturnStmt:
				if !final {
					break
				}
				ei := f.ErrResultIndex()
				conv := false
				if ei >= 0 && len(s.Results) > ei && len(s.Results) == f.Sig().Results().Len() {
					if g.NilnessOf(s.Results[ei], Point{b, i}) == +1 {
						conv = true
					}
				}
				bare := len(s.Results) == 0
				for v, pend := range cur {
					if captured[v] {
						continue
					}
					if bare {
						if _, isRes := f.paramName(v); isRes {
							continue
						}
					}
					if conv {
						continue
					}
					for p := range pend {
						report(p, 1, "the error of "+p.callee+" (assigned at "+f.Prog.Pos(p.pos)+") may be non-nil at the return at "+f.Prog.Pos(s.Pos())+", which neither returns nor tests it")
					}
				}
			}
		}
		return cur
	}
	// nil-refinement on edges
	var nilVars func(e ast.Expr, pol bool) []*types.Var
	nilVars = func(e ast.Expr, pol bool) []*types.Var {
		e = ast.Unparen(e)
		switch x := e.(type) {
		case *ast.UnaryExpr:
			if x.Op == token.NOT {
				return nilVars(x.X, !pol)
			}
		case *ast.BinaryExpr:
			switch x.Op {
			case token.LAND:
				if pol {
					return append(nilVars(x.X, true), nilVars(x.Y, true)...)
				}
			case token.LOR:
				if !pol {
					return append(nilVars(x.X, false), nilVars(x.Y, false)...)
				}
			case token.EQL, token.NEQ:
				var v *types.Var
				if isNilIdent(info, x.Y) {
					v = errVar(x.X)
				} else if isNilIdent(info, x.X) {
					v = errVar(x.Y)
				}
				if v != nil && (x.Op == token.EQL) == pol {
					return []*types.Var{v}
				}
			}
		}
		return nil
	}
	edgeRefine := func(b, si int, out state) state {
		blk := g.Blocks[b]
		if len(blk.Succs) != 2 || len(blk.Nodes) == 0 {
			return out
		}
		cond, ok := blk.Nodes[len(blk.Nodes)-1].(ast.Expr)
		if !ok {
			return out
		}
		var vs []*types.Var
		switch p := g.parent[cond].(type) {
		case *ast.IfStmt, *ast.ForStmt:
			vs = nilVars(cond, si == 0)
		case *ast.CaseClause:
			if sw, ok := g.parent[g.parent[p]].(*ast.SwitchStmt); ok {
				if sw.Tag == nil {
					vs = nilVars(cond, si == 0)
				} else if si == 0 && isNilIdent(info, cond) {
					if v := errVar(sw.Tag); v != nil {
						vs = []*types.Var{v}
					}
				}
			}
		}
		if len(vs) == 0 {
			return out
		}
		o := clone(out)
		for _, v := range vs {
			delete(o, v)
		}
		return o
	}
	// fixpoint
	nb := len(g.Blocks)
	ins := make([]state, nb)
	for i := range ins {
		ins[i] = state{}
	}
	changed := true
	for iter := 0; changed && iter < 50; iter++ {
		changed = false
		for _, blk := range g.Blocks {
			if !blk.Live {
				continue
			}
			b := int(blk.Index)
			out := transfer(b, ins[b], false)
			for si, s := range blk.Succs {
				o := edgeRefine(b, si, out)
				t := ins[s.Index]
				for v, m := range o {
					if t[v] == nil {
						t[v] = map[*errSite]bool{}
					}
					for k := range m {
						if !t[v][k] {
							t[v][k] = true
							changed = true
						}
					}
				}
			}
		}
	}
	for _, blk := range g.Blocks {
		if blk.Live {
			transfer(int(blk.Index), ins[blk.Index], true)
		}
	}
	res.Sources = nsite
	var keys [][2]int
	for k := range dropped {
		keys = append(keys, k)
	}
	sort.Slice(keys, func(i, j int) bool {
		if keys[i][0] != keys[j][0] {
			return keys[i][0] < keys[j][0]
		}
		return keys[i][1] < keys[j][1]
	})
	for _, k := range keys {
		res.Dropped = append(res.Dropped, dropped[k])
	}
	// unassigned error results
	hasErr := func(call *ast.CallExpr) bool {
		t := info.TypeOf(call)
		switch tt := t.(type) {
		case *types.Tuple:
			return tt.Len() > 0 && isErrorType(tt.At(tt.Len()-1).Type())
		default:
			return isErrorType(t)
		}
	}
	f.WalkBody(func(n ast.Node) bool {
		switch s := n.(type) {
		case *ast.ExprStmt:
			if call, ok := ast.Unparen(s.X).(*ast.CallExpr); ok && hasErr(call) {
				res.Unassigned = append(res.Unassigned, ErrUnassigned{f.CalleeID(call), call.Pos(), false})
			}
		case *ast.DeferStmt:
			if hasErr(s.Call) {
				id := f.CalleeID(s.Call)
				if sel, ok := ast.Unparen(s.Call.Fun).(*ast.SelectorExpr); ok {
					if pt, ok := g.Where(s); ok {
						id += "[" + f.Norm(sel.X, &pt) + "]"
					}
				}
				res.Unassigned = append(res.Unassigned, ErrUnassigned{"defer " + id, s.Call.Pos(), true})
			}
		case *ast.GoStmt:
			if hasErr(s.Call) {
				res.Unassigned = append(res.Unassigned, ErrUnassigned{"go " + f.CalleeID(s.Call), s.Call.Pos(), false})
			}
		case *ast.AssignStmt:
			if len(s.Rhs) == 1 {
				if call, ok := ast.Unparen(s.Rhs[0]).(*ast.CallExpr); ok && hasErr(call) {
					last := s.Lhs[len(s.Lhs)-1]
					if id, ok := last.(*ast.Ident); ok && id.Name == "_" {
						if tv, ok := info.Types[call.Fun]; !ok || !tv.IsType() {
							res.Unassigned = append(res.Unassigned, ErrUnassigned{"_ = " + f.CalleeID(call), call.Pos(), false})
						}
					}
				}
			}
		}
		return true
	})
	return res
}

func isNilIdent(info *types.Info, e ast.Expr) bool {
	id, ok := ast.Unparen(e).(*ast.Ident)
	if !ok {
		return false
	}
	_, isNil := info.Uses[id].(*types.Nil)
	return isNil
}
