package eng

import (
	"fmt"
	"go/ast"
	"go/constant"
	"go/token"
	"go/types"
	"strings"

	"golang.org/x/tools/go/types/typeutil"
)

// RelPkg shortens a package path: module packages lose the module prefix
// (root = "xmpp"), others are kept.
func RelPkg(path string) string {
	if path == ModPath {
		return "xmpp"
	}
	if strings.HasPrefix(path, ModPath+"/") {
		return strings.TrimPrefix(path, ModPath+"/")
	}
	return path
}

func qual(p *types.Package) string { return RelPkg(p.Path()) }

// TypeStr prints a type with module-relative package qualifiers.
func TypeStr(t types.Type) string {
	if t == nil {
		return "?"
	}
	return types.TypeString(t, qual)
}

// ObjID is the canonical name of a package-level object or a method/field.
func ObjID(o types.Object) string {
	switch o := o.(type) {
	case *types.Func:
		sig := o.Type().(*types.Signature)
		if r := sig.Recv(); r != nil {
			t := r.Type()
			if pt, ok := t.(*types.Pointer); ok {
				t = pt.Elem()
			}
			if n, ok := t.(*types.Named); ok {
				pk := ""
				if n.Obj().Pkg() != nil {
					pk = qual(n.Obj().Pkg()) + "."
				}
				return pk + n.Obj().Name() + "." + o.Name()
			}
			// interface method declared in an anonymous interface
			return "iface." + o.Name()
		}
		if o.Pkg() == nil {
			return o.Name()
		}
		return qual(o.Pkg()) + "." + o.Name()
	case *types.Builtin:
		return "builtin." + o.Name()
	case *types.Nil:
		return "nil"
	}
	if o.Pkg() == nil {
		return o.Name()
	}
	return qual(o.Pkg()) + "." + o.Name()
}

// CalleeID resolves the callee of call to a canonical identifier:
//
//	pkg.Func, pkg.Type.Method, builtin.len, conv:T, field:pkg.Type.Field (a
//	func-typed struct field being called), local:<name> (a local func value).
func (f *Fn) CalleeID(call *ast.CallExpr) string {
	info := f.Info()
	fun := ast.Unparen(call.Fun)
	if tv, ok := info.Types[fun]; ok && tv.IsType() {
		return "conv:" + TypeStr(tv.Type)
	}
	if o := typeutil.Callee(info, call); o != nil {
		switch fo := o.(type) {
		case *types.Func:
			return ObjID(fo.Origin())
		case *types.Builtin:
			return ObjID(fo)
		}
	}
	switch x := fun.(type) {
	case *ast.SelectorExpr:
		if sel, ok := info.Selections[x]; ok && sel.Kind() == types.FieldVal {
			return "field:" + fieldOwner(sel) + "." + x.Sel.Name
		}
		if o := info.Uses[x.Sel]; o != nil {
			return "var:" + ObjID(o)
		}
	case *ast.Ident:
		if o := info.Uses[x]; o != nil {
			if o.Parent() == o.Pkg().Scope() {
				return "var:" + ObjID(o)
			}
			return "local:" + o.Name()
		}
	case *ast.FuncLit:
		if lf := f.Prog.FnOfLit(x); lf != nil {
			return "lit:" + lf.Short
		}
	}
	return "dynamic"
}

func fieldOwner(sel *types.Selection) string {
	// the struct type that declares the selected field
	t := sel.Recv()
	idx := sel.Index()
	var owner types.Type = t
	for i, ix := range idx {
		if pt, ok := owner.Underlying().(*types.Pointer); ok {
			owner = pt.Elem()
		}
		st, ok := owner.Underlying().(*types.Struct)
		if !ok {
			break
		}
		if i == len(idx)-1 {
			break
		}
		owner = st.Field(ix).Type()
	}
	if pt, ok := owner.(*types.Pointer); ok {
		owner = pt.Elem()
	}
	if n, ok := owner.(*types.Named); ok {
		pk := ""
		if n.Obj().Pkg() != nil {
			pk = qual(n.Obj().Pkg()) + "."
		}
		return pk + n.Obj().Name()
	}
	return "struct"
}

// ConstVal returns the constant value of e, if any.
func (f *Fn) ConstVal(e ast.Expr) constant.Value {
	if tv, ok := f.Info().Types[e]; ok {
		return tv.Value
	}
	return nil
}

// ConstInt returns the integer constant value of e.
func (f *Fn) ConstInt(e ast.Expr) (int64, bool) {
	v := f.ConstVal(e)
	if v == nil || v.Kind() != constant.Int {
		return 0, false
	}
	return constant.Int64Val(v)
}

// ConstStr returns the string constant value of e.
func (f *Fn) ConstStr(e ast.Expr) (string, bool) {
	v := f.ConstVal(e)
	if v == nil || v.Kind() != constant.String {
		return "", false
	}
	return constant.StringVal(v), true
}

// ObjOf returns the object an identifier or qualified identifier denotes.
func (f *Fn) ObjOf(e ast.Expr) types.Object {
	switch x := ast.Unparen(e).(type) {
	case *ast.Ident:
		if o := f.Info().Uses[x]; o != nil {
			return o
		}
		return f.Info().Defs[x]
	case *ast.SelectorExpr:
		if _, ok := f.Info().Selections[x]; !ok {
			return f.Info().Uses[x.Sel]
		}
	}
	return nil
}

// IsLocal reports whether o is a variable declared inside a function
// (parameter, result or local).
func IsLocal(o types.Object) bool {
	v, ok := o.(*types.Var)
	if !ok || v.IsField() {
		return false
	}
	return v.Pkg() == nil || v.Parent() != v.Pkg().Scope()
}

// normalizer prints expressions in a form that is stable under renaming of
// locals: parameters are p<i>/recv, locals are expanded through their unique
// reaching definition (when a graph point is given) or printed as local<T>.
type normalizer struct {
	f     *Fn
	depth int
	deps  *[]*types.Var // locals expanded through their unique reaching definition
}

// Norm prints e in normal form; at is the program point of the use (nil: no
// expansion of locals).
func (f *Fn) Norm(e ast.Expr, at *Point) string {
	n := normalizer{f: f}
	return n.expr(e, at)
}

func (f *Fn) paramName(v *types.Var) (string, bool) {
	sig := f.Sig()
	if sig == nil {
		return "", false
	}
	if r := sig.Recv(); r != nil && r == v {
		return "recv", true
	}
	for i := 0; i < sig.Params().Len(); i++ {
		if sig.Params().At(i) == v {
			return fmt.Sprintf("p%d", i), true
		}
	}
	for i := 0; i < sig.Results().Len(); i++ {
		if sig.Results().At(i) == v {
			return fmt.Sprintf("r%d", i), true
		}
	}
	return "", false
}

func (n *normalizer) ident(id *ast.Ident, at *Point) string {
	f := n.f
	info := f.Info()
	o := info.Uses[id]
	if o == nil {
		o = info.Defs[id]
	}
	if o == nil {
		return id.Name
	}
	switch o := o.(type) {
	case *types.Const:
		if o.Pkg() == nil {
			return o.Name() // true, false, iota
		}
		return ObjID(o)
	case *types.Nil:
		return "nil"
	case *types.Func, *types.Builtin, *types.TypeName, *types.PkgName:
		return ObjID(o)
	case *types.Var:
		if !IsLocal(o) {
			return "var:" + ObjID(o)
		}
		// parameter of this function?
		if s, ok := f.paramName(o); ok {
			// parameters that are reassigned fall through to the local treatment
			if at == nil || !f.Graph().assigned[o] {
				return s
			}
		}
		// captured from an enclosing function
		if f.Lit != nil && !(f.Lit.Pos() <= o.Pos() && o.Pos() < f.Lit.End()) {
			for p := f.Parent; p != nil; p = p.Parent {
				if s, ok := p.paramName(o); ok && p.Body != nil {
					return "outer." + s
				}
			}
			return "captured<" + TypeStr(o.Type()) + ">"
		}
		if at != nil && n.depth < 6 {
			if d := f.Graph().UniqueDef(o, *at); d != nil {
				if s, ok := n.defExpr(d); ok {
					if n.deps != nil && d.Kind != DefParam && d.Kind != DefTypeSwitch {
						*n.deps = append(*n.deps, o)
					}
					return s
				}
			}
		}
		return "local:" + f.LocalName(o) + "<" + TypeStr(o.Type()) + ">"
	}
	return id.Name
}

// defExpr prints the value a definition gives its variable.
func (n *normalizer) defExpr(d *Def) (string, bool) {
	n.depth++
	defer func() { n.depth-- }()
	at := d.At
	switch d.Kind {
	case DefPlain:
		if d.RHS == nil || freshObject(n.f, d.RHS) {
			return "", false
		}
		s := n.expr(d.RHS, &at)
		if len(s) > 240 {
			return "", false
		}
		return s, true
	case DefTuple:
		return fmt.Sprintf("%s#%d", n.expr(d.RHS, &at), d.Index), true
	case DefCommaOk:
		if d.Index == 1 {
			return "commaok(" + n.expr(d.RHS, &at) + ")", true
		}
		return n.expr(d.RHS, &at), true
	case DefZero:
		return "zero<" + TypeStr(d.Var.Type()) + ">", true
	case DefRange:
		if d.Index == 0 {
			return "rangekey(" + n.expr(d.RHS, &at) + ")", true
		}
		return "rangeval(" + n.expr(d.RHS, &at) + ")", true
	case DefTypeSwitch:
		return n.expr(d.RHS, &at), true
	}
	return "", false
}

func (n *normalizer) expr(e ast.Expr, at *Point) string {
	f := n.f
	info := f.Info()
	e = ast.Unparen(e)
	// constant folding, except for plain references to named constants
	if tv, ok := info.Types[e]; ok && tv.Value != nil {
		switch x := e.(type) {
		case *ast.Ident:
			return n.ident(x, at)
		case *ast.SelectorExpr:
			if o := info.Uses[x.Sel]; o != nil {
				if _, ok := o.(*types.Const); ok {
					return ObjID(o)
				}
			}
		}
		return tv.Value.ExactString()
	}
	switch x := e.(type) {
	case *ast.Ident:
		return n.ident(x, at)
	case *ast.BasicLit:
		return x.Value
	case *ast.SelectorExpr:
		if _, ok := info.Selections[x]; !ok {
			// qualified identifier
			if o := info.Uses[x.Sel]; o != nil {
				switch o.(type) {
				case *types.Var:
					return "var:" + ObjID(o)
				}
				return ObjID(o)
			}
		}
		return n.expr(x.X, at) + "." + x.Sel.Name
	case *ast.CallExpr:
		id := f.CalleeID(x)
		var args []string
		for _, a := range x.Args {
			args = append(args, n.expr(a, at))
		}
		fun := ast.Unparen(x.Fun)
		if sel, ok := fun.(*ast.SelectorExpr); ok {
			if s, ok := info.Selections[sel]; ok && (s.Kind() == types.MethodVal || s.Kind() == types.FieldVal) {
				// method call or func-field call: show the receiver
				return id + "[" + n.expr(sel.X, at) + "](" + strings.Join(args, ",") + ")"
			}
		}
		return id + "(" + strings.Join(args, ",") + ")"
	case *ast.IndexExpr:
		// xs[i] with i the key of a range over xs is the element of that
		// iteration: the same normal form as the range value
		base, idx := n.expr(x.X, at), n.expr(x.Index, at)
		if idx == "rangekey("+base+")" {
			if t := n.f.Info().TypeOf(x.X); t != nil {
				switch t.Underlying().(type) {
				case *types.Slice, *types.Array:
					return "rangeval(" + base + ")"
				}
			}
		}
		return base + "[" + idx + "]"
	case *ast.SliceExpr:
		part := func(e ast.Expr) string {
			if e == nil {
				return ""
			}
			return n.expr(e, at)
		}
		s := n.expr(x.X, at) + "[" + part(x.Low) + ":" + part(x.High)
		if x.Slice3 {
			s += ":" + part(x.Max)
		}
		return s + "]"
	case *ast.StarExpr:
		return "*" + n.expr(x.X, at)
	case *ast.UnaryExpr:
		return x.Op.String() + n.expr(x.X, at)
	case *ast.BinaryExpr:
		if str, empty, ok := StrLenTest(n.f, x); ok {
			op := " == "
			if !empty {
				op = " != "
			}
			return "(" + n.expr(str, at) + op + "\"\")"
		}
		a, b := n.expr(x.X, at), n.expr(x.Y, at)
		if x.Op == token.EQL || x.Op == token.NEQ {
			// == and != are symmetric: print the constant-like side second
			a, b = eqOrder(a, b)
		}
		return "(" + a + " " + x.Op.String() + " " + b + ")"
	case *ast.TypeAssertExpr:
		if x.Type == nil {
			return n.expr(x.X, at) + ".(type)"
		}
		return n.expr(x.X, at) + ".(" + TypeStr(info.TypeOf(x.Type)) + ")"
	case *ast.CompositeLit:
		var parts []string
		for _, el := range x.Elts {
			if kv, ok := el.(*ast.KeyValueExpr); ok {
				k := ""
				if id, ok := kv.Key.(*ast.Ident); ok {
					k = id.Name
				} else {
					k = n.expr(kv.Key, at)
				}
				parts = append(parts, k+":"+n.expr(kv.Value, at))
			} else {
				parts = append(parts, n.expr(el, at))
			}
		}
		return TypeStr(info.TypeOf(x)) + "{" + strings.Join(parts, ",") + "}"
	case *ast.FuncLit:
		if lf := f.Prog.FnOfLit(x); lf != nil {
			return "lit:" + lf.Short
		}
		return "func{}"
	case *ast.KeyValueExpr:
		return n.expr(x.Key, at) + ":" + n.expr(x.Value, at)
	case *ast.ArrayType, *ast.MapType, *ast.ChanType, *ast.FuncType, *ast.InterfaceType, *ast.StructType:
		return TypeStr(info.TypeOf(x))
	}
	return fmt.Sprintf("<%T>", e)
}

// freshObject reports whether e constructs a new object (composite literal,
// function literal, make/new): locals holding such values are not expanded.
func freshObject(f *Fn, e ast.Expr) bool {
	e = ast.Unparen(e)
	if u, ok := e.(*ast.UnaryExpr); ok && u.Op == token.AND {
		e = ast.Unparen(u.X)
	}
	switch x := e.(type) {
	case *ast.CompositeLit, *ast.FuncLit:
		return true
	case *ast.CallExpr:
		switch f.CalleeID(x) {
		case "builtin.make", "builtin.new":
			return true
		}
	}
	return false
}

// FieldPath returns the chain of field names selected from the root variable
// of e together with the root's named type: "Session.out.e" for s.out.e,
// lwc.w.out.e -> "lockWriteCloser.w.out.e". ok is false when e is not a pure
// field chain.
func (f *Fn) FieldPath(e ast.Expr) (string, bool) {
	var names []string
	cur := ast.Unparen(e)
	for {
		switch x := cur.(type) {
		case *ast.SelectorExpr:
			if s, ok := f.Info().Selections[x]; ok && s.Kind() == types.FieldVal {
				names = append([]string{x.Sel.Name}, names...)
				cur = ast.Unparen(x.X)
				continue
			}
			return "", false
		case *ast.StarExpr:
			cur = ast.Unparen(x.X)
			continue
		case *ast.Ident:
			if len(names) == 0 {
				return "", false
			}
			t := f.Info().TypeOf(x)
			return typeBase(t) + "." + strings.Join(names, "."), true
		default:
			// root is a call or other expression: use its type
			if len(names) == 0 {
				return "", false
			}
			t := f.Info().TypeOf(cur.(ast.Expr))
			return typeBase(t) + "." + strings.Join(names, "."), true
		}
	}
}

// FieldClass resolves e (a field selection) to the declaring struct and field
// name of its LAST selector: "xmpp.Session.state". Embedded/anonymous structs
// yield their path from the nearest named type ("xmpp.Session.out.e").
func (f *Fn) FieldClass(e ast.Expr) (string, bool) {
	var names []string
	cur := ast.Unparen(e)
	for {
		switch x := cur.(type) {
		case *ast.StarExpr:
			cur = ast.Unparen(x.X)
			continue
		case *ast.SelectorExpr:
			s, ok := f.Info().Selections[x]
			if !ok || s.Kind() != types.FieldVal {
				return "", false
			}
			names = append([]string{x.Sel.Name}, names...)
			// is the receiver a named type? then stop.
			rt := f.Info().TypeOf(x.X)
			if pt, ok := rt.Underlying().(*types.Pointer); ok {
				rt = pt.Elem()
			}
			if pt, ok := rt.(*types.Pointer); ok {
				rt = pt.Elem()
			}
			if n, ok := rt.(*types.Named); ok {
				// promoted through embedded fields: resolve the real owner path
				if len(s.Index()) > 1 {
					owner := types.Type(n)
					var path []string
					for i, ix := range s.Index() {
						if pt, ok := owner.Underlying().(*types.Pointer); ok {
							owner = pt.Elem()
						}
						st, ok := owner.Underlying().(*types.Struct)
						if !ok {
							break
						}
						fld := st.Field(ix)
						if i < len(s.Index())-1 {
							if nn, ok := derefNamed(fld.Type()); ok {
								owner = nn
								n = nn
								path = nil
								continue
							}
							path = append(path, fld.Name())
							owner = fld.Type()
						}
					}
					names = append(path, names...)
				}
				pk := ""
				if n.Obj().Pkg() != nil {
					pk = qual(n.Obj().Pkg()) + "."
				}
				return pk + n.Obj().Name() + "." + strings.Join(names, "."), true
			}
			cur = ast.Unparen(x.X)
			continue
		default:
			return "", false
		}
	}
}

func derefNamed(t types.Type) (*types.Named, bool) {
	if pt, ok := t.(*types.Pointer); ok {
		t = pt.Elem()
	}
	n, ok := t.(*types.Named)
	return n, ok
}

func typeBase(t types.Type) string {
	if t == nil {
		return "?"
	}
	if pt, ok := t.Underlying().(*types.Pointer); ok {
		t = pt.Elem()
	}
	if pt, ok := t.(*types.Pointer); ok {
		t = pt.Elem()
	}
	if n, ok := t.(*types.Named); ok {
		return n.Obj().Name()
	}
	return TypeStr(t)
}

// Glob matches s against a pattern where '*' matches any (possibly empty)
// substring.
func Glob(pat, s string) bool {
	parts := strings.Split(pat, "*")
	if len(parts) == 1 {
		return pat == s
	}
	if !strings.HasPrefix(s, parts[0]) {
		return false
	}
	s = s[len(parts[0]):]
	for i := 1; i < len(parts)-1; i++ {
		j := strings.Index(s, parts[i])
		if j < 0 {
			return false
		}
		s = s[j+len(parts[i]):]
	}
	return strings.HasSuffix(s, parts[len(parts)-1])
}

var _ = token.NoPos

// ObjID0 is the callee id under which calls to f appear (CalleeID).
func ObjID0(f *Fn) string {
	if f.Obj == nil {
		return ""
	}
	return ObjID(f.Obj)
}

// DefText prints the value definition d gives its variable, in normal form.
func (f *Fn) DefText(d *Def) (string, bool) {
	n := normalizer{f: f}
	return n.defExpr(d)
}

// LocalName is the name under which an unexpanded local is printed: the
// positional name (p<i>, r<i>, recv) for parameters and results of f (or of an
// enclosing function), so that normal forms do not depend on how a parameter
// or named result is spelled; the declared name for other locals.
func (f *Fn) LocalName(v *types.Var) string {
	for p := f; p != nil; p = p.Parent {
		if s, ok := p.paramName(v); ok {
			if p == f {
				return s
			}
			return "outer." + s
		}
	}
	return v.Name()
}
