package eng

import (
	"encoding/json"
	"fmt"
	"go/token"
	"os"
	"path/filepath"
	"sort"
	"strings"
	"time"
)

// Obligation is one decided instance of a rule.
type Obligation struct {
	ID        string `json:"id"`  // rule id, e.g. C01.1
	Key       string `json:"key"` // rule | function | construct  (never a line number)
	Func      string `json:"func"`
	Construct string `json:"construct"`
	Rule      string `json:"rule"`
	Pos       string `json:"pos"`
	OK        bool   `json:"ok"`
	Known     bool   `json:"known_finding,omitempty"`
	Reason    string `json:"reason,omitempty"`
}

// Report collects the obligations of one property check.
type Report struct {
	Prog     *Prog
	Property string
	Tier     string
	Obls     []*Obligation
	Notes    []string
	Extra    map[string]interface{} // additional coverage keys (thorough tier)
	Floors   []string
	start    time.Time
	keys     map[string]int
}

func NewReport(p *Prog, property, tier string) *Report {
	return &Report{Prog: p, Property: property, Tier: tier, start: time.Now(), keys: map[string]int{}}
}

// Check records an obligation.
func (r *Report) Check(id string, fn *Fn, construct, rule string, pos token.Pos, ok bool, reason string) bool {
	fname := "-"
	if fn != nil {
		fname = fn.Short
	}
	return r.CheckNamed(id, fname, construct, rule, pos, ok, reason)
}

func (r *Report) CheckNamed(id, fname, construct, rule string, pos token.Pos, ok bool, reason string) bool {
	key := id + "|" + fname + "|" + construct
	r.keys[key]++
	if n := r.keys[key]; n > 1 {
		key = fmt.Sprintf("%s#%d", key, n)
	}
	o := &Obligation{ID: id, Key: key, Func: fname, Construct: construct, Rule: rule, OK: ok}
	if r.Prog != nil {
		o.Pos = r.Prog.Pos(pos)
	}
	if !ok {
		o.Reason = reason
	}
	r.Obls = append(r.Obls, o)
	return ok
}

// Floor fails when a rule matched fewer instances than confirmed by hand.
func (r *Report) Floor(id, what string, got, floor int) {
	r.CheckNamed(id, "-", "floor:"+what, "instance floor", token.NoPos, got >= floor,
		fmt.Sprintf("%s: matched %d instances, floor is %d (rule would pass vacuously)", what, got, floor))
}

// Ceil fails when a rule matched more instances than allowed.
func (r *Report) Ceil(id, what string, got, ceil int) {
	r.CheckNamed(id, "-", "ceiling:"+what, "instance ceiling", token.NoPos, got <= ceil,
		fmt.Sprintf("%s: matched %d instances, ceiling is %d", what, got, ceil))
}

// Unresolved records a missing anchor (always a failure).
func (r *Report) Unresolved(id, anchor string) {
	r.CheckNamed(id, "-", "anchor:"+anchor, "anchor resolution", token.NoPos, false, "anchor not found: "+anchor)
}

func (r *Report) Note(format string, a ...interface{}) {
	r.Notes = append(r.Notes, fmt.Sprintf(format, a...))
}

// Finding is an entry of known_findings.json.
type Finding struct {
	Property string `json:"property"`
	Key      string `json:"key"`
	What     string `json:"what"`
	Status   string `json:"status"` // "open" or "fixed: <commit>"
	Ref      string `json:"ref,omitempty"`
}

func LoadFindings(path string) ([]Finding, error) {
	b, err := os.ReadFile(path)
	if err != nil {
		if os.IsNotExist(err) {
			return nil, nil
		}
		return nil, err
	}
	var fs struct {
		Findings []Finding `json:"findings"`
	}
	if err := json.Unmarshal(b, &fs); err != nil {
		return nil, err
	}
	return fs.Findings, nil
}

// Meta describes a property check for the evidence file.
type Meta struct {
	Explanation string
	NotDecided  string
	Trusted     []string
	Assumptions []string
}

// Finish applies known findings, writes evidence and the violations file and
// returns the process exit code.
func (r *Report) Finish(verifDir string, meta Meta, seed int64, cmd string) int {
	findings, ferr := LoadFindings(filepath.Join(verifDir, "known_findings.json"))
	if ferr != nil {
		r.CheckNamed(r.Property+".0", "-", "known_findings.json", "load", token.NoPos, false, ferr.Error())
	}
	open := map[string]Finding{}
	for _, f := range findings {
		if f.Property == r.Property && f.Status == "open" {
			open[f.Key] = f
		}
	}
	var viol []*Obligation
	discharged := 0
	distinct := map[string]bool{}
	for _, o := range r.Obls {
		distinct[o.ID+"|"+o.Func+"|"+o.Construct] = true
		if o.OK {
			discharged++
			continue
		}
		if f, ok := open[o.Key]; ok {
			o.Known = true
			fmt.Printf("KNOWN-FINDING: property=%s %s %s\n", r.Property, o.Key, f.What)
			continue
		}
		viol = append(viol, o)
	}
	evDir := filepath.Join(verifDir, "evidence")
	os.MkdirAll(evDir, 0o755)
	violPath := filepath.Join(evDir, r.Property+".violations.txt")
	os.Remove(violPath)
	if len(viol) > 0 {
		var sb strings.Builder
		for _, o := range viol {
			fmt.Fprintf(&sb, "%s %s %s [%s] %s: %s\n", o.Pos, o.Func, o.ID, o.Rule, o.Construct, o.Reason)
		}
		os.WriteFile(violPath, []byte(sb.String()), 0o644)
	}
	// the full obligation list (what was analysed), one line per instance
	{
		var sb strings.Builder
		for _, o := range r.Obls {
			st := "ok"
			if o.Known {
				st = "known"
			} else if !o.OK {
				st = "FAIL"
			}
			fmt.Fprintf(&sb, "%s\t%s\t%s\n", st, o.Pos, o.Key)
		}
		os.WriteFile(filepath.Join(evDir, r.Property+".obligations.txt"), []byte(sb.String()), 0o644)
	}
	// samples: every failing obligation and up to 40 passing ones
	var samples []interface{}
	n := 0
	for _, o := range r.Obls {
		if !o.OK || n < 60 {
			samples = append(samples, o)
			if o.OK {
				n++
			}
		}
	}
	ids := map[string]bool{}
	for _, o := range r.Obls {
		ids[o.ID] = true
	}
	var idl []string
	for k := range ids {
		idl = append(idl, k)
	}
	sort.Strings(idl)
	expl := meta.Explanation
	if meta.NotDecided != "" {
		expl += " NOT DECIDED by this check: " + meta.NotDecided
	}
	if meta.Assumptions == nil {
		meta.Assumptions = []string{"the loaded packages are the ones the build compiles (no library file is excluded by build constraints: checked)"}
	}
	if meta.Trusted == nil {
		meta.Trusted = []string{}
	}
	npk, nfn := 0, 0
	if r.Prog != nil {
		npk, nfn = len(r.Prog.Pkgs), len(r.Prog.Fns)
	}
	cov := map[string]interface{}{
		"obligations":         len(r.Obls),
		"discharged":          discharged,
		"evaluations":         len(r.Obls),
		"distinct_nontrivial": len(distinct),
		"rule":                "one obligation per (rule, function, construct) instance found in /repo's current source; distinct = distinct keys; an instance is non-trivial because each is a resolved construct of the analysed tree",
		"samples":             samples,
		"rules":               idl,
		"explanation":         expl,
		"checker_cmd":         cmd,
		"trusted_base":        meta.Trusted,
		"packages_analysed":   npk,
		"functions_indexed":   nfn,
		"notes":               r.Notes,
		"known_findings":      len(r.Obls) - discharged - len(viol),
		"exhaustive":          false,
	}
	for k, v := range r.Extra {
		cov[k] = v
	}
	ev := map[string]interface{}{
		"property_id": r.Property,
		"tier":        r.Tier,
		"seed":        seed,
		"level":       "other",
		"coverage":    cov,
		"assumptions": meta.Assumptions,
		"wall_s":      time.Since(r.start).Seconds(),
		"violations":  len(viol),
	}
	b, _ := json.MarshalIndent(ev, "", " ")
	os.WriteFile(filepath.Join(evDir, r.Property+".json"), append(b, '\n'), 0o644)
	fmt.Printf("%s tier=%s obligations=%d discharged=%d known=%d violations=%d\n", r.Property, r.Tier, len(r.Obls), discharged, len(r.Obls)-discharged-len(viol), len(viol))
	if len(viol) > 0 {
		for _, o := range viol {
			fmt.Printf("  FAIL %s %s %s: %s\n", o.Pos, o.Key, o.Rule, o.Reason)
		}
		fmt.Printf("VIOLATION property=%s replay=%s\n", r.Property, violPath)
		return 1
	}
	return 0
}
