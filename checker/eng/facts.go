package eng

import (
	"go/ast"
	"go/constant"
	"go/token"
	"go/types"
	"sort"
	"strings"

	"golang.org/x/tools/go/cfg"
)

// Form is a negation-normal-form formula over atoms.
type Form struct {
	Op   byte // 'a' atom, '&', '|'
	S    string
	Neg  bool
	Kids []*Form
	Vars []*types.Var // unexpanded locals the atom mentions (kill candidates)
	Deps []*types.Var // locals the atom's text was expanded through (the fact is about that definition)
}

// String is the canonical signed form.
func (fm *Form) String() string {
	switch fm.Op {
	case 'a':
		if fm.Neg {
			return "!" + fm.S
		}
		return fm.S
	}
	var ks []string
	for _, k := range fm.Kids {
		ks = append(ks, k.String())
	}
	sort.Strings(ks)
	if fm.Op == '&' {
		return "and(" + strings.Join(ks, " & ") + ")"
	}
	return "or(" + strings.Join(ks, " | ") + ")"
}

// Atom is one fact: a canonical string with the unexpanded locals it mentions.
type Atom struct {
	S    string // signed: "x" or "!x"
	Vars []*types.Var
	Deps []*types.Var
}

// Implied returns the atoms that hold when fm is true: an atom yields itself,
// a conjunction the union of its children's, a disjunction itself (as one
// compound atom).
func (fm *Form) Implied() []Atom {
	switch fm.Op {
	case 'a':
		return []Atom{{fm.String(), fm.Vars, fm.Deps}}
	case '&':
		var out []Atom
		for _, k := range fm.Kids {
			out = append(out, k.Implied()...)
		}
		return out
	}
	var vs, ds []*types.Var
	for _, k := range fm.Kids {
		vs = append(vs, k.allVars()...)
		ds = append(ds, k.allDeps()...)
	}
	return []Atom{{fm.String(), vs, ds}}
}

func (fm *Form) allDeps() []*types.Var {
	if fm.Op == 'a' {
		return fm.Deps
	}
	var vs []*types.Var
	for _, k := range fm.Kids {
		vs = append(vs, k.allDeps()...)
	}
	return vs
}

func (fm *Form) allVars() []*types.Var {
	if fm.Op == 'a' {
		return fm.Vars
	}
	var vs []*types.Var
	for _, k := range fm.Kids {
		vs = append(vs, k.allVars()...)
	}
	return vs
}

// Negate returns the signed negation of an atom string.
func Negate(s string) string {
	if strings.HasPrefix(s, "!") {
		return s[1:]
	}
	return "!" + s
}

type former struct {
	g       *Graph
	depth   int
	pending []*types.Var // deps collected by norm since the last atom
	inherit []*types.Var // boolean locals being expanded (stack)
}

// Formula builds the NNF of "e is pol" as evaluated at point at.
func (g *Graph) Formula(e ast.Expr, pol bool, at Point) *Form {
	fr := former{g: g}
	return fr.form(e, pol, at)
}

// isConstLike: literals, nil, and references to package-level constants or
// variables (pkg.Name) sort after everything else in eq(..) atoms.
func isConstLike(s string) bool {
	if s == "nil" || s == "true" || s == "false" || s == "" {
		return true
	}
	c := s[0]
	if c == '"' || c == '\'' || (c >= '0' && c <= '9') || c == '-' {
		return true
	}
	t := strings.TrimPrefix(s, "var:")
	dot := strings.LastIndex(t, ".")
	if dot <= 0 {
		return false
	}
	for _, r := range t {
		if !(r == '/' || r == '.' || r == '_' || r == '-' || (r >= '0' && r <= '9') || (r >= 'a' && r <= 'z') || (r >= 'A' && r <= 'Z')) {
			return false
		}
	}
	first := t
	if i := strings.Index(t, "."); i >= 0 {
		first = t[:i]
	}
	switch {
	case first == "recv" || first == "outer":
		return false
	case len(first) == 2 && (first[0] == 'p' || first[0] == 'r') && first[1] >= '0' && first[1] <= '9':
		return false
	}
	// exactly one dot after the package path: pkg/path.Name
	return !strings.Contains(t[dot+1:], "/") && strings.Count(t[strings.LastIndex(t, "/")+1:], ".") == 1
}

// eqOrder puts the constant-like side second; ties are broken lexically.
func eqOrder(a, b string) (string, string) {
	ca, cb := isConstLike(a), isConstLike(b)
	switch {
	case ca && !cb:
		return b, a
	case !ca && cb:
		return a, b
	case b < a:
		return b, a
	}
	return a, b
}

func (fr *former) norm(e ast.Expr, at Point, vars *[]*types.Var) string {
	n := normalizer{f: fr.g.Fn, depth: fr.depth, deps: &fr.pending}
	s := n.expr(e, &at)
	// collect unexpanded locals: identifiers that stayed local<T>
	if strings.Contains(s, "local:") {
		ast.Inspect(e, func(x ast.Node) bool {
			if id, ok := x.(*ast.Ident); ok {
				if v := fr.g.localVar(id); v != nil && strings.Contains(s, "local:"+fr.g.Fn.LocalName(v)+"<") {
					*vars = append(*vars, v)
				}
			}
			return true
		})
	}
	return s
}

func (fr *former) atom(s string, pol bool, vars []*types.Var) *Form {
	deps := append(append([]*types.Var{}, fr.inherit...), fr.pending...)
	fr.pending = nil
	return &Form{Op: 'a', S: s, Neg: !pol, Vars: vars, Deps: deps}
}

func (fr *former) form(e ast.Expr, pol bool, at Point) *Form {
	g := fr.g
	f := g.Fn
	e = ast.Unparen(e)
	if v := f.ConstVal(e); v != nil && v.Kind() == 1 { // constant.Bool
		b := v.ExactString() == "true"
		if b == pol {
			return &Form{Op: '&'} // true
		}
		return &Form{Op: '|'} // false
	}
	switch x := e.(type) {
	case *ast.UnaryExpr:
		if x.Op == token.NOT {
			return fr.form(x.X, !pol, at)
		}
	case *ast.BinaryExpr:
		// the emptiness test of a string has one normal form, eq(s,""),
		// however it is spelled (s == "", len(s) == 0, len(s) > 0, len(s) < 1 ...)
		if str, empty, ok := StrLenTest(f, x); ok {
			var vars []*types.Var
			return fr.atom("eq("+fr.norm(str, at, &vars)+",\"\")", pol == empty, vars)
		}
		switch x.Op {
		case token.LAND, token.LOR:
			l, r := fr.form(x.X, pol, at), fr.form(x.Y, pol, at)
			op := byte('&')
			if (x.Op == token.LAND) != pol {
				op = '|'
			}
			out := &Form{Op: op}
			for _, k := range []*Form{l, r} {
				if k.Op == op {
					out.Kids = append(out.Kids, k.Kids...)
				} else if k.Op != 'a' && len(k.Kids) == 0 {
					// the other connective with no operands: its identity is this
					// connective's absorbing element (true in an or, false in an and)
					return &Form{Op: k.Op}
				} else {
					out.Kids = append(out.Kids, k)
				}
			}
			if len(out.Kids) == 1 {
				return out.Kids[0]
			}
			return out
		case token.EQL, token.NEQ:
			var vars []*types.Var
			if x.Op == token.NEQ {
				pol = !pol
			}
			// bool == const
			a, b := fr.norm(x.X, at, &vars), fr.norm(x.Y, at, &vars)
			// bit tests
			if s, flip, ok := fr.bitTest(x.X, x.Y, at, &vars); ok {
				if flip {
					pol = !pol
				}
				return fr.atom(s, pol, vars)
			}
			if s, flip, ok := fr.bitTest(x.Y, x.X, at, &vars); ok {
				if flip {
					pol = !pol
				}
				return fr.atom(s, pol, vars)
			}
			a, b = eqOrder(a, b)
			return fr.atom("eq("+a+","+b+")", pol, vars)
		case token.LSS, token.GEQ, token.GTR, token.LEQ:
			var vars []*types.Var
			a, b := fr.norm(x.X, at, &vars), fr.norm(x.Y, at, &vars)
			switch x.Op {
			case token.GEQ:
				pol = !pol
			case token.GTR:
				a, b = b, a
			case token.LEQ:
				a, b = b, a
				pol = !pol
			}
			return fr.atom("lt("+a+","+b+")", pol, vars)
		}
	case *ast.Ident:
		if v := g.localVar(x); v != nil && fr.depth < 6 && !g.addrTaken[v] {
			if _, isParam := f.paramName(v); !isParam || g.assigned[v] {
				ds := g.ReachingDefs(v, at)
				var keep []*Def
				for _, d := range ds {
					// a zero-valued or constant-false def cannot make the variable true (and v.v.)
					if d.Kind == DefZero && pol {
						continue
					}
					if d.Kind == DefPlain && d.RHS != nil {
						if cv := f.ConstVal(d.RHS); cv != nil && cv.Kind() == 1 {
							if (cv.ExactString() == "true") != pol {
								continue
							}
						}
					}
					keep = append(keep, d)
				}
				if len(keep) == 1 {
					d := keep[0]
					fr.depth++
					defer func() { fr.depth-- }()
					if len(ds) == 1 {
						// the fact is about this definition of v (not for
						// constant-filtered flag definitions, which the
						// flag-sensitive reachability handles)
						fr.inherit = append(fr.inherit, v)
						defer func() { fr.inherit = fr.inherit[:len(fr.inherit)-1] }()
					}
					switch d.Kind {
					case DefPlain:
						if d.RHS != nil && !freshObject(f, d.RHS) {
							return fr.form(d.RHS, pol, d.At)
						}
					case DefCommaOk:
						if d.Index == 1 {
							var vars []*types.Var
							return fr.atom("commaok("+fr.norm(d.RHS, d.At, &vars)+")", pol, vars)
						}
					case DefTuple:
						var vars []*types.Var
						return fr.atom(fr.norm(d.RHS, d.At, &vars)+"#"+itoa(d.Index), pol, vars)
					}
				}
				return fr.atom("local:"+f.LocalName(v)+"<"+TypeStr(v.Type())+">", pol, []*types.Var{v})
			}
		}
	}
	var vars []*types.Var
	return fr.atom(fr.norm(e, at, &vars), pol, vars)
}

func itoa(i int) string {
	return string(rune('0' + i))
}

// bitTest recognises (X & M) == M  and (X & M) == 0.
// Result: "all(X,M)" with flip=false, or for == 0: "none(X,M)"; if M is a
// single-bit constant, none is canonicalised to !all.
func (fr *former) bitTest(l, r ast.Expr, at Point, vars *[]*types.Var) (string, bool, bool) {
	f := fr.g.Fn
	be, ok := ast.Unparen(l).(*ast.BinaryExpr)
	if !ok || be.Op != token.AND {
		return "", false, false
	}
	X, M := be.X, be.Y
	// mask is the side equal to r, or the constant side
	xs, ms := fr.norm(X, at, vars), fr.norm(M, at, vars)
	rs := fr.norm(r, at, vars)
	if rs == xs && rs != ms {
		X, M = M, X
		xs, ms = ms, xs
	}
	if rs == ms {
		return "all(" + xs + "," + ms + ")", false, true
	}
	if v, ok := f.ConstInt(r); ok && v == 0 {
		// which side is the mask? prefer the constant one
		if _, isC := f.ConstInt(X); isC {
			X, M = M, X
			xs, ms = ms, xs
		}
		if mv, isC := f.ConstInt(M); isC && mv > 0 && mv&(mv-1) == 0 {
			return "all(" + xs + "," + ms + ")", true, true
		}
		return "none(" + xs + "," + ms + ")", false, true
	}
	return "", false, false
}

// ---- conditions of blocks ---------------------------------------------

// EdgeFacts returns the atoms established by taking edge e.
func (g *Graph) EdgeFacts(e Edge) []Atom {
	fm := g.EdgeForm(e)
	if fm == nil {
		return nil
	}
	return fm.Implied()
}

// EdgeForm returns the formula that holds on edge e (nil: unconditional).
func (g *Graph) EdgeForm(e Edge) *Form {
	b := g.Blocks[e.B]
	if len(b.Succs) != 2 {
		return nil
	}
	pol := e.S == 0
	at := Point{e.B, len(b.Nodes)}
	// condition expression: last node if it is a bare expression
	if len(b.Nodes) > 0 {
		if cond, ok := b.Nodes[len(b.Nodes)-1].(ast.Expr); ok {
			at = Point{e.B, len(b.Nodes) - 1}
			switch p := g.parent[cond].(type) {
			case *ast.IfStmt:
				if p.Cond == cond {
					return g.Formula(cond, pol, at)
				}
			case *ast.ForStmt:
				if p.Cond == cond {
					return g.Formula(cond, pol, at)
				}
			case *ast.CaseClause:
				if sw, ok := g.parent[g.parent[p]].(*ast.SwitchStmt); ok {
					if sw.Tag == nil {
						return g.Formula(cond, pol, at)
					}
					// tag == cond
					fr := former{g: g}
					var vars []*types.Var
					tagAt, _ := g.Where(sw.Tag)
					a, bb := fr.norm(sw.Tag, tagAt, &vars), fr.norm(cond, at, &vars)
					a, bb = eqOrder(a, bb)
					return fr.atom("eq("+a+","+bb+")", pol, vars)
				}
			}
		}
	}
	// structural two-way blocks
	succ := b.Succs[0]
	switch succ.Kind {
	case cfg.KindSwitchCaseBody:
		if cc, ok := succ.Stmt.(*ast.CaseClause); ok {
			if ts, ok := g.parent[g.parent[cc]].(*ast.TypeSwitchStmt); ok {
				x := typeSwitchSubject(ts)
				if x != nil {
					var ts2 []string
					for _, t := range cc.List {
						ts2 = append(ts2, TypeStr(g.Fn.Info().TypeOf(t)))
					}
					fr := former{g: g}
					var vars []*types.Var
					xAt, _ := g.Where(ts.Assign)
					return fr.atom("istype("+fr.norm(x, xAt, &vars)+";"+strings.Join(ts2, "|")+")", pol, vars)
				}
			}
		}
	case cfg.KindSelectCaseBody:
		if cc, ok := succ.Stmt.(*ast.CommClause); ok && pol {
			return &Form{Op: 'a', S: "selectarm(" + g.commStr(cc) + ")"}
		}
	case cfg.KindRangeBody:
		if rs, ok := succ.Stmt.(*ast.RangeStmt); ok {
			xAt, _ := g.Where(rs.X)
			fr := former{g: g}
			var vars []*types.Var
			return fr.atom("rangenext("+fr.norm(rs.X, xAt, &vars)+")", pol, vars)
		}
	}
	return nil
}

func typeSwitchSubject(ts *ast.TypeSwitchStmt) ast.Expr {
	switch a := ts.Assign.(type) {
	case *ast.AssignStmt:
		if ta, ok := ast.Unparen(a.Rhs[0]).(*ast.TypeAssertExpr); ok {
			return ta.X
		}
	case *ast.ExprStmt:
		if ta, ok := ast.Unparen(a.X).(*ast.TypeAssertExpr); ok {
			return ta.X
		}
	}
	return nil
}

func (g *Graph) commStr(cc *ast.CommClause) string {
	at, _ := g.Where(cc.Comm)
	switch c := cc.Comm.(type) {
	case *ast.SendStmt:
		return "send " + g.Fn.Norm(c.Chan, &at)
	case *ast.ExprStmt:
		return "recv " + g.Fn.Norm(ast.Unparen(c.X).(*ast.UnaryExpr).X, &at)
	case *ast.AssignStmt:
		if u, ok := ast.Unparen(c.Rhs[0]).(*ast.UnaryExpr); ok {
			return "recv " + g.Fn.Norm(u.X, &at)
		}
	}
	return "?"
}

// CondEdges lists every conditional edge with its facts.
type CondEdge struct {
	E     Edge
	Form  *Form
	Atoms []Atom
}

func (g *Graph) CondEdges() []CondEdge {
	if g.condEdges != nil {
		return g.condEdges
	}
	out := []CondEdge{}
	defer func() { g.condEdges = out }()
	for _, b := range g.Blocks {
		if !b.Live || len(b.Succs) != 2 {
			continue
		}
		for s := 0; s < 2; s++ {
			e := Edge{int(b.Index), s}
			if fm := g.EdgeForm(e); fm != nil {
				out = append(out, CondEdge{e, fm, fm.Implied()})
			}
		}
	}
	return out
}

// EdgesMatching returns the edges one of whose atoms matches the glob pat.
func (g *Graph) EdgesMatching(pat string) []CondEdge {
	var out []CondEdge
	for _, ce := range g.CondEdges() {
		for _, a := range ce.Atoms {
			if Glob(pat, a.S) {
				out = append(out, ce)
				break
			}
		}
	}
	return out
}

// Dominated reports whether every path from the entry to site crosses an edge
// that establishes a fact matching pat, with no later redefinition of an
// unexpanded local that the fact mentions. assume lists signed atom patterns
// taken as true: edges contradicting one of them are removed first
// (restricted dominance).
func (g *Graph) Dominated(site Point, pat string, assume ...string) (bool, string) {
	return g.DominatedAny(site, []string{pat}, assume...)
}

// DominatedAny is Dominated for a disjunction: every path to site crosses an
// edge establishing a fact that matches at least one of pats.
func (g *Graph) DominatedAny(site Point, pats []string, assume ...string) (bool, string) {
	pat := strings.Join(pats, " or ")
	globAny := func(s string) bool {
		for _, p := range pats {
			if Glob(p, s) {
				return true
			}
		}
		return false
	}
	cut := Cut{}
	assumeCut := Cut{}
	var matched []CondEdge
	for _, ce := range g.CondEdges() {
		hit := false
		contra := false
		for _, a := range ce.Atoms {
			if globAny(a.S) {
				hit = true
			}
			for _, as := range assume {
				if Glob(Negate(as), a.S) {
					contra = true
				}
			}
		}
		if hit {
			matched = append(matched, ce)
		}
		if hit || contra {
			cut[ce.E] = true
		}
		if contra {
			assumeCut[ce.E] = true
		}
	}
	if len(matched) == 0 {
		return false, "no edge establishes " + pat
	}
	if g.Reachable(g.Entry(), site, cut, nil) {
		return false, "a path from the entry reaches the site without " + pat
	}
	// kills
	for _, ce := range matched {
		for _, a := range ce.Atoms {
			if !globAny(a.S) {
				continue
			}
			if strings.HasPrefix(a.S, "istype(") {
				continue // a type-switch arm is lexical: later stores to the subject do not leave it
			}
			for _, v := range a.Vars {
				for _, d := range g.DefsOf(v) {
					if d.Kind == DefTypeSwitch || d.Kind == DefParam {
						continue
					}
					if !g.Reachable(g.Entry(), d.At, assumeCut, nil) {
						continue
					}
					if g.Reachable(g.After(d.At), site, cut, nil) {
						return false, "local " + v.Name() + " is redefined at " + g.Fn.Prog.Pos(d.Node.Pos()) + " after the test of " + pat
					}
				}
			}
		}
	}
	return true, ""
}

// FactsAt returns every atom string that dominates site (each tested
// separately); used for reporting and for exact-guard-set rules.
func (g *Graph) FactsAt(site Point, assume ...string) []string {
	seen := map[string]bool{}
	var out []string
	for _, ce := range g.CondEdges() {
		for _, a := range ce.Atoms {
			if seen[a.S] {
				continue
			}
			seen[a.S] = true
			if ok, _ := g.Dominated(site, a.S, assume...); ok {
				out = append(out, a.S)
			}
		}
	}
	sort.Strings(out)
	return out
}

// DominatedFrom reports whether every path from `from` to site crosses an edge
// establishing a fact matching one of pats.
func (g *Graph) DominatedFrom(from, site Point, pats []string) bool {
	cut := Cut{}
	for _, ce := range g.CondEdges() {
		for _, a := range ce.Atoms {
			for _, p := range pats {
				if Glob(p, a.S) {
					cut[ce.E] = true
				}
			}
		}
	}
	return !g.Reachable(from, site, cut, nil)
}

// VarForms returns the normal forms under which variable v may appear in
// atoms: its local form and the expansion of each of its definitions.
func (g *Graph) VarForms(v *types.Var) []string {
	out := []string{"local:" + g.Fn.LocalName(v) + "<" + TypeStr(v.Type()) + ">"}
	if s, ok := g.Fn.paramName(v); ok {
		out = append(out, s)
	}
	for _, d := range g.DefsOf(v) {
		n := normalizer{f: g.Fn}
		if s, ok := n.defExpr(d); ok {
			out = append(out, s)
		}
	}
	return out
}

// StrLenTest recognises a comparison of len(s), s a string, with a constant
// that is an emptiness test: it returns s and whether the comparison holds
// exactly when s is empty.
func StrLenTest(f *Fn, be *ast.BinaryExpr) (ast.Expr, bool, bool) {
	lenOf := func(e ast.Expr) ast.Expr {
		cl, ok := ast.Unparen(e).(*ast.CallExpr)
		if !ok || len(cl.Args) != 1 {
			return nil
		}
		id, ok := ast.Unparen(cl.Fun).(*ast.Ident)
		if !ok || id.Name != "len" || f.Info().Uses[id] != types.Universe.Lookup("len") {
			return nil
		}
		t := f.Info().TypeOf(cl.Args[0])
		if t == nil {
			return nil
		}
		if b, ok := t.Underlying().(*types.Basic); !ok || b.Info()&types.IsString == 0 {
			return nil
		}
		if f.ConstVal(cl.Args[0]) != nil {
			return nil
		}
		return cl.Args[0]
	}
	constOf := func(e ast.Expr) (int64, bool) {
		v := f.ConstVal(e)
		if v == nil || v.Kind() != constant.Int {
			return 0, false
		}
		return constant.Int64Val(v)
	}
	op := be.Op
	s := lenOf(be.X)
	k, okk := constOf(be.Y)
	if s == nil || !okk {
		s = lenOf(be.Y)
		k, okk = constOf(be.X)
		if s == nil || !okk {
			return nil, false, false
		}
		// k op len(s)  ==  len(s) op' k
		switch op {
		case token.LSS:
			op = token.GTR
		case token.GTR:
			op = token.LSS
		case token.LEQ:
			op = token.GEQ
		case token.GEQ:
			op = token.LEQ
		}
	}
	switch {
	case op == token.EQL && k == 0, op == token.LSS && k == 1, op == token.LEQ && k == 0:
		return s, true, true
	case op == token.NEQ && k == 0, op == token.GTR && k == 0, op == token.GEQ && k == 1:
		return s, false, true
	}
	return nil, false, false
}
