package eng

import (
	"go/ast"
	"go/token"
	"go/types"
	"sort"

	"golang.org/x/tools/go/cfg"
)

// Point is a position in a function's control-flow graph: node I of block B.
// I == len(block.Nodes) denotes the block's end (after its last node).
type Point struct{ B, I int }

// Edge is the S-th successor edge of block B.
type Edge struct{ B, S int }

// DefKind classifies definitions of local variables.
type DefKind int

const (
	DefPlain      DefKind = iota // x = e, x := e, var x = e
	DefTuple                     // x is the Index-th result of call RHS
	DefCommaOk                   // v, ok = m[k] / x.(T) / <-c ; Index 0 value, 1 ok
	DefZero                      // var x T
	DefRange                     // range key (Index 0) / value (Index 1) over RHS
	DefTypeSwitch                // switch x := y.(type)
	DefOpaque                    // x++, x op= e, closure write, address taken
	DefParam                     // initial value of a parameter / captured variable
)

// Def is one definition of a local variable.
type Def struct {
	ID    int
	Var   *types.Var
	Kind  DefKind
	RHS   ast.Expr
	Index int
	Node  ast.Node // the defining statement
	At    Point
}

// Graph is a function's CFG with AST position maps and reaching definitions.
type Graph struct {
	Fn        *Fn
	CFG       *cfg.CFG
	Blocks    []*cfg.Block
	where     map[ast.Node]Point
	parent    map[ast.Node]ast.Node
	preds     [][]Edge
	defs      []*Def
	defsAt    map[ast.Node][]*Def // defining statement -> defs
	in        []map[*types.Var]map[int]bool
	assigned  map[*types.Var]bool // assigned after declaration (or address taken)
	addrTaken map[*types.Var]bool
	Returns   []*ast.ReturnStmt
	Defers    []*ast.DeferStmt
	condEdges []CondEdge
	flags     []*types.Var // bool locals only ever assigned constants
	flagIdx   map[*types.Var]int
}

// mayReturn: calls to panic and a few process-ending functions do not return.
func (f *Fn) mayReturn(call *ast.CallExpr) bool {
	id := f.CalleeID(call)
	switch id {
	case "builtin.panic", "os.Exit", "log.Fatal", "log.Fatalf", "log.Fatalln", "log.Panic", "log.Panicf":
		return false
	}
	return true
}

// Graph builds (once) and returns the function's graph.
func (f *Fn) Graph() *Graph {
	if f.g != nil {
		return f.g
	}
	g := &Graph{Fn: f, where: map[ast.Node]Point{}, parent: map[ast.Node]ast.Node{}, defsAt: map[ast.Node][]*Def{}, assigned: map[*types.Var]bool{}, addrTaken: map[*types.Var]bool{}}
	f.g = g
	g.CFG = cfg.New(f.Body, f.mayReturn)
	g.Blocks = g.CFG.Blocks
	// parents over the whole body (not into nested literals' bodies)
	var stack []ast.Node
	ast.Inspect(f.Body, func(n ast.Node) bool {
		if n == nil {
			stack = stack[:len(stack)-1]
			return false
		}
		if len(stack) > 0 {
			g.parent[n] = stack[len(stack)-1]
		}
		stack = append(stack, n)
		if l, ok := n.(*ast.FuncLit); ok && l != f.Lit {
			stack = stack[:len(stack)-1]
			return false
		}
		return true
	})
	g.preds = make([][]Edge, len(g.Blocks))
	for _, b := range g.Blocks {
		for si, s := range b.Succs {
			g.preds[s.Index] = append(g.preds[s.Index], Edge{int(b.Index), si})
		}
		for i, n := range b.Nodes {
			pt := Point{int(b.Index), i}
			if r, ok := n.(*ast.ReturnStmt); ok && b.Live {
				g.Returns = append(g.Returns, r)
			}
			if d, ok := n.(*ast.DeferStmt); ok {
				g.Defers = append(g.Defers, d)
			}
			ast.Inspect(n, func(x ast.Node) bool {
				if x == nil {
					return false
				}
				if _, seen := g.where[x]; !seen {
					g.where[x] = pt
				}
				if l, ok := x.(*ast.FuncLit); ok && l != f.Lit {
					return false
				}
				return true
			})
		}
	}
	sort.Slice(g.Returns, func(i, j int) bool { return g.Returns[i].Pos() < g.Returns[j].Pos() })
	g.buildDefs()
	return g
}

// Where returns the CFG point that evaluates n (n must be inside a block node).
func (g *Graph) Where(n ast.Node) (Point, bool) {
	p, ok := g.where[n]
	if ok {
		return p, true
	}
	// climb to an ancestor that is placed (e.g. sub-statement of a control stmt)
	for x := g.parent[n]; x != nil; x = g.parent[x] {
		if p, ok := g.where[x]; ok {
			return p, true
		}
	}
	return Point{}, false
}

// Parent returns the AST parent of n within the function body.
func (g *Graph) Parent(n ast.Node) ast.Node { return g.parent[n] }

// Live reports whether p's block is reachable from the entry.
func (g *Graph) Live(p Point) bool { return g.Blocks[p.B].Live }

// ---- definitions ---------------------------------------------------------

func (g *Graph) localVar(e ast.Expr) *types.Var {
	id, ok := ast.Unparen(e).(*ast.Ident)
	if !ok {
		return nil
	}
	info := g.Fn.Info()
	o := info.Defs[id]
	if o == nil {
		o = info.Uses[id]
	}
	v, ok := o.(*types.Var)
	if !ok || !IsLocal(v) {
		return nil
	}
	return v
}

func (g *Graph) addDef(v *types.Var, k DefKind, rhs ast.Expr, idx int, node ast.Node, at Point) {
	d := &Def{ID: len(g.defs), Var: v, Kind: k, RHS: rhs, Index: idx, Node: node, At: at}
	g.defs = append(g.defs, d)
	g.defsAt[node] = append(g.defsAt[node], d)
}

func (g *Graph) buildDefs() {
	f := g.Fn
	info := f.Info()
	// address-taken and closure-written variables are opaque everywhere
	f.WalkBody(func(n ast.Node) bool {
		switch x := n.(type) {
		case *ast.UnaryExpr:
			if x.Op == token.AND {
				if v := g.localVar(x.X); v != nil {
					g.addrTaken[v] = true
					g.assigned[v] = true
				}
			}
		case *ast.FuncLit:
			if x != f.Lit {
				ast.Inspect(x.Body, func(m ast.Node) bool {
					switch y := m.(type) {
					case *ast.AssignStmt:
						for _, l := range y.Lhs {
							if v := g.localVar(l); v != nil && !(x.Pos() <= v.Pos() && v.Pos() < x.End()) {
								g.addrTaken[v] = true
								g.assigned[v] = true
							}
						}
					case *ast.IncDecStmt:
						if v := g.localVar(y.X); v != nil && !(x.Pos() <= v.Pos() && v.Pos() < x.End()) {
							g.addrTaken[v] = true
							g.assigned[v] = true
						}
					case *ast.UnaryExpr:
						if y.Op == token.AND {
							if v := g.localVar(y.X); v != nil {
								g.addrTaken[v] = true
								g.assigned[v] = true
							}
						}
					}
					return true
				})
			}
		}
		return true
	})
	// parameters, receiver and named results are defined at entry
	if sig := f.Sig(); sig != nil {
		var vs []*types.Var
		if r := sig.Recv(); r != nil {
			vs = append(vs, r)
		}
		for i := 0; i < sig.Params().Len(); i++ {
			vs = append(vs, sig.Params().At(i))
		}
		for _, v := range vs {
			g.addDef(v, DefParam, nil, 0, f.Type, Point{0, 0})
		}
		// named results start at their zero value
		for i := 0; i < sig.Results().Len(); i++ {
			if v := sig.Results().At(i); v.Name() != "" && v.Name() != "_" {
				g.addDef(v, DefZero, nil, 0, f.Type, Point{0, 0})
			}
		}
	}
	for _, b := range g.Blocks {
		for i, n := range b.Nodes {
			at := Point{int(b.Index), i}
			switch s := n.(type) {
			case *ast.AssignStmt:
				g.assignDefs(s, at)
			case *ast.ValueSpec:
				for j, name := range s.Names {
					v, _ := info.Defs[name].(*types.Var)
					if v == nil {
						continue
					}
					switch {
					case len(s.Values) == 0:
						g.addDef(v, DefZero, nil, 0, s, at)
					case len(s.Values) == len(s.Names):
						g.addDef(v, DefPlain, s.Values[j], 0, s, at)
					default:
						g.addDef(v, DefTuple, s.Values[0], j, s, at)
					}
				}
			case *ast.IncDecStmt:
				if v := g.localVar(s.X); v != nil {
					g.addDef(v, DefOpaque, nil, 0, s, at)
					g.assigned[v] = true
				}
			case *ast.ExprStmt, *ast.Ident:
				// range key/value idents are added as bare nodes by go/cfg
				if id, ok := n.(*ast.Ident); ok {
					if rs, ok := g.parent[id].(*ast.RangeStmt); ok {
						if v := g.localVar(id); v != nil {
							idx := 0
							if rs.Value == id {
								idx = 1
							}
							g.addDef(v, DefRange, rs.X, idx, id, at)
							if rs.Tok == token.ASSIGN {
								g.assigned[v] = true
							}
						}
					}
				}
			}
			// type switch binding: switch x := y.(type): each clause has an
			// implicit object; treat uses per clause (Implicits)
		}
	}
	// type-switch implicit objects
	f.WalkBody(func(n ast.Node) bool {
		ts, ok := n.(*ast.TypeSwitchStmt)
		if !ok {
			return true
		}
		as, ok := ts.Assign.(*ast.AssignStmt)
		if !ok {
			return true
		}
		ta, _ := ast.Unparen(as.Rhs[0]).(*ast.TypeAssertExpr)
		at, _ := g.Where(as)
		for _, c := range ts.Body.List {
			if v, ok := info.Implicits[c].(*types.Var); ok && ta != nil {
				g.addDef(v, DefTypeSwitch, ta.X, 0, c, at)
			}
		}
		return true
	})
	g.findFlags()
	// reaching definitions
	nb := len(g.Blocks)
	g.in = make([]map[*types.Var]map[int]bool, nb)
	out := make([]map[*types.Var]map[int]bool, nb)
	for i := range g.in {
		g.in[i] = map[*types.Var]map[int]bool{}
		out[i] = map[*types.Var]map[int]bool{}
	}
	changed := true
	for changed {
		changed = false
		for _, b := range g.Blocks {
			bi := int(b.Index)
			in := g.in[bi]
			if bi == 0 {
				for _, d := range g.defsAt[f.Type] {
					if in[d.Var] == nil {
						in[d.Var] = map[int]bool{}
					}
					in[d.Var][d.ID] = true
				}
			}
			for _, e := range g.preds[bi] {
				for v, ds := range out[e.B] {
					m := in[v]
					if m == nil {
						m = map[int]bool{}
						in[v] = m
					}
					for d := range ds {
						if !m[d] {
							m[d] = true
						}
					}
				}
			}
			cur := map[*types.Var]map[int]bool{}
			for v, ds := range in {
				cur[v] = ds
			}
			for _, n := range b.Nodes {
				for _, d := range g.defsAt[n] {
					if d.Kind == DefTypeSwitch {
						continue
					}
					cur[d.Var] = map[int]bool{d.ID: true}
				}
			}
			// compare with out
			o := out[bi]
			for v, ds := range cur {
				if len(o[v]) != len(ds) {
					changed = true
				} else {
					for d := range ds {
						if !o[v][d] {
							changed = true
						}
					}
				}
				cp := map[int]bool{}
				for d := range ds {
					cp[d] = true
				}
				o[v] = cp
			}
		}
	}
}

func (g *Graph) assignDefs(s *ast.AssignStmt, at Point) {
	mark := func(v *types.Var) {
		if s.Tok != token.DEFINE || g.Fn.Info().Defs[identOf(s, v)] == nil {
			g.assigned[v] = true
		}
	}
	if s.Tok != token.ASSIGN && s.Tok != token.DEFINE {
		// op-assign
		if v := g.localVar(s.Lhs[0]); v != nil {
			g.addDef(v, DefOpaque, nil, 0, s, at)
			g.assigned[v] = true
		}
		return
	}
	if len(s.Lhs) == len(s.Rhs) {
		for i, l := range s.Lhs {
			if v := g.localVar(l); v != nil {
				g.addDef(v, DefPlain, s.Rhs[i], 0, s, at)
				mark(v)
			}
		}
		return
	}
	rhs := ast.Unparen(s.Rhs[0])
	kind := DefTuple
	var src ast.Expr = rhs
	switch x := rhs.(type) {
	case *ast.IndexExpr:
		kind = DefCommaOk
	case *ast.TypeAssertExpr:
		kind = DefCommaOk
	case *ast.UnaryExpr:
		if x.Op == token.ARROW {
			kind = DefCommaOk
		}
	}
	for i, l := range s.Lhs {
		if v := g.localVar(l); v != nil {
			g.addDef(v, kind, src, i, s, at)
			mark(v)
		}
	}
}

func identOf(s *ast.AssignStmt, v *types.Var) *ast.Ident {
	for _, l := range s.Lhs {
		if id, ok := l.(*ast.Ident); ok && id.Name == v.Name() {
			return id
		}
	}
	return nil
}

// ReachingDefs returns the definitions of v that may reach point p (before
// node p.I executes).
func (g *Graph) ReachingDefs(v *types.Var, p Point) []*Def {
	cur := map[int]bool{}
	for d := range g.in[p.B][v] {
		cur[d] = true
	}
	b := g.Blocks[p.B]
	for i := 0; i < p.I && i < len(b.Nodes); i++ {
		for _, d := range g.defsAt[b.Nodes[i]] {
			if d.Var == v && d.Kind != DefTypeSwitch {
				cur = map[int]bool{d.ID: true}
			}
		}
	}
	var out []*Def
	for d := range cur {
		out = append(out, g.defs[d])
	}
	// type-switch implicit variables have exactly one def
	if len(out) == 0 {
		for _, d := range g.defs {
			if d.Var == v && d.Kind == DefTypeSwitch {
				out = append(out, d)
			}
		}
	}
	sort.Slice(out, func(i, j int) bool { return out[i].ID < out[j].ID })
	return out
}

// UniqueDef returns the only definition of v reaching p, or nil. Variables
// whose address is taken or that closures write are never unique.
func (g *Graph) UniqueDef(v *types.Var, p Point) *Def {
	if g.addrTaken[v] {
		return nil
	}
	ds := g.ReachingDefs(v, p)
	if len(ds) != 1 || ds[0].Kind == DefOpaque || ds[0].Kind == DefParam {
		return nil
	}
	return ds[0]
}

// DefsOf returns every definition of v in the function.
func (g *Graph) DefsOf(v *types.Var) []*Def {
	var out []*Def
	for _, d := range g.defs {
		if d.Var == v {
			out = append(out, d)
		}
	}
	return out
}

// AllDefs returns every definition in the function.
func (g *Graph) AllDefs() []*Def { return g.defs }

// DefsAtNode returns the definitions made by statement n.
func (g *Graph) DefsAtNode(n ast.Node) []*Def { return g.defsAt[n] }

// ---- reachability --------------------------------------------------------

// Cut describes edges removed from the graph for a reachability query.
type Cut map[Edge]bool

// ReachFrom computes the set of blocks whose START is reachable from the
// start point (exclusive of the nodes before it), never crossing cut edges.
// It returns, for the start block, whether its tail (nodes after start.I) is
// executed: always true. stopAt, when non-nil, is consulted for each node
// visited in order; returning true stops propagation through that node (the
// node itself counts as reached).
func (g *Graph) reach(start Point, cut Cut, stop func(p Point, n ast.Node) bool, visit func(p Point, n ast.Node)) {
	type item struct {
		b, i int
		fs   string // values of the pure boolean flags: '?', 't', 'f' per flag
	}
	seenStart := map[[2]interface{}]bool{}
	init := make([]byte, len(g.flags))
	for i := range init {
		init[i] = '?'
	}
	var work []item
	work = append(work, item{start.B, start.I, string(init)})
	first := true
	for len(work) > 0 {
		it := work[len(work)-1]
		work = work[:len(work)-1]
		if it.i == 0 {
			k := [2]interface{}{it.b, it.fs}
			if seenStart[k] {
				continue
			}
			seenStart[k] = true
		} else if !first {
			continue
		}
		first = false
		b := g.Blocks[it.b]
		fs := []byte(it.fs)
		stopped := false
		for i := it.i; i < len(b.Nodes); i++ {
			p := Point{it.b, i}
			if visit != nil {
				visit(p, b.Nodes[i])
			}
			if stop != nil && stop(p, b.Nodes[i]) {
				stopped = true
				break
			}
			g.flagTransfer(b.Nodes[i], fs)
		}
		if !stopped {
			// the block's end is a point of its own (used for edge sources)
			p := Point{it.b, len(b.Nodes)}
			if visit != nil {
				visit(p, nil)
			}
			if stop != nil && stop(p, nil) {
				stopped = true
			}
		}
		if stopped {
			continue
		}
		for si, s := range b.Succs {
			if cut[Edge{it.b, si}] {
				continue
			}
			nfs, feasible := g.flagEdge(b, si, fs)
			if !feasible {
				continue
			}
			work = append(work, item{int(s.Index), 0, nfs})
		}
	}
}

// findFlags collects the bool locals that are only ever assigned the
// constants true/false (pure flags); reachability tracks their values so that
// "stop := false; if c { stop = true }; if stop { break }" is as precise as
// "if c { break }".
func (g *Graph) findFlags() {
	g.flagIdx = map[*types.Var]int{}
	cand := map[*types.Var]bool{}
	bad := map[*types.Var]bool{}
	for _, d := range g.defs {
		b, ok := d.Var.Type().Underlying().(*types.Basic)
		if !ok || b.Kind() != types.Bool {
			continue
		}
		switch d.Kind {
		case DefZero:
			cand[d.Var] = true
		case DefPlain:
			if d.RHS != nil {
				if cv := g.Fn.ConstVal(d.RHS); cv != nil && cv.Kind() == 1 {
					cand[d.Var] = true
					continue
				}
			}
			bad[d.Var] = true
		default:
			bad[d.Var] = true
		}
	}
	for v := range cand {
		if bad[v] || g.addrTaken[v] {
			continue
		}
		g.flags = append(g.flags, v)
	}
	// derived flags: bool locals whose every definition is a constant or a
	// (negated) copy of a pure flag (`done := !found`): reachability tracks
	// them through the value the source flag has at the definition
	pure := map[*types.Var]bool{}
	for _, v := range g.flags {
		pure[v] = true
	}
	for changed := true; changed; {
		changed = false
		byVar := map[*types.Var][]*Def{}
		for _, d := range g.defs {
			byVar[d.Var] = append(byVar[d.Var], d)
		}
		for v, ds := range byVar {
			if pure[v] || g.addrTaken[v] {
				continue
			}
			if b, ok := v.Type().Underlying().(*types.Basic); !ok || b.Kind() != types.Bool {
				continue
			}
			okAll := len(ds) > 0
			for _, d := range ds {
				switch d.Kind {
				case DefZero:
				case DefPlain:
					if d.RHS == nil {
						okAll = false
						break
					}
					if cv := g.Fn.ConstVal(d.RHS); cv != nil && cv.Kind() == 1 {
						continue
					}
					if src, _ := flagCopy(g, d.RHS); src == nil || !pure[src] {
						okAll = false
					}
				default:
					okAll = false
				}
			}
			if okAll {
				pure[v] = true
				g.flags = append(g.flags, v)
				changed = true
			}
		}
	}
	sort.Slice(g.flags, func(i, j int) bool { return g.flags[i].Pos() < g.flags[j].Pos() })
	for i, v := range g.flags {
		g.flagIdx[v] = i
	}
}

func (g *Graph) flagTransfer(n ast.Node, fs []byte) {
	if len(g.flags) == 0 {
		return
	}
	for _, d := range g.defsAt[n] {
		i, ok := g.flagIdx[d.Var]
		if !ok {
			continue
		}
		switch d.Kind {
		case DefZero:
			fs[i] = 'f'
		case DefPlain:
			if cv := g.Fn.ConstVal(d.RHS); cv != nil {
				if cv.ExactString() == "true" {
					fs[i] = 't'
				} else {
					fs[i] = 'f'
				}
			} else if src, neg := flagCopy(g, d.RHS); src != nil {
				val := byte('?')
				if j, ok := g.flagIdx[src]; ok {
					val = fs[j]
				}
				if neg && val != '?' {
					if val == 't' {
						val = 'f'
					} else {
						val = 't'
					}
				}
				fs[i] = val
			} else {
				fs[i] = '?'
			}
		}
	}
}

// flagEdge refines the flag state along edge si of block b; feasible is false
// when the edge contradicts a known flag value.
func (g *Graph) flagEdge(b *cfg.Block, si int, fs []byte) (string, bool) {
	if len(g.flags) == 0 || len(b.Succs) != 2 || len(b.Nodes) == 0 {
		return string(fs), true
	}
	cond, ok := b.Nodes[len(b.Nodes)-1].(ast.Expr)
	if !ok {
		return string(fs), true
	}
	switch p := g.parent[cond].(type) {
	case *ast.IfStmt:
		if p.Cond != cond {
			return string(fs), true
		}
	case *ast.ForStmt:
		if p.Cond != cond {
			return string(fs), true
		}
	case *ast.CaseClause:
		sw, ok := g.parent[g.parent[p]].(*ast.SwitchStmt)
		if !ok || sw.Tag != nil {
			return string(fs), true
		}
	default:
		return string(fs), true
	}
	pol := si == 0
	e := ast.Unparen(cond)
	for {
		u, ok := e.(*ast.UnaryExpr)
		if !ok || u.Op != token.NOT {
			break
		}
		pol = !pol
		e = ast.Unparen(u.X)
	}
	v := g.localVar(e)
	if v == nil {
		return string(fs), true
	}
	i, ok := g.flagIdx[v]
	if !ok {
		return string(fs), true
	}
	want := byte('f')
	if pol {
		want = 't'
	}
	if fs[i] != '?' && fs[i] != want {
		return "", false
	}
	out := append([]byte{}, fs...)
	out[i] = want
	return string(out), true
}

// Reachable reports whether target can be reached from start without crossing
// an edge in cut and without passing through a node for which stop returns
// true (target itself is tested before stop).
func (g *Graph) Reachable(start, target Point, cut Cut, stop func(p Point, n ast.Node) bool) bool {
	found := false
	g.reach(start, cut, func(p Point, n ast.Node) bool {
		if found {
			return true
		}
		if p == target {
			found = true
			return true
		}
		if stop != nil && n != nil {
			return stop(p, n)
		}
		return false
	}, nil)
	return found
}

// Entry is the function's entry point.
func (g *Graph) Entry() Point { return Point{0, 0} }

// After returns the point just after p.
func (g *Graph) After(p Point) Point { return Point{p.B, p.I + 1} }

// ReachingDefsCut returns the definitions of v that reach p along paths that
// do not cross edges in cut (restricted reaching definitions).
func (g *Graph) ReachingDefsCut(v *types.Var, p Point, cut Cut) []*Def {
	var out []*Def
	isDef := func(n ast.Node) bool {
		for _, d := range g.defsAt[n] {
			if d.Var == v && d.Kind != DefTypeSwitch {
				return true
			}
		}
		return false
	}
	for _, d := range g.DefsOf(v) {
		if d.Kind == DefTypeSwitch {
			continue
		}
		// d must itself be reachable from the entry within the cut graph
		if !g.Reachable(g.Entry(), d.At, cut, nil) {
			continue
		}
		if g.Reachable(g.After(d.At), p, cut, func(q Point, n ast.Node) bool { return isDef(n) }) {
			out = append(out, d)
		}
	}
	return out
}

// CutFor returns the edges contradicting the assumed atoms.
func (g *Graph) CutFor(assume ...string) Cut {
	cut := Cut{}
	for _, ce := range g.CondEdges() {
		for _, a := range ce.Atoms {
			for _, as := range assume {
				if Glob(Negate(as), a.S) {
					cut[ce.E] = true
				}
			}
		}
		// the whole edge condition is false under the assumptions (a
		// disjunction all of whose members are contradicted)
		if ce.Form != nil && ce.Form.under(assume) == -1 {
			cut[ce.E] = true
		}
	}
	return cut
}

// under evaluates the formula three-valued under assumed signed atom patterns:
// +1 true, -1 false, 0 unknown.
func (fm *Form) under(assume []string) int {
	switch fm.Op {
	case 'a':
		s := fm.String()
		for _, as := range assume {
			if Glob(as, s) {
				return 1
			}
			if Glob(Negate(as), s) {
				return -1
			}
		}
		return 0
	case '&':
		r := 1
		for _, k := range fm.Kids {
			switch k.under(assume) {
			case -1:
				return -1
			case 0:
				r = 0
			}
		}
		return r
	}
	r := -1
	for _, k := range fm.Kids {
		switch k.under(assume) {
		case 1:
			return 1
		case 0:
			r = 0
		}
	}
	return r
}

// Exits returns the end points of the live blocks without successors: the
// points at which the function returns (a return statement is the last node
// of such a block) or falls off its end. Blocks that end in a call that never
// returns (panic, os.Exit) are not exits.
func (g *Graph) Exits() []Point {
	var out []Point
	for _, b := range g.Blocks {
		if !b.Live || len(b.Succs) > 0 {
			continue
		}
		if n := len(b.Nodes); n > 0 {
			if es, ok := b.Nodes[n-1].(*ast.ExprStmt); ok {
				if call, ok := es.X.(*ast.CallExpr); ok && !g.Fn.mayReturn(call) {
					continue
				}
			}
		}
		out = append(out, Point{int(b.Index), len(b.Nodes)})
	}
	return out
}

// LoopPoints returns, for a range or for statement, the start of its body, the
// loop head (where the next iteration is decided) and the point after the loop.
func (g *Graph) LoopPoints(s ast.Stmt) (body, head, done Point, ok bool) {
	bi, hi, di := -1, -1, -1
	for _, b := range g.Blocks {
		if b.Stmt != s {
			continue
		}
		switch b.Kind {
		case cfg.KindRangeBody, cfg.KindForBody:
			bi = int(b.Index)
		case cfg.KindRangeLoop, cfg.KindForLoop:
			hi = int(b.Index)
		case cfg.KindRangeDone, cfg.KindForDone:
			di = int(b.Index)
		}
	}
	if bi < 0 || hi < 0 || di < 0 {
		return Point{}, Point{}, Point{}, false
	}
	return Point{bi, 0}, Point{hi, 0}, Point{di, 0}, true
}

// WhereBranch returns the point at which a break/continue/goto statement
// executes. go/cfg turns these statements into edges, so they are not nodes:
// the point is the end of the block that is current when the statement is
// reached (found through the statement before it, or through the construct
// whose body it opens).
func (g *Graph) WhereBranch(br *ast.BranchStmt) (Point, bool) {
	var list []ast.Stmt
	par := g.parent[br]
	var owner ast.Node = par
	switch p := par.(type) {
	case *ast.BlockStmt:
		list = p.List
		owner = g.parent[p]
	case *ast.CaseClause:
		list = p.Body
	case *ast.CommClause:
		list = p.Body
	default:
		return Point{}, false
	}
	idx := -1
	for i, st := range list {
		if st == ast.Stmt(br) {
			idx = i
		}
	}
	if idx < 0 {
		return Point{}, false
	}
	blockOf := func(stmt ast.Node, kinds ...cfg.BlockKind) (Point, bool) {
		for _, b := range g.Blocks {
			if b.Stmt != stmt {
				continue
			}
			for _, k := range kinds {
				if b.Kind == k {
					return Point{int(b.Index), len(b.Nodes)}, true
				}
			}
		}
		return Point{}, false
	}
	if idx == 0 {
		switch o := owner.(type) {
		case *ast.IfStmt:
			if par == ast.Node(o.Body) {
				return blockOf(o, cfg.KindIfThen)
			}
			return blockOf(o, cfg.KindIfElse)
		case *ast.CaseClause:
			return blockOf(o, cfg.KindSwitchCaseBody)
		case *ast.CommClause:
			return blockOf(o, cfg.KindSelectCaseBody)
		case *ast.ForStmt:
			return blockOf(o, cfg.KindForBody)
		case *ast.RangeStmt:
			return blockOf(o, cfg.KindRangeBody)
		}
		return Point{}, false
	}
	switch prev := list[idx-1].(type) {
	case *ast.IfStmt:
		return blockOf(prev, cfg.KindIfDone)
	case *ast.ForStmt:
		return blockOf(prev, cfg.KindForDone)
	case *ast.RangeStmt:
		return blockOf(prev, cfg.KindRangeDone)
	case *ast.SwitchStmt, *ast.TypeSwitchStmt:
		return blockOf(prev, cfg.KindSwitchDone)
	case *ast.SelectStmt:
		return blockOf(prev, cfg.KindSelectDone)
	case *ast.BlockStmt, *ast.LabeledStmt:
		return Point{}, false
	default:
		if p, ok := g.where[prev]; ok {
			// the end of the block that holds the previous simple statement
			return Point{p.B, len(g.Blocks[p.B].Nodes)}, true
		}
	}
	return Point{}, false
}

// flagCopy recognises `x` and `!x` with x a local variable.
func flagCopy(g *Graph, e ast.Expr) (*types.Var, bool) {
	neg := false
	e = ast.Unparen(e)
	for {
		u, ok := e.(*ast.UnaryExpr)
		if !ok || u.Op != token.NOT {
			break
		}
		neg = !neg
		e = ast.Unparen(u.X)
	}
	if v := g.localVar(e); v != nil {
		return v, neg
	}
	return nil, false
}

// AddrTaken reports whether the local variable v has its address taken or is
// written by a nested function literal (its definitions are not all visible
// as statements of this graph).
func (g *Graph) AddrTaken(v *types.Var) bool { return g.addrTaken[v] }

// LocalVar resolves an identifier expression to the local variable it names.
func (g *Graph) LocalVar(e ast.Expr) *types.Var { return g.localVar(e) }
