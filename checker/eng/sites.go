package eng

import (
	"go/ast"
	"go/token"
	"go/types"
	"sort"
)

// Calls returns the call expressions in f's own body (nested literals
// excluded) whose callee id matches the glob pattern, in source order.
func (f *Fn) Calls(pat string) []*ast.CallExpr {
	var out []*ast.CallExpr
	f.WalkBody(func(n ast.Node) bool {
		if c, ok := n.(*ast.CallExpr); ok {
			if Glob(pat, f.CalleeID(c)) {
				out = append(out, c)
			}
		}
		return true
	})
	return out
}

// CallsDeep is Calls including nested function literals.
func (f *Fn) CallsDeep(pat string) []*ast.CallExpr {
	out := f.Calls(pat)
	for _, l := range f.Lits {
		out = append(out, l.CallsDeep(pat)...)
	}
	return out
}

// AllCalls returns every call in f's own body.
func (f *Fn) AllCalls() []*ast.CallExpr { return f.Calls("*") }

// Write is one store to an l-value.
type Write struct {
	Fn   *Fn
	Stmt ast.Stmt
	LHS  ast.Expr
	RHS  ast.Expr    // nil for ++/-- and tuple assignments
	Tok  token.Token // ASSIGN, DEFINE, OR_ASSIGN, INC, ...
}

// Writes returns every assignment-like statement in f's own body.
func (f *Fn) Writes() []Write {
	var out []Write
	f.WalkBody(func(n ast.Node) bool {
		switch s := n.(type) {
		case *ast.AssignStmt:
			for i, l := range s.Lhs {
				var r ast.Expr
				if len(s.Lhs) == len(s.Rhs) {
					r = s.Rhs[i]
				}
				tok := s.Tok
				// x += 1 and x -= 1 are x++ and x-- (canonical form: INC/DEC
				// without an operand), so is x = x + 1
				if len(s.Lhs) == 1 && r != nil {
					one := false
					if cv := f.ConstVal(r); cv != nil && cv.ExactString() == "1" {
						one = true
					}
					switch {
					case s.Tok == token.ADD_ASSIGN && one:
						tok, r = token.INC, nil
					case s.Tok == token.SUB_ASSIGN && one:
						tok, r = token.DEC, nil
					case s.Tok == token.ASSIGN:
						if be, ok := ast.Unparen(r).(*ast.BinaryExpr); ok && (be.Op == token.ADD || be.Op == token.SUB) {
							if cv := f.ConstVal(be.Y); cv != nil && cv.ExactString() == "1" && f.Prog.NodeStr(be.X) == f.Prog.NodeStr(l) {
								if be.Op == token.ADD {
									tok, r = token.INC, nil
								} else {
									tok, r = token.DEC, nil
								}
							}
						}
					}
				}
				out = append(out, Write{f, s, l, r, tok})
			}
		case *ast.IncDecStmt:
			out = append(out, Write{f, s, s.X, nil, s.Tok})
		}
		return true
	})
	return out
}

// FieldWrites returns the writes in f whose LHS is a field of class cls
// (e.g. "xmpp.Session.state"), including element writes when elem is true
// (m[k] = v with m of that class).
func (f *Fn) FieldWrites(cls string) []Write {
	var out []Write
	for _, w := range f.Writes() {
		if c, ok := f.FieldClass(w.LHS); ok && c == cls {
			out = append(out, w)
		}
	}
	return out
}

// MapUpdate is a store into (or delete from) a map.
type MapUpdate struct {
	Fn     *Fn
	Node   ast.Node
	Map    ast.Expr
	Key    ast.Expr
	Value  ast.Expr
	Delete bool
}

// MapUpdates returns the m[k] = v statements and delete(m, k) calls of f's own
// body.
func (f *Fn) MapUpdates() []MapUpdate {
	var out []MapUpdate
	info := f.Info()
	f.WalkBody(func(n ast.Node) bool {
		switch s := n.(type) {
		case *ast.AssignStmt:
			for i, l := range s.Lhs {
				ix, ok := ast.Unparen(l).(*ast.IndexExpr)
				if !ok {
					continue
				}
				if _, ok := info.TypeOf(ix.X).Underlying().(*types.Map); !ok {
					continue
				}
				var v ast.Expr
				if len(s.Lhs) == len(s.Rhs) {
					v = s.Rhs[i]
				}
				out = append(out, MapUpdate{f, s, ix.X, ix.Index, v, false})
			}
		case *ast.CallExpr:
			if f.CalleeID(s) == "builtin.delete" && len(s.Args) == 2 {
				out = append(out, MapUpdate{f, s, s.Args[0], s.Args[1], nil, true})
			}
		}
		return true
	})
	return out
}

// RetKind classifies a return statement by its error operand.
type RetKind int

const (
	RetNoErr   RetKind = iota // function has no error result
	RetSuccess                // error operand is nil (literal or by fact)
	RetError                  // error operand is non-nil (expression or by fact)
	RetMaybe                  // undetermined
)

func (k RetKind) String() string {
	return [...]string{"noerr", "success", "error", "maybe"}[k]
}

var errorType = types.Universe.Lookup("error").Type()

// ErrResultIndex returns the index of the last result if it has type error.
func (f *Fn) ErrResultIndex() int {
	sig := f.Sig()
	if sig == nil || sig.Results().Len() == 0 {
		return -1
	}
	i := sig.Results().Len() - 1
	if types.Identical(sig.Results().At(i).Type(), errorType) {
		return i
	}
	return -1
}

// RetOperand returns the expression returned in result slot i (for bare
// returns with named results: the result's identifier from the signature is
// not an expression, so nil with the variable).
func (f *Fn) RetOperand(r *ast.ReturnStmt, i int) (ast.Expr, *types.Var) {
	sig := f.Sig()
	if len(r.Results) == 0 {
		if sig != nil && i < sig.Results().Len() {
			return nil, sig.Results().At(i)
		}
		return nil, nil
	}
	if len(r.Results) == 1 && sig.Results().Len() > 1 {
		return r.Results[0], nil // return f() tuple
	}
	if i < len(r.Results) {
		return r.Results[i], nil
	}
	return nil, nil
}

// NilnessOf decides whether expression e (of a nilable type) is known nil or
// non-nil at point p: +1 non-nil, -1 nil, 0 unknown.
func (g *Graph) NilnessOf(e ast.Expr, p Point) int {
	f := g.Fn
	e = ast.Unparen(e)
	switch x := e.(type) {
	case *ast.Ident:
		if x.Name == "nil" {
			if _, ok := f.Info().Uses[x].(*types.Nil); ok {
				return -1
			}
		}
		if o := f.Info().Uses[x]; o != nil {
			if v, ok := o.(*types.Var); ok && !IsLocal(v) {
				// package-level error variable (sentinel): non-nil
				return +1
			}
		}
	case *ast.CallExpr:
		id := f.CalleeID(x)
		switch id {
		case "errors.New", "fmt.Errorf":
			return +1
		}
		if tv, ok := f.Info().Types[x.Fun]; ok && tv.IsType() {
			return g.NilnessOf(x.Args[0], p)
		}
		return 0
	case *ast.CompositeLit:
		return +1
	case *ast.UnaryExpr:
		if x.Op == token.AND {
			return +1
		}
	case *ast.SelectorExpr:
		if o := f.ObjOf(x); o != nil {
			if v, ok := o.(*types.Var); ok && !IsLocal(v) && !v.IsField() {
				return +1 // package-level sentinel such as stream.PolicyViolation
			}
			if _, ok := o.(*types.Const); ok {
				return +1
			}
		}
	}
	// non-interface, non-pointer typed values converted to error are non-nil
	if t := f.Info().TypeOf(e); t != nil {
		switch t.Underlying().(type) {
		case *types.Struct, *types.Basic:
			if b, ok := t.Underlying().(*types.Basic); !ok || b.Kind() != types.UntypedNil {
				return +1
			}
		}
	}
	s := f.Norm(e, &p)
	// a question about the CURRENT value of a local: the test must lie between
	// the definition that reaches p and p itself (an earlier test of an
	// identically spelled value - e.g. a previous call of the same method
	// assigned to the same variable - says nothing about this one)
	from := g.Entry()
	if id, ok := e.(*ast.Ident); ok {
		if v := g.localVar(id); v != nil {
			if d := g.UniqueDef(v, p); d != nil && d.Kind != DefParam && d.Kind != DefZero {
				from = g.After(d.At)
			}
		}
	}
	if from != g.Entry() {
		if len(g.EdgesMatching("eq("+s+",nil)")) > 0 && g.DominatedFrom(from, p, []string{"eq(" + s + ",nil)"}) {
			return -1
		}
		if len(g.EdgesMatching("!eq("+s+",nil)")) > 0 && g.DominatedFrom(from, p, []string{"!eq(" + s + ",nil)"}) {
			return +1
		}
	} else {
		if ok, _ := g.Dominated(p, "eq("+s+",nil)"); ok {
			return -1
		}
		if ok, _ := g.Dominated(p, "!eq("+s+",nil)"); ok {
			return +1
		}
	}
	// a local whose every reaching definition is nil / non-nil
	if id, ok := e.(*ast.Ident); ok {
		if v := g.localVar(id); v != nil && !g.addrTaken[v] {
			ds := g.ReachingDefs(v, p)
			if len(ds) > 0 {
				all := 2
				for _, d := range ds {
					k := 0
					switch d.Kind {
					case DefZero:
						k = -1
					case DefPlain:
						if d.RHS != nil {
							k = g.NilnessOf(d.RHS, d.At)
						}
					}
					if k == 0 && (d.Kind == DefPlain || d.Kind == DefTuple) {
						// the value of THIS definition was tested between the
						// definition and p on every path
						if txt, ok := f.DefText(d); ok {
							from := g.After(d.At)
							if len(g.EdgesMatching("!eq("+txt+",nil)")) > 0 && g.DominatedFrom(from, p, []string{"!eq(" + txt + ",nil)"}) {
								k = +1
							} else if len(g.EdgesMatching("eq("+txt+",nil)")) > 0 && g.DominatedFrom(from, p, []string{"eq(" + txt + ",nil)"}) {
								k = -1
							}
						}
					}
					if all == 2 {
						all = k
					} else if all != k {
						all = 0
					}
				}
				if all == 1 || all == -1 {
					return all
				}
			}
		}
	}
	return 0
}

// RetKindOf classifies r.
func (g *Graph) RetKindOf(r *ast.ReturnStmt) RetKind {
	f := g.Fn
	i := f.ErrResultIndex()
	if i < 0 {
		return RetNoErr
	}
	p, ok := g.Where(r)
	if !ok {
		return RetMaybe
	}
	e, v := f.RetOperand(r, i)
	if e == nil && v != nil {
		// bare return of a named result: find an identifier-like view
		s := "r" + itoa(i)
		if g.assigned[v] {
			if d := g.UniqueDef(v, p); d != nil {
				switch d.Kind {
				case DefPlain:
					if d.RHS != nil {
						switch g.NilnessOf(d.RHS, d.At) {
						case 1:
							return RetError
						case -1:
							return RetSuccess
						}
					}
				}
			}
			s = "local:" + f.LocalName(v) + "<" + TypeStr(v.Type()) + ">"
		}
		if ok, _ := g.Dominated(p, "eq("+s+",nil)"); ok {
			return RetSuccess
		}
		if ok, _ := g.Dominated(p, "!eq("+s+",nil)"); ok {
			return RetError
		}
		// try through the unique def (call result)
		if d := g.UniqueDef(v, p); d != nil {
			n := normalizer{f: f}
			if ds, ok2 := n.defExpr(d); ok2 {
				if ok, _ := g.Dominated(p, "eq("+ds+",nil)"); ok {
					return RetSuccess
				}
				if ok, _ := g.Dominated(p, "!eq("+ds+",nil)"); ok {
					return RetError
				}
			}
		}
		return RetMaybe
	}
	if e == nil {
		return RetMaybe
	}
	if len(r.Results) == 1 && f.Sig().Results().Len() > 1 {
		return RetMaybe // tail call
	}
	switch g.NilnessOf(e, p) {
	case 1:
		return RetError
	case -1:
		return RetSuccess
	}
	return RetMaybe
}

// ReachableNodes returns the nodes reachable from start (inclusive).
func (g *Graph) ReachableNodes(start Point, cut Cut) []ast.Node {
	var out []ast.Node
	g.reach(start, cut, nil, func(p Point, n ast.Node) {
		if n != nil {
			out = append(out, n)
		}
	})
	return out
}

// EdgeTarget is the point at the start of the block edge e leads to.
func (g *Graph) EdgeTarget(e Edge) Point {
	return Point{int(g.Blocks[e.B].Succs[e.S].Index), 0}
}

// ContainsCall reports whether node n (not descending into literals) contains
// a call whose callee id matches pat.
func (f *Fn) ContainsCall(n ast.Node, pat string) *ast.CallExpr {
	var found *ast.CallExpr
	ast.Inspect(n, func(x ast.Node) bool {
		if found != nil {
			return false
		}
		if l, ok := x.(*ast.FuncLit); ok && l != f.Lit {
			return false
		}
		if c, ok := x.(*ast.CallExpr); ok && Glob(pat, f.CalleeID(c)) {
			found = c
			return false
		}
		return true
	})
	return found
}

// DominatingAtoms returns the distinct atoms matching pat each of which
// dominates site by itself.
func (g *Graph) DominatingAtoms(site Point, pat string, assume ...string) []string {
	seen := map[string]bool{}
	var out []string
	for _, ce := range g.CondEdges() {
		for _, a := range ce.Atoms {
			if seen[a.S] || !Glob(pat, a.S) {
				continue
			}
			seen[a.S] = true
			if ok, _ := g.Dominated(site, a.S, assume...); ok {
				out = append(out, a.S)
			}
		}
	}
	sort.Strings(out)
	return out
}

// MustPassBefore reports whether every path from `from` to `to` passes
// through a node satisfying via (checked on nodes strictly between).
func (g *Graph) MustPassBefore(from, to Point, via func(p Point, n ast.Node) bool, cut Cut) bool {
	return !g.Reachable(from, to, cut, via)
}

// WalkLits returns the composite literals of type typ in f's own body.
func (f *Fn) WalkLits(typ string) []*ast.CompositeLit {
	var out []*ast.CompositeLit
	f.WalkBody(func(n ast.Node) bool {
		if cl, ok := n.(*ast.CompositeLit); ok {
			if t := f.Info().TypeOf(cl); t != nil && TypeStr(t) == typ {
				out = append(out, cl)
			}
		}
		return true
	})
	return out
}
