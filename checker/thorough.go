package main

import (
	"encoding/json"
	"fmt"
	"os"
	"os/exec"
	"path/filepath"
	"runtime"
	"sort"
	"strings"
	"sync"

	"verif/checker/eng"
)

// Variant is one stored source variant of the repository (selftest/mutants):
// a small edit of named files that breaks a property while still compiling
// ("expect": "violation", the default) or that preserves behaviour
// ("expect": "silent").
type Variant struct {
	ID       string `json:"id"`
	Property string `json:"property"`
	Rule     string `json:"rule"`
	Expect   string `json:"expect"`
	Note     string `json:"note"`
	Edits    []struct {
		File  string `json:"file"`
		Old   string `json:"old"`
		New   string `json:"new"`
		Count int    `json:"count"`
	} `json:"edits"`
}

func loadVariants(verif, prop string) ([]Variant, error) {
	path := filepath.Join(verif, "selftest", "mutants", strings.ToLower(prop)+".json")
	b, err := os.ReadFile(path)
	if err != nil {
		return nil, err
	}
	var vs []Variant
	if err := json.Unmarshal(b, &vs); err != nil {
		return nil, fmt.Errorf("%s: %v", path, err)
	}
	return vs, nil
}

// overlayFor applies the variant's edits to the CURRENT contents of the files
// in repo. ok=false: the text the variant edits is not in today's source (the
// variant is stale, not the tree wrong).
func overlayFor(repo string, v Variant) (map[string][]byte, bool, string) {
	ov := map[string][]byte{}
	for _, e := range v.Edits {
		abs := filepath.Join(repo, e.File)
		src, have := ov[abs]
		if !have {
			b, err := os.ReadFile(abs)
			if err != nil {
				return nil, false, err.Error()
			}
			src = b
		}
		want := e.Count
		if want == 0 {
			want = 1
		}
		if n := strings.Count(string(src), e.Old); n != want {
			return nil, false, fmt.Sprintf("edited text occurs %d times in %s (expected %d)", n, e.File, want)
		}
		ov[abs] = []byte(strings.ReplaceAll(string(src), e.Old, e.New))
	}
	return ov, true, ""
}

// runVariant is the child-process entry: analyse the overlaid tree with the
// quick rules and print the failing keys.
func findVariant(verif, spec string) (Variant, error) {
	i := strings.LastIndex(spec, "#")
	if i < 0 {
		return Variant{}, fmt.Errorf("-variant wants PROPERTY#id")
	}
	vs, err := loadVariants(verif, spec[:i])
	if err != nil {
		return Variant{}, err
	}
	for _, v := range vs {
		if v.ID == spec[i+1:] {
			return v, nil
		}
	}
	return Variant{}, fmt.Errorf("no variant %s", spec)
}

type variantResult struct {
	ID      string   `json:"id"`
	Rule    string   `json:"rule,omitempty"`
	Expect  string   `json:"expect"`
	Outcome string   `json:"outcome"` // caught | silent | MISSED | WRONG-RULE | FALSE-ALARM | stale | no-typecheck | error
	Fired   []string `json:"fired,omitempty"`
	Detail  string   `json:"detail,omitempty"`
}

// thorough runs, after the rules have been evaluated on the tree itself:
//   - the same rules on a GOARCH=386 load (build-constraint / word-size
//     variants of the source must give the same verdicts), and
//   - rule liveness: every stored variant of today's source, applied as an
//     in-memory overlay (the tree is not touched, nothing is executed), must
//     make the named rule fire (or stay silent for behaviour-preserving ones).
//
// Liveness results are evidence about the checker, not about the tree: they
// are recorded and printed but never turned into a VIOLATION.
func thorough(rep *eng.Report, prop, repo, verif string, baseKeys map[string]bool) {
	rep.Extra = map[string]interface{}{}
	self, err := os.Executable()
	if err != nil {
		rep.Note("thorough: cannot locate own executable: %v", err)
		return
	}
	// 1. second target
	{
		tmp, _ := os.MkdirTemp("", "xmppcheck-386-")
		copyFindings(verif, tmp)
		cmd := exec.Command(self, "-property", prop, "-tier", "quick", "-repo", repo, "-verif", tmp, "-goarch", "386")
		out, _ := cmd.CombinedOutput()
		keys := readKeys(filepath.Join(tmp, "evidence", prop+".obligations.txt"))
		os.RemoveAll(tmp)
		var diff []string
		for k, ok := range keys {
			if b, have := baseKeys[k]; !have || (b && !ok) {
				diff = append(diff, k)
			}
		}
		for k := range baseKeys {
			if _, have := keys[k]; !have {
				diff = append(diff, k)
			}
		}
		sort.Strings(diff)
		rep.Extra["goarch_386"] = map[string]interface{}{"obligations": len(keys), "differing_keys": diff}
		if len(keys) == 0 {
			rep.CheckNamed(prop+".arch386", "-", "GOARCH=386 load", "the rules evaluate on the 386 load of the same tree", 0, false, "no obligations from the GOARCH=386 run: "+lastLine(string(out)))
		} else {
			for _, k := range diff {
				if ok, have := keys[k]; have && !ok {
					rep.CheckNamed(prop+".arch386", "-", "GOARCH=386: "+k, "same verdict on the 386 build of the tree", 0, false, "obligation fails (or exists) only under GOARCH=386")
				}
			}
			rep.CheckNamed(prop+".arch386", "-", "GOARCH=386 load", "the rules evaluate on the 386 load of the same tree", 0, true, "")
		}
	}
	// 2. liveness
	vs, err := loadVariants(verif, prop)
	if err != nil {
		rep.Note("thorough: no stored variants: %v", err)
		return
	}
	results := make([]variantResult, len(vs))
	par := runtime.NumCPU() / 2
	if par < 1 {
		par = 1
	}
	if par > 6 {
		par = 6
	}
	sem := make(chan struct{}, par)
	var wg sync.WaitGroup
	for i, v := range vs {
		wg.Add(1)
		go func(i int, v Variant) {
			defer wg.Done()
			sem <- struct{}{}
			defer func() { <-sem }()
			res := variantResult{ID: v.ID, Rule: v.Rule, Expect: v.Expect}
			if res.Expect == "" {
				res.Expect = "violation"
			}
			if _, ok, why := overlayFor(repo, v); !ok {
				res.Outcome, res.Detail = "stale", why
				results[i] = res
				return
			}
			tmp, _ := os.MkdirTemp("", "xmppcheck-var-")
			defer os.RemoveAll(tmp)
			copyFindings(verif, tmp)
			// the variant list is read from the real verif dir, evidence goes to tmp
			cmd := exec.Command(self, "-property", prop, "-tier", "quick", "-repo", repo, "-verif", tmp, "-variant", prop+"#"+v.ID, "-variants-from", verif)
			out, err := cmd.CombinedOutput()
			code := 0
			if ee, ok := err.(*exec.ExitError); ok {
				code = ee.ExitCode()
			} else if err != nil {
				res.Outcome, res.Detail = "error", err.Error()
				results[i] = res
				return
			}
			for _, l := range strings.Split(string(out), "\n") {
				l = strings.TrimSpace(l)
				if strings.HasPrefix(l, "FAIL ") {
					f := strings.Fields(l)
					if len(f) > 2 {
						k := f[2]
						if j := strings.Index(l, f[2]); j >= 0 {
							k = l[j:]
							if len(k) > 140 {
								k = k[:140]
							}
						}
						res.Fired = append(res.Fired, k)
					}
				}
			}
			loadFail := false
			for _, k := range res.Fired {
				if strings.HasPrefix(k, prop+".load|") || strings.Contains(k, "load errors:") {
					loadFail = true
				}
			}
			if strings.Contains(string(out), "load errors:") {
				loadFail = true
			}
			switch {
			case loadFail:
				res.Outcome, res.Detail = "no-typecheck", "the variant does not type-check against today's tree"
			case res.Expect == "silent" && code == 0:
				res.Outcome = "silent"
			case res.Expect == "silent":
				res.Outcome = "FALSE-ALARM"
			case code == 0:
				res.Outcome = "MISSED"
			default:
				res.Outcome = "caught"
				if v.Rule != "" {
					hit := false
					for _, k := range res.Fired {
						if strings.HasPrefix(k, v.Rule) {
							hit = true
						}
					}
					if !hit {
						res.Outcome = "WRONG-RULE"
					}
				}
			}
			results[i] = res
		}(i, v)
	}
	wg.Wait()
	count := map[string]int{}
	for _, r := range results {
		count[r.Outcome]++
		if r.Outcome != "caught" && r.Outcome != "silent" {
			fmt.Printf("LIVENESS %s: variant %s (rule %s) on today's tree: %s %s\n", r.Outcome, r.ID, r.Rule, strings.Join(r.Fired, "; "), r.Detail)
		}
	}
	rep.Extra["liveness"] = map[string]interface{}{
		"what":     "each stored variant of the CURRENT source (selftest/mutants/" + strings.ToLower(prop) + ".json; an in-memory overlay, analysed, never executed) must make the named rule fire; behaviour-preserving variants must stay silent. Evidence about the checker; never a VIOLATION.",
		"variants": len(vs),
		"outcomes": count,
		"results":  results,
	}
	fmt.Printf("%s liveness: %d variants %v\n", prop, len(vs), count)
}

func copyFindings(from, to string) {
	if b, err := os.ReadFile(filepath.Join(from, "known_findings.json")); err == nil {
		os.WriteFile(filepath.Join(to, "known_findings.json"), b, 0o644)
	}
}

func readKeys(path string) map[string]bool {
	out := map[string]bool{}
	b, err := os.ReadFile(path)
	if err != nil {
		return out
	}
	for _, l := range strings.Split(string(b), "\n") {
		f := strings.SplitN(l, "\t", 3)
		if len(f) == 3 {
			out[f[2]] = f[0] != "FAIL"
		}
	}
	return out
}

func lastLine(s string) string {
	ls := strings.Split(strings.TrimSpace(s), "\n")
	return ls[len(ls)-1]
}
