package main

import (
	"fmt"
	"golang.org/x/tools/go/packages"
)

func main() {
	cfg := &packages.Config{Mode: packages.LoadAllSyntax, Dir: "/repo"}
	pkgs, err := packages.Load(cfg, "./...")
	fmt.Println(len(pkgs), err)
}
