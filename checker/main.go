// xmppcheck decides the properties of /verif/properties.jsonl for mellium/xmpp
// by static analysis of the repository's current source.
package main

import (
	"flag"
	"fmt"
	"os"
	"sort"
	"strconv"
	"strings"

	"verif/checker/eng"
	"verif/checker/rules"
)

func main() {
	prop := flag.String("property", "", "property id (C01..C20)")
	tier := flag.String("tier", "", "quick|thorough (default $VERIF_TIER or quick)")
	repo := flag.String("repo", "/repo", "repository root")
	verif := flag.String("verif", "/verif", "verification directory (evidence, known findings)")
	dump := flag.String("dump", "", "debug: dump the fact graph of pkg:func (e.g. :negotiateFeatures, mux:(*ServeMux).HandleXMPP)")
	list := flag.Bool("list", false, "list registered properties")
	goarch := flag.String("goarch", "", "load the tree for this GOARCH (thorough tier child)")
	variant := flag.String("variant", "", "PROPERTY#id: analyse the stored variant of the current tree as an overlay (thorough tier child)")
	variantsFrom := flag.String("variants-from", "", "verification directory holding selftest/mutants (default: -verif)")
	flag.Parse()
	if *list {
		var ids []string
		for id := range rules.Registry {
			ids = append(ids, id)
		}
		sort.Strings(ids)
		fmt.Println(strings.Join(ids, " "))
		return
	}
	if *tier == "" {
		*tier = os.Getenv("VERIF_TIER")
	}
	if *tier != "thorough" {
		*tier = "quick"
	}
	var seed int64
	if s := os.Getenv("VERIF_SEED"); s != "" {
		seed, _ = strconv.ParseInt(s, 10, 64)
	}
	if *dump != "" {
		p, err := eng.Load(*repo)
		if err != nil {
			fmt.Fprintln(os.Stderr, err)
			os.Exit(2)
		}
		i := strings.Index(*dump, ":")
		f := p.Func((*dump)[:i], (*dump)[i+1:])
		if f == nil {
			fmt.Fprintln(os.Stderr, "no such function; candidates:")
			for _, fn := range p.Fns {
				if strings.Contains(fn.Name, (*dump)[i+1:]) {
					fmt.Fprintln(os.Stderr, "  ", fn.Name)
				}
			}
			os.Exit(2)
		}
		fmt.Print(f.Graph().Dump())
		return
	}
	r, ok := rules.Registry[*prop]
	if !ok {
		fmt.Fprintf(os.Stderr, "unknown property %q\n", *prop)
		os.Exit(2)
	}
	cmd := fmt.Sprintf("/verif/bin/xmppcheck -property %s -tier %s", *prop, *tier)
	var overlay map[string][]byte
	var extraEnv []string
	if *goarch != "" {
		extraEnv = append(extraEnv, "GOARCH="+*goarch, "CGO_ENABLED=0")
	}
	if *variant != "" {
		from := *variantsFrom
		if from == "" {
			from = *verif
		}
		v, verr := findVariant(from, *variant)
		if verr != nil {
			fmt.Fprintln(os.Stderr, verr)
			os.Exit(2)
		}
		ov, ok, why := overlayFor(*repo, v)
		if !ok {
			fmt.Fprintln(os.Stderr, "stale variant:", why)
			os.Exit(3)
		}
		overlay = ov
	}
	p, err := eng.LoadWith(*repo, overlay, extraEnv)
	rep := eng.NewReport(p, *prop, *tier)
	if err != nil {
		rep.CheckNamed(*prop+".load", "-", "load", "repository loads and type-checks", 0, false, err.Error())
		os.Exit(rep.Finish(*verif, r.Meta, seed, cmd))
	}
	func() {
		defer func() {
			if e := recover(); e != nil {
				rep.CheckNamed(*prop+".panic", "-", "checker", "checker completes", 0, false, fmt.Sprintf("checker panic: %v", e))
				if os.Getenv("XMPPCHECK_DEBUG") != "" {
					panic(e)
				}
			}
		}()
		if len(p.Ignored) > 0 {
			rep.CheckNamed(*prop+".load", "-", "build-constraints", "no library file excluded by build constraints", 0, false, strings.Join(p.Ignored, ","))
		}
		r.Run(p, rep, *tier)
	}()
	if *tier == "thorough" && *variant == "" && *goarch == "" {
		base := map[string]bool{}
		for _, o := range rep.Obls {
			base[o.Key] = o.OK
		}
		thorough(rep, *prop, *repo, *verif, base)
	}
	if len(rep.Obls) == 0 {
		rep.CheckNamed(*prop+".empty", "-", "checker", "at least one obligation", 0, false, "no obligations generated")
	}
	os.Exit(rep.Finish(*verif, r.Meta, seed, cmd))
}
