package rules

import (
	"go/ast"
	"go/token"
	"go/types"
	"strings"

	"verif/checker/eng"
)

func init() {
	Registry["C05"] = Rule{
		Meta: eng.Meta{
			Explanation: "Structural necessary conditions of 'each transmit call puts exactly its own element on the wire, whole', decided on every path: lock discipline L(Session.out.e, Session.out) by must-lockset dataflow with acquire-wrapper summaries and the typestate of the closer types (C05.1), lock pairing (C05.2), the order start token < payload copy < end token < flush on every success path of send (C05.3), a flush on every success path of the marshal helpers (C05.4), every parameter of the transmit API and marshal helpers flows into the output (C05.5), the attribute-completion guards of stanzaEncoder.EncodeToken and the stanza-name table (C05.6), kind test and id completion before any write in SendIQ/SendMessage/SendPresence (C05.7), and the closed list of raw-connection writers (C05.8 = C02.7).",
			NotDecided:  "that the bytes denote the arguments (content equality), large payloads, the race detector's view of fields other than the encoder (the lock discipline is the static counterpart).",
			Trusted:     trustedCommon,
			Assumptions: []string{"locks are identified by field class; lockWriteCloser.m aliases Session.out by construction (checked)"},
		},
		Run: runC05,
	}
}

func runC05(p *eng.Prog, r *eng.Report, tier string) {
	c := &cx{p, r, tier}
	r19ExpiredDeadlineClearedByItsSetter(c, "C05.32")
	r19WrapPassesThePayloadOn(c, "C05.30")
	r19FromIndependentOfTo(c, "C05.31")
	r19CancelledOnlyWhileWaiting(c, "C05.29")
	r18EncoderNamespaceIsTheOutputs(c, "C05.28")
	c.r.Floor("C05.27", "functions scanned for package-level state", r17NoHiddenGlobalState(c, "C05.27"), 500)
	// C05.24 (= C09.17 / C10.10): no cycle in the lock-order graph: a deadlock between a
	// writer and Close, or between the serve loop and a requester, ends every guarantee of this property
	lockOrder(c, "C05.24")
	exempt := map[string]string{"xmpp.negotiateSession": "construction before the session is shared"}
	lockDiscipline(c, "C05.1", "xmpp.Session.out.e", "xmpp.Session.out", exempt, 9)
	requiresLocks(c, "C05.1", "xmpp.(*Session).closeSession")
	lockPairing(c, "C05.2", []string{"xmpp.Session.out", "xmpp.Session.in"}, map[string]bool{"xmpp.(*Session).TokenWriter": true, "xmpp.(*Session).TokenReader": true})
	closerTypestate(c, "C05.2")
	c05DeferWriter(c)
	closerFresh(c, "C05.2")
	attrCopyLoopsComplete(c, "C05.11")
	flusherNotHidden(c, "C05.12")
	// C05.13 the type attribute a stanza value is sent with is the value's type: the
	// text marshalers of the stanza type enumerations handle every constant
	closedBitBeforeWrites(c, "C05.14")
	handlerWriterKeepsTheLock(c, "C05.15")
	attrGetNotUsed(c, "C05.16")
	depthCountersDoNotWrap(c, "C05.18")
	c05SendHandsReaderOn(c, "C05.19")
	c05ReplyFlushedAfterHandler(c, "C05.20")
	c05ContentNamespaceFromRole(c, "C05.17")
	streamInfoResetOnlyOnRestart(c, "C05.21")
	// C05.22 (= C12.16): a header that leaves an attribute out leaves the field
	// alone - the from address stamped on server-to-server stanzas is the
	// address negotiateSession preserved across the steps
	c12HeaderKeepsAbsent(c, "C05.22")
	// C05.25 (= C06.16 / C07.8): the positions getIDTyp reports are positions in
	// the attribute list it was given (the senders write the generated id into
	// start.Attr[idx]): id, type and their indexes are taken from a range over
	// the parameter itself, behind the empty-namespace test
	idTypFromOwnAttributes(c, "C05.25")
	c05TrackedSendKeepsTheStart(c, "C05.26")
	// (no sync.Pool on today's tree: kept alive by the stored variant C05-r14-3)
	c.r.Note("C05.23: %d Pool.Put calls", pooledStorageDoesNotEscape(c, "C05.23"))
	nEnum := enumExhaustive(c, "C05.13", []string{"stanza"})
	c.r.Floor("C05.13", "enumeration methods in package stanza", nEnum, 2)
	c05Send(c)
	c05Marshal(c)
	c05MarshalAdapters(c)
	c05Params(c)
	c05StanzaEncoder(c)
	c05SendKinds(c)
	c02RawConn(c)
}

// handleInputStream closes its deferWriter and its reader on every path from
// their creation to a return (a deferred Close counts from the defer statement).
func c05DeferWriter(c *cx) { c05DeferWriterAs(c, "C05.2") }

func c05DeferWriterAs(c *cx, id string) {
	f := c.fn(id, "", "handleInputStream")
	if f == nil {
		return
	}
	g := f.Graph()
	want := map[string]bool{"TokenReader": false, "deferWriter": false}
	for _, d := range g.AllDefs() {
		if d.RHS == nil || d.Var == nil {
			continue
		}
		kind := ""
		n := f.Norm(d.RHS, &d.At)
		t := eng.TypeStr(f.Info().TypeOf(d.RHS))
		switch {
		case strings.HasPrefix(n, "xmpp.Session.TokenReader["):
			kind = "TokenReader"
		case strings.Contains(t, "deferWriter"):
			if _, isLit := ast.Unparen(d.RHS).(*ast.UnaryExpr); isLit {
				kind = "deferWriter"
			}
		}
		if kind == "" {
			continue
		}
		want[kind] = true
		v := d.Var
		isClose := func(q eng.Point, nd ast.Node) bool {
			found := false
			ast.Inspect(nd, func(x ast.Node) bool {
				if cl, ok := x.(*ast.CallExpr); ok {
					if sel, ok := ast.Unparen(cl.Fun).(*ast.SelectorExpr); ok && sel.Sel.Name == "Close" {
						if id, ok := ast.Unparen(sel.X).(*ast.Ident); ok && f.Info().Uses[id] == v {
							found = true
						}
					}
				}
				return !found
			})
			return found
		}
		bad := ""
		for _, rs := range g.Returns {
			rp, _ := g.Where(rs)
			if g.Reachable(g.After(d.At), rp, nil, isClose) {
				bad = "return at " + c.p.Pos(rs.Pos()) + " reachable without Close of the " + kind
				break
			}
		}
		c.r.Check(id, f, "Close of the "+kind, "O: the locks taken for a handler invocation are released on every exit: Close is deferred or called on every path from the creation to a return", d.Node.Pos(), bad == "", bad)
	}
	for k, v := range want {
		if !v {
			c.r.Check(id, f, "Close of the "+k, "O: the locks taken for a handler invocation are released on every exit: Close is deferred or called on every path from the creation to a return", f.Pos(), false, "no "+k+" is created in handleInputStream")
		}
	}
}

func callWithArg(f *eng.Fn, pat string, argIdx int, argPat string) func(eng.Point, ast.Node) bool {
	return func(q eng.Point, nd ast.Node) bool {
		found := false
		ast.Inspect(nd, func(x ast.Node) bool {
			if cl, ok := x.(*ast.CallExpr); ok && eng.Glob(pat, f.CalleeID(cl)) {
				if argIdx < 0 || (argIdx < len(cl.Args) && eng.Glob(argPat, f.Norm(cl.Args[argIdx], &q))) {
					found = true
				}
			}
			return !found
		})
		return found
	}
}

func c05Send(c *cx) {
	id := "C05.3"
	f := c.fn(id, "", "send")
	if f == nil {
		return
	}
	g := f.Graph()
	steps := []struct {
		what string
		m    func(eng.Point, ast.Node) bool
	}{
		{"EncodeToken(*start)", callWithArg(f, "*.EncodeToken", 0, "*local:*<*encoding/xml.StartElement>")},
		{"Copy(s.out.e, r)", callWithArg(f, "mellium.im/xmlstream.Copy", 0, "p1.out.e")},
		{"EncodeToken(start.End())", callWithArg(f, "*.EncodeToken", 0, "encoding/xml.StartElement.End[*]()")},
		{"Flush", callWithArg(f, "*.Flush", -1, "")},
	}
	n := 0
	for _, rs := range g.Returns {
		if g.RetKindOf(rs) == eng.RetError {
			continue
		}
		n++
		pt, _ := g.Where(rs)
		from := g.Entry()
		for i, st := range steps {
			last := i == len(steps)-1
			okp := g.MustPassBefore(from, pt, st.m, nil) || (last && st.m(pt, rs))
			c.r.Check(id, f, "success return passes "+st.what, "O+S: every success path of send writes start token, payload, end token and flushes, in that order", rs.Pos(), okp, "a success path skips "+st.what+" (or reaches it out of order)")
			// the next step is searched after every occurrence of this one: approximate by
			// requiring order pairwise below
		}
		// pairwise order: step i+1 is not reachable from entry without step i
		for i := 0; i+1 < len(steps); i++ {
			for _, b := range g.Blocks {
				if !b.Live {
					continue
				}
				for j, nd := range b.Nodes {
					q := eng.Point{B: int(b.Index), I: j}
					if steps[i+1].m(q, nd) && !steps[i].m(q, nd) {
						c.r.Check(id, f, steps[i].what+" precedes "+steps[i+1].what, "O: order of the writes", nd.Pos(), g.MustPassBefore(g.Entry(), q, steps[i].m, nil), steps[i+1].what+" reachable before "+steps[i].what)
					}
				}
			}
		}
	}
	c.r.Floor(id, "success returns of send", n, 1)
	// C05.9 failure atomicity: encoding/xml cannot take back a start tag that
	// has been encoded. An error return that is reachable after the start
	// token was written leaves a half-open element in the shared encoder, and
	// the next successful call is emitted INSIDE it; the only sound reactions
	// are to finish or to poison the output (mark it closed) before returning.
	{
		poison := func(q eng.Point, nd ast.Node) bool {
			if f.ContainsCall(nd, "xmpp.Session.closeSession") != nil || f.ContainsCall(nd, "xmpp.Session.Close") != nil {
				return true
			}
			for _, w := range f.FieldWrites("xmpp.Session.state") {
				if w.Stmt == nd {
					return true
				}
			}
			return false
		}
		bad := ""
		for _, b := range g.Blocks {
			if !b.Live {
				continue
			}
			for j, nd := range b.Nodes {
				q := eng.Point{B: int(b.Index), I: j}
				if !steps[0].m(q, nd) {
					continue
				}
				for _, rs := range g.Returns {
					if g.RetKindOf(rs) == eng.RetSuccess {
						continue
					}
					rp, _ := g.Where(rs)
					// the error of the start-token write itself does not count:
					// nothing usable was written (skip returns dominated by it)
					if g.Reachable(g.After(q), rp, nil, poison) {
						// is this the immediate failure of the start write?
						cn := f.Norm(ast.Unparen(nd.(*ast.AssignStmt).Rhs[0]), &q)
						if ok, _ := g.Dominated(rp, "!eq("+cn+",nil)"); ok && !g.Reachable(g.After(q), rp, nil, steps[1].m) {
							continue
						}
						bad = "error return at " + c.p.Pos(rs.Pos()) + " after the start tag was written, without closing or finishing the element"
					}
				}
			}
		}
		c.r.Check("C05.9", f, "failure after the start tag poisons the output", "S: an error return that is reachable after the start token was encoded marks the output stream unusable (otherwise the next successful call is emitted inside the half-open element)", f.Pos(), bad == "", bad)
	}
	// start == nil: first token must be a start element (comma-ok) and the rest is limited to its element
	for _, w := range f.Writes() {
		if v := rootLocal(f, w.LHS); v != nil && w.RHS != nil {
			if _, isParam := f.Sig().Params().At(2), true; isParam && v == f.Sig().Params().At(2) {
				pt, _ := g.Where(w.Stmt)
				okInner := eng.Glob("mellium.im/xmlstream.Inner(*)", f.Norm(w.RHS, &pt))
				c.r.Check(id, f, "payload reader when no start element is given", "P: the payload is limited to the first element (xmlstream.Inner)", w.Stmt.Pos(), okInner, "reader replaced by "+f.Norm(w.RHS, &pt))
				c.dom(id, f, w.Stmt, "payload reader when no start element is given [first token is a start element]", []string{"commaok(*.(encoding/xml.StartElement))"})
			}
		}
	}
}

func c05Marshal(c *cx) {
	id := "C05.4"
	for _, name := range []string{"EncodeXML", "EncodeXMLElement"} {
		f := c.fn(id, "internal/marshal", name)
		if f == nil {
			continue
		}
		g := f.Graph()
		isFlush := callWithArg(f, "*.Flush", -1, "")
		n := 0
		for _, rs := range g.Returns {
			if g.RetKindOf(rs) == eng.RetError {
				continue
			}
			n++
			pt, _ := g.Where(rs)
			// licensed: w is not a Flusher
			if ok, _ := g.Dominated(pt, "!commaok(p0.(mellium.im/xmlstream.Flusher))"); ok {
				c.r.Check(id, f, "success return (writer is not a Flusher)", "S: nothing to flush", rs.Pos(), true, "")
				continue
			}
			okf := isFlush(pt, rs) || g.MustPassBefore(g.Entry(), pt, isFlush, nil)
			c.r.Check(id, f, "success return flushes", "S: when the writer is a Flusher every success path flushes before returning (all value forms: WriterTo, marshaler/token reader, plain value)", rs.Pos(), okf, "a success return is reachable without Flush (the element stays in the encoder's buffer)")
		}
		c.r.Floor(id, "non-error returns of "+name, n, 2)
	}
}

// C05.5 every parameter is used; start elements flow into the output.
func c05Params(c *cx) {
	id := "C05.5"
	var fns []*eng.Fn
	for _, f := range c.allFns() {
		if f.Obj == nil {
			continue
		}
		isAPI := f.Pkg.PkgPath == eng.ModPath && f.Obj.Exported() && strings.HasPrefix(f.Short, "xmpp.(*Session).") &&
			(strings.Contains(f.Obj.Name(), "Send") || strings.Contains(f.Obj.Name(), "Encode"))
		if isAPI || f.Pkg.PkgPath == eng.ModPath+"/internal/marshal" || f.Short == "xmpp.send" || f.Short == "xmpp.(*Session).sendResp" ||
			strings.HasPrefix(f.Short, "xmpp.(*responseChecker).") {
			fns = append(fns, f)
		}
	}
	n := 0
	for _, f := range fns {
		sig := f.Sig()
		for i := 0; i < sig.Params().Len(); i++ {
			pv := sig.Params().At(i)
			if pv.Name() == "" || pv.Name() == "_" {
				continue
			}
			n++
			used := false
			f.WalkBody(func(nd ast.Node) bool {
				if idn, ok := nd.(*ast.Ident); ok && f.Info().Uses[idn] == types.Object(pv) {
					used = true
				}
				return !used
			})
			c.r.Check(id, f, "parameter p"+itoa(i)+" ("+eng.TypeStr(pv.Type())+")", "P: no argument of a transmit call is dropped (every named parameter is read)", f.Pos(), used, "parameter "+pv.Name()+" ("+eng.TypeStr(pv.Type())+") is never read: the caller's argument cannot influence the output")
		}
	}
	c.r.Floor(id, "parameters of the transmit API", n, 40)
}

// c05FromSource (C05.8): the address stanzaEncoder adds on server-to-server
// streams is the session's local address (LocalAddr, i.e. what negotiation
// learned), wherever the encoder is set up; and it is set whenever the stream
// is a server-to-server stream.
func c05FromSource(c *cx) {
	id := "C05.8"
	n := 0
	for _, f := range c.allFns() {
		if !strings.HasPrefix(f.Short, "xmpp.") {
			continue
		}
		g := f.Graph()
		for _, w := range f.FieldWrites("xmpp.stanzaEncoder.from") {
			n++
			pt, _ := g.Where(w.Stmt)
			v := ""
			if w.RHS != nil {
				v = f.Norm(w.RHS, &pt)
			}
			ok := eng.Glob("xmpp.Session.LocalAddr[*]()", v) || eng.Glob("*.in.Info.To", v)
			c.r.Check(id, f, "source of stanzaEncoder.from", "K: the from address added to outgoing stanzas is the session's LocalAddr()", w.Stmt.Pos(), ok, "from is set from "+v)
			c.dom(id, f, w.Stmt, "from set on server-to-server streams", []string{"eq(*.out.Info.XMLNS,stanza.NSServer)"})
		}
		for _, cl := range f.WalkLits("xmpp.stanzaEncoder") {
			if fv := structLitField(cl, "from"); fv != nil {
				n++
				pt, _ := g.Where(cl)
				v := f.Norm(fv, &pt)
				ok := eng.Glob("xmpp.Session.LocalAddr[*]()", v) || eng.Glob("*.in.Info.To", v)
				c.r.Check(id, f, "source of stanzaEncoder.from (literal)", "K: the from address added to outgoing stanzas is the session's LocalAddr()", cl.Pos(), ok, "from is set from "+v)
			}
		}
	}
	c.r.Floor(id, "writes of stanzaEncoder.from", n, 1)
}

func c05StanzaEncoder(c *cx) {
	id := "C05.6"
	c05FromSource(c)
	f := c.fn(id, "", "(*stanzaEncoder).EncodeToken")
	if f == nil {
		return
	}
	g := f.Graph()
	// decisions about the completed start element are taken on the element as
	// it is written, not on a copy made before the namespace was filled in
	nStale := staleCopies(c, id, f)
	c.r.Note("%s: %d local copies of later-assigned selector paths examined in EncodeToken", id, nStale)
	guard := []string{"eq(recv.depth,1)", "xmpp.isStanzaEmptySpace(*.Name)", "istype(*;encoding/xml.StartElement)"}
	nApp := map[string]int{}
	// the two "attribute seen" flags, found by role: the boolean local that is
	// set to true in the arm of the attribute's name
	flagName := map[string]string{}
	for _, attrName := range []string{"id", "from"} {
		for _, w := range f.Writes() {
			v := rootLocal(f, w.LHS)
			if v == nil || w.RHS == nil || eng.TypeStr(v.Type()) != "bool" {
				continue
			}
			if cv := f.ConstVal(w.RHS); cv == nil || cv.ExactString() != "true" {
				continue
			}
			wp, _ := g.Where(w.Stmt)
			if ok, _ := g.Dominated(wp, "eq(rangeval(*.Attr).Name.Local,\""+attrName+"\")"); ok {
				flagName[attrName] = v.Name()
			}
		}
		if flagName[attrName] == "" {
			c.r.Check(id, f, "flag for attribute "+attrName, "a boolean local records that the stanza already carries the attribute", f.Pos(), false, "no boolean local is set to true under the test for attribute "+attrName)
			flagName[attrName] = "?"
		}
	}
	f.WalkBody(func(nd ast.Node) bool {
		as, ok := nd.(*ast.AssignStmt)
		if !ok || len(as.Rhs) != 1 {
			return true
		}
		call, ok := ast.Unparen(as.Rhs[0]).(*ast.CallExpr)
		if !ok || f.CalleeID(call) != "builtin.append" || len(call.Args) != 2 {
			return true
		}
		cl, ok := ast.Unparen(call.Args[1]).(*ast.CompositeLit)
		if !ok {
			return true
		}
		nameLit, _ := structLitField(cl, "Name").(*ast.CompositeLit)
		if nameLit == nil {
			return true
		}
		local, _ := f.ConstStr(structLitField(nameLit, "Local"))
		pt, _ := g.Where(as)
		val := structLitField(cl, "Value")
		switch local {
		case "id":
			nApp["id"]++
			c.dom(id, f, as, "append of the id attribute", append([]string{"!local:" + flagName["id"] + "<bool>"}, guard...))
			c.onlyFacts(id, f, as, "append of the id attribute", append([]string{"!local:" + flagName["id"] + "<bool>", "!rangenext(*)"}, guard...))
			c.r.Check(id, f, "id attribute value", "K: a missing id is filled from attr.RandomID()", as.Pos(), val != nil && f.Norm(val, &pt) == "internal/attr.RandomID()", "id value is "+f.Norm(val, &pt))
		case "from":
			nApp["from"]++
			c.dom(id, f, as, "append of the from attribute", append([]string{"!local:" + flagName["from"] + "<bool>", "!eq(jid.JID.String[recv.from](),\"\")"}, guard...))
			c.onlyFacts(id, f, as, "append of the from attribute", append([]string{"!local:" + flagName["from"] + "<bool>", "!eq(jid.JID.String[recv.from](),\"\")", "!rangenext(*)"}, guard...))
			c.r.Check(id, f, "from attribute value", "K: the from attribute is the session's own address", as.Pos(), val != nil && f.Norm(val, &pt) == "jid.JID.String[recv.from]()", "from value is "+f.Norm(val, &pt))
		}
		return true
	})
	c.r.Floor(id, "append of id", nApp["id"], 1)
	c.r.Floor(id, "append of from", nApp["from"], 1)
	// foundID / foundFrom are set only for non-empty attribute values of that name
	for _, fl := range []struct{ v, attr string }{{flagName["id"], "id"}, {flagName["from"], "from"}} {
		n := 0
		for _, w := range f.Writes() {
			if v := rootLocal(f, w.LHS); v == nil || v.Name() != fl.v {
				continue
			}
			if cv := f.ConstVal(w.RHS); cv == nil || cv.ExactString() != "true" {
				continue
			}
			n++
			c.dom(id, f, w.Stmt, "flag for "+fl.attr+" = true", []string{"!eq(rangeval(*.Attr).Value,\"\")", "eq(rangeval(*.Attr).Name.Local,\"" + fl.attr + "\")"})
			// ... and only for the stanza's own (unqualified) attribute: xml:id
			// or foo:from must not stand in for it
			c.domAny(id, f, w.Stmt, "flag for "+fl.attr+" = true [unqualified attribute]", []string{"eq(rangeval(*.Attr).Name.Space,\"\")", "eq(rangeval(*.Attr).Name,encoding/xml.Name{Local:\"" + fl.attr + "\"})", "eq(encoding/xml.Name{Local:\"" + fl.attr + "\"},rangeval(*.Attr).Name)"})
		}
		c.r.Floor(id, "flag for "+fl.attr+" = true", n, 1)
	}
	// the stanza goes out in the stream's content namespace: on every path of
	// the top-level stanza arm the name's Space is set to recv.ns or known to
	// equal it (an element in the OTHER stanza namespace is not left as it is)
	{
		isNS := func(q eng.Point, nd ast.Node) bool {
			for _, w := range f.Writes() {
				if w.Stmt == nd {
					if sel, ok := ast.Unparen(w.LHS).(*ast.SelectorExpr); ok && sel.Sel.Name == "Space" && w.RHS != nil && f.Norm(w.RHS, nil) == "recv.ns" {
						return true
					}
				}
			}
			return false
		}
		cut := eng.Cut{}
		for _, ce := range g.EdgesMatching("eq(*.Name.Space,recv.ns)") {
			cut[ce.E] = true
		}
		bad := ""
		n := 0
		for _, ce := range g.EdgesMatching("xmpp.isStanzaEmptySpace(*.Name)") {
			src := eng.Point{B: ce.E.B, I: 0}
			if ok, _ := g.Dominated(src, "istype(*;encoding/xml.StartElement)"); !ok {
				continue
			}
			n++
			for _, rs := range g.Returns {
				rp, _ := g.Where(rs)
				if g.Reachable(g.EdgeTarget(ce.E), rp, cut, isNS) {
					bad = "a top-level stanza start can be forwarded without its namespace having been set to the stream's content namespace (a name already in the other stanza namespace is kept)"
				}
			}
		}
		c.r.Check(id, f, "stanza namespace forced to the stream's", "S: every top-level stanza start leaves with Name.Space == the stream's content namespace", f.Pos(), bad == "" && n > 0, bad)
	}
	// namespace defaulted only when empty
	for _, w := range f.Writes() {
		if sel, ok := ast.Unparen(w.LHS).(*ast.SelectorExpr); ok && sel.Sel.Name == "Space" && w.RHS != nil && f.Norm(w.RHS, nil) == "recv.ns" {
			c.dom(id, f, w.Stmt, "default namespace", []string{"eq(recv.depth,1)", "xmpp.isStanzaEmptySpace(*.Name)"})
		}
	}
	// depth bookkeeping
	inc, dec := 0, 0
	for _, w := range f.FieldWrites("xmpp.stanzaEncoder.depth") {
		switch w.Tok.String() {
		case "++":
			inc++
			c.dom(id, f, w.Stmt, "depth++", []string{"istype(*;encoding/xml.StartElement)"})
			c.onlyFacts(id, f, w.Stmt, "depth++", []string{"istype(*;encoding/xml.StartElement)"})
		case "--":
			dec++
			c.dom(id, f, w.Stmt, "depth--", []string{"istype(*;encoding/xml.EndElement)"})
			c.onlyFacts(id, f, w.Stmt, "depth--", []string{"istype(*;encoding/xml.EndElement)"})
		default:
			// the one other write allowed: putting back the value the depth had
			// on entry, on the edge where the wrapped encoder refused the token
			// (nothing was written, the element was neither opened nor closed)
			restore := false
			if w.Tok == token.ASSIGN && w.RHS != nil {
				if rid, ok := ast.Unparen(w.RHS).(*ast.Ident); ok {
					if rv, ok := f.Info().ObjectOf(rid).(*types.Var); ok {
						ds := g.DefsOf(rv)
						if len(ds) == 1 && ds[0].RHS != nil && f.Norm(ds[0].RHS, nil) == "recv.depth" && ds[0].At.B == 0 {
							wp, _ := g.Where(w.Stmt)
							if okd, _ := g.DominatedAny(wp, []string{"!eq(*.EncodeToken[*](*),nil)"}); okd {
								restore = true
							}
						}
					}
				}
			}
			c.r.Check(id, f, "write to depth", "depth only changes by ++/--, or is put back to its value on entry when the wrapped encoder refused the token", w.Stmt.Pos(), restore, "depth written with "+w.Tok.String())
		}
	}
	// who may write the depth: nobody but EncodeToken (a "resync" elsewhere
	// makes a nested stanza-named child look like a top-level stanza)
	for _, of := range c.allFns() {
		if of == f {
			continue
		}
		for _, w := range of.FieldWrites("xmpp.stanzaEncoder.depth") {
			c.r.Check(id, of, "write to stanzaEncoder.depth outside EncodeToken", "W: the element depth is maintained by EncodeToken alone", w.Stmt.Pos(), false, "depth written with "+w.Tok.String()+" in "+of.Short)
		}
		for _, cl := range of.WalkLits("xmpp.stanzaEncoder") {
			if dv := structLitField(cl, "depth"); dv != nil {
				c.r.Check(id, of, "stanzaEncoder literal sets depth", "W: a new stanzaEncoder starts at depth 0", cl.Pos(), false, "literal sets depth")
			}
		}
	}
	// E-alias: the attribute lists EncodeToken builds do not share their backing
	// array with the start element it was given (a shallow copy of the caller's):
	// filtering "in place" (tok.Attr[:0]) rewrites the caller's attributes, and a
	// start element that is sent twice goes out with duplicated attributes and
	// the previous stanza's id
	nAl := 0
	for _, d := range g.AllDefs() {
		if d.RHS == nil || !eng.IsLocal(d.Var) || eng.TypeStr(d.Var.Type()) != "[]encoding/xml.Attr" {
			continue
		}
		// only lists that are appended to
		appended := false
		for _, w := range f.Writes() {
			if call, ok := ast.Unparen(w.RHS).(*ast.CallExpr); ok && w.RHS != nil && f.CalleeID(call) == "builtin.append" && len(call.Args) > 0 {
				if idn, ok := ast.Unparen(call.Args[0]).(*ast.Ident); ok && f.Info().ObjectOf(idn) == types.Object(d.Var) {
					appended = true
				}
			}
		}
		if !appended {
			continue
		}
		if call, ok := ast.Unparen(d.RHS).(*ast.CallExpr); ok && f.CalleeID(call) == "builtin.append" {
			continue // the append chain itself
		}
		nAl++
		okf, why := freshSlice(f, d.RHS, d.At, map[*eng.Def]bool{})
		c.r.Check(id, f, "attribute list "+f.LocalName(d.Var), "E-alias: a list that EncodeToken appends attributes to starts from storage allocated in this call", d.Node.Pos(), okf, why)
	}
	c.r.Floor(id, "attribute lists built by EncodeToken", nAl, 2)
	// a refused token changes nothing: the wrapped encoder writes nothing when
	// it returns an error for a start or end token (a start tag without a
	// name), so the depth must not stay changed either: otherwise every later
	// top-level stanza is taken for a child (no namespace, no id, no from)
	nDel := 0
	for _, cl := range f.AllCalls() {
		if !strings.HasSuffix(f.CalleeID(cl), ".EncodeToken") || f.CalleeID(cl) == "xmpp.stanzaEncoder.EncodeToken" {
			continue
		}
		nDel++
		cp, _ := g.Where(cl)
		cn := f.Norm(cl, &cp)
		restored := func(q eng.Point, nd ast.Node) bool {
			as, ok := nd.(*ast.AssignStmt)
			return ok && len(as.Lhs) == 1 && f.Norm(as.Lhs[0], nil) == "recv.depth"
		}
		bad := ""
		if _, isRet := g.Parent(cl).(*ast.ReturnStmt); isRet {
			bad = "the wrapped encoder's result is returned directly: when it refuses the token the depth stays changed"
		}
		for _, ce := range g.EdgesMatching("!eq(" + cn + ",nil)") {
			from := g.EdgeTarget(ce.E)
			for _, rs := range g.Returns {
				rp, _ := g.Where(rs)
				if g.Reachable(from, rp, nil, restored) {
					bad = "the error of the wrapped encoder reaches the return at " + c.p.Pos(rs.Pos()) + " with the depth still changed"
				}
			}
		}
		c.r.Check(id, f, "depth put back when the token is refused", "O: on the failure edge of the wrapped EncodeToken every return passes a write that restores recv.depth", cl.Pos(), bad == "", bad)
	}
	c.r.Floor(id, "delegations to the wrapped encoder", nDel, 1)
	c.r.Check(id, f, "depth bookkeeping", "one depth++ in the start arm, one depth-- in the end arm", f.Pos(), inc == 1 && dec == 1, "found "+itoa(inc)+" increments and "+itoa(dec)+" decrements")
	// the token is forwarded on every path
	for _, rs := range g.Returns {
		okf := f.ContainsCall(rs, "*.EncodeToken") != nil
		if !okf && len(rs.Results) == 1 {
			// `err := w.EncodeToken(t); ...; return err`
			rp, _ := g.Where(rs)
			okf = eng.Glob("*.EncodeToken[*](*)", f.Norm(rs.Results[0], &rp))
		}
		c.r.Check(id, f, "token forwarded", "every return forwards the token to the wrapped encoder", rs.Pos(), okf, "a return does not forward the token")
	}
	// name tables (E-fin: exact decision tables, whatever the predicate's syntax)
	locals := []string{"iq", "message", "presence", "", "other"}
	spaces := []string{"", "jabber:client", "jabber:server", "other:ns"}
	stanzaSpace := func(e predCase, empty bool) bool {
		return e["p0.Space"] == "jabber:client" || e["p0.Space"] == "jabber:server" || (empty && e["p0.Space"] == "")
	}
	tables := []struct {
		name, spec string
		want       func(predCase) bool
	}{
		{"isStanzaEmptySpace", "Local in {iq, message, presence} and Space in {\"\", jabber:client, jabber:server}", func(e predCase) bool {
			return (e["p0.Local"] == "iq" || e["p0.Local"] == "message" || e["p0.Local"] == "presence") && stanzaSpace(e, true)
		}},
		{"isIQEmptySpace", "Local == iq and Space in {\"\", jabber:client, jabber:server}", func(e predCase) bool { return e["p0.Local"] == "iq" && stanzaSpace(e, true) }},
		{"isIQ", "Local == iq and Space in {jabber:client, jabber:server}", func(e predCase) bool { return e["p0.Local"] == "iq" && stanzaSpace(e, false) }},
		{"isMessageEmptySpace", "Local == message and Space in {\"\", jabber:client, jabber:server}", func(e predCase) bool { return e["p0.Local"] == "message" && stanzaSpace(e, true) }},
		{"isPresenceEmptySpace", "Local == presence and Space in {\"\", jabber:client, jabber:server}", func(e predCase) bool { return e["p0.Local"] == "presence" && stanzaSpace(e, true) }},
	}
	for _, t := range tables {
		tf := c.fn(id, "", t.name)
		if tf == nil {
			continue
		}
		predTable(c, id, tf, "name table", map[string][]string{"p0.Local": locals, "p0.Space": spaces}, t.want, t.name+" accepts exactly "+t.spec)
	}
}

func c05SendKinds(c *cx) {
	id := "C05.7"
	for _, k := range []struct{ fn, test string }{
		{"(*Session).SendIQ", "xmpp.isIQEmptySpace(*.Name)"},
		{"(*Session).SendMessage", "xmpp.isMessageEmptySpace(*.Name)"},
		{"(*Session).SendPresence", "xmpp.isPresenceEmptySpace(*.Name)"},
	} {
		f := c.fn(id, "", k.fn)
		if f == nil {
			continue
		}
		g := f.Graph()
		n := 0
		for _, cl := range f.AllCalls() {
			cid := f.CalleeID(cl)
			if cid != "xmpp.Session.sendResp" && cid != "xmpp.Session.SendElement" {
				continue
			}
			n++
			c.dom(id, f, cl, "transmit in "+k.fn+" ["+cid+"]", []string{k.test, "commaok(*.(encoding/xml.StartElement))"})
			// id non-empty: every path either passed id != "" or carries an id from RandomID
			pt, _ := g.Where(cl)
			// find the id variable: for sendResp it is argument 1
			var idv *types.Var
			if cid == "xmpp.Session.sendResp" {
				idv = rootLocal(f, cl.Args[1])
			}
			if idv != nil {
				cut := eng.Cut{}
				for _, form := range g.VarForms(idv) {
					for _, ce := range g.EdgesMatching("!eq(" + form + ",\"\")") {
						cut[ce.E] = true
					}
				}
				okid := true
				why := ""
				for _, d := range g.ReachingDefsCut(idv, pt, cut) {
					isRand := false
					if d.Kind == eng.DefPlain && d.RHS != nil {
						if call, ok := ast.Unparen(d.RHS).(*ast.CallExpr); ok && f.CalleeID(call) == "internal/attr.RandomID" {
							isRand = true
						}
					}
					if !isRand {
						okid = false
						why = "id defined by " + c.p.NodeStr(d.Node) + " reaches the transmit without a non-empty test"
					}
				}
				c.r.Check(id, f, "non-empty id before "+cid, "G: the id used for correlation is non-empty (tested, or freshly generated)", cl.Pos(), okid, why)
			}
			// on the id == "" edge the attribute value is stored before transmitting
			var emptyEdges []eng.CondEdge
			if idv != nil {
				for _, form := range g.VarForms(idv) {
					emptyEdges = append(emptyEdges, g.EdgesMatching("eq("+form+",\"\")")...)
				}
			}
			for _, ce := range emptyEdges {
				from := g.EdgeTarget(ce.E)
				if !g.Reachable(from, pt, nil, nil) {
					continue
				}
				store := func(q eng.Point, nd ast.Node) bool {
					as, ok := nd.(*ast.AssignStmt)
					if !ok {
						return false
					}
					for _, l := range as.Lhs {
						if sel, ok := ast.Unparen(l).(*ast.SelectorExpr); ok && sel.Sel.Name == "Value" {
							if ix, ok := ast.Unparen(sel.X).(*ast.IndexExpr); ok {
								if s2, ok := ast.Unparen(ix.X).(*ast.SelectorExpr); ok && s2.Sel.Name == "Attr" {
									return true
								}
							}
						}
					}
					return false
				}
				// only paths that stay on the generated-id branch
				c.r.Check(id, f, "generated id stored in the start element before "+cid, "O: a generated id is written into the id attribute before the element is sent", cl.Pos(), g.MustPassBefore(from, pt, store, nil), "element sent without the generated id")
			}
			// absent id attribute: appended
			for _, ce := range g.EdgesMatching("eq(xmpp.getIDTyp(*)#0,-1)") {
				from := g.EdgeTarget(ce.E)
				app := func(q eng.Point, nd ast.Node) bool {
					as, ok := nd.(*ast.AssignStmt)
					if !ok || len(as.Rhs) != 1 {
						return false
					}
					call, ok := ast.Unparen(as.Rhs[0]).(*ast.CallExpr)
					return ok && f.CalleeID(call) == "builtin.append" && strings.Contains(f.Norm(call, nil), "Local:\"id\"")
				}
				c.r.Check(id, f, "id attribute appended when absent before "+cid, "O: an id attribute is appended when the start element has none", cl.Pos(), g.MustPassBefore(from, pt, app, nil), "element sent without an id attribute")
			}
		}
		c.r.Floor(id, "transmits in "+k.fn, n, 2)
	}
}

// c05MarshalAdapters (C05.4): the two adapters between a marshalled value and
// the token copy keep the element complete and the call's own:
// rawTokenReader.Token forwards RawToken's token AND error together (a token
// decoder hands out the last token together with io.EOF: dropping either loses
// the end tag), and the decoder built by tokenDecoder reads from a buffer that
// belongs to this call only.
func c05MarshalAdapters(c *cx) {
	id := "C05.4"
	if f := c.fn(id, "internal/marshal", "rawTokenReader.Token"); f != nil {
		g := f.Graph()
		n := 0
		for _, rs := range g.Returns {
			n++
			pt, _ := g.Where(rs)
			ok := false
			why := ""
			switch len(rs.Results) {
			case 1:
				cl, isCall := ast.Unparen(rs.Results[0]).(*ast.CallExpr)
				ok = isCall && f.CalleeID(cl) == "encoding/xml.Decoder.RawToken"
				why = "returns " + f.Norm(rs.Results[0], &pt)
			case 2:
				t, e := f.Norm(rs.Results[0], &pt), f.Norm(rs.Results[1], &pt)
				okT := eng.Glob("encoding/xml.Decoder.RawToken[*]()#0", t) || eng.Glob("encoding/xml.CopyToken(encoding/xml.Decoder.RawToken[*]()#0)", t)
				okE := eng.Glob("encoding/xml.Decoder.RawToken[*]()#1", e)
				if e == "nil" {
					okE, _ = g.Dominated(pt, "eq(encoding/xml.Decoder.RawToken[*]()#1,nil)")
				}
				ok = okT && okE
				why = "returns (" + t + ", " + e + ")"
			}
			c.r.Check(id, f, "raw token forwarded with its error", "P: every return hands on the token and the error of the same RawToken call (a token that comes with io.EOF is the element's end tag)", rs.Pos(), ok, why)
		}
		c.r.Floor(id, "returns of rawTokenReader.Token", n, 1)
	}
	if f := c.fn(id, "internal/marshal", "tokenDecoder"); f != nil {
		g := f.Graph()
		n := 0
		for _, cl := range f.Calls("encoding/xml.NewDecoder") {
			n++
			pt, _ := g.Where(cl)
			arg := ast.Unparen(cl.Args[0])
			fresh := false
			why := "source is " + f.Norm(arg, &pt)
			if u, ok := arg.(*ast.UnaryExpr); ok && u.Op == token.AND {
				arg = ast.Unparen(u.X)
				if _, isLit := arg.(*ast.CompositeLit); isLit {
					fresh = true
				}
			}
			if idn, ok := arg.(*ast.Ident); ok {
				if v, ok := f.Info().ObjectOf(idn).(*types.Var); ok && v.Parent() != v.Pkg().Scope() {
					defs := g.ReachingDefs(v, pt)
					fresh = len(defs) > 0
					for _, d := range defs {
						switch d.Kind {
						case eng.DefZero:
						case eng.DefPlain:
							r := ast.Unparen(d.RHS)
							if u, ok := r.(*ast.UnaryExpr); ok && u.Op == token.AND {
								r = ast.Unparen(u.X)
							}
							switch rr := r.(type) {
							case *ast.CompositeLit:
							case *ast.CallExpr:
								if id := f.CalleeID(rr); id != "builtin.new" && id != "bytes.NewBuffer" && id != "bytes.NewReader" && id != "bytes.NewBufferString" && id != "strings.NewReader" {
									fresh = false
									why = "the buffer comes from " + id + " (shared between calls)"
								}
							default:
								fresh = false
							}
						default:
							fresh = false
						}
					}
				}
			}
			c.r.Check(id, f, "decoder reads a buffer of its own", "E-alias: the buffer handed to xml.NewDecoder is allocated in this call (the decoder reads it lazily, after tokenDecoder has returned: a pooled or shared buffer is overwritten by a concurrent call)", cl.Pos(), fresh, why)
		}
		c.r.Floor(id, "byte decoders built by tokenDecoder", n, 1)
	}
}

// attrCopyLoopsComplete (C05.11/C07.10): stanzaEncoder.EncodeToken rebuilds
// the attribute list of a start element by appending inside a range over the
// token's attributes; such a loop is also the copy, so nothing may leave it
// early: a break "because id and from were both found" drops every attribute
// that follows them (the type of a reply encoded from a struct: id, to, from,
// type).
func attrCopyLoopsComplete(c *cx, id string) {
	f := c.fn(id, "", "(*stanzaEncoder).EncodeToken")
	if f == nil {
		return
	}
	n := 0
	f.WalkBody(func(nd ast.Node) bool {
		rs, ok := nd.(*ast.RangeStmt)
		if !ok || !strings.HasSuffix(types.ExprString(rs.X), ".Attr") {
			return true
		}
		// a copying loop: its body appends the range value to a list
		copies := false
		ast.Inspect(rs.Body, func(x ast.Node) bool {
			if cl, ok := x.(*ast.CallExpr); ok && f.CalleeID(cl) == "builtin.append" && len(cl.Args) == 2 {
				if v, ok := ast.Unparen(cl.Args[1]).(*ast.Ident); ok && rs.Value != nil {
					if rv, ok := rs.Value.(*ast.Ident); ok && f.Info().ObjectOf(v) == f.Info().ObjectOf(rv) {
						copies = true
					}
				}
			}
			return true
		})
		if !copies {
			return true
		}
		n++
		early := loopEarlyExit(f, rs)
		why := ""
		if early != nil {
			why = "the statement at " + c.p.Pos(early.Pos()) + " leaves the loop that copies the attributes: the attributes after that point are dropped from the element"
		}
		c.r.Check(id, f, "attribute copy loop runs to the end", "O: no return, break or goto leaves a loop that copies the token's attributes", rs.Pos(), early == nil, why)
		return true
	})
	c.r.Floor(id, "attribute copy loops in EncodeToken", n, 1)
}

// flusherNotHidden (C05.12): marshal.EncodeXML / EncodeXMLElement flush the
// writer only if it implements xmlstream.Flusher (a dynamic type assertion).
// At the session's call sites the argument's STATIC type therefore has a Flush
// method (the session encoder, xmlstream.TokenWriteFlusher): a wrapper typed
// as a plain TokenWriter hides the Flusher, the flush silently disappears and
// a successful Encode leaves nothing on the wire.
func flusherNotHidden(c *cx, id string) {
	n := 0
	for _, f := range c.allFns() {
		// (the handler's encoder, responseChecker, is flushed by the serve loop
		// after the handler has returned)
		if f.Body == nil || !strings.HasPrefix(f.Short, "xmpp.(*Session).") {
			continue
		}
		for _, cl := range f.AllCalls() {
			cid := f.CalleeID(cl)
			if cid != "internal/marshal.EncodeXML" && cid != "internal/marshal.EncodeXMLElement" {
				continue
			}
			n++
			t := f.Info().TypeOf(cl.Args[0])
			ok := t != nil && types.NewMethodSet(t).Lookup(nil, "Flush") != nil
			why := ""
			if !ok {
				why = "the argument has static type " + eng.TypeStr(t) + " without a Flush method: whether the element is flushed depends on what the value happens to be"
			}
			c.r.Check(id, f, "writer handed to "+cid, "K: the static type of the writer handed to the marshalling helper has a Flush method", cl.Pos(), ok, why)
		}
	}
	c.r.Floor(id, "marshalling helper calls in the session", n, 2)
}

// handlerWriterKeepsTheLock (C05.15): a handler's reply is not interleaved with
// other output because the writer it is given takes the output lock with its
// first token and keeps it until the serve loop closes it after the handler
// returned. Two structural conditions: (a) deferWriter.w - the lock-holding
// writer - is stored once, under the test that it is still nil, and never
// reset (a reset makes the next token take the lock again: whatever was
// written in between came from somebody else); (b) no method of the writer
// types handed to handlers (deferWriter other than its own Close,
// responseChecker) closes or unlocks anything: the release is the serve
// loop's.
func handlerWriterKeepsTheLock(c *cx, id string) {
	nw := 0
	for _, f := range c.allFns() {
		for _, w := range f.FieldWrites("xmpp.deferWriter.w") {
			nw++
			ok := f.Short == "xmpp.(*deferWriter).EncodeToken" && w.RHS != nil && strings.HasPrefix(f.Norm(w.RHS, nil), "xmpp.Session.TokenWriter[")
			if ok {
				c.dom(id, f, w.Stmt, "lock-holding writer stored", []string{"eq(recv.w,nil)"})
				continue
			}
			c.r.Check(id, f, "lock-holding writer stored", "W: deferWriter.w is stored once, by EncodeToken, from Session.TokenWriter, and never reset", w.Stmt.Pos(), false, "deferWriter.w = "+exprOrEmpty(w.RHS)+": after a reset the next token takes the output lock again and the element is interleaved with other senders' output")
		}
	}
	c.r.Floor(id, "stores to deferWriter.w", nw, 1)
	// the lock-holding writer that TokenWriter() returns is handed over to
	// deferWriter.w (the serve loop closes it there) on every path from the
	// call to an exit: a writer that is dropped when its first token is refused
	// keeps the output lock for ever
	if et := c.fn(id, "", "(*deferWriter).EncodeToken"); et != nil {
		g := et.Graph()
		isStore := func(q eng.Point, nd ast.Node) bool {
			as, ok := nd.(*ast.AssignStmt)
			if !ok {
				return false
			}
			for _, l := range as.Lhs {
				if k, ok := et.FieldClass(l); ok && k == "xmpp.deferWriter.w" {
					return true
				}
			}
			return false
		}
		isClose := func(q eng.Point, nd ast.Node) bool { return et.ContainsCall(nd, "*.Close") != nil }
		na := 0
		for _, cl := range et.Calls("xmpp.Session.TokenWriter") {
			na++
			cp, _ := g.Where(cl)
			// the store that contains the call itself hands it over at once
			if par, ok := g.Parent(cl).(*ast.AssignStmt); ok && isStore(cp, par) {
				c.r.Check(id, et, "lock-holding writer handed over", "E-res: the writer obtained from TokenWriter is stored in deferWriter.w (or closed) on every path to an exit", cl.Pos(), true, "")
				continue
			}
			var exits []eng.Point
			for _, rs := range g.Returns {
				if p, ok := g.Where(rs); ok {
					exits = append(exits, p)
				}
			}
			exits = append(exits, g.Exits()...)
			bad := ""
			for _, ex := range exits {
				if g.Reachable(g.After(cp), ex, nil, func(q eng.Point, nd ast.Node) bool { return isStore(q, nd) || isClose(q, nd) }) {
					bad = "an exit is reachable from the acquisition without storing or closing the writer"
				}
			}
			c.r.Check(id, et, "lock-holding writer handed over", "E-res: the writer obtained from TokenWriter is stored in deferWriter.w (or closed) on every path to an exit", cl.Pos(), bad == "", bad+": the session's output lock is never released")
		}
		c.r.Floor(id, "acquisitions of the output lock in deferWriter.EncodeToken", na, 1)
	}
	nm := 0
	for _, f := range c.allFns() {
		if !(strings.HasPrefix(f.Short, "xmpp.(*responseChecker).") || strings.HasPrefix(f.Short, "xmpp.responseChecker.") || strings.HasPrefix(f.Short, "xmpp.(*deferWriter).")) || f.Short == "xmpp.(*deferWriter).Close" {
			continue
		}
		nm++
		bad := ""
		var scan func(fn *eng.Fn)
		scan = func(fn *eng.Fn) {
			fn.WalkBody(func(n ast.Node) bool {
				if cl, ok := n.(*ast.CallExpr); ok {
					if sel, ok := ast.Unparen(cl.Fun).(*ast.SelectorExpr); ok {
						switch sel.Sel.Name {
						case "Close", "Unlock", "RUnlock":
							bad = "calls " + types.ExprString(cl.Fun) + " at " + c.p.Pos(cl.Pos())
						}
					}
				}
				return true
			})
			for _, l := range fn.Lits {
				scan(l)
			}
		}
		scan(f)
		c.r.Check(id, f, "writer handed to handlers releases nothing", "C: the output lock a handler's writer holds is released by the serve loop after the handler returned, never by a method of the writer itself", f.Pos(), bad == "", bad+": the rest of the handler's element is written after other senders had access to the stream")
	}
	c.r.Floor(id, "methods of the handler writer types", nm, 5)
}

// c05ContentNamespaceFromRole (C05.17): the namespace the stanza encoder
// stamps on outgoing stanzas - and whether it adds a from address - is the
// output stream's content namespace, which the negotiator stores in
// out.XMLNS. It follows the session's own S2S bit, never what the peer
// declared: jabber:server is stored only behind the S2S test, jabber:client
// only behind its negation.
func c05ContentNamespaceFromRole(c *cx, id string) {
	neg := c.fn(id, "", "negotiator")
	if neg == nil {
		return
	}
	f := c.lit(id, neg, 1)
	if f == nil {
		return
	}
	n := 0
	for _, w := range f.Writes() {
		if cls, ok := f.FieldClass(w.LHS); !ok || cls != "stream.Info.XMLNS" || w.RHS == nil {
			continue
		}
		n++
		switch v := f.Norm(w.RHS, nil); v {
		case "stanza.NSServer":
			c.domAny(id, f, w.Stmt, "content namespace jabber:server", []string{"all(xmpp.Session.State[*](),xmpp.S2S)", "all(*.state,xmpp.S2S)"})
		case "stanza.NSClient":
			c.domAny(id, f, w.Stmt, "content namespace jabber:client", []string{"!all(xmpp.Session.State[*](),xmpp.S2S)", "!all(*.state,xmpp.S2S)"})
		default:
			c.r.Check(id, f, "content namespace "+v, "K: the content namespace of the output stream is one of the two stanza namespaces, chosen by the session's S2S bit", w.Stmt.Pos(), false, "stored from "+v)
		}
	}
	c.r.Floor(id, "stores of the output stream's content namespace", n, 4)
}

// streamInfoResetOnlyOnRestart (C05.21 / C12.18): the negotiator stores what it
// learnt about a stream (content namespace, id, version, language) in
// Session.in.Info / Session.out.Info when it opens the stream - and only then.
// negotiateSession wipes the two records (keeping to/from) when a step returned
// a new stream layer; a wipe before a step that does not reopen the stream
// loses the content namespace: the stanza encoder is then built with an empty
// namespace and, on server-to-server streams, without the from address. Every
// whole-record store into the two fields inside the negotiation loop is
// dominated by the edge `rw != nil`.
func streamInfoResetOnlyOnRestart(c *cx, id string) {
	f := c.fn(id, "", "negotiateSession")
	if f == nil {
		return
	}
	g := f.Graph()
	n := 0
	for _, cls := range []string{"xmpp.Session.in.Info", "xmpp.Session.out.Info"} {
		for _, w := range f.FieldWrites(cls) {
			pt, ok := g.Where(w.Stmt)
			if !ok || !g.Reachable(g.After(pt), pt, nil, nil) {
				continue // not in the loop
			}
			n++
			c.domAny(id, f, w.Stmt, "per-stream reset of "+cls, []string{"!eq(local:p*<io.ReadWriter>,nil)", "!eq(*#1,nil)"})
		}
	}
	c.r.Floor(id, "resets of the stream records in the negotiation loop", n, 2)
}

// c05SendHandsReaderOn (C05.19): Session.Send / SendElement copy the caller's
// reader to the wire inside the critical section of send(). The reader that
// send() gets is the caller's own: a wrapper that can fail on its own account
// in the middle of the element (a "stop when the context has ended" reader)
// turns a cancelled Send into a half-written element, inside which the next
// transmit is nested (F44 is the same failure for a reader of the caller's
// that fails by itself).
func c05SendHandsReaderOn(c *cx, id string) {
	n := 0
	for _, name := range []string{"(*Session).Send", "(*Session).SendElement"} {
		f := c.fn(id, "", name)
		if f == nil {
			continue
		}
		for _, cl := range f.Calls("xmpp.send") {
			if len(cl.Args) < 3 {
				continue
			}
			n++
			a := f.Norm(cl.Args[2], nil)
			c.r.Check(id, f, "reader handed to send", "K: the token reader copied inside the critical section is the caller's reader itself (parameter 1)", cl.Pos(), a == "p1", "send gets "+a+": a reader of the library's own that can fail mid-element leaves the element open on the wire")
		}
	}
	c.r.Floor(id, "calls of send in Send / SendElement", n, 2)
}

// c05ReplyFlushedAfterHandler (C05.20): what a handler wrote is on the wire
// when its call is over, not when the peer has finished sending the element
// it replies to: every non-error path of handleInputStream from the handler
// call to the discard of the rest of the element passes an explicit Flush of
// the handler's writer (the deferred Close flushes only at the very end, and
// keeps the output lock until then).
func c05ReplyFlushedAfterHandler(c *cx, id string) {
	f := c.fn(id, "", "handleInputStream")
	if f == nil {
		return
	}
	g := f.Graph()
	hcs := f.Calls("xmpp.Handler.HandleXMPP")
	hc, ok := one(c, id, f, "handler call", hcs)
	if !ok {
		return
	}
	hp, _ := g.Where(hc)
	isFlush := func(q eng.Point, nd ast.Node) bool { return f.ContainsCall(nd, "xmpp.deferWriter.Flush") != nil }
	n := 0
	for _, cl := range f.Calls("mellium.im/xmlstream.Copy") {
		cp, _ := g.Where(cl)
		if len(cl.Args) != 2 || f.Norm(cl.Args[0], &cp) != "mellium.im/xmlstream.Discard()" {
			continue
		}
		if !g.Reachable(g.After(hp), cp, nil, nil) {
			continue
		}
		n++
		c.r.Check(id, f, "handler's output flushed before the rest of the element is discarded", "O: every path from the handler call to the discard of the remaining input passes deferWriter.Flush", cl.Pos(), g.MustPassBefore(g.After(hp), cp, isFlush, nil), "the reply stays in the buffer (and the output lock stays taken) until the peer has sent the rest of its element")
	}
	c.r.Floor(id, "discards of the rest of the element after the handler", n, 1)
}

// c05TrackedSendKeepsTheStart (C05.26): the tracked-send core sendResp puts the
// caller's element on the wire as it is: the start element it hands to
// SendElement is its own parameter, and it stores nothing into it. The content
// namespace is the stanza encoder's business (C05.6/C05.17: it stamps the
// stream's own namespace, also jabber:component:accept); a namespace chosen in
// sendResp "client unless server" sends component stanzas as jabber:client.
func c05TrackedSendKeepsTheStart(c *cx, id string) {
	f := c.fn(id, "", "(*Session).sendResp")
	if f == nil {
		return
	}
	n := 0
	for _, cl := range f.Calls("xmpp.Session.SendElement") {
		if len(cl.Args) != 3 {
			continue
		}
		n++
		a := f.Norm(cl.Args[2], nil)
		c.r.Check(id, f, "start element handed to SendElement", "P: the caller's start element (parameter 3) itself", cl.Pos(), a == "p3", "SendElement gets "+a)
	}
	c.r.Floor(id, "SendElement calls in sendResp", n, 1)
	startParam := f.Sig().Params().At(3)
	bad := ""
	for _, w := range f.Writes() {
		if v := rootLocal(f, w.LHS); v != nil && v == startParam {
			bad = f.Prog.NodeStr(w.Stmt)
		}
	}
	c.r.Check(id, f, "stores into the caller's start element", "W: sendResp does not edit the start element", f.Pos(), bad == "", bad+": what goes on the wire is not what the caller asked for")
}
