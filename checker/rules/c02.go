package rules

import (
	"fmt"
	"go/ast"
	"go/token"
	"go/types"
	"strings"

	"verif/checker/eng"
)

func init() {
	Registry["C02"] = Rule{
		Meta: eng.Meta{
			Explanation: "Structural necessary conditions of 'STARTTLS never proceeds in clear text' decided on every path: the forced-STARTTLS selection and the Ready licences of negotiateFeatures (shared with C01.4/C01.9), the first-features-list indicator handed to negotiateFeatures (C02.2: must be true exactly until a features list has been consumed, also when the tee wraps the connection first), the prerequisite masks of the built-in features (C02.3), the TLS layer being built on the raw connection and the fresh decoder/encoder after a restart (C02.4, C01.12), statelessness of every List/Parse/Negotiate closure of a StreamFeature literal (C02.5), the <proceed/> guard of the client branch (C02.6), the closed list of sites that touch the raw connection (C02.7) and of sites that produce the Secure bit (C02.8).",
			NotDecided:  "the TLS handshake itself, what a peer does after <proceed/>, byte-for-byte equality of transcripts with and without the tee (only the control-flow difference the tee introduces is decided).",
			Trusted:     trustedCommon,
		},
		Run: runC02,
	}
}

func runC02(p *eng.Prog, r *eng.Report, tier string) {
	c := &cx{p, r, tier}
	r18ConfigLookedUpForTheStep(c, "C02.25")
	// C02.23 (= C11.6, imported): JID.Domain yields the domainpart alone (the default TLS ServerName is the
	// session's own Domain(): a fast path that keeps the resourcepart puts "domain/resource" into the ClientHello)
	importRules(c, "C11", []string{"C11.6"}, "C02.23")
	// C02.24 (= C01.19 / C01.17 / C01.1, imported): how the features list is read, cached and selected from
	// (a feature taken OUT of the caller's list on a match is missing from the next session's list; a cache
	// that holds features that were not advertised lets a peer select SASL on a clear stream)
	importRules(c, "C01", []string{"C01.1", "C01.17", "C01.19"}, "C02.24")
	callerSlicesNotRewritten(c, "C02.10", negSet(c, "C02.10"))
	// C02.14 "the tee changes none of this": the connection adapters report
	// every fault and perform one wrapped operation per call (= C04.13)
	c04AdaptersReportEveryFault(c, "C02.14")
	jidCore(c, "C02.15")
	c02ScanWholeList(c, "C02.16")
	sendErrorOnlyFromServe(c, "C02.17")
	c12HeaderKeepsAbsent(c, "C02.18")
	jidEqualRule(c, "C02.11")
	jidAppendsFresh(c, "C02.12")
	c02TeeWrapsWhatItWasGiven(c, "C02.13")
	negotiatorMaskFromFeatures(c, "C02.19")
	newLayerOnlyAtRestart(c, "C02.20")
	c02WrappersKeepTheConfiguration(c, "C02.22")
	firstParam := ""
	nf, call := negotiateSite(c, "C01.1")
	if nf != nil {
		firstParam = c01NegotiateFeatures(c, nf, call)
	}
	c01Session(c)
	c02First(c, "C02.2", nf, firstParam)
	c02Masks(c)
	c02Closures(c, "C02.5", "")
	c02StartTLS(c)
	// the default TLS configuration takes ServerName from the session's
	// address: the address must not be replaceable by the peer's next stream
	// header (C12.4: compared with snapshots taken before the header is read)
	c12Restart(c)
	// C02.9 "whatever the peer answers the outcome is TLS or an error": no
	// error of the feature loop or of the STARTTLS closures is swallowed (the
	// pending-error analysis of C04.1 restricted to these functions)
	var tlsFns []*eng.Fn
	if nf != nil {
		tlsFns = append(tlsFns, nf)
	}
	if st := c.fn("C02.9", "", "StartTLS"); st != nil {
		tlsFns = append(tlsFns, st.Lits...)
	}
	c.r.Floor("C02.9", "feature loop and STARTTLS closures", len(tlsFns), 4)
	errDiscipline(c, "C02.9", tlsFns, acceptC04, true)
	c02RawConn(c)
	bitProducers(c, "C02.8", 1, "Secure", map[string]string{
		"xmpp.StartTLS$3":          "",
		"xmpp.negotiateSession":    "commaok(*.conn.(*crypto/tls.Conn))",
		"websocket.NewSession":     "websocket.secureLocation(*)",
		"websocket.ReceiveSession": "websocket.secureLocation(*)",
	}, 4)
	c02SecureIsTheLocation(c, "C02.21")
}

// structLitField returns the value of field name in a keyed composite literal.
func structLitField(cl *ast.CompositeLit, name string) ast.Expr {
	for _, el := range cl.Elts {
		if kv, ok := el.(*ast.KeyValueExpr); ok {
			if k, ok := kv.Key.(*ast.Ident); ok && k.Name == name {
				return kv.Value
			}
		}
	}
	return nil
}

// C02.2 first-list indicator.
func c02First(c *cx, id string, nf *eng.Fn, firstParam string) {
	neg := c.fn(id, "", "negotiator")
	if neg == nil || nf == nil {
		return
	}
	f := c.lit(id, neg, 1)
	if f == nil {
		return
	}
	g := f.Graph()
	call, ok := one(c, id, f, "call of negotiateFeatures", f.Calls("xmpp.negotiateFeatures"))
	if !ok {
		return
	}
	if firstParam == "" {
		c.r.Check(id, f, "first-list argument", "the first-list parameter of negotiateFeatures is identified (C01.4)", call.Pos(), false, "could not identify the first-list parameter")
		return
	}
	idx := int(firstParam[1] - '0')
	if idx >= len(call.Args) {
		c.r.Check(id, f, "first-list argument", "argument present", call.Pos(), false, "argument index out of range")
		return
	}
	arg := call.Args[idx]
	callPt, _ := g.Where(call)
	form := g.Formula(arg, true, callPt).String()
	switch {
	case len(form) == 10 && strings.HasPrefix(form, "eq(p") && strings.HasSuffix(form, ",nil)"):
		// form (a): the cache parameter is still nil. Sound only if no earlier
		// successful return hands back a non-nil cache.
		pname := form[3:5]
		okAll := true
		for _, rs := range g.Returns {
			pt, _ := g.Where(rs)
			if !g.MustPassBefore(g.Entry(), pt, func(q eng.Point, n ast.Node) bool { return f.ContainsCall(n, "xmpp.negotiateFeatures") != nil }, nil) {
				// a return that can happen before any features list was consumed
				if len(rs.Results) < 3 {
					continue
				}
				cache := rs.Results[2]
				nonNil := g.NilnessOf(cache, pt) != -1
				if nonNil && g.RetKindOf(rs) != eng.RetError {
					okAll = false
					c.r.Check(id, f, "return before the first features list", "O: while no features list has been consumed the closure hands back a non-nil cache only together with an error (otherwise '"+pname+" == nil' stops meaning 'first list')", rs.Pos(), false,
						"return at "+c.p.Pos(rs.Pos())+" yields a non-nil cache and a nil error before negotiateFeatures ran: the next call sees first == false on the first features list (no forced STARTTLS)")
				}
			}
		}
		if okAll {
			c.r.Check(id, f, "first-list argument", "O: 'cache == nil' is true exactly until a features list was consumed", call.Pos(), true, "")
		}
	default:
		// form (b): a field of negotiatorState
		cls, isField := f.FieldClass(arg)
		if !isField || !strings.HasPrefix(cls, "xmpp.negotiatorState.") {
			c.r.Check(id, f, "first-list argument", "the indicator is 'cache == nil' or a negotiatorState field", call.Pos(), false, "unsupported first-list indicator: "+form)
			return
		}
		field := strings.TrimPrefix(cls, "xmpp.negotiatorState.")
		// default literal sets it true
		okDefault := false
		f.WalkBody(func(n ast.Node) bool {
			cl, ok := n.(*ast.CompositeLit)
			if !ok {
				return true
			}
			if t := f.Info().TypeOf(cl); t == nil || eng.TypeStr(t) != "xmpp.negotiatorState" {
				return true
			}
			if v := structLitField(cl, field); v != nil {
				pt, _ := g.Where(cl)
				first, _ := g.Dominated(pt, "!commaok(p4.(xmpp.negotiatorState))")
				if cv := f.ConstVal(v); cv != nil && cv.ExactString() == "true" && first {
					okDefault = true
				}
				// a state value built anywhere else re-arms the indicator unless
				// it says false
				if cv := f.ConstVal(v); !first && (cv == nil || cv.ExactString() != "false") {
					c.r.Check(id, f, "state literal with "+field+" set", "O: a negotiatorState value with the first-list indicator set is only made up for the first call (no state passed in)", cl.Pos(), false, "the indicator is re-armed on a later step: an unadvertised STARTTLS is attempted on a features list that is not the first")
				}
			}
			return true
		})
		c.r.Check(id, f, "first-list indicator default", "K: the indicator is true in the state made up for the first call", call.Pos(), okDefault, "no negotiatorState literal with "+field+": true under the !ok edge")
		// writes: only '= false', only after negotiateFeatures
		for _, fn := range c.allFns() {
			for _, w := range fn.FieldWrites(cls) {
				if fn != f {
					c.r.Check(id, fn, "write to "+cls, "W: only the negotiator closure writes the indicator", w.Stmt.Pos(), false, "written outside the negotiator closure")
					continue
				}
				pt, _ := g.Where(w.Stmt)
				isFalse := false
				if w.RHS != nil {
					if cv := f.ConstVal(w.RHS); cv != nil && cv.ExactString() == "false" {
						isFalse = true
					}
				}
				after := g.MustPassBefore(g.Entry(), pt, func(q eng.Point, n ast.Node) bool { return f.ContainsCall(n, "xmpp.negotiateFeatures") != nil }, nil)
				c.r.Check(id, f, "write to "+cls, "O: the indicator is only cleared, and only after negotiateFeatures consumed a features list", w.Stmt.Pos(), isFalse && after, "indicator written before negotiateFeatures or with a value other than false")
			}
		}
		// cleared on every path after the call
		for _, rs := range g.Returns {
			pt, _ := g.Where(rs)
			if !g.Reachable(g.After(callPt), pt, nil, nil) {
				continue
			}
			c.r.Check(id, f, "return after negotiateFeatures", "O: the indicator is cleared before the closure returns", rs.Pos(), g.MustPassBefore(g.After(callPt), pt, fieldStore(f, cls, ""), nil), "return without clearing the indicator")
		}
	}
}

// sfLiterals returns the StreamFeature composite literals of the library.
type sfLit struct {
	fn *eng.Fn
	cl *ast.CompositeLit
}

func sfLiterals(c *cx) []sfLit {
	var out []sfLit
	for _, f := range c.allFns() {
		f.WalkBody(func(n ast.Node) bool {
			cl, ok := n.(*ast.CompositeLit)
			if !ok {
				return true
			}
			if t := f.Info().TypeOf(cl); t != nil && eng.TypeStr(t) == "xmpp.StreamFeature" && structLitField(cl, "Name") != nil {
				out = append(out, sfLit{f, cl})
			}
			return true
		})
	}
	return out
}

func constMask(f *eng.Fn, e ast.Expr) int64 {
	if e == nil {
		return 0
	}
	v, _ := f.ConstInt(e)
	return v
}

// C02.3 prerequisite masks of the built-in features.
func c02Masks(c *cx) {
	want := map[string][2]int64{ // function -> {Necessary must include, Prohibited must include}
		"xmpp.StartTLS": {0, 1},
		"xmpp.newSASL":  {1, 2},
		"xmpp.bind":     {2, 0},
		"s2s.Bidi":      {1, 0},
	}
	seen := map[string]bool{}
	for _, l := range sfLiterals(c) {
		w, ok := want[l.fn.Short]
		if !ok {
			continue
		}
		seen[l.fn.Short] = true
		nec, pro := constMask(l.fn, structLitField(l.cl, "Necessary")), constMask(l.fn, structLitField(l.cl, "Prohibited"))
		c.r.Check("C02.3", l.fn, "StreamFeature.Necessary", fmt.Sprintf("K: Necessary includes bits %#x", w[0]), l.cl.Pos(), nec&w[0] == w[0], fmt.Sprintf("Necessary = %#x", nec))
		c.r.Check("C02.3", l.fn, "StreamFeature.Prohibited", fmt.Sprintf("K: Prohibited includes bits %#x", w[1]), l.cl.Pos(), pro&w[1] == w[1], fmt.Sprintf("Prohibited = %#x", pro))
	}
	for k := range want {
		if !seen[k] {
			c.r.Unresolved("C02.3", "StreamFeature literal in "+k)
		}
	}
}

// C02.5 feature closures are stateless.
func c02Closures(c *cx, id, only string) {
	n := 0
	for _, l := range sfLiterals(c) {
		if only != "" && l.fn.Short != only {
			continue
		}
		for _, fld := range []string{"List", "Parse", "Negotiate"} {
			v := structLitField(l.cl, fld)
			lit, ok := v.(*ast.FuncLit)
			if !ok {
				continue
			}
			n++
			cf := c.p.FnOfLit(lit)
			bad := ""
			badPos := lit.Pos()
			ast.Inspect(lit.Body, func(x ast.Node) bool {
				var lhs []ast.Expr
				switch s := x.(type) {
				case *ast.AssignStmt:
					lhs = s.Lhs
				case *ast.IncDecStmt:
					lhs = []ast.Expr{s.X}
				}
				for _, e := range lhs {
					root := rootIdent(e)
					if root == nil {
						continue
					}
					o := l.fn.Info().Uses[root]
					if o == nil {
						continue // a definition (:=)
					}
					vv, ok := o.(*types.Var)
					if !ok {
						continue
					}
					if vv.Pos() >= lit.Pos() && vv.Pos() < lit.End() {
						continue // declared inside the closure
					}
					// writes through a parameter of the closure are per-call
					bad = "writes " + c.p.NodeStr(e) + " which is declared outside the closure (shared by every session that reuses the feature)"
					badPos = e.Pos()
				}
				return true
			})
			if only != "" && cf != nil {
				freshDecodeTargets(c, id, cf, 0)
			}
			name := l.fn.Short + "." + fld
			if cf != nil {
				name = cf.Short + " (" + fld + ")"
			}
			c.r.Check(id, l.fn, "closure "+name, "W: no store to a variable captured from outside the closure (features are reused between sessions)", badPos, bad == "", bad)
		}
	}
	if only == "" {
		c.r.Floor(id, "feature closures", n, 16)
	} else {
		c.r.Floor(id, "feature closures of "+only, n, 3)
	}
}

func rootIdent(e ast.Expr) *ast.Ident {
	for {
		switch x := ast.Unparen(e).(type) {
		case *ast.Ident:
			return x
		case *ast.SelectorExpr:
			e = x.X
		case *ast.IndexExpr:
			e = x.X
		case *ast.StarExpr:
			e = x.X
		default:
			return nil
		}
	}
}

// C02.4 / C02.6 the StartTLS Negotiate closure.
func c02StartTLS(c *cx) {
	id := "C02.6"
	st := c.fn(id, "", "StartTLS")
	if st == nil {
		return
	}
	var f *eng.Fn
	for _, l := range sfLiterals(c) {
		if l.fn == st {
			if lit, ok := structLitField(l.cl, "Negotiate").(*ast.FuncLit); ok {
				f = c.p.FnOfLit(lit)
			}
		}
	}
	if f == nil {
		c.r.Unresolved(id, "Negotiate closure of StartTLS")
		return
	}
	g := f.Graph()
	nClient := 0
	for _, cl := range f.Calls("crypto/tls.*") {
		cid := f.CalleeID(cl)
		if cid != "crypto/tls.Client" && cid != "crypto/tls.Server" {
			continue
		}
		pt, _ := g.Where(cl)
		c.r.Check("C02.4", f, cid+" transport", "P: the TLS layer is built on the session's raw connection (not on a buffered decoder)", cl.Pos(), len(cl.Args) > 0 && eng.Glob("xmpp.Session.Conn[p1]()", f.Norm(cl.Args[0], &pt)), "first argument is "+f.Norm(cl.Args[0], &pt))
		if cid == "crypto/tls.Client" {
			nClient++
			c.dom(id, f, cl, "tls.Client", []string{"eq(*.Name.Space,internal/ns.StartTLS)", "eq(*.Name.Local,\"proceed\")", "istype(*;encoding/xml.StartElement)"})
		}
	}
	c.r.Floor(id, "tls.Client call", nClient, 1)
	// default configuration names the session's own domain
	nCfg := 0
	f.WalkBody(func(n ast.Node) bool {
		cl, ok := n.(*ast.CompositeLit)
		if !ok {
			return true
		}
		if t := f.Info().TypeOf(cl); t == nil || eng.TypeStr(t) != "crypto/tls.Config" {
			return true
		}
		nCfg++
		pt, _ := g.Where(cl)
		sn := structLitField(cl, "ServerName")
		got := ""
		if sn != nil {
			got = f.Norm(sn, &pt)
		}
		c.r.Check("C02.4", f, "default tls.Config ServerName", "K: the default TLS configuration names the domain of the session's own (local) address", cl.Pos(), got == "jid.JID.String[jid.JID.Domain[xmpp.Session.LocalAddr[p1]()]()]()", "ServerName is "+got)
		return true
	})
	c.r.Floor("C02.4", "default tls.Config literal", nCfg, 1)
	// success returns: Secure together with a non-nil rw built by tls.Client/Server
	ns := 0
	for _, rs := range g.Returns {
		if g.RetKindOf(rs) == eng.RetError || len(rs.Results) != 3 {
			continue
		}
		ns++
		pt, _ := g.Where(rs)
		v, _ := f.ConstInt(rs.Results[0])
		c.r.Check(id, f, "success return [mask]", "K: the only non-error return yields the Secure bit", rs.Pos(), v&1 == 1, fmt.Sprintf("mask constant is %d", v))
		rwv := rootLocal(f, rs.Results[1])
		okRW := rwv != nil
		why := "second result is not a local"
		if okRW {
			for _, d := range g.ReachingDefs(rwv, pt) {
				okd := false
				if d.Kind == eng.DefPlain && d.RHS != nil {
					if call, ok := ast.Unparen(d.RHS).(*ast.CallExpr); ok {
						cid := f.CalleeID(call)
						okd = cid == "crypto/tls.Client" || cid == "crypto/tls.Server"
					}
				}
				if !okd {
					okRW = false
					why = "a definition other than tls.Client/tls.Server reaches the success return: " + c.p.NodeStr(d.Node)
				}
			}
		}
		c.r.Check(id, f, "success return [rw]", "G: on every path to the success return the new stream layer is a TLS connection", rs.Pos(), okRW, why)
	}
	c.r.Floor(id, "success returns of the StartTLS closure", ns, 1)
	c.r.Ceil(id, "success returns of the StartTLS closure", ns, 1)
	// what is written in clear: constants only
	for _, cl := range f.Calls("fmt.Fprint*") {
		okc := true
		for _, a := range cl.Args[1:] {
			if _, isC := f.ConstStr(a); !isC {
				okc = false
			}
		}
		c.r.Check("C02.7", f, "clear-text write "+f.CalleeID(cl), "K: only fixed strings are written to the raw connection", cl.Pos(), okc, "non-constant operand written in clear")
	}
}

// C02.7 who touches the raw connection.
func c02RawConn(c *cx) {
	allowed := map[string]string{
		"xmpp.negotiator$1|internal/stream.Send":                    "stream header",
		"xmpp.negotiator$1|xmpp.newTeeConn":                         "tee wrapper",
		"xmpp.StartTLS$3|fmt.Fprint":                                "fixed <starttls/>/<proceed/> strings (C02.6)",
		"xmpp.StartTLS$3|crypto/tls.Client":                         "TLS layer",
		"xmpp.StartTLS$3|crypto/tls.Server":                         "TLS layer",
		"xmpp.(*Session).closeSession|internal/stream.Close":        "closing tag",
		"component.Negotiator$1|fmt.Fprintf":                        "component header",
		"xmpp.negotiateSession|encoding/xml.NewDecoder":             "session decoder",
		"xmpp.negotiateSession|encoding/xml.NewEncoder":             "session encoder",
		"xmpp.negotiateSession|xmpp.newConn":                        "connection wrapper",
		"xmpp.(*Session).SetCloseDeadline|net.Conn.SetReadDeadline": "deadline only",
		"xmpp.(*Session).Encode|xmpp.setWriteDeadline":              "deadline only",
		"xmpp.(*Session).EncodeElement|xmpp.setWriteDeadline":       "deadline only",
		"xmpp.send|xmpp.setWriteDeadline":                           "deadline only",
	}
	n := 0
	for _, f := range c.allFns() {
		g := f.Graph()
		for _, cl := range f.AllCalls() {
			pt, ok := g.Where(cl)
			if !ok {
				continue
			}
			var ops []ast.Expr
			ops = append(ops, cl.Args...)
			if sel, ok := ast.Unparen(cl.Fun).(*ast.SelectorExpr); ok {
				if s, ok := f.Info().Selections[sel]; ok && s.Kind() == types.MethodVal {
					ops = append(ops, sel.X)
				}
			}
			raw := false
			for _, o := range ops {
				if cls, ok := f.FieldClass(o); ok && cls == "xmpp.Session.conn" {
					raw = true
				}
				if eng.Glob("xmpp.Session.Conn[*]()", f.Norm(o, &pt)) {
					raw = true
				}
			}
			if !raw {
				continue
			}
			cid := f.CalleeID(cl)
			if strings.HasPrefix(cid, "conv:") {
				continue
			}
			n++
			key := f.Short + "|" + cid
			_, ok = allowed[key]
			c.r.Check("C02.7", f, "raw connection passed to "+cid, "C: the raw connection is used only at the listed sites (everything else goes through the locked encoder)", cl.Pos(), ok, "unlisted use of the raw connection: "+key)
		}
	}
	c.r.Floor("C02.7", "raw connection uses", n, 10)
}

// bitProducers enforces the closed list of sites that produce a SessionState
// bit (constant folding; Necessary/Prohibited prerequisite fields excepted).
// allowed maps function -> fact pattern that must dominate ("" = none).
func bitProducers(c *cx, id string, bit int64, name string, allowed map[string]string, floor int) {
	n := 0
	for _, f := range c.allFns() {
		g := f.Graph()
		f.WalkBody(func(nd ast.Node) bool {
			e, ok := nd.(ast.Expr)
			if !ok {
				return true
			}
			tv, ok := f.Info().Types[e]
			if !ok || tv.Value == nil || tv.Type == nil || eng.TypeStr(tv.Type) != "xmpp.SessionState" {
				return true
			}
			v, _ := f.ConstInt(e)
			if v&bit == 0 {
				return false
			}
			// how is the constant used?
			par := g.Parent(e)
			produced := false
			switch p := par.(type) {
			case *ast.ReturnStmt:
				produced = true
			case *ast.AssignStmt:
				for _, r := range p.Rhs {
					if r == e && (p.Tok == token.ASSIGN || p.Tok == token.DEFINE || p.Tok == token.OR_ASSIGN || p.Tok == token.XOR_ASSIGN || p.Tok == token.ADD_ASSIGN) {
						produced = true
					}
				}
			case *ast.KeyValueExpr:
				if k, ok := p.Key.(*ast.Ident); ok && p.Value == e {
					produced = k.Name != "Necessary" && k.Name != "Prohibited"
				}
			case *ast.CallExpr:
				for _, a := range p.Args {
					if a == e {
						produced = true
					}
				}
			case *ast.ValueSpec:
				produced = true
			}
			if !produced {
				return false
			}
			n++
			pat, ok := allowed[f.Short]
			if !c.r.Check(id, f, name+" bit produced: "+c.p.NodeStr(par), "K+C: the "+name+" bit is produced only at the listed sites", e.Pos(), ok, name+" bit produced in an unlisted function") {
				return false
			}
			if pat != "" {
				c.dom(id, f, stmtOf(f, e), name+" bit guard", []string{pat})
			}
			return false
		})
	}
	c.r.Floor(id, name+" bit producers", n, floor)
	c.r.Ceil(id, name+" bit producers", n, floor)
}

var _ = token.NoPos

// c02TeeWrapsWhatItWasGiven (C02.13): newTeeConn returns a tee over exactly
// the connection it was handed: the connection itself if it already is a tee,
// or a new teeConn whose Conn is the argument. Reaching through the argument
// for a tee underneath it (NetConn() of the *tls.Conn that STARTTLS just put
// on top) hands the session the connection BELOW the new TLS layer while the
// Secure bit is set: the restarted stream and the password go out in clear.
func c02TeeWrapsWhatItWasGiven(c *cx, id string) {
	f := c.fn(id, "", "newTeeConn")
	if f == nil {
		return
	}
	g := f.Graph()
	n := 0
	for _, rs := range g.Returns {
		if len(rs.Results) != 1 {
			continue
		}
		n++
		pt, _ := g.Where(rs)
		okr, why := false, ""
		nrm := f.Norm(rs.Results[0], &pt)
		switch {
		case nrm == "p1.(xmpp.teeConn)" || nrm == "p1.(xmpp.teeConn)#0":
			okr = true
		default:
			// a local teeConn built around p1
			if idn, ok := ast.Unparen(rs.Results[0]).(*ast.Ident); ok {
				if v, _ := f.Info().ObjectOf(idn).(*types.Var); v != nil && eng.IsLocal(v) {
					ds := g.ReachingDefs(v, pt)
					okr = len(ds) > 0
					for _, d := range ds {
						if d.Kind == eng.DefOpaque || d.RHS == nil {
							continue // field updates of the local (tc.tlsConn = ...)
						}
						r := f.Norm(d.RHS, &d.At)
						if lit, isLit := ast.Unparen(d.RHS).(*ast.CompositeLit); isLit {
							if cf := structLitField(lit, "Conn"); cf != nil && f.Norm(cf, &d.At) == "p1" {
								continue
							}
						}
						if r == "p1.(xmpp.teeConn)" || r == "p1.(xmpp.teeConn)#0" {
							continue
						}
						okr = false
						why = "the tee that is returned is " + r
					}
				}
			} else if lit, isLit := ast.Unparen(rs.Results[0]).(*ast.CompositeLit); isLit {
				if cf := structLitField(lit, "Conn"); cf != nil && f.Norm(cf, &pt) == "p1" {
					okr = true
				}
			}
			if !okr && why == "" {
				why = "returns " + nrm
			}
		}
		c.r.Check(id, f, "tee over the connection it was given", "K: newTeeConn returns its argument (already a tee) or a teeConn whose Conn is the argument", rs.Pos(), okr, why+": a layer of the connection (the TLS layer after STARTTLS) is dropped")
	}
	c.r.Floor(id, "returns of newTeeConn", n, 2)
}

// c02ScanWholeList (C02.16): the downgrade protection asks "is STARTTLS among
// the configured features", wherever it is in the slice: the scan in
// containsStartTLS leaves its loop early only through the edge on which the
// feature's namespace is the STARTTLS namespace (a scan that stops at the first
// feature "that needs a secure stream anyway" misses a STARTTLS feature
// listed after SASL, and the forced attempt is silently off).
func c02ScanWholeList(c *cx, id string) {
	f := c.fn(id, "", "containsStartTLS")
	if f == nil {
		return
	}
	g := f.Graph()
	n := 0
	f.WalkBody(func(nd ast.Node) bool {
		rs, ok := nd.(*ast.RangeStmt)
		if !ok {
			return true
		}
		body, _, done, okp := g.LoopPoints(rs)
		if !okp {
			return true
		}
		n++
		cut := eng.Cut{}
		for _, pat := range []string{"eq(rangeval(p0).Name.Space,internal/ns.StartTLS)", "eq(internal/ns.StartTLS,rangeval(p0).Name.Space)", "eq(rangeval(p0).Name,*)", "!rangenext(p0)"} {
			for _, ce := range g.EdgesMatching(pat) {
				cut[ce.E] = true
			}
		}
		early := g.Reachable(body, done, cut, nil)
		for _, r := range g.Returns {
			if rp, ok := g.Where(r); ok && nodeContains(rs.Body, r) && g.Reachable(body, rp, cut, nil) {
				early = true
			}
		}
		c.r.Check(id, f, "scan over the configured features", "O: the loop is left early only on the edge that found the STARTTLS namespace", rs.Pos(), !early, "the scan can stop before it has seen every feature: a STARTTLS feature behind that point is not found and the unadvertised attempt is not made")
		return true
	})
	c.r.Floor(id, "loops in containsStartTLS", n, 1)
}

// sendErrorOnlyFromServe (C02.17 / C10.17): Session.sendError writes a stream
// error (through the buffered encoder) and the closing tag. It is Serve's
// reaction to a failed element on an established session; called from the
// negotiation it puts bytes other than the header and the STARTTLS request on
// a connection that is not protected yet.
func sendErrorOnlyFromServe(c *cx, id string) {
	n := 0
	// ... and the closing tag: Session.Close / closeSession write </stream:stream>
	// on whatever connection the session has at that moment. Inside the module
	// only Serve (its shutdown) and the two functions themselves call them: a
	// Close from the negotiation code ("tell the peer we gave up") puts the tag
	// on the clear stream of a client that insists on STARTTLS.
	nc := 0
	for _, f := range c.allFns() {
		for _, callee := range []string{"xmpp.Session.Close", "xmpp.Session.closeSession"} {
			for _, cl := range f.CallsDeep(callee) {
				nc++
				okc := f.Short == "xmpp.(*Session).Serve" || f.Short == "xmpp.(*Session).Close" || f.Short == "xmpp.(*Session).sendError" || strings.HasPrefix(f.Short, "xmpp.(*Session).Serve$")
				c.r.Check(id, f, "call of "+callee, "C: inside the module the stream is closed by Serve's shutdown and by Close itself only", cl.Pos(), okc, "called from "+f.Short+": the closing tag is written outside the serve loop, during negotiation on whatever layer the connection has")
			}
		}
	}
	c.r.Floor(id, "call sites of Session.Close / closeSession in the module", nc, 2)
	for _, f := range c.allFns() {
		for _, cl := range f.CallsDeep("xmpp.Session.sendError") {
			n++
			c.r.Check(id, f, "call of Session.sendError", "C: only Serve reports a failure to the peer with sendError", cl.Pos(), f.Short == "xmpp.(*Session).Serve", "called from "+f.Short+": a stream error and the closing tag are written outside the serve loop")
		}
	}
	c.r.Floor(id, "call sites of Session.sendError", n, 1)
}

// c12HeaderKeepsAbsent (C02.18 / C12.16): Info.FromStartElement fills in what the
// header says and leaves the rest alone: the session's own address
// (Session.LocalAddr() is in.Info.To) survives a response header without a
// `to`, which the negotiator tolerates. No statement stores the whole Info,
// and every field other than Name is stored under the arm of its attribute.
func c12HeaderKeepsAbsent(c *cx, id string) {
	f := c.fn(id, "stream", "(*Info).FromStartElement")
	if f == nil {
		return
	}
	n := 0
	for _, w := range f.Writes() {
		if st, ok := ast.Unparen(w.LHS).(*ast.StarExpr); ok {
			if idn, ok := ast.Unparen(st.X).(*ast.Ident); ok && f.Sig().Recv() != nil && f.Info().ObjectOf(idn) == types.Object(f.Sig().Recv()) {
				c.r.Check(id, f, "whole Info overwritten", "W: FromStartElement assigns fields, never the whole value (what the header omits keeps its earlier value)", w.Stmt.Pos(), false, "the store resets every field: an address the header does not repeat is forgotten (LocalAddr becomes empty, the default TLS ServerName with it)")
			}
		}
		cls, ok := f.FieldClass(w.LHS)
		if !ok || !strings.HasPrefix(cls, "stream.Info.") || cls == "stream.Info.Name" {
			continue
		}
		n++
		c.domAny(id, f, w.Stmt, "field "+strings.TrimPrefix(cls, "stream.Info.")+" stored under its attribute's arm", []string{"eq(rangeval(p0.Attr).Name,*)", "eq(*,rangeval(p0.Attr).Name)", "eq(rangeval(p0.Attr).Name.Local,*)"})
	}
	c.r.Floor(id, "field stores in FromStartElement", n, 3)
}

// negotiatorMaskFromFeatures (C02.19 / C01.23): the default negotiator decides
// nothing about the session's state by itself: the mask it returns - Ready
// included - is the mask of negotiateFeatures for this step or the zero mask
// of an error return. Every return of the negotiator closure returns the one
// mask variable, whose only definitions are its zero value and the first
// result of negotiateFeatures. A `return Ready, …` of the closure's own (for a
// peer that announces an old version, a header without features, a
// configuration flag) reports a session established in clear text without any
// feature having been looked at: all it takes is a peer, or a man in the
// middle, that produces the trigger.
func negotiatorMaskFromFeatures(c *cx, id string) {
	nf := c.fn(id, "", "negotiator")
	if nf == nil {
		return
	}
	f := c.lit(id, nf, 1)
	if f == nil {
		return
	}
	g := f.Graph()
	n := 0
	for _, rs := range g.Returns {
		n++
		var v *types.Var
		if len(rs.Results) == 0 {
			v = f.Sig().Results().At(0)
		} else {
			v = g.LocalVar(rs.Results[0])
		}
		if v == nil {
			val := ""
			if len(rs.Results) > 0 {
				val = f.Norm(rs.Results[0], nil)
			}
			c.r.Check(id, f, "mask returned by the negotiator", "P: the returned mask is the mask variable (negotiateFeatures' result or zero)", rs.Pos(), val == "0", "the negotiator returns "+val+" by itself")
			continue
		}
		bad := ""
		for _, d := range g.DefsOf(v) {
			switch {
			case d.Kind == eng.DefZero || d.Kind == eng.DefParam:
			case d.Kind == eng.DefTuple && d.Index == 0 && d.RHS != nil:
				if cl, ok := ast.Unparen(d.RHS).(*ast.CallExpr); !ok || f.CalleeID(cl) != "xmpp.negotiateFeatures" {
					bad = "defined by " + f.Prog.NodeStr(d.Node)
				}
			default:
				bad = "defined by " + f.Prog.NodeStr(d.Node)
			}
		}
		c.r.Check(id, f, "mask returned by the negotiator", "P: the returned mask is the mask variable (negotiateFeatures' result or zero)", rs.Pos(), bad == "", "the mask is "+bad+": the negotiator reports state bits no feature produced")
	}
	c.r.Floor(id, "returns of the negotiator closure", n, 5)
}

// newLayerOnlyAtRestart (C01.24 / C02.20): negotiateSession takes every
// connection the negotiator returns for a stream restart: it clears the
// per-stream sets (features seen, features negotiated) and builds fresh
// coders. The default negotiator returns a connection of its own making - the
// tee - only where a stream is about to be opened anyway: every call of
// newTeeConn in the negotiator closure is dominated by nState.doRestart. A tee
// that a later StreamConfig call switches on is otherwise wrapped in the
// middle of a stream and the features negotiated on that stream are forgotten
// (F133: a feature was negotiated twice on one stream).
func newLayerOnlyAtRestart(c *cx, id string) {
	nf := c.fn(id, "", "negotiator")
	if nf == nil {
		return
	}
	f := c.lit(id, nf, 1)
	if f == nil {
		return
	}
	n := 0
	for _, cl := range f.Calls("xmpp.newTeeConn") {
		n++
		c.domAny(id, f, cl, "tee connection created", []string{"*.doRestart"})
	}
	c.r.Floor(id, "tee connections created by the negotiator", n, 1)
}

// c02SecureIsTheLocation (C02.21): a WebSocket session starts with the Secure
// bit when its transport is TLS, that is when the scheme of the WebSocket
// LOCATION (the endpoint that was dialed / that accepted) is wss. The test
// reads Conn.Config().Location.Scheme on both sides; LocalAddr() of a client
// connection is the Origin header, a string the caller chose (F135: a client
// with origin wss://... on a ws:// endpoint skipped STARTTLS and sent its
// password in clear). Every true return of secureLocation is the comparison
// of that scheme with "wss", and nothing in the function reads the Origin or
// the connection's addresses.
func c02SecureIsTheLocation(c *cx, id string) {
	f := c.fn(id, "websocket", "secureLocation")
	if f == nil {
		return
	}
	g := f.Graph()
	n := 0
	for _, rs := range g.Returns {
		if len(rs.Results) != 1 {
			continue
		}
		rp, _ := g.Where(rs)
		v := f.Norm(rs.Results[0], &rp)
		if v == "false" {
			continue
		}
		n++
		okv := (strings.Contains(v, "websocket.Conn.Config[p0]().Location.Scheme,\"wss\")") || strings.Contains(v, "websocket.Conn.Config[p0]().Location.Scheme == \"wss\"")) && !strings.Contains(v, "Origin") && !strings.Contains(v, "Addr") && !strings.Contains(v, "||")
		c.r.Check(id, f, "what makes a WebSocket session secure", "P: the scheme of Config().Location is wss", rs.Pos(), okv, "returns "+v)
	}
	c.r.Floor(id, "returns of secureLocation that can be true", n, 1)
	bad := ""
	for _, cl := range f.AllCalls() {
		switch cid := f.CalleeID(cl); {
		case strings.HasSuffix(cid, ".LocalAddr"), strings.HasSuffix(cid, ".RemoteAddr"):
			bad = cid
		}
	}
	f.WalkBody(func(nd ast.Node) bool {
		if sel, ok := nd.(*ast.SelectorExpr); ok && sel.Sel.Name == "Origin" {
			bad = "Config().Origin"
		}
		return true
	})
	c.r.Check(id, f, "sources of secureLocation", "K: neither the Origin nor the connection's addresses are consulted", f.Pos(), bad == "", "reads "+bad)
}

// c02WrappersKeepTheConfiguration (C02.22): the negotiators of the websocket
// and component packages are the default negotiator with another framing: what
// the caller configured - the feature list with its STARTTLS feature - reaches
// xmpp.NewNegotiator as it is: the argument is the wrapper's own parameter. A
// wrapper that filters the features ("the WebSocket binding has no STARTTLS")
// removes the forced STARTTLS attempt with it: a ws: session with a peer that
// advertises nothing becomes ready in clear text.
func c02WrappersKeepTheConfiguration(c *cx, id string) {
	n := 0
	for _, f := range c.allFns() {
		if f.Short == "xmpp.NewNegotiator" || f.Parent != nil {
			continue
		}
		for _, cl := range f.CallsDeep("xmpp.NewNegotiator") {
			if len(cl.Args) != 1 {
				continue
			}
			n++
			a := f.Norm(cl.Args[0], nil)
			_, isLit := ast.Unparen(cl.Args[0]).(*ast.FuncLit)
			okArg := a == "p0" || (isLit && f.Short != "websocket.Negotiator")
			c.r.Check(id, f, "configuration handed to NewNegotiator", "P: a framing wrapper hands on the caller's configuration function itself", cl.Pos(), okArg, "NewNegotiator gets "+a+": the caller's feature list is edited on the way")
		}
	}
	c.r.Floor(id, "calls of NewNegotiator in the module", n, 1)
}
