package rules

import (
	"go/ast"
	"go/token"
	"go/types"
	"sort"
	"strconv"
	"strings"

	"golang.org/x/tools/go/ssa"

	"verif/checker/eng"
)

func init() {
	Registry["C04"] = Rule{
		Meta: eng.Meta{
			Explanation: "Decides the error-discipline half of 'session establishment fails closed' exactly and the cancellation half structurally. C04.1: a pending-error may-dataflow (E-err) over every repository function reachable (VTA call graph) from negotiateSession shows that no path lets a non-nil error assigned from a call be overwritten or left behind at a return that neither returns nor tests it - for every fault index, since it is a fact about all paths. C04.2: every unassigned/blank-assigned error result in those functions is in a reasoned accept table, and a deferred Close of the locked writer is accepted only when every success return is preceded by an explicit Flush (rule S). C04.3: state bits are applied and Ready is observable only after a nil error. C04.4: the deadline goroutine is started unconditionally for net.Conn transports and selects on ctx.Done(); Expect polls ctx.Done() before each read. C04.6: no bare type assertion or explicit panic in the negotiation functions outside the accept table.",
			NotDecided:  "when a cancellation lands relative to blocking I/O (timing), goroutine liveness, transports without deadlines, panics inside dependencies.",
			Trusted:     trustedCommon,
		},
		Run: runC04,
	}
}

// negSet computes the negotiation-phase functions: everything reachable from
// negotiateSession through repository functions (VTA), plus the closures of
// StreamFeature literals and the Negotiator closures of component/websocket.
func negSet(c *cx, id string) []*eng.Fn {
	root := c.fn(id, "", "negotiateSession")
	if root == nil {
		return nil
	}
	s := c.p.SSA()
	var roots []*ssa.Function
	roots = append(roots, s.FuncOf(root))
	for _, l := range sfLiterals(c) {
		for _, fld := range []string{"List", "Parse", "Negotiate"} {
			if lit, ok := structLitField(l.cl, fld).(*ast.FuncLit); ok {
				if f := c.p.FnOfLit(lit); f != nil {
					roots = append(roots, s.FuncOf(f))
				}
			}
		}
	}
	for _, n := range [][2]string{{"component", "Negotiator"}, {"websocket", "Negotiator"}, {"", "negotiator"}} {
		if f := c.p.Func(n[0], n[1]); f != nil {
			for _, l := range f.Lits {
				roots = append(roots, s.FuncOf(l))
			}
		}
	}
	reach := s.Reach(roots)
	seen := map[*eng.Fn]bool{}
	var out []*eng.Fn
	for fn := range reach {
		f := s.FnOfSSA(fn)
		if f == nil || f.Body == nil || seen[f] {
			continue
		}
		seen[f] = true
		out = append(out, f)
	}
	sort.Slice(out, func(i, j int) bool { return out[i].Name < out[j].Name })
	return out
}

func runC04(p *eng.Prog, r *eng.Report, tier string) {
	c := &cx{p, r, tier}
	c.r.Floor("C04.16", "deferred releases of a mutex", deferredReleaseNotInLoop(c, "C04.16"), 20)
	// C04.15 no (nil, nil): what establishes a session (dialers, transport
	// upgrades, the session constructors and what they call) reports a nil
	// connection / session only together with an error (F130)
	r.Floor("C04.15", "returns of a local (T, error) pair examined", noNilNil(c, "C04.15", func(f *eng.Fn) bool {
		// xml.TokenReader documents (nil, nil) as a permitted result
		return eng.TypeStr(f.Sig().Results().At(0).Type()) != "encoding/xml.Token"
	}), 1)
	neg := negSet(c, "C04.1")
	var names []string
	for _, f := range neg {
		names = append(names, f.Short)
	}
	r.Note("NEG set (%d functions): %s", len(neg), strings.Join(names, ", "))
	r.Floor("C04.18", "negotiation functions scanned for the transmit API", r17NegotiationWritesThroughTheTokenWriter(c, "C04.18", neg), 20)
	r.Floor("C04.17", "re-assignments of error variables from calls in the negotiation functions", r17FoundErrorNotOverwritten(c, "C04.17", neg), 5)
	// ... and the constructors above them: every function of the module that
	// takes a context and returns a session (NewSession, Dial*, Receive*,
	// component.NewSession, websocket.*) hands its own context down
	ctors := append([]*eng.Fn(nil), neg...)
	inNeg0 := map[*eng.Fn]bool{}
	for _, f := range neg {
		inNeg0[f] = true
	}
	for _, f := range c.allFns() {
		sig := f.Sig()
		if sig == nil || inNeg0[f] || f.Body == nil {
			continue
		}
		ret := false
		for i := 0; i < sig.Results().Len(); i++ {
			if eng.TypeStr(sig.Results().At(i).Type()) == "*xmpp.Session" {
				ret = true
			}
		}
		if ret {
			ctors = append(ctors, f)
		}
	}
	c04CtxThreaded(c, "C04.8", ctors)
	r.Floor("C04.1", "functions in the negotiation set", len(neg), 40)
	errDiscipline(c, "C04.1", neg, acceptC04, true)
	c01Session(c) // C04.3 / C01.7 / C01.14 / C01.12
	if nf, call := negotiateSite(c, "C01.1"); nf != nil {
		g := nf.Graph()
		pt, _ := g.Where(call)
		cn := nf.Norm(call, &pt)
		for _, w := range nf.FieldWrites("xmpp.Session.state") {
			c.dom("C04.3", nf, w.Stmt, "s.state |= mask", []string{"eq(" + cn + "#2,nil)"})
		}
	}
	c04Deadline(c)
	c04ReadyNotAdoptedEarly(c, "C04.9")
	c04CtxBetweenSteps(c, "C04.10")
	c04WrappersDoNotRetry(c, "C04.11")
	deadlineWatchersArmedAtOnce(c, "C04.12")
	c04ExpiredDeadlineIsInThePast(c, "C04.4")
	c04AdaptersReportEveryFault(c, "C04.13")
	resultUsedBeforeErrorTest(c, "C04.14", neg)
	c04NoPanic(c, neg)
	// a fault that panics is not "failing closed": decoder API misuse that
	// panics on a peer's stream error (C04.6)
	inNeg := map[*eng.Fn]bool{}
	for _, f := range neg {
		inNeg[f] = true
	}
	// an error REPLY of the bind step is an error reported by that step: the
	// bind rules (success only for a result reply that names an address, the
	// receiver fails the step after the callback's error) are part of "no step's
	// error is swallowed"
	c12Bind(c)
	// C04.7 typed-nil errors: a pointer that may be nil returned as an error is
	// a non-nil error whose Error() dereferences nil
	nt := 0
	for _, f := range neg {
		sig := f.Sig()
		if f.Body == nil || sig == nil {
			continue
		}
		g := f.Graph()
		for _, rs := range g.Returns {
			if len(rs.Results) != sig.Results().Len() {
				continue
			}
			for i, res := range rs.Results {
				if eng.TypeStr(sig.Results().At(i).Type()) != "error" {
					continue
				}
				rt := f.Info().TypeOf(res)
				if rt == nil {
					continue
				}
				if _, isPtr := rt.(*types.Pointer); !isPtr {
					continue
				}
				nt++
				pt, _ := g.Where(rs)
				c.r.Check("C04.7", f, "pointer returned as error: "+f.Norm(res, nil), "K: a pointer-typed value is returned as an error only where it is known to be non-nil (a nil pointer in an error interface is a non-nil error whose Error() panics)", rs.Pos(), g.NilnessOf(res, pt) == 1, "the pointer may be nil here")
			}
		}
	}
	r.Note("C04.7: %d pointer-typed error operands examined", nt)
	nd := tokenDecoderUnmarshaler(c, "C04.6", func(f *eng.Fn) bool {
		return inNeg[f] || strings.HasPrefix(f.Short, "internal/stream.")
	})
	r.Note("C04.6: %d DecodeElement calls with an Unmarshaler target on a NewTokenDecoder decoder examined", nd)
}

var acceptC04 = append([]accept{
	{"xmpp.nextElementDecoder", "encoding/xml.Decoder.Token", "priming read of a token the decoder was just given (cannot fail: the token comes from xmlstream.Token)"},
	{"xmpp.setDeadline$1", "net.Conn.SetDeadline", "best-effort cancellation; failure leaves the I/O error path intact"},
	{"xmpp.setWriteDeadline$1", "net.Conn.SetWriteDeadline", "best-effort cancellation; failure leaves the I/O error path intact"},
	{"component.Negotiator$1", "_ = hash.Hash.Write", "hash.Hash.Write never returns an error (documented)"},
	{"component.Negotiator$1", "_ = io.Writer.Write", "hash.Hash.Write never returns an error (documented)"},
}, acceptNEG...)

func c04Deadline(c *cx) { c04DeadlineAs(c, "C04.4") }

func c04DeadlineAs(c *cx, id string) {
	f := c.fn(id, "", "negotiateSession")
	if f != nil {
		g := f.Graph()
		n := 0
		for _, d := range g.Defers {
			inner, ok := ast.Unparen(d.Call.Fun).(*ast.CallExpr)
			if !ok || f.CalleeID(inner) != "xmpp.setDeadline" {
				continue
			}
			n++
			c.dom(id, f, d, "defer setDeadline(ctx, conn)()", []string{"commaok(*.(net.Conn))"})
			pt, _ := g.Where(d)
			okArgs := len(inner.Args) == 2 && f.Norm(inner.Args[0], &pt) == "p0" && eng.Glob("*<io.ReadWriter>.(net.Conn)", f.Norm(inner.Args[1], &pt))
			c.r.Check(id, f, "setDeadline arguments", "P: the deadline watcher gets the caller's context and the transport", d.Pos(), okArgs, "arguments are not (ctx, rw.(net.Conn))")
			// on the net.Conn edge every path to the negotiator call passes the defer
			for _, cl := range f.AllCalls() {
				if t := f.Info().TypeOf(cl.Fun); t != nil && eng.TypeStr(t) == "xmpp.Negotiator" {
					cp, _ := g.Where(cl)
					for _, ce := range g.EdgesMatching("commaok(*.(net.Conn))") {
						from := g.EdgeTarget(ce.E)
						c.r.Check(id, f, "deadline watcher before negotiation", "O: for net.Conn transports the watcher is installed before the first negotiation step", d.Pos(), g.MustPassBefore(from, cp, func(q eng.Point, nd ast.Node) bool { return nd == ast.Node(d) }, nil), "negotiation can start without the deadline watcher")
					}
				}
			}
		}
		c.r.Floor(id, "deferred setDeadline in negotiateSession", n, 1)
	}
	for _, name := range []string{"setDeadline", "setWriteDeadline"} {
		sd := c.fn(id, "", name)
		if sd == nil {
			continue
		}
		g := sd.Graph()
		// every path to a return passes a go statement
		isGo := func(q eng.Point, nd ast.Node) bool { _, ok := nd.(*ast.GoStmt); return ok }
		for _, rs := range g.Returns {
			pt, _ := g.Where(rs)
			c.r.Check(id, sd, "watcher goroutine started", "O: every path through "+name+" starts the watcher goroutine (a context without deadline can still be cancelled)", rs.Pos(), g.MustPassBefore(g.Entry(), pt, isGo, nil), "a path returns without starting the watcher")
		}
		// the goroutine selects on ctx.Done() and sets a past deadline
		okSel := false
		for _, l := range sd.Lits {
			lg := l.Graph()
			for _, ce := range lg.EdgesMatching("selectarm(recv context.Context.Done[outer.p0]())") {
				for _, nd := range lg.ReachableNodes(lg.EdgeTarget(ce.E), nil) {
					if l.ContainsCall(nd, "net.Conn.Set*Deadline") != nil {
						okSel = true
					}
				}
			}
		}
		c.r.Check(id, sd, "watcher goroutine body", "the goroutine waits on ctx.Done() and then expires the connection's deadline", sd.Pos(), okSel, "no select arm on ctx.Done() leading to Set*Deadline")
		// the negotiation watcher interrupts BOTH directions: a step that is
		// blocked in a write when the context ends must fail as well; the
		// transmit watcher (setWriteDeadline) guards writes only
		{
			want := "net.Conn.SetDeadline"
			if name == "setWriteDeadline" {
				want = "net.Conn.SetWriteDeadline"
			}
			nset := 0
			for _, l := range sd.Lits {
				for _, cl := range l.Calls("net.Conn.Set*Deadline") {
					nset++
					got := l.CalleeID(cl)
					okDir := got == want || got == "net.Conn.SetDeadline"
					c.r.Check(id, l, "direction of the deadline set by the watcher", "K: "+name+"'s watcher sets "+want+" (the negotiation watcher must also interrupt a blocked write)", cl.Pos(), okDir, got+" leaves the other direction uninterrupted: a step blocked in a write outlives the cancellation")
				}
			}
			c.r.Floor(id, "deadline calls in the watcher of "+name, nset, 2)
		}
		if name == "setDeadline" {
			// the expired deadline stays in force until the guarded operation
			// ends: clearing it at once only interrupts I/O that happens to be in
			// progress at that instant, a read started a moment later blocks for
			// ever although the context is cancelled
			for _, l := range sd.Lits {
				lg := l.Graph()
				var expire, clear []*ast.CallExpr
				for _, cl := range l.Calls("net.Conn.SetDeadline") {
					if len(cl.Args) == 1 {
						if _, isLit := ast.Unparen(cl.Args[0]).(*ast.CompositeLit); isLit {
							clear = append(clear, cl)
						} else {
							expire = append(expire, cl)
						}
					}
				}
				waitsEnd := func(q eng.Point, nd ast.Node) bool {
					found := false
					ast.Inspect(nd, func(x ast.Node) bool {
						if u, ok := x.(*ast.UnaryExpr); ok && u.Op == token.ARROW {
							if n := l.Norm(u.X, &q); strings.HasPrefix(n, "context.Context.Done[") && !strings.Contains(n, "outer.p0") {
								found = true
							}
						}
						return !found
					})
					return found
				}
				for _, ex := range expire {
					ep, _ := lg.Where(ex)
					for _, cl := range clear {
						cp, _ := lg.Where(cl)
						if !lg.Reachable(lg.After(ep), cp, nil, nil) {
							continue
						}
						c.r.Check(id, l, "expired deadline kept until the operation ends", "O: after cancellation the past deadline is cleared only after the watcher was told that the operation has returned", cl.Pos(), lg.MustPassBefore(lg.After(ep), cp, waitsEnd, nil), "the deadline is cleared right after it was set: only I/O in progress at that instant is interrupted, a later blocking read never notices the cancellation")
					}
				}
			}
		}
	}
	ex := c.fn(id, "internal/stream", "Expect")
	if ex != nil {
		g := ex.Graph()
		isPoll := func(q eng.Point, nd ast.Node) bool {
			es, ok := nd.(*ast.ExprStmt)
			if !ok {
				return false
			}
			u, ok := ast.Unparen(es.X).(*ast.UnaryExpr)
			return ok && ex.Norm(u.X, nil) == "context.Context.Done[p0]()"
		}
		n := 0
		for _, cl := range ex.Calls("encoding/xml.TokenReader.Token") {
			n++
			pt, _ := g.Where(cl)
			c.r.Check(id, ex, "Expect polls ctx before reading", "O: every read of Expect (first and each loop iteration) is preceded by a poll of ctx.Done()", cl.Pos(),
				g.MustPassBefore(g.Entry(), pt, isPoll, nil) && g.MustPassBefore(g.After(pt), pt, isPoll, nil), "a read is reachable without polling ctx.Done()")
		}
		c.r.Floor(id, "reads in Expect", n, 1)
		for _, ce := range g.EdgesMatching("selectarm(recv context.Context.Done[p0]())") {
			bad := ""
			for _, nd := range g.ReachableNodes(g.EdgeTarget(ce.E), nil) {
				if rs, ok := nd.(*ast.ReturnStmt); ok {
					if res := retResults(ex, rs); len(res) != 1 || ex.Norm(res[0], nil) != "context.Context.Err[p0]()" {
						bad = "the cancelled arm does not return ctx.Err()"
					}
					break
				}
			}
			c.r.Check(id, ex, "Expect cancelled arm", "K: the ctx.Done() arm returns ctx.Err()", ex.Pos(), bad == "", bad)
		}
	}
}

// bareAsserts returns the type assertions of f that are neither comma-ok nor
// part of a type switch.
func bareAsserts(f *eng.Fn) []*ast.TypeAssertExpr {
	var out []*ast.TypeAssertExpr
	g := f.Graph()
	f.WalkBody(func(n ast.Node) bool {
		ta, ok := n.(*ast.TypeAssertExpr)
		if !ok || ta.Type == nil {
			return true
		}
		var par ast.Node = g.Parent(ta)
		for {
			if pe, ok := par.(*ast.ParenExpr); ok {
				par = g.Parent(pe)
				continue
			}
			break
		}
		switch p := par.(type) {
		case *ast.AssignStmt:
			if len(p.Lhs) == 2 && len(p.Rhs) == 1 {
				return true
			}
		case *ast.ValueSpec:
			if len(p.Names) == 2 && len(p.Values) == 1 {
				return true
			}
		}
		out = append(out, ta)
		return true
	})
	return out
}

var acceptPanicC04 = []accept{
	{"xmpp.negotiateSession", "builtin.panic", "documented API precondition: nil Negotiator"},
	{"xmpp.newSASL", "builtin.panic", "documented API precondition: no mechanisms"},
	{"component.Negotiator$1", "builtin.panic", "documented: receiving side not implemented"},
	{"internal/attr.randomID", "builtin.panic", "entropy source failure, not peer or fault controlled"},
	{"xmpp.negotiateClient", "assert:[]string", "the value is what the same feature's Parse stored for this namespace ([]string by construction; C01.10 shows only Parse results and nil are stored, C01.2 excludes the forced-STARTTLS path for SASL)"},
}

func c04NoPanic(c *cx, neg []*eng.Fn) {
	id := "C04.6"
	for _, f := range neg {
		for _, ta := range bareAsserts(f) {
			what := "assert:" + eng.TypeStr(f.Info().TypeOf(ta.Type))
			why, ok := accepted(acceptPanicC04, f.Short, what)
			c.r.Check(id, f, "bare type assertion "+what, "no non-comma-ok type assertion in the negotiation functions (accept table: "+why+")", ta.Pos(), ok, "a failed assertion would panic during negotiation")
		}
		for _, cl := range f.Calls("builtin.panic") {
			why, ok := accepted(acceptPanicC04, f.Short, "builtin.panic")
			c.r.Check(id, f, "explicit panic", "no explicit panic in the negotiation functions (accept table: "+why+")", cl.Pos(), ok, "explicit panic reachable during negotiation")
		}
	}
}

// c04CtxThreaded: within the negotiation functions, every call that takes a
// context is given the function's own context parameter or a context derived
// from it (context.With*(ctx, ...)): a fresh Background/TODO context or a
// context captured outside the call cuts the callee off from cancellation.
func c04CtxThreaded(c *cx, id string, neg []*eng.Fn) {
	n := 0
	for _, f := range neg {
		sig := f.Sig()
		if sig == nil {
			continue
		}
		own := ""
		for i := 0; i < sig.Params().Len(); i++ {
			if eng.TypeStr(sig.Params().At(i).Type()) == "context.Context" {
				own = "p" + strconv.Itoa(i)
			}
		}
		if own == "" {
			continue
		}
		g := f.Graph()
		for _, cl := range f.AllCalls() {
			var ft *types.Signature
			if t := f.Info().TypeOf(cl.Fun); t != nil {
				ft, _ = t.Underlying().(*types.Signature)
			}
			if ft == nil || ft.Params().Len() == 0 || len(cl.Args) == 0 || eng.TypeStr(ft.Params().At(0).Type()) != "context.Context" {
				continue
			}
			if strings.HasPrefix(f.CalleeID(cl), "context.") {
				continue // the derivation itself; its result is judged where it is used
			}
			pt, ok := g.Where(cl)
			if !ok {
				continue
			}
			n++
			if f.CalleeID(cl) == "xmpp.newTeeConn" {
				// accepted: the tee connection's context only switches the tee
				// effect off (it is cancelled by the next negotiator call); it is
				// deliberately not part of the operation's context chain
				continue
			}
			a := f.Norm(cl.Args[0], &pt)
			derived := ctxDerived(f, cl.Args[0], pt, 0)
			c.r.Check(id, f, "context passed to "+f.CalleeID(cl), "P: callees get the caller's context or one derived from it", cl.Pos(), derived, "context argument is "+a)
		}
	}
	c.r.Floor(id, "context-taking calls in the negotiation functions", n, 10)
}

// ctxDerived reports whether e, evaluated at pt, is one of f's own context
// parameters or is derived from one through context.With* calls, following the
// reaching definitions of locals.
func ctxDerived(f *eng.Fn, e ast.Expr, pt eng.Point, depth int) bool {
	if depth > 6 {
		return false
	}
	g := f.Graph()
	switch x := ast.Unparen(e).(type) {
	case *ast.Ident:
		v, ok := f.Info().ObjectOf(x).(*types.Var)
		if !ok {
			return false
		}
		defs := g.ReachingDefs(v, pt)
		if len(defs) == 0 {
			return false
		}
		for _, d := range defs {
			switch d.Kind {
			case eng.DefParam:
				// a parameter of this function (not a variable captured from outside)
				isParam := false
				if sig := f.Sig(); sig != nil {
					for i := 0; i < sig.Params().Len(); i++ {
						if sig.Params().At(i) == v {
							isParam = true
						}
					}
				}
				if !isParam {
					return false
				}
			case eng.DefPlain, eng.DefTuple:
				if d.RHS == nil || (d.Kind == eng.DefTuple && d.Index != 0) || !ctxDerived(f, d.RHS, d.At, depth+1) {
					return false
				}
			default:
				return false
			}
		}
		return true
	case *ast.CallExpr:
		if strings.HasPrefix(f.CalleeID(x), "context.With") && len(x.Args) > 0 {
			return ctxDerived(f, x.Args[0], pt, depth+1)
		}
	}
	return false
}

// c04CtxBetweenSteps (C04.10): only a net.Conn is interrupted through its
// deadline; on other transports the context must be looked at by the
// negotiation loop itself. In negotiateSession the call of the Negotiator is
// dominated, within the same iteration, by ctx.Err() == nil, and every state
// update that follows the call is dominated, since the call, by a second
// ctx.Err() == nil: a context that ended while the step ran yields an error,
// not a ready session.
func c04CtxBetweenSteps(c *cx, id string) {
	f := c.fn(id, "", "negotiateSession")
	if f == nil {
		return
	}
	g := f.Graph()
	var negCall *ast.CallExpr
	for _, cl := range f.AllCalls() {
		if t := f.Info().TypeOf(cl.Fun); t != nil && eng.TypeStr(t) == "xmpp.Negotiator" {
			negCall = cl
		}
	}
	if negCall == nil {
		c.r.Unresolved(id, "call of the Negotiator in negotiateSession")
		return
	}
	ncPt, _ := g.Where(negCall)
	ctxOK := []string{"eq(context.Context.Err[p0](),nil)"}
	// the loop that contains the call
	var from eng.Point = g.Entry()
	for p := g.Parent(negCall); p != nil; p = g.Parent(p) {
		if fs, ok := p.(*ast.ForStmt); ok {
			if body, _, _, okl := g.LoopPoints(fs); okl {
				from = body
			}
			break
		}
	}
	c.r.Check(id, f, "context consulted before the step", "G: in every iteration the Negotiator is called only after ctx.Err() == nil was established", negCall.Pos(), g.DominatedFrom(from, ncPt, ctxOK), "a cancelled context still starts the next negotiation step (component.NewSession with a cancelled context completes the handshake on a transport without deadlines)")
	n := 0
	for _, w := range f.FieldWrites("xmpp.Session.state") {
		pt, _ := g.Where(w.Stmt)
		if !g.Reachable(g.After(ncPt), pt, nil, nil) {
			continue
		}
		n++
		c.r.Check(id, f, "context consulted after the step", "G: the state bits of a step are applied only if ctx.Err() == nil was established after the step returned", w.Stmt.Pos(), g.DominatedFrom(g.After(ncPt), pt, ctxOK), "a context that ended while the step ran (cancelled during bind on a transport without deadlines) still produces a ready session and a nil error")
	}
	c.r.Floor(id, "state updates after the Negotiator call", n, 1)
}

// c04ReadyNotAdoptedEarly (C04.9): negotiateFeatures puts the bits of every
// feature that succeeded into the session state at once (later features of
// the same list test them), but not the Ready bit: whether the session is
// ready is decided from the mask the step returns, when the step as a whole
// has succeeded. Otherwise a voluntary feature that reports Ready followed by
// a required feature that fails leaves a ready session next to the error.
func c04ReadyNotAdoptedEarly(c *cx, id string) {
	f := c.fn(id, "", "negotiateFeatures")
	if f == nil {
		return
	}
	g := f.Graph()
	n := 0
	for _, w := range f.FieldWrites("xmpp.Session.state") {
		if w.RHS == nil {
			continue
		}
		n++
		pt, _ := g.Where(w.Stmt)
		ok := false
		if be, isBin := ast.Unparen(w.RHS).(*ast.BinaryExpr); isBin && be.Op == token.AND_NOT && strings.Contains(f.Norm(be.Y, &pt), "xmpp.Ready") {
			ok = true
		}
		if !ok {
			// or the mask was stripped unconditionally since the feature returned
			root := rootLocal(f, w.RHS)
			if root != nil {
				strips := func(q eng.Point, nd ast.Node) bool {
					as, isAs := nd.(*ast.AssignStmt)
					if !isAs || len(as.Lhs) != 1 || rootLocal(f, as.Lhs[0]) != root {
						return false
					}
					if as.Tok == token.AND_NOT_ASSIGN && strings.Contains(f.Norm(as.Rhs[0], &q), "xmpp.Ready") {
						return true
					}
					return false
				}
				for _, cl := range f.Calls("field:xmpp.StreamFeature.Negotiate") {
					cp, _ := g.Where(cl)
					if g.Reachable(g.After(cp), pt, nil, nil) && g.MustPassBefore(g.After(cp), pt, strips, nil) {
						ok = true
					}
				}
			}
		}
		c.r.Check(id, f, "state bits adopted per feature exclude Ready", "K: the per-feature update of Session.state is `mask &^ Ready` (or the mask was stripped of Ready on every path): readiness is decided by negotiateSession from the step's result", w.Stmt.Pos(), ok, "the feature's own Ready bit goes into the session state before the rest of the list was negotiated: if a later feature of the list fails, NewSession returns an error and a session that reports Ready")
	}
	c.r.Floor(id, "per-feature state updates in negotiateFeatures", n, 1)
}

// callerSlicesNotRewritten (E-alias, C02.10/C01.16): the feature values, and
// the slices that hold them, are shared between sessions (one StreamConfig /
// one features... argument serves every step and every session). No function
// of the negotiation set writes into a slice it was given: no element
// assignment through a slice-typed parameter (or a reslice of one), and no
// append whose destination shares the parameter's backing array (p[:0],
// p[:n]). A filter "in place" silently drops StartTLS from the caller's list
// once one session was secure, and the next plain-text session has no
// downgrade protection left.
func callerSlicesNotRewritten(c *cx, id string, fns []*eng.Fn) {
	n := 0
	for _, f := range fns {
		if f.Body == nil || f.Sig() == nil {
			continue
		}
		g := f.Graph()
		isParamSlice := func(v *types.Var) bool {
			if v == nil {
				return false
			}
			if _, ok := v.Type().Underlying().(*types.Slice); !ok {
				return false
			}
			ps := f.Sig().Params()
			for i := 0; i < ps.Len(); i++ {
				if ps.At(i) == v {
					return true
				}
			}
			// captured parameter of the enclosing function
			for p := f.Parent; p != nil; p = p.Parent {
				if p.Sig() == nil {
					continue
				}
				pp := p.Sig().Params()
				for i := 0; i < pp.Len(); i++ {
					if pp.At(i) == v {
						return true
					}
				}
			}
			return false
		}
		// does e denote memory of a parameter slice? (the parameter itself, a
		// reslice of it, or a local defined as one of these)
		var shares func(e ast.Expr, pt eng.Point, depth int) *types.Var
		shares = func(e ast.Expr, pt eng.Point, depth int) *types.Var {
			if depth > 4 {
				return nil
			}
			switch x := ast.Unparen(e).(type) {
			case *ast.SliceExpr:
				return shares(x.X, pt, depth+1)
			case *ast.Ident:
				v, _ := f.Info().ObjectOf(x).(*types.Var)
				if v == nil {
					return nil
				}
				if isParamSlice(v) {
					// a parameter that was re-assigned a fresh slice is the function's own
					fresh := true
					ds := g.ReachingDefs(v, pt)
					for _, d := range ds {
						if d.Kind == eng.DefParam {
							fresh = false
						} else if d.RHS != nil {
							if pv := shares(d.RHS, d.At, depth+1); pv != nil {
								fresh = false
							}
						}
					}
					if len(ds) == 0 || !fresh {
						return v
					}
					return nil
				}
				if !eng.IsLocal(v) {
					return nil
				}
				for _, d := range g.ReachingDefs(v, pt) {
					if d.RHS != nil && d.Kind == eng.DefPlain {
						if pv := shares(d.RHS, d.At, depth+1); pv != nil {
							return pv
						}
					}
				}
			case *ast.CallExpr:
				if f.CalleeID(x) == "builtin.append" && len(x.Args) > 0 {
					// append may or may not reallocate: its result can share
					return shares(x.Args[0], pt, depth+1)
				}
			case *ast.SelectorExpr:
				// a slice-typed field of a configuration value that this function
				// did not build itself (a parameter, a captured variable, the
				// result of a callback): StreamConfig.Features is the caller's
				// slice, whatever struct it travels in
				if _, isSlice := f.Info().TypeOf(x).Underlying().(*types.Slice); !isSlice {
					return nil
				}
				sel, ok := f.Info().Selections[x]
				if !ok || sel.Kind() != types.FieldVal {
					return nil
				}
				fv, _ := sel.Obj().(*types.Var)
				if cls, okc := f.FieldClass(x); !okc || cls != "xmpp.StreamConfig.Features" {
					return nil
				}
				if root := rootLocal(f, x.X); root != nil && eng.IsLocal(root) {
					built := true
					ds := g.ReachingDefs(root, pt)
					for _, d := range ds {
						if d.RHS == nil {
							built = false
							continue
						}
						if _, isLit := ast.Unparen(d.RHS).(*ast.CompositeLit); !isLit {
							built = false
						}
					}
					if built && len(ds) > 0 {
						return nil
					}
				}
				return fv
			}
			return nil
		}
		for _, w := range f.Writes() {
			pt, ok := g.Where(w.Stmt)
			if !ok {
				continue
			}
			// element assignment p[i] = v
			if ix, isIx := ast.Unparen(w.LHS).(*ast.IndexExpr); isIx {
				if _, isSlice := f.Info().TypeOf(ix.X).Underlying().(*types.Slice); isSlice {
					if pv := shares(ix.X, pt, 0); pv != nil {
						n++
						c.r.Check(id, f, "element of caller slice "+pv.Name()+" assigned", "E-alias: negotiation code does not write into a slice it was given (the feature list is shared between steps and sessions)", w.Stmt.Pos(), false, "the assignment rewrites the caller's backing array")
					}
				}
			}
			// append into the parameter's backing array
			if w.RHS != nil {
				if cl, isCall := ast.Unparen(w.RHS).(*ast.CallExpr); isCall && f.CalleeID(cl) == "builtin.append" && len(cl.Args) > 1 {
					if pv := shares(cl.Args[0], pt, 0); pv != nil {
						// appending to the full parameter (cap unknown) may also write
						// into the caller's array, but only behind its length: the
						// caller's elements are not rewritten. A reslice to a shorter
						// length is the in-place filter.
						short := false
						var walk func(e ast.Expr, pt eng.Point, depth int)
						walk = func(e ast.Expr, pt eng.Point, depth int) {
							if depth > 4 {
								return
							}
							switch x := ast.Unparen(e).(type) {
							case *ast.SliceExpr:
								if x.High != nil {
									short = true
								}
								walk(x.X, pt, depth+1)
							case *ast.Ident:
								if v, _ := f.Info().ObjectOf(x).(*types.Var); v != nil && eng.IsLocal(v) && !isParamSlice(v) {
									for _, d := range g.ReachingDefs(v, pt) {
										if d.RHS != nil {
											walk(d.RHS, d.At, depth+1)
										}
									}
								}
							case *ast.CallExpr:
								if f.CalleeID(x) == "builtin.append" && len(x.Args) > 0 {
									walk(x.Args[0], pt, depth+1)
								}
							}
						}
						walk(cl.Args[0], pt, 0)
						n++
						c.r.Check(id, f, "append into the backing array of caller slice "+pv.Name(), "E-alias: negotiation code does not append into a shortened reslice of a slice it was given (an in-place filter rewrites the caller's elements)", w.Stmt.Pos(), !short, "the destination is a reslice of "+pv.Name()+" to a shorter length: the append overwrites the caller's elements (a feature dropped here is gone for every later step and session)")
					}
				}
			}
		}
	}
	c.r.Note("%s: %d writes through slice parameters examined in the negotiation set", id, n)
}

// c04WrappersDoNotRetry (C04.11): the connection wrappers of the session
// (conn, teeConn) are transparent: their Read and Write perform at most one
// operation of the wrapped connection per call - no call of the wrapped
// Read/Write lies on a cycle of the method's graph. A retry loop "while the
// error is temporary" spins for ever on the expired deadline that the
// cancellation watcher sets (a deadline error is Temporary), so the call
// outlives its context.
func c04WrappersDoNotRetry(c *cx, id string) {
	n := 0
	for _, f := range c.allFns() {
		if f.Body == nil || f.Obj == nil || f.Sig() == nil || f.Sig().Recv() == nil || !strings.HasPrefix(f.Short, "xmpp.") {
			continue
		}
		if f.Obj.Name() != "Read" && f.Obj.Name() != "Write" {
			continue
		}
		tn := recvTypeName(f)
		if tn == nil || !(strings.HasSuffix(strings.ToLower(tn.Name()), "conn")) {
			continue
		}
		g := f.Graph()
		for _, cl := range f.AllCalls() {
			cid := f.CalleeID(cl)
			if !strings.HasSuffix(cid, ".Read") && !strings.HasSuffix(cid, ".Write") {
				continue
			}
			pt, ok := g.Where(cl)
			if !ok {
				continue
			}
			n++
			c.r.Check(id, f, "wrapped "+cid+" called once per call", "O: a connection wrapper forwards each Read/Write once (no retry loop around the wrapped operation)", cl.Pos(), !g.Reachable(g.After(pt), pt, nil, nil), "the wrapped operation is retried in a loop: an error that persists (the expired deadline set on cancellation is Temporary) makes the call spin for ever")
		}
	}
	c.r.Floor(id, "wrapped reads and writes in the connection wrappers", n, 3)
}

// deadlineWatchersArmedAtOnce (C06.19/C04.12): setDeadline and
// setWriteDeadline start the goroutine that turns the end of the context into
// an expired connection deadline and return the function that stops it. They
// are used as `defer setWriteDeadline(ctx, conn)()`: the watcher is armed at
// the defer statement and stopped when the function returns. Without the
// second pair of parentheses the call itself is deferred: nothing watches the
// context while the request is written, and a send to a peer that has stopped
// reading never returns.
func deadlineWatchersArmedAtOnce(c *cx, id string) {
	n := 0
	for _, f := range c.allFns() {
		if f.Body == nil {
			continue
		}
		g := f.Graph()
		for _, cl := range f.AllCalls() {
			cid := f.CalleeID(cl)
			if cid != "xmpp.setDeadline" && cid != "xmpp.setWriteDeadline" {
				continue
			}
			n++
			bad := ""
			if d, isDefer := g.Parent(cl).(*ast.DeferStmt); isDefer && d.Call == cl {
				bad = "the call itself is deferred: the watcher is started when the function returns and never stopped"
			}
			if _, isGo := g.Parent(cl).(*ast.GoStmt); isGo {
				bad = "the watcher is started from another goroutine"
			}
			if _, isExpr := g.Parent(cl).(*ast.ExprStmt); isExpr {
				bad = "the stop function is dropped: the watcher is never stopped"
			}
			c.r.Check(id, f, "deadline watcher "+cid+" armed at once", "O: the watcher is armed where it is written (its result, the stop function, is what is deferred or kept)", cl.Pos(), bad == "", bad)
		}
	}
	c.r.Floor(id, "uses of the deadline watchers", n, 4)
}

// c04ExpiredDeadlineIsInThePast (C04.4): the watchers interrupt blocked I/O by
// setting a deadline that has passed. The value they pass to Set*Deadline on
// the ctx.Done() arm is a package-level time initialised with a non-zero time
// (time.Unix with a positive constant): the zero Time means "no deadline" to
// net.Conn, so it would clear the deadline instead of expiring it.
func c04ExpiredDeadlineIsInThePast(c *cx, id string) {
	n := 0
	for _, name := range []string{"setDeadline", "setWriteDeadline"} {
		sd := c.fn(id, "", name)
		if sd == nil {
			continue
		}
		for _, l := range sd.Lits {
			lg := l.Graph()
			for _, cl := range l.Calls("net.Conn.Set*Deadline") {
				pt, _ := lg.Where(cl)
				if len(cl.Args) != 1 {
					continue
				}
				arg := ast.Unparen(cl.Args[0])
				// time.Time{} clears the deadline again after the operation: fine
				if lit, isLit := arg.(*ast.CompositeLit); isLit && len(lit.Elts) == 0 {
					continue
				}
				n++
				ok, why := false, "argument is "+l.Norm(arg, &pt)
				if idn, isId := arg.(*ast.Ident); isId {
					if v, isVar := l.Info().Uses[idn].(*types.Var); isVar && !eng.IsLocal(v) {
						// find the initialiser of the package-level variable
						for _, file := range l.Pkg.Syntax {
							for _, decl := range file.Decls {
								gd, isGen := decl.(*ast.GenDecl)
								if !isGen {
									continue
								}
								for _, spec := range gd.Specs {
									vs, isVS := spec.(*ast.ValueSpec)
									if !isVS {
										continue
									}
									for i, nm := range vs.Names {
										if l.Info().Defs[nm] != types.Object(v) {
											continue
										}
										if i >= len(vs.Values) {
											why = v.Name() + " has no initialiser: it is the zero Time, which net.Conn takes for \"no deadline\""
											continue
										}
										if call, isCall := ast.Unparen(vs.Values[i]).(*ast.CallExpr); isCall && l.CalleeID(call) == "time.Unix" && len(call.Args) == 2 {
											sec, ok1 := l.ConstInt(call.Args[0])
											nsec, ok2 := l.ConstInt(call.Args[1])
											if ok1 && ok2 && (sec > 0 || (sec == 0 && nsec > 0)) {
												ok = true
											} else {
												why = v.Name() + " is not after the zero Unix time"
											}
										} else {
											why = v.Name() + " is initialised with " + types.ExprString(vs.Values[i])
										}
									}
								}
							}
						}
					}
				}
				c.r.Check(id, l, "deadline that expires blocked I/O", "K: the deadline set on cancellation is a fixed non-zero time in the past", cl.Pos(), ok, why)
			}
		}
	}
	c.r.Floor(id, "expiring deadline calls in the watchers", n, 2)
}

// c04AdaptersReportEveryFault (C04.13): "no fault of the connection is
// swallowed" starts below the negotiation functions: every byte goes through
// the net.Conn adapters of package xmpp (conn wraps a plain io.ReadWriter,
// teeConn copies the traffic). E-err over their methods: an error that the
// wrapped Read / Write / Close reports is returned on every path - also when
// data came with it (encoding/xml's buffered reader delivers the data first
// and the error with the next read; an adapter that returns (n, nil) for
// (n>0, err) and reads on loses the fault for good when the transport
// recovers).
func c04AdaptersReportEveryFault(c *cx, id string) {
	var fns []*eng.Fn
	for _, f := range c.allFns() {
		if strings.HasPrefix(f.Short, "xmpp.(*conn).") || strings.HasPrefix(f.Short, "xmpp.conn.") || strings.HasPrefix(f.Short, "xmpp.teeConn.") || strings.HasPrefix(f.Short, "xmpp.(*teeConn).") {
			if f.ErrResultIndex() >= 0 {
				fns = append(fns, f)
			}
			continue
		}
	}
	c.r.Floor(id, "error-returning methods of the connection adapters", len(fns), 6)
	errDiscipline(c, id, fns, nil, false)
	// what the tee writes to and reads from IS the connection: the writer is
	// io.MultiWriter(conn, ...) and the reader io.TeeReader(conn, ...) themselves,
	// with the connection as first operand - not something wrapped around them
	// (a best-effort wrapper belongs around the console operand only: around
	// the whole MultiWriter it swallows the connection's write errors too)
	if nt := c.fn(id, "", "newTeeConn"); nt != nil {
		for cls, want := range map[string]string{"xmpp.teeConn.multiWriter": "io.MultiWriter", "xmpp.teeConn.teeReader": "io.TeeReader"} {
			nw := 0
			for _, w := range nt.FieldWrites(cls) {
				nw++
				okw, why := false, "stored from "+exprOrEmpty(w.RHS)
				if cl, isCall := ast.Unparen(w.RHS).(*ast.CallExpr); w.RHS != nil && isCall && nt.CalleeID(cl) == want && len(cl.Args) >= 1 {
					if nt.Norm(cl.Args[0], nil) == "p1" {
						okw = true
					} else {
						why = "the first operand of " + want + " is " + nt.Norm(cl.Args[0], nil) + ", not the connection"
					}
				}
				c.r.Check(id, nt, "tee over the connection ("+cls+")", "K: the tee's writer / reader is "+want+"(conn, ...) itself: errors of the connection pass through unchanged", w.Stmt.Pos(), okw, why)
			}
			c.r.Floor(id, "stores to "+cls+" in newTeeConn", nw, 1)
		}
	}
	// what the adapter returns is what the wrapped operation returned, both
	// results, as they are: every return of a Read / Write method is a call of a
	// wrapped Read / Write with the method's own argument (data that arrives
	// together with an error - the last bytes with io.EOF - is neither dropped
	// nor is its error dropped)
	for _, f := range fns {
		if f.Decl == nil || (f.Decl.Name.Name != "Read" && f.Decl.Name.Name != "Write") {
			continue
		}
		g := f.Graph()
		for _, rs := range g.Returns {
			okr, why := false, "returns "+c.p.NodeStr(rs)
			if len(rs.Results) == 1 {
				if cl, isCall := ast.Unparen(rs.Results[0]).(*ast.CallExpr); isCall {
					if sel, isSel := ast.Unparen(cl.Fun).(*ast.SelectorExpr); isSel && sel.Sel.Name == f.Decl.Name.Name && len(cl.Args) == 1 && f.Norm(cl.Args[0], nil) == "p0" {
						okr = true
					}
				}
			}
			if !okr && len(rs.Results) == 2 {
				// n, err := w.Read(p); return n, err
				rp, _ := g.Where(rs)
				a, b := f.Norm(rs.Results[0], &rp), f.Norm(rs.Results[1], &rp)
				if strings.HasSuffix(a, "#0") && strings.HasSuffix(b, "#1") && strings.TrimSuffix(a, "#0") == strings.TrimSuffix(b, "#1") && strings.Contains(a, "."+f.Decl.Name.Name+"[") && strings.HasSuffix(strings.TrimSuffix(a, "#0"), "(p0)") {
					okr = true
				}
			}
			c.r.Check(id, f, "adapter return", "K: every return of the adapter's "+f.Decl.Name.Name+" is the wrapped "+f.Decl.Name.Name+"(p) itself (count and error pass through together)", rs.Pos(), okr, why+": the count or the error of the wrapped operation is edited on the way")
		}
	}
	// one operation of the wrapped connection per call, on every path: a
	// fallback that writes the buffer again after a failed (tee'd) write puts
	// the bytes on the wire twice
	for _, f := range fns {
		if f.Decl == nil || (f.Decl.Name.Name != "Read" && f.Decl.Name.Name != "Write") {
			continue
		}
		g := f.Graph()
		var ops []*ast.CallExpr
		for _, cl := range f.AllCalls() {
			if sel, ok := ast.Unparen(cl.Fun).(*ast.SelectorExpr); ok && sel.Sel.Name == f.Decl.Name.Name {
				ops = append(ops, cl)
			}
		}
		bad := ""
		for _, a := range ops {
			ap, _ := g.Where(a)
			for _, b := range ops {
				bp, okb := g.Where(b)
				if okb && g.Reachable(g.After(ap), bp, nil, nil) {
					bad = "after the " + f.Decl.Name.Name + " at " + c.p.Pos(a.Pos()) + " the one at " + c.p.Pos(b.Pos()) + " can run in the same call"
				}
			}
		}
		c.r.Check(id, f, "one wrapped "+f.Decl.Name.Name+" per call", "O: no path of the adapter performs two operations of the wrapped connection (data is never written or consumed twice)", f.Pos(), bad == "", bad)
	}
}

// resultUsedBeforeErrorTest (C04.14): a function of the negotiation set that
// returns (p, err) with p nil on its error returns is used as "if err != nil
// { return }" before p is touched. A dereference of p (field access through
// the pointer, index) that is reachable from the call without crossing the
// edge "err == nil" panics for exactly the inputs that make the callee fail -
// a peer that cuts the stream inside <stream:features/> - instead of failing
// the negotiation.
func resultUsedBeforeErrorTest(c *cx, id string, fns []*eng.Fn) {
	n := 0
	// callees (repository functions) that return a nil pointer with an error
	nilOnError := func(callee *eng.Fn, ri int) bool {
		if callee == nil || callee.Body == nil {
			return false
		}
		g := callee.Graph()
		for _, rs := range g.Returns {
			if len(rs.Results) <= ri {
				continue
			}
			if g.RetKindOf(rs) == eng.RetSuccess {
				continue
			}
			rp, _ := g.Where(rs)
			if idn, ok := ast.Unparen(rs.Results[ri]).(*ast.Ident); ok && idn.Name == "nil" {
				return true
			}
			if g.NilnessOf(rs.Results[ri], rp) == -1 {
				return true
			}
		}
		return false
	}
	for _, f := range fns {
		if f.Body == nil {
			continue
		}
		g := f.Graph()
		f.WalkBody(func(nd ast.Node) bool {
			as, ok := nd.(*ast.AssignStmt)
			if !ok || len(as.Rhs) != 1 || len(as.Lhs) < 2 {
				return true
			}
			cl, ok := ast.Unparen(as.Rhs[0]).(*ast.CallExpr)
			if !ok {
				return true
			}
			callee := c.p.FnOf(calleeFunc(f, cl))
			if callee == nil {
				return true
			}
			ev := rootLocal(f, as.Lhs[len(as.Lhs)-1])
			if ev == nil || eng.TypeStr(ev.Type()) != "error" {
				return true
			}
			ap, okp := g.Where(as)
			if !okp {
				return true
			}
			for ri, l := range as.Lhs[:len(as.Lhs)-1] {
				pv := rootLocal(f, l)
				if pv == nil {
					continue
				}
				if _, isPtr := pv.Type().Underlying().(*types.Pointer); !isPtr {
					continue
				}
				if _, isID := ast.Unparen(l).(*ast.Ident); !isID || !nilOnError(callee, ri) {
					continue
				}
				n++
				// edges that establish err == nil for this call
				cut := eng.Cut{}
				forms := append(g.VarForms(ev), f.Norm(cl, &ap)+"#"+itoa(len(as.Lhs)-1))
				for _, fm := range forms {
					for _, ce := range g.EdgesMatching("eq(" + fm + ",nil)") {
						// only tests that come after this call (the variable is
						// reused: an earlier test of it is about an earlier call)
						if g.Reachable(g.After(ap), eng.Point{B: ce.E.B, I: 0}, nil, nil) || ce.E.B == ap.B {
							cut[ce.E] = true
						}
					}
				}
				bad := ""
				f.WalkBody(func(m ast.Node) bool {
					sel, ok := m.(*ast.SelectorExpr)
					if !ok {
						return true
					}
					idn, ok := ast.Unparen(sel.X).(*ast.Ident)
					if !ok || f.Info().ObjectOf(idn) != types.Object(pv) {
						return true
					}
					if s2, ok := f.Info().Selections[sel]; !ok || s2.Kind() != types.FieldVal {
						return true
					}
					up, ok := g.Where(sel)
					if !ok {
						return true
					}
					// does the (possibly nil) definition reach the use without passing err == nil?
					for _, d := range g.ReachingDefsCut(pv, up, cut) {
						if d.Node == ast.Node(as) && g.Reachable(g.After(ap), up, cut, nil) {
							bad = "field " + sel.Sel.Name + " of the result is read at " + c.p.Pos(sel.Pos()) + " on a path that has not established that the error is nil"
						}
					}
					return true
				})
				c.r.Check(id, f, "result of "+f.CalleeID(cl)+" used only after its error was tested", "G: a pointer result that is nil on the callee's error returns is dereferenced only behind the edge err == nil", as.Pos(), bad == "", bad+": a failing "+f.CalleeID(cl)+" panics the negotiation instead of failing it")
			}
			return true
		})
	}
	c.r.Floor(id, "pointer results with an error in the scope", n, 1)
}
