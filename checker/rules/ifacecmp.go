package rules

import (
	"go/ast"
	"go/token"
	"go/types"

	"verif/checker/eng"
)

// interfaceComparisonsCannotPanic (C09.27): comparing two interface values
// with == / != / a switch case panics at run time when both hold the same
// dynamic type and that type is not comparable (a struct with a map, slice or
// function field: stanza.Error, jid-carrying payloads). The compiler accepts
// it. For every such comparison in the module, an operand whose value is known
// - a package-level variable with an initialiser, a local with one definition,
// a conversion or a composite literal - does not hold a non-comparable type.
// errors.Is / errors.As are the accepted idiom (errors.Is checks
// comparability before it compares).
//
// Returns the number of interface comparisons examined.
func interfaceComparisonsCannotPanic(c *cx, id string) int {
	// initialisers of package-level variables
	inits := map[*types.Var]ast.Expr{}
	for _, pk := range c.p.Pkgs {
		for _, file := range pk.Syntax {
			for _, d := range file.Decls {
				gd, ok := d.(*ast.GenDecl)
				if !ok || gd.Tok != token.VAR {
					continue
				}
				for _, sp := range gd.Specs {
					vs, ok := sp.(*ast.ValueSpec)
					if !ok || len(vs.Values) != len(vs.Names) {
						continue
					}
					for i, nm := range vs.Names {
						if v, ok := pk.TypesInfo.Defs[nm].(*types.Var); ok {
							inits[v] = vs.Values[i]
						}
					}
				}
			}
		}
	}
	n := 0
	for _, f := range c.allFns() {
		info := f.Info()
		isIface := func(e ast.Expr) bool {
			t := info.TypeOf(e)
			if t == nil {
				return false
			}
			_, ok := t.Underlying().(*types.Interface)
			return ok
		}
		// dynamic type of an operand, when it is known
		var dyn func(e ast.Expr, depth int) types.Type
		dyn = func(e ast.Expr, depth int) types.Type {
			e = ast.Unparen(e)
			if t := info.TypeOf(e); t != nil {
				if _, ok := t.Underlying().(*types.Interface); !ok {
					if b, isB := t.Underlying().(*types.Basic); isB && b.Kind() == types.UntypedNil {
						return nil
					}
					return t
				}
			}
			if depth > 3 {
				return nil
			}
			switch x := e.(type) {
			case *ast.Ident:
				v, ok := info.Uses[x].(*types.Var)
				if !ok {
					return nil
				}
				if init, ok := inits[v]; ok {
					// the initialiser belongs to the variable's package
					for _, pk := range c.p.Pkgs {
						if pk.Types == v.Pkg() {
							if t := pk.TypesInfo.TypeOf(init); t != nil {
								if _, isI := t.Underlying().(*types.Interface); !isI {
									return t
								}
							}
						}
					}
					return nil
				}
				if eng.IsLocal(v) {
					g := f.Graph()
					if ds := g.DefsOf(v); len(ds) == 1 && ds[0].Kind == eng.DefPlain && ds[0].RHS != nil && !g.AddrTaken(v) {
						return dyn(ds[0].RHS, depth+1)
					}
				}
			case *ast.CallExpr:
				if tv, ok := info.Types[x.Fun]; ok && tv.IsType() && len(x.Args) == 1 {
					return dyn(x.Args[0], depth+1)
				}
			}
			return nil
		}
		check := func(pos token.Pos, a, b ast.Expr, what string) {
			if !isIface(a) || !isIface(b) {
				return
			}
			n++
			bad := ""
			for _, e := range []ast.Expr{a, b} {
				if t := dyn(e, 0); t != nil && !types.Comparable(t) {
					bad = f.Prog.NodeStr(e) + " holds a " + eng.TypeStr(t) + ", which is not comparable: the comparison panics when the other side holds one too"
				}
			}
			// two errors of unknown origin: the library's own error types
			// stanza.Error and stream.Error are structs with maps / slices, so
			// "the same failure twice" compared with == panics. One side has
			// to be a sentinel (a package-level variable), nil, or a value of
			// known comparable type.
			if bad == "" && isErrorType(info.TypeOf(a)) && isErrorType(info.TypeOf(b)) {
				arbitrary := func(e ast.Expr) bool {
					e = ast.Unparen(e)
					if dyn(e, 0) != nil {
						return false
					}
					switch x := e.(type) {
					case *ast.Ident:
						if v, ok := info.Uses[x].(*types.Var); ok && !eng.IsLocal(v) {
							return false // package-level sentinel
						}
					case *ast.SelectorExpr:
						if v, ok := info.Uses[x.Sel].(*types.Var); ok && !v.IsField() {
							return false // pkg.Sentinel
						}
					}
					return true
				}
				if arbitrary(a) && arbitrary(b) {
					bad = "both " + f.Prog.NodeStr(a) + " and " + f.Prog.NodeStr(b) + " are errors of unknown dynamic type: when both hold a stanza.Error or stream.Error the comparison panics (use errors.Is)"
				}
			}
			c.r.Check(id, f, what, "P: no interface comparison has an operand known to hold a non-comparable dynamic type, and no two arbitrary errors are compared", pos, bad == "", bad)
		}
		f.WalkBody(func(nd ast.Node) bool {
			switch x := nd.(type) {
			case *ast.BinaryExpr:
				if x.Op == token.EQL || x.Op == token.NEQ {
					check(x.Pos(), x.X, x.Y, "comparison of interface values")
				}
			case *ast.SwitchStmt:
				if x.Tag == nil {
					return true
				}
				for _, cl := range x.Body.List {
					for _, e := range cl.(*ast.CaseClause).List {
						check(e.Pos(), x.Tag, e, "switch case over an interface value")
					}
				}
			}
			return true
		})
	}
	return n
}

func isErrorType(t types.Type) bool {
	return t != nil && types.Identical(t, types.Universe.Lookup("error").Type())
}
