package rules

import (
	"go/ast"
	"go/constant"
	"go/token"
	"go/types"
	"reflect"
	"sort"
	"strings"

	"verif/checker/eng"
)

func init() {
	Registry["C11"] = Rule{
		Meta: eng.Meta{
			Explanation: "STRUCTURAL PART ONLY of 'JIDs are canonical' (the round-trip equations depend on x/text PRECIS and x/net IDNA tables and are not decided). Decided on every path: only the constructors write the fields of a JID or build JID literals (C11.1, who-may-write); New/WithLocal/WithResource/WithDomain reach their success return only after UTF-8 validation, the PRECIS/IDNA enforcement of the part(s) they change and the length/forbidden-character checks applied to the ENFORCED bytes (C11.2/C11.3); normalizeDomainpart validates, maps through idna.Display.ToUnicode and bounds the length, the forbidden localpart set is exactly \"&'/:<>@ and both length limits are 1023 (C11.4); splitString looks for '/' first, truncates, then looks for '@', and never uses a -1 index (C11.5); the accessors partition data consistently (affine normal form of the slice bounds: Localpart [:L], Domainpart [L:L+D], Resourcepart [L+D:], Bare [:L+D] keeping (L,D), Domain [L:L+D] with (0,D)), String inserts '@' iff L>0, Equal compares the bytes and both lengths (C11.6); Parse is SplitString then New, the XML decoders go through Parse and the encoders emit String() (C11.7).",
			NotDecided:  "Parse(String(j)) == j, idempotence of PRECIS/IDNA enforcement, case/width variants, A-labels: value equations over x/text and x/net tables.",
			Trusted:     trustedCommon,
		},
		Run: runC11,
	}
}

// affine canonicalises sums of field selectors/idents: "a.x + b + 1" -> sorted terms.
func affine(f *eng.Fn, e ast.Expr) string {
	if e == nil {
		return ""
	}
	var terms []string
	var walk func(e ast.Expr, sign string)
	walk = func(e ast.Expr, sign string) {
		e = ast.Unparen(e)
		if be, ok := e.(*ast.BinaryExpr); ok && (be.Op == token.ADD || be.Op == token.SUB) {
			walk(be.X, sign)
			s2 := sign
			if be.Op == token.SUB {
				if sign == "+" {
					s2 = "-"
				} else {
					s2 = "+"
				}
			}
			walk(be.Y, s2)
			return
		}
		terms = append(terms, sign+affineTerm(f, e))
	}
	walk(e, "+")
	sort.Strings(terms)
	return strings.Join(terms, "")
}

func runC11(p *eng.Prog, r *eng.Report, tier string) {
	c := &cx{p, r, tier}
	c11ElementIsCharData(c, "C11.14")
	c11LengthLimitsOnCanonicalParts(c, "C11.15")
	c11CodecsVerbatim(c, "C11.16")
	c11ChecksCoverThePart(c, "C11.18")
	c11IPLiteralsVerbatim(c, "C11.19")
	// ---- C11.1 who may write ---------------------------------------------------
	allowed := map[string]bool{"jid.New": true, "jid.JID.WithLocal": true, "jid.JID.WithDomain": true, "jid.JID.WithResource": true, "jid.JID.Bare": true, "jid.JID.Domain": true,
		"jid.(*JID).UnmarshalXML": true, "jid.(*JID).UnmarshalXMLAttr": true, "jid.NewUnsafe": true}
	n := 0
	for _, f := range c.allFns() {
		for _, fld := range []string{"locallen", "domainlen", "data"} {
			for _, w := range f.FieldWrites("jid.JID." + fld) {
				n++
				c.r.Check("C11.1", f, "write to JID."+fld, "W: only the constructors write the fields of a JID", w.Stmt.Pos(), allowed[f.Short], "written in "+f.Short)
			}
		}
		for _, cl := range f.WalkLits("jid.JID") {
			if len(cl.Elts) == 0 {
				continue
			}
			n++
			c.r.Check("C11.1", f, "JID literal with fields", "W: only the constructors build a JID from parts", cl.Pos(), allowed[f.Short], "literal in "+f.Short)
		}
	}
	c.r.Floor("C11.1", "writes/literals of JID", n, 8)

	// ---- C11.2 / C11.3 constructors ----------------------------------------------------
	type need struct{ what, pat string }
	ctor := func(name string, needs []need, checks map[string]string) {
		f := c.fn("C11.2", "jid", name)
		if f == nil {
			return
		}
		g := f.Graph()
		ns := 0
		for _, rs := range g.Returns {
			pt, _ := g.Where(rs)
			kind := g.RetKindOf(rs)
			if kind == eng.RetError {
				continue
			}
			// `return j, localChecks(...)`: success iff the tail check passes; count it
			ns++
			for _, nd := range needs {
				okd, why := g.DominatedAny(pt, strings.Split(nd.pat, " || "))
				c.r.Check("C11.2", f, "success return ["+nd.what+"]", "S: the success return is preceded by "+nd.what+" with its result tested", rs.Pos(), okd, why)
			}
		}
		c.r.Floor("C11.2", "non-error returns of "+name, ns, 1)
		// the checks run on the enforced bytes: argument is a slice of the local data buffer, after the Append
		for callee, appendCallee := range checks {
			ncalls := 0
			for _, cl := range f.Calls("jid." + callee) {
				ncalls++
				pt, _ := g.Where(cl)
				arg := ast.Unparen(cl.Args[0])
				sl, isSlice := arg.(*ast.SliceExpr)
				okArg := false
				if isSlice {
					// the buffer the constructor builds (role: a byte slice local
					// allocated here and appended to), not a parameter
					if v := rootLocal(f, sl.X); v != nil && eng.TypeStr(v.Type()) == "[]byte" {
						if _, isParam := c11ParamIndex(f, v); !isParam {
							if okf, _ := freshSlice(f, sl.X, pt, map[*eng.Def]bool{}); okf {
								okArg = true
							}
						}
					}
				}
				c.r.Check("C11.2", f, callee+" argument", "P: the check is applied to the enforced (normalised) bytes, not to the raw input", cl.Pos(), okArg, "argument is "+f.Norm(arg, &pt))
				if appendCallee != "" {
					// on paths where the part is non-empty the Append precedes the check
					for _, ac := range f.Calls(appendCallee) {
						ap, _ := g.Where(ac)
						c.r.Check("C11.2", f, callee+" after "+appendCallee, "O: the part is enforced before it is checked", cl.Pos(), !g.Reachable(g.After(pt), ap, nil, nil), "enforcement can run after the check")
					}
				}
			}
			c.r.Floor("C11.2", callee+" in "+name, ncalls, 1)
		}
		errDiscipline(c, "C11.2", []*eng.Fn{f}, nil, false)
	}
	ctor("New", []need{
		{"utf8.ValidString of localpart", "unicode/utf8.ValidString(p0)"},
		{"utf8.ValidString of resourcepart", "unicode/utf8.ValidString(p2)"},
		{"normalizeDomainpart", "eq(jid.normalizeDomainpart(*)#1,nil)"},
		{"localChecks", "eq(jid.localChecks(*),nil)"},
		{"resourceChecks", "eq(jid.resourceChecks(*),nil)"},
	}, map[string]string{"localChecks": "golang.org/x/text/secure/precis.Profile.Append", "resourceChecks": ""})
	ctor("JID.WithLocal", nil, map[string]string{"localChecks": "golang.org/x/text/secure/precis.Profile.Append"})
	ctor("JID.WithResource", nil, map[string]string{"resourceChecks": "golang.org/x/text/secure/precis.Profile.Append"})
	// enforcement present under the non-empty guard
	for _, k := range []struct{ fn, param, profile, valid string }{
		{"New", "p0", "var:golang.org/x/text/secure/precis.UsernameCaseMapped", ""},
		{"New", "p2", "var:golang.org/x/text/secure/precis.OpaqueString", ""},
		{"JID.WithLocal", "p0", "var:golang.org/x/text/secure/precis.UsernameCaseMapped", "unicode/utf8.ValidString(p0)"},
		{"JID.WithResource", "p0", "var:golang.org/x/text/secure/precis.OpaqueString", "unicode/utf8.ValidString(p0)"},
	} {
		f := c.p.Func("jid", k.fn)
		if f == nil {
			continue
		}
		g := f.Graph()
		found := 0
		for _, cl := range f.Calls("golang.org/x/text/secure/precis.Profile.Append") {
			pt, _ := g.Where(cl)
			sel := ast.Unparen(cl.Fun).(*ast.SelectorExpr)
			if f.Norm(sel.X, nil) != k.profile || !strings.Contains(f.Norm(cl.Args[1], &pt), k.param) {
				continue
			}
			found++
			c.domAny("C11.3", f, cl, "PRECIS enforcement of "+k.param, nonEmptyAlts(k.param))
			if k.valid != "" {
				c.dom("C11.3", f, cl, "UTF-8 validation before enforcement of "+k.param, []string{k.valid})
			}
			// every success return on the non-empty edge passes this call
			var neEdges []eng.CondEdge
			for _, alt := range nonEmptyAlts(k.param) {
				neEdges = append(neEdges, g.EdgesMatching(alt)...)
			}
			for _, ce := range neEdges {
				for _, rs := range g.Returns {
					rp, _ := g.Where(rs)
					if g.RetKindOf(rs) == eng.RetError || !g.Reachable(g.EdgeTarget(ce.E), rp, nil, nil) {
						continue
					}
					isApp := func(q eng.Point, nd ast.Node) bool { return containsNode(nd, cl) }
					c.r.Check("C11.3", f, "non-empty "+k.param+" is enforced", "S: every non-error return reached with a non-empty part passed its PRECIS profile", rs.Pos(), g.MustPassBefore(g.EdgeTarget(ce.E), rp, isApp, nil), "a return skips the enforcement")
				}
			}
		}
		c.r.Check("C11.3", f, "profile "+k.profile+" applied to "+k.param, "K: the right PRECIS profile is used for this part", f.Pos(), found == 1, "found "+itoa(found)+" matching Append calls")
	}
	wd := c.fn("C11.3", "jid", "JID.WithDomain")
	if wd != nil {
		for _, rs := range wd.Graph().Returns {
			if wd.Graph().RetKindOf(rs) == eng.RetError {
				continue
			}
			c.dom("C11.3", wd, rs, "WithDomain success return", []string{"eq(jid.normalizeDomainpart(*)#1,nil)"})
		}
	}

	// ---- C11.4 ----------------------------------------------------------------------------------
	nd := c.fn("C11.4", "jid", "normalizeDomainpart")
	if nd != nil {
		g := nd.Graph()
		for _, rs := range g.Returns {
			if g.RetKindOf(rs) == eng.RetError {
				continue
			}
			pt, _ := g.Where(rs)
			c.r.Check("C11.4", nd, "success return [valid UTF-8]", "G: every path to a success return crosses the true edge of utf8.ValidString(domainpart) (historical fact about the input)", rs.Pos(), g.DominatedFrom(g.Entry(), pt, []string{"unicode/utf8.ValidString(*)"}), "a success return is reachable without the UTF-8 test")
			// IP literals return early; everything else passes ToUnicode and the length test
			if ok, _ := g.DominatedAny(pt, []string{"!eq(net.ParseIP(*),nil)"}); ok {
				continue
			}
			c.dom("C11.4", nd, rs, "success return [IDNA]", []string{"eq(golang.org/x/net/idna.Profile.ToUnicode[var:golang.org/x/net/idna.Display](*)#1,nil)"})
			// C11.10 the value returned is a fixed point of the mapping: IDNA validates
			// the labels as given and maps afterwards, so a second pass over the
			// result must succeed and leave it unchanged (otherwise the address that
			// is returned does not parse to itself)
			{
				val := nd.Norm(rs.Results[0], &pt)
				tu := "golang.org/x/net/idna.Profile.ToUnicode[var:golang.org/x/net/idna.Display](" + val + ")"
				okFix, why := g.DominatedAny(pt, []string{"eq(" + tu + "#0," + val + ")", "eq(" + val + "," + tu + "#0)"})
				okErr, _ := g.Dominated(pt, "eq("+tu+"#1,nil)")
				if okFix && !okErr {
					why = "the error of the second pass is not tested"
				}
				c.r.Check("C11.10", nd, "success return [fixed point of the mapping]", "G: the domainpart that is returned was mapped again and came back unchanged and without error", rs.Pos(), okFix && okErr, why)
			}
			c.dom("C11.4", nd, rs, "success return [length >= 1]", []string{"!lt(builtin.len(*),1)"})
			c.dom("C11.4", nd, rs, "success return [length <= 1023]", []string{"!lt(1023,builtin.len(*))"})
		}
	}
	for _, k := range []struct{ fn, set string }{{"localChecks", "\"&'/:<>@"}, {"resourceChecks", ""}} {
		f := c.fn("C11.4", "jid", k.fn)
		if f == nil {
			continue
		}
		g := f.Graph()
		for _, rs := range g.Returns {
			if g.RetKindOf(rs) != eng.RetSuccess {
				continue
			}
			c.dom("C11.4", f, rs, k.fn+" success [length]", []string{"!lt(1023,builtin.len(p0))"})
			if k.set != "" {
				c.dom("C11.4", f, rs, k.fn+" success [forbidden characters]", []string{"!bytes.ContainsAny(p0,*)"})
			}
		}
		if k.set != "" {
			okSet := false
			for _, cl := range f.Calls("bytes.ContainsAny") {
				if s, ok := f.ConstStr(cl.Args[1]); ok {
					rs := []rune(s)
					sort.Slice(rs, func(i, j int) bool { return rs[i] < rs[j] })
					ws := []rune(k.set)
					sort.Slice(ws, func(i, j int) bool { return ws[i] < ws[j] })
					okSet = string(rs) == string(ws)
				}
			}
			c.r.Check("C11.4", f, "forbidden localpart characters", "T: the forbidden set is exactly \"&'/:<>@ (RFC 7622 section 3.3.1)", f.Pos(), okSet, "set differs")
		}
	}

	c11SplitString(c, "C11.5")

	// ---- C11.6 accessors ---------------------------------------------------------------------------------
	L, D := "recv.locallen", "recv.domainlen"
	LD := "+" + D + "+" + L
	type acc struct{ fn, lo, hi string }
	for _, a := range []acc{
		{"JID.Localpart", "", "+" + L}, {"JID.Domainpart", "+" + L, LD}, {"JID.Resourcepart", LD, ""},
	} {
		f := c.fn("C11.6", "jid", a.fn)
		if f == nil {
			continue
		}
		okA := false
		got := ""
		f.WalkBody(func(n ast.Node) bool {
			if sl, ok := n.(*ast.SliceExpr); ok {
				if k, _ := f.FieldClass(sl.X); k == "jid.JID.data" {
					got = "[" + affine(f, sl.Low) + ":" + affine(f, sl.High) + "]"
					okA = affine(f, sl.Low) == a.lo && affine(f, sl.High) == a.hi
				}
			}
			return true
		})
		c.r.Check("C11.6", f, "slice bounds", "E-aff: "+a.fn+" is data["+a.lo+":"+a.hi+"]", f.Pos(), okA, "bounds are "+got)
	}
	for _, a := range []struct{ fn, lo, hi, ll, dl string }{
		{"JID.Bare", "", LD, L, D}, {"JID.Domain", "+" + L, LD, "", D},
	} {
		f := c.fn("C11.6", "jid", a.fn)
		if f == nil {
			continue
		}
		for _, cl := range f.WalkLits("jid.JID") {
			get := func(n string) string {
				if v := structLitField(cl, n); v != nil {
					return f.Norm(v, nil)
				}
				return ""
			}
			okB := get("locallen") == a.ll && get("domainlen") == a.dl
			if sl, ok := ast.Unparen(structLitField(cl, "data")).(*ast.SliceExpr); ok {
				okB = okB && affine(f, sl.Low) == a.lo && affine(f, sl.High) == a.hi
			} else {
				okB = false
			}
			c.r.Check("C11.6", f, "derived address", "E-aff: "+a.fn+" keeps data["+a.lo+":"+a.hi+"] with lengths ("+a.ll+","+a.dl+")", cl.Pos(), okB, "literal is "+f.Norm(cl, nil))
		}
		// ... on every path: each return hands out such a literal (a fast path
		// that returns the receiver "because there is nothing to strip" keeps
		// the part it forgot about: example.net/balcony has no localpart but
		// Domain() must still drop the resource)
		g := f.Graph()
		for _, rs := range g.Returns {
			okR := false
			if len(rs.Results) == 1 {
				r := ast.Unparen(rs.Results[0])
				if _, isLit := r.(*ast.CompositeLit); isLit {
					okR = true
				}
				// or a local whose every reaching definition is such a literal
				if idn, isId := r.(*ast.Ident); isId {
					if v, _ := f.Info().ObjectOf(idn).(*types.Var); v != nil && eng.IsLocal(v) {
						pt, _ := g.Where(rs)
						ds := g.ReachingDefs(v, pt)
						okR = len(ds) > 0
						for _, d := range ds {
							if d.RHS == nil {
								okR = false
								continue
							}
							if _, isLit := ast.Unparen(d.RHS).(*ast.CompositeLit); !isLit {
								okR = false
							}
						}
					}
				}
			}
			c.r.Check("C11.6", f, "every return builds the derived address", "E-aff: every return of "+a.fn+" hands out the checked literal (never the receiver itself)", rs.Pos(), okR, "returns "+c.p.NodeStr(rs))
		}
	}
	jidEqualRule(c, "C11.6")
	c11LocalLenIsEnforcedLen(c, "C11.11")
	c11NoRawPartAppended(c, "C11.12")
	c11ChecksSeeTheEnforcedBuffer(c, "C11.13")
	st := c.fn("C11.6", "jid", "JID.String")
	if st != nil {
		g := st.Graph()
		nat := 0
		for _, w := range st.Writes() {
			if w.RHS == nil || !strings.Contains(st.Norm(w.RHS, nil), "\"@\"") {
				continue
			}
			nat++
			c.dom("C11.6", st, w.Stmt, "'@' inserted", []string{"lt(0,recv.locallen)"})
		}
		c.r.Floor("C11.6", "'@' insertion in String", nat, 1)
		c11StringLengths(c, "C11.6")
		_ = g
	}

	// ---- C11.9 replacing one part keeps the other two ----------------------------------------------------
	// WithLocal / WithDomain return the receiver with one part rewritten;
	// WithResource starts from Bare(). A return that goes through an accessor
	// which DROPS parts (Domain() in any of them, Bare() outside WithResource)
	// loses the parts that were to be kept ("removing the localpart" is not
	// "the domain").
	nW := 0
	for _, name := range []string{"JID.WithLocal", "JID.WithDomain", "JID.WithResource"} {
		wf := c.fn("C11.9", "jid", name)
		if wf == nil {
			continue
		}
		wg := wf.Graph()
		for _, rs := range wg.Returns {
			if len(rs.Results) != 2 {
				continue
			}
			nW++
			rp, _ := wg.Where(rs)
			v := wf.Norm(rs.Results[0], &rp)
			bad := ""
			if strings.Contains(v, "jid.JID.Domain[") {
				bad = "returns " + v + ": localpart and resourcepart are dropped"
			}
			if name != "JID.WithResource" && strings.Contains(v, "jid.JID.Bare[") {
				bad = "returns " + v + ": the resourcepart is dropped"
			}
			c.r.Check("C11.9", wf, "returned address keeps the other parts", "P: no return of a With* function is built from an accessor that drops parts which are to be kept", rs.Pos(), bad == "", bad)
		}
	}
	c.r.Floor("C11.9", "returns of the With* functions", nW, 8)

	// ---- C11.7 -----------------------------------------------------------------------------------------------
	pf := c.fn("C11.7", "jid", "Parse")
	if pf != nil {
		g := pf.Graph()
		okP := false
		for _, rs := range g.Returns {
			if g.RetKindOf(rs) == eng.RetError {
				continue
			}
			pt, _ := g.Where(rs)
			if res := retResults(pf, rs); len(res) == 1 && pf.Norm(res[0], &pt) == "jid.New(jid.SplitString(p0)#0,jid.SplitString(p0)#1,jid.SplitString(p0)#2)" {
				okd, _ := g.Dominated(pt, "eq(jid.SplitString(p0)#3,nil)")
				okP = okd
			}
		}
		c.r.Check("C11.7", pf, "Parse", "P: Parse(s) is New(SplitString(s)) with the split error returned first", pf.Pos(), okP, "")
	}
	for _, name := range []string{"(*JID).UnmarshalXML", "(*JID).UnmarshalXMLAttr"} {
		f := c.fn("C11.7", "jid", name)
		if f != nil {
			c.r.Check("C11.7", f, "decodes through Parse", "P: XML decoding goes through Parse (and therefore through New)", f.Pos(), len(f.Calls("jid.Parse")) == 1, "no call of Parse")
			for _, pc := range f.Calls("jid.Parse") {
				// the decoded text reaches Parse unmodified (MarshalXML writes
				// String() verbatim: trimming or mapping here breaks the round trip)
				arg := ast.Unparen(pc.Args[0])
				raw := false
				switch a := arg.(type) {
				case *ast.SelectorExpr:
					_, isCall := ast.Unparen(a.X).(*ast.CallExpr)
					raw = !isCall && f.Info().Selections[a] != nil && f.Info().Selections[a].Kind() == types.FieldVal
				case *ast.Ident:
					raw = false
					if v, ok := f.Info().ObjectOf(a).(*types.Var); ok {
						if _, isP := c11ParamIndex(f, v); isP {
							raw = true
						}
					}
				}
				c.r.Check("C11.7", f, "argument of Parse", "P: the decoded character data / attribute value is handed to Parse as decoded (no trimming, mapping or re-slicing)", pc.Pos(), raw, "Parse is applied to "+f.Norm(pc.Args[0], nil))
			}
			// the decoders reject nothing on their own account: what MarshalXML /
			// MarshalXMLAttr wrote for an address that New accepted must decode.
			// Every error a decoder returns is the result of a call (Parse, the
			// XML decoder); a sentinel of its own ("too long": 3*1023 forgets the
			// two separators) refuses addresses the constructors accept.
			g := f.Graph()
			for _, rs := range g.Returns {
				if len(rs.Results) != 1 {
					continue
				}
				pt, _ := g.Where(rs)
				nrm := f.Norm(rs.Results[0], &pt)
				own := strings.HasPrefix(nrm, "var:") || strings.HasPrefix(nrm, "errors.New(") || strings.HasPrefix(nrm, "fmt.Errorf(")
				c.r.Check("C11.7", f, "decoder returns only errors of Parse or of the XML decoder", "P: the XML decoders add no rejection of their own to what Parse decides", rs.Pos(), !own, "returns "+nrm+": an address that New and Parse accept can be refused here")
			}
		}
	}
	c11EncodersEmitString(c, "C11.7")
	// ---- C11.4b the canonical domainpart has no trailing label separator ----------------
	// UTS #46 mapping turns U+3002/U+FF0E/U+FF61 into '.', and the Display
	// profile accepts empty labels: a dot stripped only BEFORE the mapping can
	// come back. A domainpart that ends in '.' re-parses to a different JID.
	if nd := c.fn("C11.4", "jid", "normalizeDomainpart"); nd != nil {
		g := nd.Graph()
		isTrim := func(q eng.Point, n ast.Node) bool {
			found := false
			ast.Inspect(n, func(x ast.Node) bool {
				if cl, ok := x.(*ast.CallExpr); ok {
					cid := nd.CalleeID(cl)
					if (cid == "strings.TrimSuffix" || cid == "strings.TrimRight") && len(cl.Args) == 2 {
						if cv := nd.ConstVal(cl.Args[1]); cv != nil && constant.StringVal(cv) == "." {
							// the mapping can leave several separators at the end
							// ("example.com。。"): TrimRight removes them all,
							// TrimSuffix one - unless it runs in a loop
							if cid == "strings.TrimRight" {
								found = true
							} else if tp, ok := g.Where(cl); ok && g.Reachable(g.After(tp), tp, nil, nil) {
								found = true
							}
						}
					}
				}
				return !found
			})
			return found
		}
		n := 0
		for _, cl := range nd.Calls("golang.org/x/net/idna.Profile.ToUnicode") {
			cp, _ := g.Where(cl)
			for _, rs := range g.Returns {
				rp, _ := g.Where(rs)
				if g.RetKindOf(rs) == eng.RetError || !g.Reachable(g.After(cp), rp, nil, nil) {
					continue
				}
				// a mapping whose result is only compared with the value that is
				// returned (the fixed-point pass of C11.10) maps nothing
				cn := nd.Norm(cl, &cp) + "#0"
				if len(rs.Results) > 0 && !strings.Contains(nd.Norm(rs.Results[0], &rp), cn) {
					if okf, _ := g.DominatedAny(rp, []string{"eq(" + cn + ",*)", "eq(*," + cn + ")"}); okf {
						continue
					}
				}
				n++
				c.r.Check("C11.4", nd, "trailing dot stripped from the mapped domainpart", "O: every success path after the IDNA mapping strips trailing label separators from the MAPPED value", rs.Pos(), g.MustPassBefore(g.After(cp), rp, isTrim, nil), "the mapped domainpart can end in '.' (from U+3002, U+FF0E, U+FF61 or an empty label): its string form parses to a different address")
			}
		}
		c.r.Floor("C11.4", "success returns after the IDNA mapping", n, 1)
	}
	// ---- C11.8 no constructor appends into memory another JID can see ----------------
	// JIDs are values that share their backing array when copied (Bare(),
	// Domain(), the receiver itself): appending in place rewrites addresses
	// that were handed out earlier. Every append-style call whose result
	// becomes a JID's data starts from a slice allocated in the same function.
	jidAppendsFresh(c, "C11.8")
}

// jidAppendsFresh: JIDs are values that share their backing array when copied
// (Bare(), Domain(), struct copies, the session's own address): every
// append-style call on a byte slice in package jid starts from a slice
// allocated in the same function. Shared by the properties that compare or
// hand out addresses (C02: the location check after a restart compares memory
// with itself once a peer's header was decoded in place).
func jidAppendsFresh(c *cx, id string) {
	nap := 0
	for _, f := range c.allFns() {
		if !strings.HasPrefix(f.Short, "jid.") || f.Body == nil {
			continue
		}
		g := f.Graph()
		for _, cl := range f.AllCalls() {
			cid := f.CalleeID(cl)
			isAppend := cid == "builtin.append" || strings.HasSuffix(cid, ".Append")
			if !isAppend || len(cl.Args) < 1 {
				continue
			}
			t := f.Info().TypeOf(cl.Args[0])
			if t == nil || eng.TypeStr(t) != "[]byte" {
				continue
			}
			nap++
			pt, _ := g.Where(cl)
			okf, why := freshSlice(f, cl.Args[0], pt, map[*eng.Def]bool{})
			c.r.Check(id, f, "append target of "+cid, "E-alias: a JID's bytes are only ever appended to in a buffer allocated by the same call (copies of a JID share their backing array)", cl.Pos(), okf, why)
		}
	}
	c.r.Floor(id, "append-style calls on byte slices in package jid", nap, 4)
}

func c11ParamIndex(f *eng.Fn, v *types.Var) (int, bool) {
	sig := f.Sig()
	if sig == nil {
		return 0, false
	}
	for i := 0; i < sig.Params().Len(); i++ {
		if sig.Params().At(i) == v {
			return i, true
		}
	}
	return 0, false
}

// affineTerm prints one term of an affine form independently of how locals
// are spelled: a local all of whose definitions are results of the same callee
// is printed as def:<callee>, any other plain local by its type only.
func affineTerm(f *eng.Fn, e ast.Expr) string {
	if id, ok := ast.Unparen(e).(*ast.Ident); ok {
		if v, ok := f.Info().ObjectOf(id).(*types.Var); ok && eng.IsLocal(v) {
			if n := f.LocalName(v); n != v.Name() {
				return f.Norm(e, nil) // parameter / result: positional already
			}
			callee := ""
			same := true
			for _, d := range f.Graph().DefsOf(v) {
				cid := ""
				if d.RHS != nil {
					if call, ok := ast.Unparen(d.RHS).(*ast.CallExpr); ok {
						cid = f.CalleeID(call)
					}
				}
				if cid == "" || (callee != "" && cid != callee) {
					same = false
				}
				callee = cid
			}
			if same && callee != "" {
				return "def:" + callee
			}
			return "local<" + eng.TypeStr(v.Type()) + ">"
		}
	}
	return f.Norm(e, nil)
}

// jidEqualRule: JID.Equal yields true only for equal bytes AND equal locallen
// AND equal domainlen, each compared between the receiver and the argument
// (the same bytes with a shifted part boundary are a different address:
// example.net vs example.ne/t). Shared by the properties that rely on address
// comparison (restart header check C12/C02, ibb peer check, muc).
func jidEqualRule(c *cx, id string) {
	eq := c.fn(id, "jid", "JID.Equal")
	if eq == nil {
		return
	}
	g := eq.Graph()
	has := func(s string, alts ...string) bool {
		for _, a := range alts {
			if strings.Contains(s, a) {
				return true
			}
		}
		return false
	}
	okLens, okData := false, false
	for _, rs := range g.Returns {
		pt, _ := g.Where(rs)
		s := g.Formula(rs.Results[0], true, pt).String()
		ll := has(s, "eq(p0.locallen,recv.locallen)", "eq(recv.locallen,p0.locallen)")
		dl := has(s, "eq(p0.domainlen,recv.domainlen)", "eq(recv.domainlen,p0.domainlen)")
		if !ll || !dl {
			continue
		}
		okLens = true
		if has(s, "bytes.Equal(recv.data,p0.data)", "bytes.Equal(p0.data,recv.data)", "eq(conv:string(recv.data),conv:string(p0.data))", "eq(conv:string(p0.data),conv:string(recv.data))") {
			okData = true
			continue
		}
		// the hand-written loop: that return is reached only with equal bytes
		okd, _ := g.DominatedAny(pt, []string{"eq(builtin.len(p0.data),builtin.len(recv.data))", "eq(builtin.len(recv.data),builtin.len(p0.data))"})
		okData = okData || okd
	}
	// ... and that for EVERY way to answer true (an identity fast path in front
	// of the length comparison - "same backing array, same part lengths" -
	// answers true for a JID and its Bare() view)
	for _, rs := range g.Returns {
		pt, _ := g.Where(rs)
		if eq.Norm(rs.Results[0], &pt) == "false" {
			continue
		}
		s := g.Formula(rs.Results[0], true, pt).String()
		ll := has(s, "eq(p0.locallen,recv.locallen)", "eq(recv.locallen,p0.locallen)")
		dl := has(s, "eq(p0.domainlen,recv.domainlen)", "eq(recv.domainlen,p0.domainlen)")
		data := has(s, "bytes.Equal(recv.data,p0.data)", "bytes.Equal(p0.data,recv.data)", "eq(conv:string(recv.data),conv:string(p0.data))", "eq(conv:string(p0.data),conv:string(recv.data))")
		if !data {
			data, _ = g.DominatedAny(pt, []string{"eq(builtin.len(p0.data),builtin.len(recv.data))", "eq(builtin.len(recv.data),builtin.len(p0.data))"})
		}
		c.r.Check(id, eq, "a return of Equal that can be true", "T: every true answer compares both part lengths and is reached with equal data only", rs.Pos(), ll && dl && data, "this return can answer true without the full comparison: "+s)
	}
	c.r.Check(id, eq, "Equal compares both lengths", "T: Equal requires equal locallen AND equal domainlen, each between receiver and argument (equal bytes alone do not make equal addresses)", eq.Pos(), okLens, "the true result does not compare recv.locallen with p0.locallen and recv.domainlen with p0.domainlen")
	c.r.Check(id, eq, "Equal compares the bytes", "T: the true result is reached only with equal data", eq.Pos(), okData, "")
}

// nonEmptyAlts lists the spellings of "the string x is not empty" as facts.
func nonEmptyAlts(x string) []string {
	return []string{"!eq(" + x + ",\"\")", "lt(0,builtin.len(" + x + "))", "!lt(builtin.len(" + x + "),1)", "!eq(builtin.len(" + x + "),0)"}
}

// c11LocalLenIsEnforcedLen (C11.11, also C09.21): the localpart length that New
// and WithLocal store is the length of the ENFORCED localpart: every definition
// that reaches the stored value is zero, or len(buf) taken at a point where
// every definition of buf that reaches is the empty allocation or the result
// of UsernameCaseMapped.Append. PRECIS changes the length (NFC composition,
// width mapping, case folding of U+1E9E): the raw len(localpart) puts the part
// boundaries in the wrong place and data[locallen+domainlen:] can slice out of
// range - jid.Parse on a peer's from attribute then panics in the serve loop.
func c11LocalLenIsEnforcedLen(c *cx, id string) {
	n := 0
	for _, name := range []string{"New", "JID.WithLocal"} {
		f := c.fn(id, "jid", name)
		if f == nil {
			continue
		}
		g := f.Graph()
		var vals []struct {
			e  ast.Expr
			pt eng.Point
		}
		for _, cl := range f.WalkLits("jid.JID") {
			if v := structLitField(cl, "locallen"); v != nil {
				pt, _ := g.Where(cl)
				vals = append(vals, struct {
					e  ast.Expr
					pt eng.Point
				}{v, pt})
			}
		}
		for _, w := range f.FieldWrites("jid.JID.locallen") {
			if w.RHS != nil {
				pt, _ := g.Where(w.Stmt)
				vals = append(vals, struct {
					e  ast.Expr
					pt eng.Point
				}{w.RHS, pt})
			}
		}
		bufOK := func(b ast.Expr, pt eng.Point) string {
			v := rootLocal(f, b)
			if v == nil {
				return "len of " + f.Norm(b, &pt) + " (not the local buffer)"
			}
			if _, isId := ast.Unparen(b).(*ast.Ident); !isId {
				return "len of " + f.Norm(b, &pt)
			}
			for _, d := range g.ReachingDefs(v, pt) {
				if d.Kind == eng.DefParam {
					return "it is the length of the raw parameter " + v.Name() + ", not of the enforced bytes"
				}
				if d.RHS == nil {
					return "an opaque definition of the buffer reaches"
				}
				call, isCall := ast.Unparen(d.RHS).(*ast.CallExpr)
				if !isCall {
					return "buffer defined as " + f.Norm(d.RHS, &d.At)
				}
				switch f.CalleeID(call) {
				case "builtin.make":
					if len(call.Args) >= 2 {
						if n0, ok := f.ConstInt(call.Args[1]); ok && n0 == 0 {
							continue
						}
					}
					return "buffer allocated with a non-zero length"
				case "golang.org/x/text/secure/precis.Profile.Append":
					if sel, ok := ast.Unparen(call.Fun).(*ast.SelectorExpr); ok && f.Norm(sel.X, nil) == "var:golang.org/x/text/secure/precis.UsernameCaseMapped" && d.Index == 0 {
						continue
					}
					return "buffer is the result of another profile's Append"
				default:
					return "buffer defined by " + f.CalleeID(call) + " (more than the enforced localpart)"
				}
			}
			return ""
		}
		for _, val := range vals {
			n++
			bad := ""
			var check func(e ast.Expr, pt eng.Point, depth int) string
			check = func(e ast.Expr, pt eng.Point, depth int) string {
				if depth > 3 {
					return "definition chain too long"
				}
				if k, ok := f.ConstInt(e); ok && k == 0 {
					return ""
				}
				switch x := ast.Unparen(e).(type) {
				case *ast.CallExpr:
					if f.CalleeID(x) == "builtin.len" && len(x.Args) == 1 {
						return bufOK(x.Args[0], pt)
					}
					return "value is " + f.Norm(e, &pt)
				case *ast.Ident:
					v, _ := f.Info().ObjectOf(x).(*types.Var)
					if v == nil || !eng.IsLocal(v) {
						return "value is " + f.Norm(e, &pt)
					}
					for _, d := range g.ReachingDefs(v, pt) {
						if d.Kind == eng.DefZero {
							continue
						}
						if d.RHS == nil || d.Kind != eng.DefPlain {
							return "opaque definition of " + x.Name
						}
						if w := check(d.RHS, d.At, depth+1); w != "" {
							return w
						}
					}
					return ""
				}
				return "value is " + f.Norm(e, &pt)
			}
			bad = check(val.e, val.pt, 0)
			c.r.Check(id, f, "stored localpart length", "K: locallen is zero or the length of the buffer that holds exactly the PRECIS-enforced localpart", val.e.Pos(), bad == "", bad)
		}
	}
	c.r.Floor(id, "stores of the localpart length in New/WithLocal", n, 2)
}

// c11NoRawPartAppended (C11.12, also C18.13): the bytes of an address are the
// ENFORCED parts. In New and the With* constructors no raw parameter string is
// appended to (or copied into) the address buffer: a part reaches the buffer
// through its PRECIS profile's Append or after it was re-assigned from
// normalizeDomainpart. A validation-only call (Profile.String with the result
// dropped) followed by append(data, resourcepart...) stores the nickname as
// typed: "Amélie" stays decomposed, the room answers for the composed
// form and muc's table, keyed by the address string, never finds the channel.
func c11NoRawPartAppended(c *cx, id string) {
	n := 0
	for _, name := range []string{"New", "JID.WithLocal", "JID.WithDomain", "JID.WithResource"} {
		f := c.fn(id, "jid", name)
		if f == nil {
			continue
		}
		g := f.Graph()
		rawParam := func(e ast.Expr, pt eng.Point) *types.Var {
			x := ast.Unparen(e)
			if cv, ok := x.(*ast.CallExpr); ok && len(cv.Args) == 1 {
				if tv, isConv := f.Info().Types[cv.Fun]; isConv && tv.IsType() {
					x = ast.Unparen(cv.Args[0])
				}
			}
			idn, ok := x.(*ast.Ident)
			if !ok {
				return nil
			}
			v, _ := f.Info().ObjectOf(idn).(*types.Var)
			if v == nil {
				return nil
			}
			if _, isParam := c11ParamIndex(f, v); !isParam {
				return nil
			}
			if bt, ok := v.Type().Underlying().(*types.Basic); !ok || bt.Kind() != types.String {
				return nil
			}
			for _, d := range g.ReachingDefs(v, pt) {
				if d.Kind != eng.DefParam {
					return nil // re-assigned (normalised) on some path: decided by C11.3
				}
			}
			return v
		}
		for _, cl := range f.AllCalls() {
			cid := f.CalleeID(cl)
			pt, ok := g.Where(cl)
			if !ok {
				continue
			}
			switch cid {
			case "builtin.append":
				for _, a := range cl.Args[1:] {
					if v := rawParam(a, pt); v != nil {
						n++
						c.r.Check(id, f, "append of parameter "+v.Name(), "K: no raw part is appended to the address buffer (parts enter it through their profile's Append or normalizeDomainpart)", cl.Pos(), false, "the part is stored as given, not in its enforced form: the address is not canonical")
					}
				}
			case "builtin.copy":
				if len(cl.Args) == 2 {
					if v := rawParam(cl.Args[1], pt); v != nil {
						n++
						c.r.Check(id, f, "copy of parameter "+v.Name(), "K: no raw part is copied into the address buffer", cl.Pos(), false, "the part is stored as given, not in its enforced form")
					}
				}
			}
		}
	}
	c.r.Note("%s: %d appends of raw parameters in the jid constructors (expected 0)", id, n)
}

// c11ChecksSeeTheEnforcedBuffer (C11.13): the length and emptiness checks
// (localChecks / resourceChecks) look at the buffer the PRECIS profile wrote
// into. Every variable that receives the buffer result of a
// precis.<profile>.Append call in New / WithLocal / WithResource is the
// variable a *Checks argument is sliced from (or is copied into that variable
// by a later assignment). A shadowing ":=" in the branch, or a second buffer,
// leaves the checks looking at the buffer from before the part was appended:
// over-long and unstorable parts are accepted.
func c11ChecksSeeTheEnforcedBuffer(c *cx, id string) {
	n := 0
	for _, name := range []string{"New", "JID.WithLocal", "JID.WithResource"} {
		f := c.fn(id, "jid", name)
		if f == nil {
			continue
		}
		rootVar := func(e ast.Expr) *types.Var {
			for {
				switch x := ast.Unparen(e).(type) {
				case *ast.SliceExpr:
					e = x.X
				case *ast.Ident:
					v, _ := f.Info().ObjectOf(x).(*types.Var)
					return v
				default:
					return nil
				}
			}
		}
		checked := map[*types.Var]bool{}
		for _, cl := range f.AllCalls() {
			cid := f.CalleeID(cl)
			if (strings.HasSuffix(cid, "jid.localChecks") || strings.HasSuffix(cid, "jid.resourceChecks")) && len(cl.Args) == 1 {
				if v := rootVar(cl.Args[0]); v != nil {
					checked[v] = true
				}
			}
		}
		// one step of flow: x = append(x, y...) / x = y makes y's content part of x
		flowsTo := map[*types.Var]map[*types.Var]bool{}
		var appends []*ast.AssignStmt
		f.WalkBody(func(nd ast.Node) bool {
			as, ok := nd.(*ast.AssignStmt)
			if !ok {
				return true
			}
			if len(as.Rhs) == 1 {
				if call, ok := ast.Unparen(as.Rhs[0]).(*ast.CallExpr); ok && strings.HasPrefix(f.CalleeID(call), "golang.org/x/text/secure/precis.") && strings.HasSuffix(f.CalleeID(call), ".Append") {
					appends = append(appends, as)
					return true
				}
			}
			for i, l := range as.Lhs {
				if i >= len(as.Rhs) {
					break
				}
				lv := rootVar(l)
				if lv == nil {
					continue
				}
				ast.Inspect(as.Rhs[i], func(x ast.Node) bool {
					if idn, ok := x.(*ast.Ident); ok {
						if rv, ok := f.Info().ObjectOf(idn).(*types.Var); ok && rv != lv {
							if flowsTo[rv] == nil {
								flowsTo[rv] = map[*types.Var]bool{}
							}
							flowsTo[rv][lv] = true
						}
					}
					return true
				})
			}
			return true
		})
		for _, as := range appends {
			n++
			v := rootVar(as.Lhs[0])
			ok := v != nil && checked[v]
			if v != nil && !ok {
				for t := range flowsTo[v] {
					if checked[t] {
						ok = true
					}
				}
			}
			why := "the enforced part lands in a variable no *Checks call looks at"
			if v != nil && as.Tok == token.DEFINE {
				why = "\":=\" declares a new " + v.Name() + " in this block; the checks slice the outer buffer, which does not contain the part"
			}
			c.r.Check(id, f, "buffer written by the PRECIS profile", "K: the *Checks calls slice the buffer the profile appended the part to", as.Pos(), ok, why)
		}
	}
	c.r.Floor(id, "PRECIS Append results in the jid constructors", n, 4)
}

// c11ElementIsCharData (C11.14): JID.MarshalXML writes the address as one
// CharData token, which the encoder escapes; the element decoder therefore
// parses the element's character data (entity references resolved), i.e. the
// field of its decode target tagged `xml:",chardata"` - not the inner XML
// (escaped text) and not an attribute.
func c11ElementIsCharData(c *cx, id string) {
	f := c.fn(id, "jid", "(*JID).UnmarshalXML")
	if f == nil {
		return
	}
	n := 0
	for _, cl := range f.Calls("jid.Parse") {
		n++
		tag, why := "", "the argument of Parse is not a field of the decode target"
		if sel, ok := ast.Unparen(cl.Args[0]).(*ast.SelectorExpr); ok {
			if st, ok := f.Info().TypeOf(sel.X).Underlying().(*types.Struct); ok {
				for i := 0; i < st.NumFields(); i++ {
					if st.Field(i).Name() == sel.Sel.Name {
						tag = reflect.StructTag(st.Tag(i)).Get("xml")
						why = "the parsed field is tagged xml:\"" + tag + "\""
					}
				}
			}
		}
		c.r.Check(id, f, "address parsed from the element's character data", "T: the encoder writes the address as CharData (escaped by the XML encoder); the decoder parses the field tagged `xml:\",chardata\"` (entity references resolved)", cl.Pos(), tag == ",chardata", why+": an address with & < > ' or \" does not survive the element round trip")
	}
	c.r.Floor(id, "Parse calls in JID.UnmarshalXML", n, 1)
	m := c.fn(id, "jid", "JID.MarshalXML")
	if m == nil {
		return
	}
	okm := false
	for _, cl := range m.Calls("encoding/xml.Encoder.EncodeToken") {
		if strings.HasPrefix(m.Norm(cl.Args[0], nil), "conv:encoding/xml.CharData(jid.JID.String[") {
			okm = true
		}
	}
	c.r.Check(id, m, "address written as character data", "T: MarshalXML writes xml.CharData(j.String()) between the start and end token", m.Pos(), okm, "no EncodeToken(xml.CharData(j.String()))")
}

// c11LengthLimitsOnCanonicalParts (C11.15): the 1023-byte limits are limits of
// the canonical parts (mapping may shorten a part: fullwidth letters,
// decomposed accents, ideographic full stops). The three length errors are
// produced only by the functions that are handed enforced bytes (localChecks,
// resourceChecks, normalizeDomainpart - C11.13 decides that what they are
// handed is the enforced buffer); a length test on a raw part, in
// splitString say, makes Parse refuse a string whose parts New accepts.
func c11LengthLimitsOnCanonicalParts(c *cx, id string) {
	allowed := map[string]map[string]bool{
		"errLongLocalpart":    {"jid.localChecks": true},
		"errLongResourcepart": {"jid.resourceChecks": true},
		"errInvalidDomainLen": {"jid.normalizeDomainpart": true},
	}
	n := 0
	for _, f := range c.allFns() {
		if !strings.HasPrefix(f.Short, "jid.") || f.Body == nil {
			continue
		}
		f.WalkBody(func(nd ast.Node) bool {
			idn, ok := nd.(*ast.Ident)
			if !ok {
				return true
			}
			al, isLen := allowed[idn.Name]
			if !isLen {
				return true
			}
			if v, isVar := f.Info().Uses[idn].(*types.Var); !isVar || v.Pkg() == nil || v.Parent() != v.Pkg().Scope() {
				return true
			}
			n++
			c.r.Check(id, f, "length error "+idn.Name, "C: a length error is reported only by the check of the canonical (enforced / mapped) part", idn.Pos(), al[f.Short], "the limit is applied in "+f.Short+", i.e. to bytes that are not the canonical part: an address whose raw spelling is longer than its canonical form is refused by one constructor and accepted by another")
			return true
		})
	}
	c.r.Floor(id, "uses of the length errors", n, 3)
	// the same for a limit under another name: a comparison of len(x) with a
	// constant of a kilobyte or more in package jid is one of the three checks
	okIn := map[string]bool{"jid.localChecks": true, "jid.resourceChecks": true, "jid.normalizeDomainpart": true}
	for _, f := range c.allFns() {
		if !strings.HasPrefix(f.Short, "jid.") || f.Body == nil {
			continue
		}
		f.WalkBody(func(nd ast.Node) bool {
			be, ok := nd.(*ast.BinaryExpr)
			if !ok {
				return true
			}
			switch be.Op {
			case token.LSS, token.GTR, token.LEQ, token.GEQ:
			default:
				return true
			}
			for _, pr := range [][2]ast.Expr{{be.X, be.Y}, {be.Y, be.X}} {
				cl, isCall := ast.Unparen(pr[0]).(*ast.CallExpr)
				if !isCall || f.CalleeID(cl) != "builtin.len" {
					continue
				}
				if k, isConst := f.ConstInt(pr[1]); isConst && k >= 1000 {
					c.r.Check(id, f, "length limit "+f.Norm(be, nil), "C: a length limit of a kilobyte or more is applied by the checks of the canonical parts only", be.Pos(), okIn[f.Short], "a limit on the length of "+types.ExprString(cl.Args[0])+" in "+f.Short+": raw spellings that are longer than their canonical form (or three maximal parts plus their separators) are refused although the address is valid")
				}
			}
			return true
		})
	}
}

// jidCore (dependency bundle): what the properties that only USE addresses
// (stanza conversion, routing, replies, headers, MUC occupants) rest on:
// String() partitions the buffer correctly, the XML codecs go through
// Parse/String without rewriting the text and without sharing buffers between
// decoded values, Equal compares bytes and both lengths, length limits apply
// to canonical parts.
func jidCore(c *cx, id string) {
	c11StringLengths(c, id)
	c11ElementIsCharData(c, id)
	c11LengthLimitsOnCanonicalParts(c, id)
	jidEqualRule(c, id)
	jidAppendsFresh(c, id)
	c11CodecsVerbatim(c, id)
	c11LocalLenIsEnforcedLen(c, id)
}

// c11CodecsVerbatim (C11.16): the XML codecs of JID hand the text they were
// given to Parse as it is (and write String() as it is): no string-rewriting
// call (trim, case folding, replace) in them. A resourcepart may end in a
// space; an attribute value trimmed before parsing is a different address.
func c11CodecsVerbatim(c *cx, id string) {
	n := 0
	for _, name := range []string{"(*JID).UnmarshalXMLAttr", "(*JID).UnmarshalXML", "JID.MarshalXMLAttr", "JID.MarshalXML"} {
		f := c.fn(id, "jid", name)
		if f == nil {
			continue
		}
		n++
		bad := ""
		for _, cl := range f.AllCalls() {
			if cid := f.CalleeID(cl); lossyFuncs[cid] {
				bad = "calls " + cid + " at " + c.p.Pos(cl.Pos())
			}
		}
		c.r.Check(id, f, "address text not rewritten by the codec", "E-taint: the XML codecs of JID pass the text to Parse / from String unchanged", f.Pos(), bad == "", bad+": an address with leading or trailing white space (valid in a resourcepart) decodes to a different address")
	}
	c.r.Floor(id, "XML codecs of JID", n, 4)
}

// c11SplitString (C11.5 / C13.33): RFC 7622 section 3.2: the resourcepart is
// split off at the first '/' before the first '@' is looked for, and the '@'
// is searched only in what remains (an '@' in a resourcepart is not a
// separator). Every address attribute of a stanza goes through this function.
func c11SplitString(c *cx, id string) {
	sp := c.fn(id, "jid", "splitString")
	if sp != nil {
		g := sp.Graph()
		var slash, at *ast.CallExpr
		for _, callee := range []string{"strings.Index", "strings.IndexByte", "strings.IndexRune"} {
			for _, cl := range sp.Calls(callee) {
				sep, _ := sp.ConstStr(cl.Args[1])
				if v, ok := sp.ConstInt(cl.Args[1]); ok && sep == "" {
					sep = string(rune(v))
				}
				if sep == "/" {
					slash = cl
				} else if sep == "@" {
					at = cl
				}
			}
		}
		if slash == nil || at == nil {
			c.r.Check(id, sp, "separators", "Index of \"/\" and of \"@\"", sp.Pos(), false, "calls not found")
		} else {
			ap, _ := g.Where(at)
			isSlash := func(q eng.Point, n ast.Node) bool { return containsNode(n, slash) }
			c.r.Check(id, sp, "'/' before '@'", "O: the resourcepart is split off at the first '/' before the first '@' is looked for", at.Pos(), g.MustPassBefore(g.Entry(), ap, isSlash, nil), "'@' searched before '/'")
			// on the found edge the string is truncated before '@' is searched
			slp, _ := g.Where(slash)
			sn := sp.Norm(slash, &slp)
			for _, ce := range g.EdgesMatching("!eq(" + sn + ",-1)") {
				trunc := func(q eng.Point, n ast.Node) bool {
					as, ok := n.(*ast.AssignStmt)
					if !ok || len(as.Lhs) != 1 {
						return false
					}
					v := rootLocal(sp, as.Lhs[0])
					sl, isSl := ast.Unparen(as.Rhs[0]).(*ast.SliceExpr)
					return v != nil && v == sp.Sig().Params().At(0) && isSl && sl.Low == nil && sl.High != nil
				}
				c.r.Check(id, sp, "truncation before '@'", "O: when a '/' exists the '@' is searched only in the part before it", at.Pos(), g.MustPassBefore(g.EdgeTarget(ce.E), ap, trunc, nil), "'@' searched in the untruncated string")
			}
			// the '@' search looks at the (possibly truncated) input parameter
			c.r.Check(id, sp, "'@' searched in the input", "P", at.Pos(), rootLocal(sp, at.Args[0]) == sp.Sig().Params().At(0), "")
		}
		c09IndexID(c, id, sp, "jid.Parse")
	}

}

// c11ChecksCoverThePart (C11.18): the length and forbidden-character checks
// of a constructor look at exactly the part the returned JID will report: the
// slice handed to localChecks is data[:L] and the one handed to
// resourceChecks is data[L+D:], where L and D are what the constructor stores
// as locallen and domainlen (its JID literal, its stores into the two fields,
// or the receiver's own values). A bound computed from something else - the
// raw length before case mapping, the length of a buffer that was reassigned
// two lines earlier - checks an empty or shifted window: over-long or
// forbidden parts are accepted and Parse(j.String()) fails.
func c11ChecksCoverThePart(c *cx, id string) {
	n := 0
	for _, name := range []string{"New", "JID.WithLocal", "JID.WithResource"} {
		f := c.fn(id, "jid", name)
		if f == nil {
			continue
		}
		L, D := "+recv.locallen", "+recv.domainlen"
		for _, lit := range f.WalkLits("jid.JID") {
			if v := structLitField(lit, "locallen"); v != nil {
				L = affine(f, v)
			}
			if v := structLitField(lit, "domainlen"); v != nil {
				D = affine(f, v)
			}
		}
		for _, w := range f.FieldWrites("jid.JID.locallen") {
			if w.RHS != nil {
				L = affine(f, w.RHS)
			}
		}
		for _, w := range f.FieldWrites("jid.JID.domainlen") {
			if w.RHS != nil {
				D = affine(f, w.RHS)
			}
		}
		sum := func(a, b string) string {
			var t []string
			for _, x := range strings.Split(a+b, "+") {
				if x != "" {
					t = append(t, "+"+x)
				}
			}
			sort.Strings(t)
			return strings.Join(t, "")
		}
		for _, cl := range f.AllCalls() {
			cid := f.CalleeID(cl)
			isLocal, isRes := strings.HasSuffix(cid, "jid.localChecks"), strings.HasSuffix(cid, "jid.resourceChecks")
			if (!isLocal && !isRes) || len(cl.Args) != 1 {
				continue
			}
			n++
			sl, ok := ast.Unparen(cl.Args[0]).(*ast.SliceExpr)
			if !ok {
				c.r.Check(id, f, "window of "+cid, "the argument is a slice of the buffer", cl.Pos(), false, "argument is "+f.Norm(cl.Args[0], nil))
				continue
			}
			if isLocal {
				got := affine(f, sl.High)
				c.r.Check(id, f, "window of localChecks", "E-aff: localChecks sees data[:L], L being what is stored as locallen ("+L+")", cl.Pos(), sl.Low == nil && got == L, "window is ["+affine(f, sl.Low)+":"+got+"]")
			} else {
				got := affine(f, sl.Low)
				c.r.Check(id, f, "window of resourceChecks", "E-aff: resourceChecks sees data[L+D:], L and D being what is stored as locallen and domainlen ("+sum(L, D)+")", cl.Pos(), sl.High == nil && got == sum(L, D), "window is ["+got+":"+affine(f, sl.High)+"]")
			}
		}
	}
	c.r.Floor(id, "windows of the part checks", n, 4)
}

// c11IPLiteralsVerbatim (C11.19): a domainpart that is an IP literal is
// accepted as it is written: the two short-circuit returns of
// normalizeDomainpart hand back the parameter itself, the bracketed form only
// for an address that is not an IPv4 one (To4() == nil), the bare form only
// for one that is (To4() != nil). Rewriting the literal ("canonical text
// form") or widening the guard turns [::ffff:192.0.2.1] into [192.0.2.1],
// which the same function refuses: the result does not parse again.
func c11IPLiteralsVerbatim(c *cx, id string) {
	f := c.fn(id, "jid", "normalizeDomainpart")
	if f == nil {
		return
	}
	g := f.Graph()
	n := 0
	for _, rs := range g.Returns {
		if len(rs.Results) != 2 || g.RetKindOf(rs) == eng.RetError {
			continue
		}
		pt, _ := g.Where(rs)
		facts := g.FactsAt(pt)
		ip := false
		for _, a := range facts {
			if strings.HasPrefix(a, "!eq(net.ParseIP(") {
				ip = true // the parse succeeded on every path to this return
			}
		}
		if !ip {
			continue
		}
		n++
		v := f.Norm(rs.Results[0], &pt)
		c.r.Check(id, f, "IP literal returned", "P: an IP literal is returned as it was given", rs.Pos(), v == "p0" || strings.HasPrefix(v, "local:p0<"), "returns "+v)
		c.domAny(id, f, rs, "IP literal accepted [address family]", []string{"eq(net.IP.To4[net.ParseIP(*[1:*])](),nil)", "!eq(net.IP.To4[net.ParseIP(local:p0<string>)](),nil)", "!eq(net.IP.To4[net.ParseIP(p0)](),nil)"})
	}
	c.r.Floor(id, "IP literal short circuits in normalizeDomainpart", n, 2)
}

// c11EncodersEmitString (C11.7 / C13.35): the XML encoders of a JID emit
// String() itself, whatever the shape of the address (a "no localpart" fast
// path that emits the raw data drops the separator of a domain/resource
// address: the to / from / by attributes of a stanza no longer round-trip).
func c11EncodersEmitString(c *cx, id string) {
	for _, name := range []string{"JID.MarshalXML", "JID.MarshalXMLAttr"} {
		f := c.fn(id, "jid", name)
		if f != nil {
			c.r.Check(id, f, "encodes String()", "P: XML encoding emits String()", f.Pos(), len(f.Calls("jid.JID.String")) == 1, "no call of String")
			// ... and emits it as it is: the encoder escapes attribute values and
			// character data itself, an escaped or otherwise rewritten copy does
			// not come back as the same address
			g := f.Graph()
			nv := 0
			for _, cl := range f.WalkLits("encoding/xml.Attr") {
				v := structLitField(cl, "Value")
				if v == nil {
					continue
				}
				nv++
				pt, _ := g.Where(cl)
				c.r.Check(id, f, "attribute value emitted", "P: the attribute value is String() itself", cl.Pos(), f.Norm(v, &pt) == "jid.JID.String[recv]()", "value is "+f.Norm(v, &pt))
			}
			f.WalkBody(func(nd ast.Node) bool {
				cl, ok := nd.(*ast.CallExpr)
				if !ok || len(cl.Args) != 1 {
					return true
				}
				if tv, ok := f.Info().Types[cl.Fun]; ok && tv.IsType() && eng.TypeStr(tv.Type) == "encoding/xml.CharData" {
					nv++
					pt, _ := g.Where(cl)
					c.r.Check(id, f, "character data emitted", "P: the character data is String() itself", cl.Pos(), f.Norm(cl.Args[0], &pt) == "jid.JID.String[recv]()", "text is "+f.Norm(cl.Args[0], &pt))
				}
				return true
			})
			c.r.Floor(id, "emitted values in "+name, nv, 1)
		}
	}
}
