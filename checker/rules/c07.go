package rules

import (
	"go/ast"
	"go/token"
	"go/types"
	"strings"

	"verif/checker/eng"
)

func init() {
	Registry["C07"] = Rule{
		Meta: eng.Meta{
			Explanation: "Structural necessary conditions of 'every incoming get/set IQ is answered exactly once; replies are never answered', decided on every path: the session's default service-unavailable reply in handleInputStream is dominated by (is an IQ) and (type get or set) and (no reply detected) and by the nil-error edge of the handler call, is the function's only write besides Flush, and carries the request's id, type error and the parsed 'from' of the request as 'to' (C07.1); the reply detector responseChecker.EncodeToken sets wroteResp only under all five conjuncts (top level, IQ name, same id, type neither get nor set), counts depth symmetrically, forwards every token, and Encode/EncodeElement route through it (C07.2); the handler is handed the detector, not the raw writer (C07.3); the multiplexer's fallback answers only get/set, swaps the addresses and is returned only when no handler matched (C07.4).",
			NotDecided:  "what user handlers write beyond what the detector keys on; that the detector's id/type extraction (getIDTyp, local-name match only) agrees with XML attribute namespaces (documented behaviour).",
			Trusted:     trustedCommon,
		},
		Run: runC07,
	}
}

func runC07(p *eng.Prog, r *eng.Report, tier string) {
	c := &cx{p, r, tier}
	importRules(c, "C06", []string{"C06.6"}, "C07.26")
	r19ExpiredDeadlineClearedByItsSetter(c, "C07.27")
	r18RoutersOnlyForStanzas(c, "C07.25")
	r18EncoderNamespaceIsTheOutputs(c, "C07.24")
	c.r.Floor("C07.23", "error edges of stanza parses in the multiplexer", r17FailedParseResultUnused(c, "C07.23"), 1)
	// C07.19 (= C09.17 / C10.10): no cycle in the lock-order graph: a deadlock between a
	// writer and Close, or between the serve loop and a requester, ends every guarantee of this property
	lockOrder(c, "C07.19")
	c07HandlerEOFIsAFailure(c, "C07.21")
	c07IDsComparedAsWritten(c, "C07.22")
	// C07.20 (= C05.2 / C10.6): the writer the automatic reply goes through releases the output lock exactly
	// once, on Close; nothing else sets its "released" marker (a latched write error would leak the lock and
	// the next unanswered request would never get its reply)
	lockPairing(c, "C07.20", []string{"xmpp.Session.out", "xmpp.Session.in"}, map[string]bool{"xmpp.(*Session).TokenWriter": true, "xmpp.(*Session).TokenReader": true})
	closerTypestate(c, "C07.20")
	// (no instance on today's tree: the routers end the stream on a malformed IQ; kept alive by the stored variant C07-r14-2)
	c.r.Note("C07.18: %d answers written by multiplexer functions", c07RoutersAnswerRequestsOnly(c, "C07.18"))
	c07Default(c)
	c07Detector(c)
	c07Fallback(c)
	c07ServeEOF(c)
	// a response whose rest is not read is parsed as top-level stanzas, which get replies
	handoffDrained(c, "C07.7")
	attrGetNotUsed(c, "C07.12")
	serveCtxRootedInBackground(c, "C07.15")
	depthCountersDoNotWrap(c, "C07.16")
	// C07.17 a handler that could read past its element swallows the next
	// request, which then goes unanswered (= C08.2)
	c08ReaderAs(c, "C07.17")
	jidCore(c, "C07.14")
	// the multiplexer's fallback answers with the id and type that stanza.NewIQ
	// read: the request's own attributes (C14.6)
	c14OwnAttrs(c, "C07.13")
}

func c07Default(c *cx) {
	id := "C07.1"
	f := c.fn(id, "", "handleInputStream")
	if f == nil {
		return
	}
	g := f.Graph()
	hcalls := f.Calls("xmpp.Handler.HandleXMPP")
	hc, ok := one(c, id, f, "call of Handler.HandleXMPP", hcalls)
	if !ok {
		return
	}
	hpt, _ := g.Where(hc)
	hn := f.Norm(hc, &hpt)
	// C07.3 the handler gets the detector
	okArg := len(hc.Args) == 2 && eng.TypeStr(f.Info().TypeOf(hc.Args[0])) == "*xmpp.responseChecker"
	c.r.Check("C07.3", f, "handler encoder argument", "P: the handler is handed the reply detector (not the raw writer)", hc.Pos(), okArg, "first argument has type "+eng.TypeStr(f.Info().TypeOf(hc.Args[0])))
	// the detector literal wraps the deferred writer and carries the request id
	f.WalkBody(func(n ast.Node) bool {
		cl, ok := n.(*ast.CompositeLit)
		if !ok || eng.TypeStr(f.Info().TypeOf(cl)) != "xmpp.responseChecker" {
			return true
		}
		pt, _ := g.Where(cl)
		idv := structLitField(cl, "id")
		tw := structLitField(cl, "TokenWriter")
		okid := idv != nil && eng.Glob("xmpp.getIDTyp(*.Attr)#2", f.Norm(idv, &pt))
		okw := tw != nil && strings.Contains(eng.TypeStr(f.Info().TypeOf(tw)), "deferWriter")
		c.r.Check("C07.3", f, "responseChecker literal", "K: the detector is keyed by the request's id and wraps the session writer", cl.Pos(), okid && okw, "id or TokenWriter field not as expected")
		return true
	})
	// C07.6 a request is never taken for the answer to one of ours: the
	// pending-request table is consulted only for result/error stanzas
	nl := 0
	for _, u := range fieldUsesIn(f, "xmpp.Session.sentStanzas") {
		nl++
		c.domAny("C07.6", f, u, "pending-request lookup only for replies", []string{
			`or(eq(xmpp.getIDTyp(*.Attr)#3,"error") | eq(xmpp.getIDTyp(*.Attr)#3,"result"))`,
			`eq(xmpp.getIDTyp(*.Attr)#3,"result")`, `eq(xmpp.getIDTyp(*.Attr)#3,"error")`})
	}
	c.r.Floor("C07.6", "lookups of the pending-request table in handleInputStream", nl, 1)
	// writes of the function through the deferred writer
	var copies []*ast.CallExpr
	for _, cl := range f.Calls("mellium.im/xmlstream.Copy") {
		if len(cl.Args) == 2 && strings.Contains(eng.TypeStr(f.Info().TypeOf(cl.Args[0])), "deferWriter") {
			copies = append(copies, cl)
		}
	}
	for _, cl := range f.AllCalls() {
		// any other method writing on w: EncodeToken
		if sel, ok := ast.Unparen(cl.Fun).(*ast.SelectorExpr); ok && sel.Sel.Name == "EncodeToken" {
			if strings.Contains(eng.TypeStr(f.Info().TypeOf(sel.X)), "deferWriter") {
				c.r.Check(id, f, "extra write to the session writer", "the default reply is the only element handleInputStream writes", cl.Pos(), false, "EncodeToken on the session writer")
			}
		}
	}
	cp, ok := one(c, id, f, "default reply (Copy to the session writer)", copies)
	if !ok {
		return
	}
	c.dom(id, f, cp, "default reply", []string{
		"xmpp.isIQ(*.Name)",
		"or(eq(xmpp.getIDTyp(*.Attr)#3,\"get\") | eq(xmpp.getIDTyp(*.Attr)#3,\"set\"))",
		"!local:*<*xmpp.responseChecker>.wroteResp",
		"eq(" + hn + ",nil)",
	})
	// ... and by nothing else: "for any from / to" - the reply does not depend on
	// whom the request was addressed to, nor on anything but the four facts
	// (plus the outcome of parsing the sender's address, which decides only
	// the reply's addressee, and the licences of the paths that lead here)
	c.onlyFacts(id, f, cp, "default reply for every unanswered request", []string{
		"xmpp.isIQ(*.Name)",
		"or(eq(xmpp.getIDTyp(*.Attr)#3,\"get\") | eq(xmpp.getIDTyp(*.Attr)#3,\"set\"))",
		"!local:*<*xmpp.responseChecker>.wroteResp",
		"eq(" + hn + ",nil)",
		"eq(*TokenReader.Token[*]()#1,nil)",
		"istype(*TokenReader.Token[*]()#0;encoding/xml.StartElement)",
	})
	// the converse: once an unanswered get/set IQ is established, every way
	// out that is not an error return writes the reply (a path that gives up
	// on the addressee and carries on leaves the request unanswered)
	for _, ce := range g.EdgesMatching("!local:*<*xmpp.responseChecker>.wroteResp") {
		isIQEdge := false
		for _, a := range ce.Atoms {
			if eng.Glob("xmpp.isIQ(*.Name)", a.S) {
				isIQEdge = true
			}
		}
		if !isIQEdge {
			continue
		}
		from := g.EdgeTarget(ce.E)
		isReply := func(q eng.Point, nd ast.Node) bool { return containsNode(nd, cp) }
		bad := ""
		for _, rs := range returnsFrom(f, from, nil) {
			if g.RetKindOf(rs) == eng.RetError {
				continue
			}
			rp, _ := g.Where(rs)
			if g.Reachable(from, rp, nil, isReply) {
				bad = "return at " + c.p.Pos(rs.Pos()) + " is reachable from the unanswered-request edge without the default reply and is not an error return"
			}
		}
		c.r.Check(id, f, "unanswered get/set always answered or the stream fails", "S: from the edge that establishes an unanswered get/set IQ every non-error exit passes the default reply", edgePos(g, f, ce.E.B), bad == "", bad)
	}
	// what counts as an IQ: the element name iq in one of the two stanza namespaces
	// (E-fin decision tables)
	for _, t := range []struct {
		name  string
		empty bool
	}{{"isIQ", false}, {"isIQEmptySpace", true}} {
		if tf := c.fn(id, "", t.name); tf != nil {
			empty := t.empty
			predTable(c, id, tf, "name table", map[string][]string{
				"p0.Local": {"iq", "message", "presence", "", "other"},
				"p0.Space": {"", "jabber:client", "jabber:server", "other:ns"},
			}, func(e predCase) bool {
				return e["p0.Local"] == "iq" && (e["p0.Space"] == "jabber:client" || e["p0.Space"] == "jabber:server" || (empty && e["p0.Space"] == ""))
			}, t.name+" is exactly the element name iq in the stanza namespaces (other elements never trigger the automatic reply)")
		}
	}
	// literal of the reply
	var iq *ast.CompositeLit
	var se *ast.CompositeLit
	ast.Inspect(cp.Args[1], func(n ast.Node) bool {
		if cl, ok := n.(*ast.CompositeLit); ok {
			switch eng.TypeStr(f.Info().TypeOf(cl)) {
			case "stanza.IQ":
				iq = cl
			case "stanza.Error":
				se = cl
			}
		}
		return true
	})
	cpt, _ := g.Where(cp)
	why0 := "literal not found"
	if iq == nil {
		// the reply may be built in a local first: reply := stanza.IQ{...}; reply.Wrap(...)
		ast.Inspect(cp.Args[1], func(n ast.Node) bool {
			call, ok := n.(*ast.CallExpr)
			if !ok || !strings.HasSuffix(f.CalleeID(call), "stanza.IQ.Wrap") {
				return true
			}
			sel, _ := ast.Unparen(call.Fun).(*ast.SelectorExpr)
			if sel == nil {
				return true
			}
			if idn, ok := ast.Unparen(sel.X).(*ast.Ident); ok {
				if v, ok := f.Info().ObjectOf(idn).(*types.Var); ok {
					if d := g.UniqueDef(v, cpt); d != nil && d.RHS != nil {
						if cl, ok := ast.Unparen(d.RHS).(*ast.CompositeLit); ok && eng.TypeStr(f.Info().TypeOf(cl)) == "stanza.IQ" {
							iq = cl
							return false
						}
					}
					why0 = "the reply is built in " + f.Norm(sel.X, &cpt) + ", which is not a stanza.IQ literal of this call: storage that persists between elements keeps the addressee of an earlier request"
				}
			} else {
				why0 = "the reply is built in " + f.Norm(sel.X, &cpt) + ", which is not a stanza.IQ literal of this call: storage that persists between elements keeps the addressee of an earlier request"
			}
			return true
		})
	}
	if iq == nil || se == nil {
		c.r.Check(id, f, "default reply literal", "E-alias: the reply is a stanza.IQ literal built for this element, wrapped around a stanza.Error literal", cp.Pos(), false, why0)
		return
	}
	fld := func(cl *ast.CompositeLit, name string) string {
		if v := structLitField(cl, name); v != nil {
			return f.Norm(v, &cpt)
		}
		return ""
	}
	c.r.Check(id, f, "default reply id", "K: the reply carries the request's id", iq.Pos(), eng.Glob("xmpp.getIDTyp(*.Attr)#2", fld(iq, "ID")), "ID is "+fld(iq, "ID"))
	c.r.Check(id, f, "default reply type", "K: the reply has type error", iq.Pos(), fld(iq, "Type") == "stanza.ErrorIQ", "Type is "+fld(iq, "Type"))
	c.r.Check(id, f, "default reply condition", "K: cancel / service-unavailable", se.Pos(), fld(se, "Type") == "stanza.Cancel" && fld(se, "Condition") == "stanza.ServiceUnavailable", "error is "+fld(se, "Type")+"/"+fld(se, "Condition"))
	// To: parsed from the request's from attribute
	tov := rootLocal(f, structLitField(iq, "To"))
	okTo := tov != nil
	why := "To is not a local"
	if okTo {
		for _, d := range g.ReachingDefs(tov, cpt) {
			switch d.Kind {
			case eng.DefZero:
			case eng.DefTuple:
				src := f.Norm(d.RHS, &d.At)
				if !eng.Glob("jid.Parse(internal/attr.Own(*.Attr,\"from\")#1)", src) || d.Index != 0 {
					okTo, why = false, "To is defined by "+src+" (want jid.Parse of the element's own, unqualified from attribute: internal/attr.Get matches x:from of a foreign namespace as well)"
				}
			default:
				okTo, why = false, "To is defined by "+c.p.NodeStr(d.Node)
			}
		}
	}
	c.r.Check(id, f, "default reply addressee", "P: the reply is addressed to the parsed 'from' of the request (absent when the request named none)", iq.Pos(), okTo, why)
	// when a from is present, the parse happens on every path to the reply
	// the sender is read before the handler is handed &start (a handler may
	// rewrite the start element, e.g. to forward it)
	nFrom := 0
	for _, cl := range f.Calls("internal/attr.Own") {
		if len(cl.Args) != 2 {
			continue
		}
		if s, ok := f.ConstStr(cl.Args[1]); !ok || s != "from" {
			continue
		}
		nFrom++
		fpt, _ := g.Where(cl)
		c.r.Check(id, f, "sender read before the handler runs", "O: the from attribute used for the default reply is read on every path before Handler.HandleXMPP gets the start element, and never after it", cl.Pos(), g.MustPassBefore(g.Entry(), hpt, func(q eng.Point, nd ast.Node) bool { return containsNode(nd, cl) }, nil) && !g.Reachable(g.After(hpt), fpt, nil, nil), "the sender is (also) read after the handler had access to the start element")
	}
	c.r.Floor(id, "reads of the request's sender", nFrom, 1)
	// more generally: nothing about the request is read from the start element
	// once the handler has been handed a pointer to it (a forwarding handler
	// rewrites the name or the attributes in place): every decision after the
	// handler uses values captured before the call
	if len(hc.Args) == 2 {
		if u, ok := ast.Unparen(hc.Args[1]).(*ast.UnaryExpr); ok && u.Op == token.AND {
			if sid, ok := ast.Unparen(u.X).(*ast.Ident); ok {
				sv := f.Info().ObjectOf(sid)
				var late ast.Node
				f.WalkBody(func(x ast.Node) bool {
					idn, ok := x.(*ast.Ident)
					if !ok || late != nil || f.Info().Uses[idn] != sv || idn == sid {
						return true
					}
					up, oku := g.Where(idn)
					if oku && g.Reachable(g.After(hpt), up, nil, nil) {
						late = idn
					}
					return true
				})
				why := ""
				if late != nil {
					why = "the start element is read at " + c.p.Pos(late.Pos()) + ", after the handler could have rewritten it"
				}
				c.r.Check(id, f, "request start element not read after the handler ran", "O: no use of the start element handed to the handler is reachable after the handler call", hc.Pos(), late == nil, why)
			}
		}
	}
	ownAttrLookups(c, id, func(x *eng.Fn) bool { return x == f })
	idTypFromOwnAttributes(c, "C07.8")
	fromBlankedOnlyForOwnBare(c, "C07.9")
	attrCopyLoopsComplete(c, "C07.10")
	c07DetectorCountsAcceptedTokens(c, "C07.11")
	for _, ce := range g.EdgesMatching("!eq(internal/attr.Own(*.Attr,\"from\")#1,\"\")") {
		from := g.EdgeTarget(ce.E)
		isParse := func(q eng.Point, nd ast.Node) bool { return f.ContainsCall(nd, "jid.Parse") != nil }
		c.r.Check(id, f, "from parsed before the reply", "O: a non-empty from is parsed (and stored as To) before the reply is written", cp.Pos(), g.MustPassBefore(from, cpt, isParse, nil), "reply reachable with a non-empty from that was not parsed")
	}
	// C07.5: no reply after a handler error
	for _, ce := range g.EdgesMatching("!eq(" + hn + ",nil)") {
		bad := ""
		for _, nd := range g.ReachableNodes(g.EdgeTarget(ce.E), nil) {
			if containsNode(nd, cp) {
				bad = "the handler-error edge reaches the default reply"
			}
			if rs, ok := nd.(*ast.ReturnStmt); ok && g.RetKindOf(rs) != eng.RetError {
				bad = "the handler-error edge reaches a non-error return"
			}
		}
		c.r.Check("C07.5", f, "handler error edge", "O: a handler error ends the stream with an error and no automatic reply", hc.Pos(), bad == "", bad)
		// io.EOF is how the END OF THE INPUT STREAM is reported to Serve (which
		// then returns nil): a handler's io.EOF must not be handed up as it is
		c.r.Check("C07.5", f, "handler io.EOF is not taken for the end of the stream", "K: on the handler-error edge an io.EOF is tested for (and replaced) before the error is returned", hc.Pos(), len(g.EdgesMatching("eq("+hn+",var:io.EOF)")) > 0, "a handler that returns io.EOF (e.g. the mux for an empty get/set IQ) makes Serve return nil without a reply or a stream error")
	}
	// the reply is flushed on the success path
	n := 0
	for _, rs := range g.Returns {
		pt, _ := g.Where(rs)
		if !g.Reachable(g.After(cpt), pt, nil, nil) || g.RetKindOf(rs) == eng.RetError {
			continue
		}
		n++
		isFlush := func(q eng.Point, nd ast.Node) bool { return f.ContainsCall(nd, "xmpp.deferWriter.Flush") != nil }
		c.r.Check(id, f, "flush after the default reply", "S: the reply is flushed before handleInputStream returns successfully", rs.Pos(), g.MustPassBefore(g.After(cpt), pt, isFlush, nil), "success return without Flush")
	}
	c.r.Floor(id, "returns after the default reply", n, 1)
}

func c07Detector(c *cx) {
	id := "C07.2"
	f := c.fn(id, "", "(*responseChecker).EncodeToken")
	if f == nil {
		return
	}
	g := f.Graph()
	n := 0
	for _, w := range f.FieldWrites("xmpp.responseChecker.wroteResp") {
		n++
		okTrue := false
		if cv := f.ConstVal(w.RHS); cv != nil && cv.ExactString() == "true" {
			okTrue = true
		}
		c.r.Check(id, f, "wroteResp value", "wroteResp is only ever set to true", w.Stmt.Pos(), okTrue, "assigned "+c.p.NodeStr(w.Stmt))
		c.dom(id, f, w.Stmt, "wroteResp = true", []string{
			"lt(recv.level,1)",
			"xmpp.isIQEmptySpace(*.Name)",
			"eq(recv.id,xmpp.getIDTyp(*.Attr)#2)",
			"istype(*;encoding/xml.StartElement)",
		})
		// "a non-reply type does not count as the reply": the element counts
		// only if its type IS result or error (not merely "not get/set": an iq
		// without a type, or with a made-up one, is not a reply)
		c.dom(id, f, w.Stmt, "wroteResp = true [reply type]", []string{
			"or(eq(xmpp.getIDTyp(*.Attr)#3,\"error\") | eq(xmpp.getIDTyp(*.Attr)#3,\"result\"))"})
		// ... and under nothing else: the handler's result/error IQ with the
		// request's id IS the reply, whatever its addressee looks like (a reply
		// addressed to the normalised form of the sender, or carrying any other
		// attribute, must not be followed by a second, automatic reply)
		c.onlyFacts(id, f, w.Stmt, "wroteResp = true [exact]", []string{
			"lt(recv.level,1)",
			"xmpp.isIQEmptySpace(*.Name)",
			"eq(recv.id,xmpp.getIDTyp(*.Attr)#2)",
			"eq(xmpp.getIDTyp(*.Attr)#2,recv.id)",
			"istype(*;encoding/xml.StartElement)",
			"or(eq(xmpp.getIDTyp(*.Attr)#3,\"error\") | eq(xmpp.getIDTyp(*.Attr)#3,\"result\"))",
			"eq(mellium.im/xmlstream.TokenWriter.EncodeToken[recv.TokenWriter](p0),nil)",
			"eq(*.EncodeToken[*](p0),nil)",
		})
	}
	// id and type are read from the stanza's own (unqualified) attributes
	if gi := c.fn(id, "", "getIDTyp"); gi != nil {
		na := 0
		for _, w := range gi.Writes() {
			if w.RHS == nil || !strings.HasSuffix(gi.Norm(w.RHS, nil), ".Value") {
				continue
			}
			na++
			c.domAny(id, gi, w.Stmt, "attribute value taken [unqualified attribute]", []string{"eq(rangeval(p0).Name.Space,\"\")"})
		}
		c.r.Floor(id, "attribute reads of getIDTyp", na, 2)
	}
	c.r.Floor(id, "wroteResp = true", n, 1)
	// who else writes wroteResp
	for _, fn := range c.allFns() {
		if fn == f {
			continue
		}
		for _, w := range fn.FieldWrites("xmpp.responseChecker.wroteResp") {
			c.r.Check(id, fn, "write to wroteResp", "W: only the detector sets wroteResp", w.Stmt.Pos(), false, "written in "+fn.Short)
		}
	}
	inc, dec := 0, 0
	for _, w := range f.FieldWrites("xmpp.responseChecker.level") {
		switch w.Tok.String() {
		case "++":
			inc++
			c.dom(id, f, w.Stmt, "level++", []string{"istype(*;encoding/xml.StartElement)"})
			c.onlyFacts(id, f, w.Stmt, "level++", []string{"istype(*;encoding/xml.StartElement)", "eq(mellium.im/xmlstream.TokenWriter.EncodeToken[recv.TokenWriter](p0),nil)"})
		case "--":
			dec++
			c.dom(id, f, w.Stmt, "level--", []string{"istype(*;encoding/xml.EndElement)"})
			c.onlyFacts(id, f, w.Stmt, "level--", []string{"istype(*;encoding/xml.EndElement)", "eq(mellium.im/xmlstream.TokenWriter.EncodeToken[recv.TokenWriter](p0),nil)"})
		default:
			c.r.Check(id, f, "write to level", "level only changes by ++/--", w.Stmt.Pos(), false, "")
		}
	}
	c.r.Check(id, f, "level bookkeeping", "one level++ in the start arm, one level-- in the end arm", f.Pos(), inc == 1 && dec == 1, "found "+itoa(inc)+"/"+itoa(dec))
	// the level test happens before the increment
	for _, w := range f.FieldWrites("xmpp.responseChecker.level") {
		if w.Tok.String() != "++" {
			continue
		}
		wp, _ := g.Where(w.Stmt)
		for _, x := range f.FieldWrites("xmpp.responseChecker.wroteResp") {
			xp, _ := g.Where(x.Stmt)
			c.r.Check(id, f, "level tested before it is incremented", "O: the top-level test uses the depth before this start element", x.Stmt.Pos(), !g.Reachable(g.After(wp), xp, nil, nil), "level++ can precede the detection")
		}
	}
	// every path hands the unchanged token to the wrapped writer exactly as it
	// came, and the writer's verdict is what EncodeToken returns: either the
	// return is the forwarding call itself, or the call precedes the return on
	// every path and the return yields its error (failure edge) or nil (success
	// edge)
	isFwd := func(q eng.Point, nd ast.Node) bool {
		found := false
		ast.Inspect(nd, func(x ast.Node) bool {
			if cl, ok := x.(*ast.CallExpr); ok && f.Norm(cl, nil) == "mellium.im/xmlstream.TokenWriter.EncodeToken[recv.TokenWriter](p0)" {
				found = true
			}
			return !found
		})
		return found
	}
	fwdN := "mellium.im/xmlstream.TokenWriter.EncodeToken[recv.TokenWriter](p0)"
	for _, rs := range g.Returns {
		pt, _ := g.Where(rs)
		okf := len(rs.Results) == 1 && f.Norm(rs.Results[0], nil) == fwdN
		if !okf && len(rs.Results) == 1 && g.MustPassBefore(g.Entry(), pt, isFwd, nil) {
			res := f.Norm(rs.Results[0], &pt)
			if res == fwdN {
				okf = true // the writer's error, through a local
			}
			if res == "nil" {
				okf, _ = g.Dominated(pt, "eq("+fwdN+",nil)")
			}
		}
		c.r.Check(id, f, "token forwarded", "every path forwards the unchanged token to the wrapped writer and returns the writer's verdict", rs.Pos(), okf, "returns "+c.p.NodeStr(rs))
	}
	c.onlyFactsReturnsAllow(id, f, []string{"eq(" + fwdN + ",nil)", "!eq(" + fwdN + ",nil)"})
	// Encode / EncodeElement route through the detector
	for _, k := range []struct{ fn, callee string }{
		{"(*responseChecker).Encode", "internal/marshal.EncodeXML"},
		{"(*responseChecker).EncodeElement", "internal/marshal.EncodeXMLElement"},
	} {
		ef := c.fn(id, "", k.fn)
		if ef == nil {
			continue
		}
		cls := ef.Calls(k.callee)
		okr := len(cls) == 1 && len(cls[0].Args) >= 2 && ef.Norm(cls[0].Args[0], nil) == "recv"
		c.r.Check(id, ef, "routes through the detector", "P: "+k.fn+" marshals onto the detector itself (so its tokens are inspected)", ef.Pos(), okr, "does not pass the receiver as writer to "+k.callee)
	}
}

// onlyFactsReturns: every return of f is unconditional (dominated by no fact).
func (c *cx) onlyFactsReturns(id string, f *eng.Fn) {
	for _, rs := range f.Graph().Returns {
		c.onlyFacts(id, f, rs, "return", []string{})
	}
}

func (c *cx) onlyFactsReturnsAllow(id string, f *eng.Fn, allowed []string) {
	for _, rs := range f.Graph().Returns {
		c.onlyFacts(id, f, rs, "return", allowed)
	}
}

// c07RoutersAnswerRequestsOnly (C07.18): the multiplexer sees every IQ, replies
// included. Whatever it writes as an answer of its own (IQ.Error / IQ.Result of
// the IQ it is routing) is written for a get or a set only: the call is
// dominated by the exclusion of both reply types (or by a test for get / set).
// A bad-request for "character data where the payload should be" that does not
// look at the type answers a peer's result or error IQ.
func c07RoutersAnswerRequestsOnly(c *cx, id string) int {
	n := 0
	for _, f := range c.allFns() {
		if !strings.HasPrefix(f.Short, "mux.") {
			continue
		}
		g := f.Graph()
		for _, callee := range []string{"stanza.IQ.Error", "stanza.IQ.Result"} {
			for _, cl := range f.Calls(callee) {
				n++
				pt, ok := c.site(id, f, cl, "answer written by the multiplexer")
				if !ok {
					continue
				}
				okBoth1, _ := g.Dominated(pt, "!eq(*.Type,stanza.ErrorIQ)")
				okBoth2, _ := g.Dominated(pt, "!eq(*.Type,stanza.ResultIQ)")
				okAny, _ := g.DominatedAny(pt, []string{"eq(*.Type,stanza.GetIQ)", "eq(*.Type,stanza.SetIQ)"})
				c.r.Check(id, f, "answer written by the multiplexer", "G: an answer of the multiplexer's own is written for get / set only (both reply types excluded on every path)", cl.Pos(), (okBoth1 && okBoth2) || okAny, "the answer is written whatever the type of the IQ: a result or error IQ of the peer is answered")
			}
		}
	}
	return n
}

func c07Fallback(c *cx) {
	id := "C07.4"
	f := c.fn(id, "mux", "iqFallback")
	if f == nil {
		return
	}
	g := f.Graph()
	cps := f.Calls("mellium.im/xmlstream.Copy")
	cp, ok := one(c, id, f, "fallback reply", cps)
	if !ok {
		return
	}
	c.dom(id, f, cp, "fallback reply", []string{"!eq(p0.Type,stanza.ErrorIQ)", "!eq(p0.Type,stanza.ResultIQ)"})
	// ... and for nothing less: a get or set without an id, without a sender or
	// with an odd payload is still a request the peer is waiting on
	c.onlyFacts(id, f, cp, "fallback reply for every request", []string{"!eq(p0.Type,stanza.ErrorIQ)", "!eq(p0.Type,stanza.ResultIQ)", "!eq(stanza.ErrorIQ,p0.Type)", "!eq(stanza.ResultIQ,p0.Type)"})
	cpt, _ := g.Where(cp)
	swap, typ := false, false
	for _, nd := range g.ReachableNodes(g.Entry(), nil) {
		as, ok := nd.(*ast.AssignStmt)
		if !ok {
			continue
		}
		pt, _ := g.Where(as)
		if !g.Reachable(g.After(pt), cpt, nil, nil) {
			continue
		}
		if len(as.Lhs) == 2 && len(as.Rhs) == 2 &&
			f.Norm(as.Lhs[0], nil) == "p0.To" && f.Norm(as.Lhs[1], nil) == "p0.From" && f.Norm(as.Rhs[0], nil) == "p0.From" && f.Norm(as.Rhs[1], nil) == "p0.To" {
			swap = true
		}
		if len(as.Lhs) == 1 && f.Norm(as.Lhs[0], nil) == "p0.Type" && f.Norm(as.Rhs[0], nil) == "stanza.ErrorIQ" {
			typ = true
		}
	}
	c.r.Check(id, f, "fallback swaps addresses", "K: To and From are swapped (parallel assignment) before the reply is written", cp.Pos(), swap, "no iq.To, iq.From = iq.From, iq.To before the write")
	c.r.Check(id, f, "fallback reply type", "K: the reply has type error", cp.Pos(), typ, "no iq.Type = ErrorIQ before the write")
	okArg := eng.Glob("stanza.IQ.Wrap[p0](stanza.Error.TokenReader[*](*)*", f.Norm(cp.Args[1], &cpt)) && f.Norm(cp.Args[0], nil) == "p1"
	c.r.Check(id, f, "fallback reply payload", "P: the (swapped) request IQ wraps a stanza error and is written to the handler's encoder", cp.Pos(), okArg, "reply is "+f.Norm(cp.Args[1], &cpt))
	for _, cl := range f.WalkLits("stanza.Error") {
		pt, _ := g.Where(cl)
		t, cd := "", ""
		if v := structLitField(cl, "Type"); v != nil {
			t = f.Norm(v, &pt)
		}
		if v := structLitField(cl, "Condition"); v != nil {
			cd = f.Norm(v, &pt)
		}
		c.r.Check(id, f, "fallback condition", "K: cancel / service-unavailable", cl.Pos(), t == "stanza.Cancel" && cd == "stanza.ServiceUnavailable", t+"/"+cd)
	}
	// IQHandler returns the fallback only with ok == false
	ih := c.fn(id, "mux", "(*ServeMux).IQHandler")
	if ih != nil {
		n := 0
		for _, rs := range ih.Graph().Returns {
			if len(rs.Results) != 2 {
				continue
			}
			if strings.Contains(ih.Norm(rs.Results[0], nil), "mux.iqFallback") {
				n++
				c.r.Check(id, ih, "fallback returned with ok=false", "K: the fallback is reported as 'no handler found'", rs.Pos(), ih.Norm(rs.Results[1], nil) == "false", "ok result is "+ih.Norm(rs.Results[1], nil))
			}
		}
		c.r.Floor(id, "returns of the IQ fallback", n, 1)
	}
	// nopHandler writes nothing
	for _, fn := range c.allFns() {
		if strings.Contains(fn.Short, "nopHandler).") || strings.Contains(fn.Short, ".nopHandler.") {
			calls := fn.AllCalls()
			c.r.Check(id, fn, "nopHandler body", "K: the default for messages, presences and other elements does nothing", fn.Pos(), len(calls) == 0, "nopHandler calls something")
		}
	}
}

// c07ServeEOF: Serve ends silently (returns nil without a stream error) only
// when handleInputStream returned io.EOF itself, the mark of the end of the
// input stream. An error that merely wraps io.EOF (a handler that ran out of
// tokens and wrapped the error) is a failure and must end in a stream error.
func c07ServeEOF(c *cx) { c07ServeEOFAs(c, "C07.5") }

func c07ServeEOFAs(c *cx, id string) {
	f := c.fn(id, "", "(*Session).Serve")
	if f == nil {
		return
	}
	g := f.Graph()
	calls := f.Calls("xmpp.handleInputStream")
	hc, ok := one(c, id, f, "call of handleInputStream in Serve", calls)
	if !ok {
		return
	}
	hpt, _ := g.Where(hc)
	hn := f.Norm(hc, &hpt)
	n := 0
	for _, rs := range g.Returns {
		pt, _ := g.Where(rs)
		if g.RetKindOf(rs) != eng.RetSuccess || !g.Reachable(g.After(hpt), pt, nil, func(q eng.Point, nd ast.Node) bool { return containsNode(nd, hc) }) {
			continue
		}
		n++
		okd, why := g.Dominated(pt, "eq("+hn+",var:io.EOF)")
		if !okd {
			// errors.Is in Serve is as good only if the handler-error edge of
			// handleInputStream replaces wrapped EOFs too
			if okIs, _ := g.Dominated(pt, "errors.Is("+hn+",var:io.EOF)"); okIs {
				if hi := c.fn(id, "", "handleInputStream"); hi != nil {
					for _, cl := range hi.Calls("xmpp.Handler.HandleXMPP") {
						hp, _ := hi.Graph().Where(cl)
						if len(hi.Graph().EdgesMatching("errors.Is("+hi.Norm(cl, &hp)+",var:io.EOF)")) > 0 {
							okd = true
						}
					}
				}
				if !okd {
					why = "Serve tests errors.Is(err, io.EOF) but handleInputStream replaces only an io.EOF identical to the handler's error: a handler error that wraps io.EOF ends the session silently"
				}
			}
		}
		c.r.Check(id, f, "silent end of Serve", "G: after a step, Serve returns without a stream error only on the edge 'handleInputStream(...) == io.EOF' (identity, not errors.Is: wrapped EOFs come from handlers)", rs.Pos(), okd, why)
	}
	c.r.Floor(id, "silent returns after a step in Serve", n, 1)
	// ... and Serve goes on to the next element only after a step that
	// returned nil: any other error - a timeout reported by the handler or by
	// the flush of its reply included - ends the stream with a stream error
	// (the request it belongs to may be unanswered)
	cut := eng.Cut{}
	for _, ce := range g.EdgesMatching("eq(" + hn + ",nil)") {
		cut[ce.E] = true
	}
	back := g.Reachable(g.After(hpt), hpt, cut, nil)
	c.r.Check(id, f, "next step only after a nil error", "G: the serve loop reaches its next step from handleInputStream only through the edge 'handleInputStream(...) == nil'", hc.Pos(), len(cut) > 0 && !back, "the loop continues after a step that returned an error: the stream is not terminated and an unanswered request stays unanswered")
}

// c07DetectorCountsAcceptedTokens (C07.11): the reply detector records what
// was written: its nesting level and its reply-written flag change only for a
// token that the wrapped encoder accepted (every write of responseChecker.level
// and .wroteResp is dominated by a nil result of the wrapped EncodeToken).
// Counting first and encoding afterwards lets a refused stray end element
// lower the level, after which an iq nested in a wrapper counts as the reply.
func c07DetectorCountsAcceptedTokens(c *cx, id string) {
	f := c.fn(id, "", "(*responseChecker).EncodeToken")
	if f == nil {
		return
	}
	n := 0
	for _, k := range []string{"xmpp.responseChecker.level", "xmpp.responseChecker.wroteResp"} {
		for _, w := range f.FieldWrites(k) {
			n++
			c.domAny(id, f, w.Stmt, "write to "+k, []string{"eq(mellium.im/xmlstream.TokenWriter.EncodeToken[recv.TokenWriter](p0),nil)", "eq(*.EncodeToken[*](p0),nil)"})
		}
	}
	c.r.Floor(id, "state writes of the reply detector", n, 3)
}

// depthCountersDoNotWrap (C07.16 / C05.18 / C08.15 / C01.20): the counters that
// decide "is this the top-level element" / "how many features were listed" are
// plain machine integers of at least 32 bits: a uint8 depth wraps at 256 and an
// element nested 256 levels deep counts as top-level (an iq-named child is
// taken for the reply; a features list with 256 entries is taken for empty).
func depthCountersDoNotWrap(c *cx, id string) {
	fields := []string{"xmpp.responseChecker.level", "xmpp.stanzaEncoder.depth", "internal/stream.reader.depth", "xmpp.streamFeaturesList.total"}
	n := 0
	pk := map[string]bool{}
	for _, f := range c.allFns() {
		if f.Pkg == nil || pk[f.Pkg.PkgPath] {
			continue
		}
		pk[f.Pkg.PkgPath] = true
		sc := f.Pkg.Types.Scope()
		for _, nm := range sc.Names() {
			tn, ok := sc.Lookup(nm).(*types.TypeName)
			if !ok {
				continue
			}
			st, ok := tn.Type().Underlying().(*types.Struct)
			if !ok {
				continue
			}
			for i := 0; i < st.NumFields(); i++ {
				cls := eng.TypeStr(tn.Type()) + "." + st.Field(i).Name()
				for _, want := range fields {
					if cls != want {
						continue
					}
					n++
					b, _ := st.Field(i).Type().Underlying().(*types.Basic)
					okw := b != nil && (b.Kind() == types.Int || b.Kind() == types.Int64 || b.Kind() == types.Uint64 || b.Kind() == types.Uint || b.Kind() == types.Int32 || b.Kind() == types.Uint32)
					c.r.CheckNamed(id, cls, "counter width", "K: nesting and list counters are at least 32 bits wide", st.Field(i).Pos(), okw, "the counter is a "+st.Field(i).Type().String()+": it wraps after a few hundred elements and the wrapped value reads as 'top level' / 'empty'")
				}
			}
		}
	}
	c.r.Floor(id, "nesting / list counters found", n, 4)
}

// c07HandlerEOFIsAFailure (C07.21 / C08.24): Serve takes io.EOF from
// handleInputStream for "the peer closed its stream" and returns nil. Only the
// session's own reader may say so: an io.EOF that a handler returns (the
// multiplexer returns the EOF of its view of an IQ without payload) is a
// failed handler - the request is unanswered - and must end the session with
// an error. From the non-nil edge of the handler's error, every return of
// handleInputStream lies behind the edge that excludes io.EOF, or returns
// something else than the handler's error; a conversion that depends on one
// more flag lets a bare io.EOF through.
func c07HandlerEOFIsAFailure(c *cx, id string) {
	f := c.fn(id, "", "handleInputStream")
	if f == nil {
		return
	}
	g := f.Graph()
	n := 0
	for _, cl := range f.Calls("xmpp.Handler.HandleXMPP") {
		cp, _ := g.Where(cl)
		nrm := f.Norm(cl, &cp)
		for _, ce := range g.EdgesMatching("!eq(" + nrm + ",nil)") {
			from := g.EdgeTarget(ce.E)
			for _, rs := range returnsFrom(f, from, nil) {
				n++
				rp, _ := g.Where(rs)
				okr := true
				why := ""
				// which values can the returned error have here?
				if len(rs.Results) == 1 {
					v := g.LocalVar(rs.Results[0])
					if v != nil {
						for _, d := range g.ReachingDefs(v, rp) {
							if d.RHS != nil && f.Norm(d.RHS, &d.At) == nrm || (d.Kind == eng.DefPlain && d.RHS != nil && containsNode(d.RHS, cl)) {
								// the handler's own error can reach this return: every
								// path on which it does (no other store into the variable
								// in between) crosses the edge that excludes io.EOF
								cut := eng.Cut{}
								for _, pat := range []string{"!eq(" + nrm + ",var:io.EOF)", "!errors.Is(" + nrm + ",var:io.EOF)"} {
									for _, e2 := range g.EdgesMatching(pat) {
										cut[e2.E] = true
									}
								}
								dd := d
								redefined := func(q eng.Point, nd ast.Node) bool {
									for _, o := range g.DefsAtNode(nd) {
										if o.Var == v && o != dd {
											return true
										}
									}
									return false
								}
								if g.Reachable(g.After(d.At), rp, cut, redefined) {
									okr, why = false, "the handler's error reaches this return without io.EOF having been excluded: Serve takes it for the end of the peer's stream and returns nil with the request unanswered"
								}
							}
						}
					}
				}
				c.r.Check(id, f, "handler error returned", "G: the handler's own error is returned as it is only where it is not io.EOF", rs.Pos(), okr, why)
			}
		}
	}
	c.r.Floor(id, "returns on the handler's failure path", n, 1)
}

// c07IDsComparedAsWritten (C07.22 / C05.27): a reply carries the id of the
// request, byte for byte. The session looks at ids in three places - the
// incoming element (getIDTyp), the reply detector and the stanza encoder's
// "no id, generate one" step - and all three take the attribute value as it
// is: a test for the missing id compares the value itself with "", never a
// trimmed or folded copy (an id of one space is an id: the encoder must not
// replace it by a random one after the detector has counted the reply).
func c07IDsComparedAsWritten(c *cx, id string) {
	n := 0
	type anchor struct{ rel, name string }
	for _, a := range []anchor{{"", "(*stanzaEncoder).EncodeToken"}, {"", "(*responseChecker).EncodeToken"}, {"", "getIDTyp"}, {"stanza", "IQ.StartElement"}, {"stanza", "Message.StartElement"}, {"stanza", "Presence.StartElement"}} {
		f := c.fn(id, a.rel, a.name)
		if f == nil {
			continue
		}
		f.WalkBody(func(nd ast.Node) bool {
			be, ok := nd.(*ast.BinaryExpr)
			if !ok {
				return true
			}
			var other ast.Expr
			switch be.Op {
			case token.EQL, token.NEQ:
				if s, ok := f.ConstStr(be.Y); ok && s == "" {
					other = be.X
				} else if s, ok := f.ConstStr(be.X); ok && s == "" {
					other = be.Y
				}
			}
			// the same test spelled with len(): len(x) == 0, len(x) > 0, 0 < len(x), ...
			if other == nil {
				for _, side := range []ast.Expr{be.X, be.Y} {
					if cl, ok := ast.Unparen(side).(*ast.CallExpr); ok && f.CalleeID(cl) == "builtin.len" && len(cl.Args) == 1 {
						if t := f.Info().TypeOf(cl.Args[0]); t != nil {
							if b, isB := t.Underlying().(*types.Basic); isB && b.Info()&types.IsString != 0 {
								other = cl.Args[0]
							}
						}
					}
				}
			}
			if other == nil {
				return true
			}
			n++
			_, isCall := ast.Unparen(other).(*ast.CallExpr)
			c.r.Check(id, f, "emptiness test", "P: attribute values are tested for emptiness as they were written", be.Pos(), !isCall, "tests "+f.Norm(other, nil)+": an id (or type) that differs from the empty string is treated as missing")
			return true
		})
	}
	c.r.Floor(id, "emptiness tests in the id handling of the session", n, 1)
}
