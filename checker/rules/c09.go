package rules

import (
	"go/ast"
	"go/constant"
	"go/token"
	"go/types"
	"sort"
	"strconv"
	"strings"

	"golang.org/x/tools/go/ssa"

	"verif/checker/eng"
)

func init() {
	Registry["C09"] = Rule{
		Meta: eng.Meta{
			Explanation: "Structural no-panic / no-wedge rules over every repository function reachable (VTA call graph, repository functions only) from the serve loop, from any HandleXMPP/HandleIQ/HandleMessage/HandlePresence method, from any UnmarshalXML/UnmarshalXMLAttr/UnmarshalText method, and from the request helpers that parse a peer's reply: no non-comma-ok type assertion (C09.1), no explicit panic including Must* helpers (C09.2), sentinel results of Index* never reach a slice bound without the -1 test, constant indices into slices and subtractive make sizes need a dominating length fact (C09.3), channel sends/receives in handlers have an escape arm and no send can race with a close of the same channel class (C09.4, shared with C06), and the nil-returning contract of Iter.Current is honoured at every call site: the first dereference of the returned *xml.StartElement is dominated by the non-nil edge (C09.7). Peer-controlled input reaches all of this code, so each rule instance is a necessary condition of 'no peer input can panic or wedge the library' that holds for every byte sequence.",
			NotDecided:  "panics inside encoding/xml or xmlstream on hostile input, slice indexing with computed indices beyond the three index rules, unbounded memory, 'returns once the input ends' (liveness).",
			Trusted:     trustedCommon,
		},
		Run: runC09,
	}
}

// serveScope computes the functions exposed to peer input.
func serveScope(c *cx) (fns []*eng.Fn, why map[*eng.Fn]string) { return serveScopeWith(c, false) }

// serveScopeWith: withIter adds the methods of the iterator types the request
// helpers return (they run on the application's goroutine: in scope for the
// no-panic rules, not for the rules about blocking the serve loop).
func serveScopeWith(c *cx, withIter bool) (fns []*eng.Fn, why map[*eng.Fn]string) {
	s := c.p.SSA()
	var roots []*ssa.Function
	for _, f := range c.allFns() {
		if f.Obj == nil {
			continue
		}
		n := f.Obj.Name()
		isRoot := false
		switch n {
		case "HandleXMPP", "HandleIQ", "HandleMessage", "HandlePresence", "UnmarshalXML", "UnmarshalXMLAttr", "UnmarshalText":
			isRoot = f.Sig().Recv() != nil
		}
		switch f.Short {
		case "xmpp.(*Session).Serve", "xmpp.handleInputStream", "xmpp.unmarshalIQ", "xmpp.iterIQ":
			isRoot = true
		}
		// the iterators that the request helpers hand to the application go on
		// parsing the peer's reply after the helper has returned
		if withIter && f.Sig() != nil && f.Sig().Recv() != nil && strings.HasSuffix(eng.TypeStr(f.Sig().Recv().Type()), "Iter") && strings.HasPrefix(f.Pkg.PkgPath, eng.ModPath) {
			isRoot = true
		}
		if !isRoot {
			// request helpers: functions that consume a correlated reply
			for _, cl := range f.AllCalls() {
				id := f.CalleeID(cl)
				if strings.HasPrefix(id, "xmpp.Session.") {
					m := strings.TrimPrefix(id, "xmpp.Session.")
					if strings.HasPrefix(m, "SendIQ") || strings.HasPrefix(m, "UnmarshalIQ") || strings.HasPrefix(m, "IterIQ") || strings.HasPrefix(m, "EncodeIQ") ||
						strings.HasPrefix(m, "SendMessage") || strings.HasPrefix(m, "SendPresence") || strings.HasPrefix(m, "EncodeMessage") || strings.HasPrefix(m, "EncodePresence") {
						isRoot = true
					}
				}
			}
		}
		if isRoot {
			if sf := s.FuncOf(f); sf != nil {
				roots = append(roots, sf)
			}
		}
	}
	reach := s.Reach(roots)
	why = map[*eng.Fn]string{}
	seen := map[*eng.Fn]bool{}
	for fn, path := range reach {
		f := s.FnOfSSA(fn)
		if f == nil || f.Body == nil || seen[f] {
			continue
		}
		seen[f] = true
		fns = append(fns, f)
		why[f] = s.PathStr(path)
	}
	sort.Slice(fns, func(i, j int) bool { return fns[i].Name < fns[j].Name })
	return fns, why
}

var acceptC09 = []accept{
	{"internal/attr.randomID", "builtin.panic", "entropy source failure is not peer-controlled"},
	{"xmpp.negotiateSession", "builtin.panic", "documented API precondition (nil negotiator), not reachable from peer input"},
	{"xmpp.newSASL", "builtin.panic", "documented API precondition"},
	{"component.Negotiator$1", "builtin.panic", "documented: receiving side not implemented"},
	{"mux.*", "builtin.panic", "registration-time precondition of the mux options (nil handler / duplicate pattern), not peer-controlled"},
	{"xmpp.negotiateClient", "assert:[]string", "value stored by the same feature's Parse (see C04.6)"},
}

func runC09(p *eng.Prog, r *eng.Report, tier string) {
	c := &cx{p, r, tier}
	c.r.Note("C09.38: %d nil-intolerant method calls on optional forms", r19OptionalFormsTested(c, "C09.38"))
	r18WalkSkipsOnlyItself(c, "C09.36")
	r18ClosersReleaseOnEveryPath(c, "C09.37")
	c.r.Floor("C09.35", "returns with a deferred release pending", deferredReleaseFindsTheLockHeld(c, "C09.35", ""), 20)
	c.r.Floor("C09.34", "inner iterators closed by wrapping iterators", r17IteratorCloseReleases(c, "C09.34"), 1)
	// C09.33 (= C11.5, imported): the separators of an address are looked up in the order of RFC 7622 and no
	// index computed on the uncut string is applied to the cut one (slice bounds out of range on from="d/a@b")
	importRules(c, "C11", []string{"C11.5"}, "C09.33")
	c.r.Floor("C09.29", "deferred releases of a mutex", deferredReleaseNotInLoop(c, "C09.29"), 20)
	r.Floor("C09.27", "comparisons of interface values", interfaceComparisonsCannotPanic(c, "C09.27"), 10)
	r.Floor("C09.28", "blocking channel operations", lockHeldAcrossChannelOp(c, "C09.28", ""), 10)
	c.r.Note("C09.30: %d integer divisions with a non-constant divisor", divisorsNotZero(c, "C09.30"))
	c.r.Note("C09.31: %d dereferences of optional scalar fields", optionalPointersTested(c, "C09.31"))
	c.r.Note("C09.32: %d stores into lazily allocated map fields", mapFieldsAllocatedBeforeStores(c, "C09.32"))
	fns, why := serveScopeWith(c, true)
	servefns, servewhy := serveScope(c)
	r.Note("scope: %d functions exposed to peer input", len(fns))
	r.Floor("C09.0", "functions in the peer-input scope", len(fns), 150)
	nAssert, nPanic := 0, 0
	for _, f := range fns {
		c.r.Check("C09.0", f, "function scanned", "function is in the peer-input scope and was scanned by rules C09.1-C09.3, C09.7", f.Pos(), true, "")
		for _, ta := range bareAsserts(f) {
			what := "assert:" + eng.TypeStr(f.Info().TypeOf(ta.Type))
			// assertions from a concrete-typed interface check such as x.(interface{...}) are still panics
			wy, ok := accepted(acceptC09, f.Short, what)
			nAssert++
			c.r.Check("C09.1", f, "bare type assertion "+what+" on "+f.Norm(ta.X, nil), "no non-comma-ok type assertion on peer-controlled paths ("+wy+")", ta.Pos(), ok, "a token/value of another type panics here; reached via "+why[f])
		}
		for _, cl := range f.Calls("builtin.panic") {
			wy, ok := accepted(acceptC09, f.Short, "builtin.panic")
			nPanic++
			c.r.Check("C09.2", f, "explicit panic", "no explicit panic on peer-controlled paths ("+wy+")", cl.Pos(), ok, "explicit panic reachable via "+why[f])
		}
		// calls of Must* helpers (they panic on error)
		for _, cl := range f.AllCalls() {
			id := f.CalleeID(cl)
			base := id[strings.LastIndex(id, ".")+1:]
			if strings.HasPrefix(base, "Must") && !strings.HasPrefix(id, "regexp.") {
				constArgs := true
				for _, a := range cl.Args {
					if f.ConstVal(a) == nil {
						constArgs = false
					}
				}
				c.r.Check("C09.2", f, "call of "+id, "Must* helpers are called with constants only on peer-controlled paths", cl.Pos(), constArgs, id+" panics on invalid input and its argument is not a constant; reached via "+why[f])
			}
		}
		c09SingleClose(c, f)
		nilLocation(c, "C09.2", f)
		c19Base64As(c, "C09.3", f)
		c09Index(c, f, why[f])
		c09IterCurrent(c, f, why[f])
	}
	r.Note("bare assertions in scope: %d, explicit panics in scope: %d", nAssert, nPanic)
	chanRules(c, "C09.4", servefns, servewhy)
	goroutineEndsItsTracking(c, "C09.24")
	// C09.26 a handler that waits for a correlated reply on the serve goroutine
	// blocks Serve for ever (= C06.9)
	serveWait(c, "C09.26")
	resultUsedBeforeErrorTest(c, "C09.25", fns)
	// C09.18 (= C06.6) every response is released exactly once: an unreleased
	// response wedges the serve loop, a second release panics
	respRelease(c, "C09.18", 8)
	respIterContract(c, "C09.18")
	// C09.17 lock order
	lockOrder(c, "C09.17")
	// C09.16 handler callbacks are nil-tested
	nCb := handlerCallbacksChecked(c, "C09.16")
	c.r.Floor("C09.16", "callback fields called by handlers", nCb, 5)
	// C09.15 a value used although the call that produced it may have failed
	nilReaderSinks(c, "C09.19")
	serveLockWait(c, "C09.20")
	// C09.21 addresses parsed from peer input keep their part boundaries inside the buffer
	c11LocalLenIsEnforcedLen(c, "C09.21")
	pageTurnClosesFirst(c, "C09.22")
	nv := valueReceiverWritesKept(c, "C09.23")
	c.r.Floor("C09.23", "stores to receiver fields in methods of handle types", nv, 10)
	nTol := valueUsedAfterError(c, "C09.15", c.allFns())
	r.Note("C09.15: %d error-tolerant uses of a (value, error) result examined", nTol)
	c06JoinCtx(c)
	// C09.9 no lock leaks: every mutex acquired in a function of the library is
	// released (directly or by defer) on every path to every exit, and the two
	// closer types release the session lock they were created with on every
	// first-Close path: a leaked lock wedges the serve loop at its next use.
	lockPairing(c, "C09.9", nil, map[string]bool{"xmpp.(*Session).TokenWriter": true, "xmpp.(*Session).TokenReader": true})
	closerTypestate(c, "C09.9")
	// C09.10 decoder typestate everywhere peer XML is decoded by hand
	decoderSkipTypestate(c, "C09.10", func(f *eng.Fn) bool { return true }, 15)
	// C09.14 the in-band bytestream close paths (a skipped step makes the
	// handler send a blocking request from inside the serve loop)
	c15CloseAs(c, "C09.14")
	ni := errCarrierInvariant(c, "C09.13", func(f *eng.Fn) bool { return true })
	r.Note("C09.13: %d iterator literals without an inner iterator examined", ni)
	ne := errFieldDropped(c, "C09.12", func(f *eng.Fn) bool { return true })
	r.Note("C09.12: %d selections of a field from an error-carrying call result examined", ne)
	nd := tokenDecoderUnmarshaler(c, "C09.11", func(f *eng.Fn) bool { return true })
	r.Note("C09.11: %d DecodeElement calls with an Unmarshaler target on a NewTokenDecoder decoder examined", nd)
}

// c09IterCurrent: rule C09.7.
func c09IterCurrent(c *cx, f *eng.Fn, via string) {
	g := f.Graph()
	for _, cl := range f.AllCalls() {
		id := f.CalleeID(cl)
		if id != "mellium.im/xmlstream.Iter.Current" && id != "paging.Iter.Current" {
			continue
		}
		// the variable bound to result 0
		as, ok := g.Parent(cl).(*ast.AssignStmt)
		if !ok || len(as.Lhs) < 1 {
			continue
		}
		v := rootLocal(f, as.Lhs[0])
		if v == nil {
			continue
		}
		forms := g.VarForms(v)
		bad := ""
		var badPos token.Pos
		f.WalkBody(func(n ast.Node) bool {
			var x ast.Expr
			switch e := n.(type) {
			case *ast.SelectorExpr:
				x = e.X
			case *ast.StarExpr:
				x = e.X
			default:
				return true
			}
			idn, ok := ast.Unparen(x).(*ast.Ident)
			if !ok || f.Info().Uses[idn] != types.Object(v) {
				return true
			}
			pt, ok := g.Where(n)
			if !ok || !g.Live(pt) {
				return true
			}
			// only uses reached from this call
			cpt, _ := g.Where(cl)
			if !g.Reachable(g.After(cpt), pt, nil, nil) && cpt != pt {
				return true
			}
			if shortCircuitNonNil(f, n, v) {
				return true
			}
			var pats []string
			for _, fm := range forms {
				pats = append(pats, "!eq("+fm+",nil)")
			}
			if ok, _ := g.DominatedAny(pt, pats); !ok && bad == "" {
				bad = "dereference of the result of " + id + " at " + c.p.Pos(n.Pos()) + " is not dominated by a nil test (Current returns nil for a non-element child such as whitespace); reached via " + via
				badPos = n.Pos()
			}
			return true
		})
		if badPos == token.NoPos {
			badPos = cl.Pos()
		}
		c.r.Check("C09.7", f, "result of "+id, "belief rule: every dereference of the *xml.StartElement returned by Iter.Current is dominated by its non-nil test", badPos, bad == "", bad)
	}
}

// c09Index: rule C09.3 (a)-(c).
func c09Index(c *cx, f *eng.Fn, via string) { c09IndexID(c, "C09.3", f, via) }

func c09IndexID(c *cx, rid string, f *eng.Fn, via string) {
	g := f.Graph()
	info := f.Info()
	mentions := func(pt eng.Point, needle string) bool {
		for _, a := range g.FactsAt(pt) {
			if strings.Contains(a, needle) {
				return true
			}
		}
		return false
	}
	f.WalkBody(func(n ast.Node) bool {
		switch e := n.(type) {
		case *ast.IndexExpr:
			// (d) variable index into a fixed-size array
			if n, isArr := arrayLen(info.TypeOf(e.X)); isArr {
				if _, isConst := f.ConstInt(e.Index); isConst {
					return true // checked by the compiler
				}
				// String methods written by stringer index their offset tables
				// behind a range test of the generator's own making (partly through
				// `i -= k`, which the fact engine does not follow): generated
				// files are the generator's responsibility
				if fileGenerated(f, e.Pos()) {
					return true
				}
				pt, ok := g.Where(e)
				if !ok || !g.Live(pt) {
					return true
				}
				why := arrayIndexBounded(f, e, n, pt)
				c.r.Check(rid, f, "array index "+f.Norm(e, &pt), "E-idx(d): a variable index into an array of N elements is bounded by its type or by dominating facts 0 <= i < N", e.Pos(), why == "", why+"; reached via "+via)
				return true
			}
			// (b) constant index into a slice or a string
			if _, isSlice := info.TypeOf(e.X).Underlying().(*types.Slice); !isSlice {
				if b, isB := info.TypeOf(e.X).Underlying().(*types.Basic); !isB || b.Info()&types.IsString == 0 || f.ConstVal(e.X) != nil {
					return true
				}
			}
			if _, ok := f.ConstInt(e.Index); !ok {
				return true
			}
			pt, ok := g.Where(e)
			if !ok || !g.Live(pt) {
				return true
			}
			xs := f.Norm(e.X, &pt)
			okg := mentions(pt, "builtin.len("+xs+")") || mentions(pt, "rangenext("+xs+")") || shortCircuitLen(f, e, xs, pt)
			// x := make([]T, n) / literal with constant length
			if v := rootLocal(f, e.X); v != nil && !okg {
				if d := g.UniqueDef(v, pt); d != nil && d.RHS != nil {
					switch r := ast.Unparen(d.RHS).(type) {
					case *ast.CompositeLit:
						okg = len(r.Elts) > 0
					case *ast.CallExpr:
						if f.CalleeID(r) == "builtin.make" && len(r.Args) >= 2 {
							if k, ok := f.ConstInt(r.Args[1]); ok {
								if ix, _ := f.ConstInt(e.Index); ix < k {
									okg = true
								}
							}
						}
					}
				}
			}
			c.r.Check(rid, f, "constant index "+f.Norm(e, &pt), "E-idx(b): a constant index into a slice is dominated by a fact about its length", e.Pos(), okg, "index out of range if the slice is shorter (no dominating length test); reached via "+via)
		case *ast.SliceExpr:
			// (e) a positive constant bound of a slice expression on a string or
			// slice needs a dominating fact about the operand's length
			switch info.TypeOf(e.X).Underlying().(type) {
			case *types.Slice:
			case *types.Basic:
			default:
				return true
			}
			for _, b := range []ast.Expr{e.Low, e.High, e.Max} {
				if b == nil {
					continue
				}
				k, isConst := f.ConstInt(b)
				if !isConst || k <= 0 {
					continue
				}
				pt, ok := g.Where(e)
				if !ok || !g.Live(pt) {
					continue
				}
				xs := f.Norm(e.X, &pt)
				okg := mentions(pt, "builtin.len("+xs+")") || (k == 1 && mentions(pt, "rangenext("+xs+")")) || mentions(pt, "HasPrefix("+xs) || mentions(pt, "HasSuffix("+xs) || shortCircuitLen(f, e, xs, pt)
				if cs, isStr := f.ConstStr(e.X); isStr && int64(len(cs)) >= k {
					okg = true
				}
				if v := rootLocal(f, e.X); v != nil && !okg {
					if d := g.UniqueDef(v, pt); d != nil && d.RHS != nil {
						if r, isCall := ast.Unparen(d.RHS).(*ast.CallExpr); isCall && f.CalleeID(r) == "builtin.make" && len(r.Args) >= 2 {
							if n, ok := f.ConstInt(r.Args[1]); ok && k <= n {
								okg = true
							}
						}
					}
				}
				c.r.Check(rid, f, "constant slice bound "+f.Norm(e, &pt), "E-idx(e): a constant bound of a slice expression is dominated by a fact about the operand's length", e.Pos(), okg, "slice bounds out of range if the operand is shorter than "+itoa(int(k))+" (no dominating length test); reached via "+via)
			}
		case *ast.CallExpr:
			id := f.CalleeID(e)
			// (c) make with a subtractive size
			if id == "builtin.make" {
				for _, a := range e.Args[1:] {
					be, ok := ast.Unparen(a).(*ast.BinaryExpr)
					if !ok || be.Op != token.SUB || f.ConstVal(a) != nil {
						continue
					}
					pt, _ := g.Where(e)
					xs := f.Norm(be.X, &pt)
					c.r.Check(rid, f, "make size "+f.Norm(a, &pt), "E-idx(c): a subtractive make size is dominated by a bound on its minuend", e.Pos(), mentions(pt, xs), "negative size panics (makeslice) when "+xs+" is smaller than the subtrahend; reached via "+via)
				}
			}
			// (a) sentinel results
			// the repository's own look-ups that report "not found" as index -1
			ownLookup := id == "internal/attr.Own" || id == "internal/attr.Get" || id == "xmpp.getIDTyp"
			if strings.HasPrefix(id, "strings.Index") || strings.HasPrefix(id, "bytes.Index") || strings.HasPrefix(id, "strings.LastIndex") || strings.HasPrefix(id, "bytes.LastIndex") || ownLookup {
				as, ok := g.Parent(e).(*ast.AssignStmt)
				if !ok {
					return true
				}
				lhsIdx := []int{0}
				if id == "xmpp.getIDTyp" {
					lhsIdx = []int{0, 1}
				}
				for _, li := range lhsIdx {
					if li >= len(as.Lhs) {
						continue
					}
					v := rootLocal(f, as.Lhs[li])
					if v == nil {
						continue
					}
					forms := g.VarForms(v)
					// the call's own normal form as well: a condition reached through a
					// named boolean is normalised at the boolean's definition, where the
					// result may still be expandable
					if ept, ok := g.Where(e); ok {
						forms = append(forms, f.Norm(e, &ept))
					}
					bad := ""
					f.WalkBody(func(m ast.Node) bool {
						var bounds []ast.Expr
						switch s := m.(type) {
						case *ast.SliceExpr:
							bounds = []ast.Expr{s.Low, s.High, s.Max}
						case *ast.IndexExpr:
							bounds = []ast.Expr{s.Index}
						default:
							return true
						}
						for _, b := range bounds {
							if b == nil {
								continue
							}
							uses := false
							ast.Inspect(b, func(y ast.Node) bool {
								if idn, ok := y.(*ast.Ident); ok && info.Uses[idn] == types.Object(v) {
									uses = true
								}
								return true
							})
							if !uses {
								continue
							}
							pt, ok := g.Where(m)
							if !ok || !g.Live(pt) {
								continue
							}
							var pats []string
							for _, fm := range forms {
								pats = append(pats, "!eq("+fm+",-1)", "!lt("+fm+",0)", "lt(-1,"+fm+")", "lt(0,"+fm+")", "!lt("+fm+",1)")
							}
							guard, _ := g.DominatedAny(pt, pats)
							if !guard {
								// value-flow form of the same question: does the definition
								// that may hold -1 reach the use on a path that neither
								// redefines the variable (`if i == -1 { i = len(x); ... }`)
								// nor crosses an edge that excludes -1?
								cut := eng.Cut{}
								for _, pat := range pats {
									for _, ce := range g.EdgesMatching(pat) {
										cut[ce.E] = true
									}
								}
								reaches := false
								for _, d := range g.ReachingDefsCut(v, pt, cut) {
									if d.Node == ast.Node(as) {
										reaches = true
									}
								}
								guard = !reaches
							}
							if !guard && bad == "" {
								bad = "result of " + id + " used as bound/index at " + c.p.Pos(m.Pos()) + " without excluding -1; reached via " + via
							}
						}
						return true
					})
					what := "sentinel result of " + id
					if li > 0 {
						what += " #" + itoa(li)
					}
					c.r.Check(rid, f, what, "E-idx(a): the -1 result of Index* (and of the attribute look-ups) never reaches a slice bound or index", e.Pos(), bad == "", bad)
				}
			}
		}
		return true
	})
}

// shortCircuitNonNil: n lies in the right operand of "v == nil || ..." or
// "v != nil && ..." (go/cfg keeps such a condition in one node).
func shortCircuitNonNil(f *eng.Fn, n ast.Node, v *types.Var) bool {
	g := f.Graph()
	isNilTest := func(e ast.Expr, op token.Token) bool {
		found := false
		var walk func(e ast.Expr)
		walk = func(e ast.Expr) {
			e = ast.Unparen(e)
			be, ok := e.(*ast.BinaryExpr)
			if !ok {
				return
			}
			if (op == token.EQL && be.Op == token.LOR) || (op == token.NEQ && be.Op == token.LAND) {
				walk(be.X)
				walk(be.Y)
				return
			}
			if be.Op == op {
				for _, pair := range [][2]ast.Expr{{be.X, be.Y}, {be.Y, be.X}} {
					if id, ok := ast.Unparen(pair[0]).(*ast.Ident); ok && f.Info().Uses[id] == types.Object(v) {
						if nid, ok := ast.Unparen(pair[1]).(*ast.Ident); ok && nid.Name == "nil" {
							found = true
						}
					}
				}
			}
		}
		walk(e)
		return found
	}
	var child ast.Node = n
	pt, havePt := g.Where(n)
	var forms []string
	if havePt {
		forms = g.VarForms(v)
	}
	for par := g.Parent(n); par != nil; par = g.Parent(par) {
		if be, ok := par.(*ast.BinaryExpr); ok && be.Y == child {
			if be.Op == token.LOR && isNilTest(be.X, token.EQL) {
				return true
			}
			if be.Op == token.LAND && isNilTest(be.X, token.NEQ) {
				return true
			}
			// any other spelling of the left operand (negations, nested
			// connectives): what its outcome implies when the right operand runs
			if havePt && (be.Op == token.LOR || be.Op == token.LAND) {
				for _, a := range g.Formula(be.X, be.Op == token.LAND, pt).Implied() {
					for _, fm := range forms {
						if a.S == "!eq("+fm+",nil)" {
							return true
						}
					}
				}
			}
		}
		if _, ok := par.(ast.Stmt); ok {
			break
		}
		child = par
	}
	return false
}

// c09SingleClose (C09.8): iqResponder.Close closes its channel
// unconditionally, so a response obtained from the blocking send methods must
// be closed at most once: a function that defers the Close must not also
// close it explicitly.
func c09SingleClose(c *cx, f *eng.Fn) {
	g := f.Graph()
	for _, d := range g.AllDefs() {
		if d.RHS == nil || (d.Kind != eng.DefTuple && d.Kind != eng.DefPlain) || d.Index != 0 {
			continue
		}
		call, ok := ast.Unparen(d.RHS).(*ast.CallExpr)
		if !ok {
			continue
		}
		id := f.CalleeID(call)
		if !strings.HasPrefix(id, "xmpp.Session.") || eng.TypeStr(d.Var.Type()) != "mellium.im/xmlstream.TokenReadCloser" {
			continue
		}
		closesIn := func(root ast.Node) int {
			n := 0
			ast.Inspect(root, func(x ast.Node) bool {
				if cl, ok := x.(*ast.CallExpr); ok {
					if sel, ok := ast.Unparen(cl.Fun).(*ast.SelectorExpr); ok && sel.Sel.Name == "Close" {
						if idn, ok := ast.Unparen(sel.X).(*ast.Ident); ok && f.Info().Uses[idn] == types.Object(d.Var) {
							n++
						}
					}
				}
				return true
			})
			return n
		}
		deferred := 0
		for _, ds := range g.Defers {
			deferred += closesIn(ds)
		}
		total := closesIn(f.Body)
		explicit := total - deferred
		c.r.Check("C09.8", f, "Close of the response from "+id, "a response is closed at most once per path (its Close closes a channel unconditionally): no explicit Close next to a deferred one", d.Node.Pos(), !(deferred > 0 && explicit > 0), "the response is closed explicitly and by a deferred call: the second Close panics (close of closed channel)")
	}
}

// shortCircuitLen: the index expression e lies in the right operand of
// "A || ..." / "A && ..." (one CFG node) where A being false / true establishes
// a fact about len(xs).
func shortCircuitLen(f *eng.Fn, e ast.Node, xs string, pt eng.Point) bool {
	g := f.Graph()
	var child ast.Node = e
	for par := g.Parent(e); par != nil; par = g.Parent(par) {
		if be, ok := par.(*ast.BinaryExpr); ok && be.Y == child && (be.Op == token.LOR || be.Op == token.LAND) {
			fm := g.Formula(be.X, be.Op == token.LAND, pt)
			for _, a := range fm.Implied() {
				if strings.Contains(a.S, "builtin.len("+xs+")") {
					return true
				}
			}
		}
		if _, ok := par.(ast.Stmt); ok {
			break
		}
		child = par
	}
	return false
}

func arrayLen(t types.Type) (int64, bool) {
	if t == nil {
		return 0, false
	}
	if p, ok := t.Underlying().(*types.Pointer); ok {
		t = p.Elem()
	}
	if a, ok := t.Underlying().(*types.Array); ok {
		return a.Len(), true
	}
	return 0, false
}

// constOperand evaluates an operand of a fact (a decimal literal or the
// qualified name of an integer constant) in the context of f's package.
func constOperand(f *eng.Fn, s string) (int64, bool) {
	if k, err := strconv.ParseInt(s, 10, 64); err == nil {
		return k, true
	}
	i := strings.LastIndex(s, ".")
	if i < 0 {
		return 0, false
	}
	path, name := s[:i], s[i+1:]
	var scope *types.Scope
	if f.Pkg.Types != nil && (strings.HasSuffix(f.Pkg.PkgPath, "/"+path) || f.Pkg.PkgPath == path || f.Pkg.Types.Name() == path) {
		scope = f.Pkg.Types.Scope()
	}
	for ip, imp := range f.Pkg.Imports {
		if ip == path && imp.Types != nil {
			scope = imp.Types.Scope()
		}
	}
	if scope == nil {
		return 0, false
	}
	if k, ok := scope.Lookup(name).(*types.Const); ok {
		if v, exact := constant.Int64Val(constant.ToInt(k.Val())); exact {
			return v, true
		}
	}
	return 0, false
}

// arrayIndexBounded returns "" if the index of e (an index into an array of n
// elements) is within bounds on every path, otherwise the reason.
func arrayIndexBounded(f *eng.Fn, e *ast.IndexExpr, n int64, pt eng.Point) string {
	g := f.Graph()
	info := f.Info()
	idx := ast.Unparen(e.Index)
	unsigned := false
	if bt, ok := info.TypeOf(idx).Underlying().(*types.Basic); ok {
		switch bt.Kind() {
		case types.Uint8:
			if n >= 256 {
				return ""
			}
			unsigned = true
		case types.Uint16:
			if n >= 65536 {
				return ""
			}
			unsigned = true
		case types.Uint, types.Uint32, types.Uint64, types.Uintptr:
			unsigned = true
		}
	}
	// i & mask, i % n
	if be, ok := idx.(*ast.BinaryExpr); ok {
		if k, isK := f.ConstInt(be.Y); isK {
			if be.Op == token.AND && k >= 0 && k < n {
				return ""
			}
			if be.Op == token.REM && k > 0 && k <= n && unsigned {
				return ""
			}
		}
	}
	I := f.Norm(idx, &pt)
	if strings.HasPrefix(I, "rangekey(") {
		return ""
	}
	// (x + k): bound x by n - k
	if strings.HasPrefix(I, "(") && strings.HasSuffix(I, ")") {
		if j := strings.LastIndex(I, " + "); j > 0 {
			if k, ok := constOperand(f, I[j+3:len(I)-1]); ok && k >= 0 {
				I = I[1:j]
				n -= k
			}
		}
	}
	upper, lower := false, unsigned
	for _, a := range g.FactsAt(pt) {
		switch {
		case strings.HasPrefix(a, "lt("+I+",") && strings.HasSuffix(a, ")"):
			if k, ok := constOperand(f, a[len("lt("+I+","):len(a)-1]); ok && k <= n {
				upper = true
			}
		case strings.HasPrefix(a, "!lt(") && strings.HasSuffix(a, ","+I+")"):
			if k, ok := constOperand(f, a[len("!lt("):len(a)-len(","+I+")")]); ok && k <= n-1 {
				upper = true
			}
		case strings.HasPrefix(a, "!lt("+I+",") && strings.HasSuffix(a, ")"):
			if k, ok := constOperand(f, a[len("!lt("+I+","):len(a)-1]); ok && k >= 0 {
				lower = true
			}
		case strings.HasPrefix(a, "lt(") && strings.HasSuffix(a, ","+I+")"):
			if k, ok := constOperand(f, a[len("lt("):len(a)-len(","+I+")")]); ok && k >= -1 {
				lower = true
			}
		case strings.HasPrefix(a, "eq("+I+",") && strings.HasSuffix(a, ")"):
			if k, ok := constOperand(f, a[len("eq("+I+","):len(a)-1]); ok && k >= 0 && k < n {
				upper, lower = true, true
			}
		}
	}
	switch {
	case !upper:
		return "no dominating fact bounds the index below " + strconv.FormatInt(n, 10) + " (index out of range for larger values)"
	case !lower:
		return "no dominating fact excludes a negative index"
	}
	return ""
}

// fileGenerated reports whether pos lies in a file marked "Code generated ... DO NOT EDIT.".
func fileGenerated(f *eng.Fn, pos token.Pos) bool {
	for _, file := range f.Pkg.Syntax {
		if file.Pos() <= pos && pos <= file.End() {
			return ast.IsGenerated(file)
		}
	}
	return false
}

// nilLocation: time.Time.In, time.Date and time.ParseInLocation panic on a nil
// *time.Location ("time: missing Location in call to ..."). Their location
// operand is provably non-nil: time.UTC / time.Local, the result of
// Time.Location() or time.FixedZone, or a local all of whose reaching
// definitions are one of these. (A location that stays nil when the peer left
// an optional element out is a peer-controlled panic.)
func nilLocation(c *cx, id string, f *eng.Fn) {
	argOf := map[string]int{"time.Time.In": 0, "time.Date": 7, "time.ParseInLocation": 2}
	g := f.Graph()
	var nonNil func(e ast.Expr, pt eng.Point, depth int) bool
	nonNil = func(e ast.Expr, pt eng.Point, depth int) bool {
		e = ast.Unparen(e)
		switch x := e.(type) {
		case *ast.SelectorExpr:
			n := f.Norm(x, nil)
			return n == "var:time.UTC" || n == "var:time.Local" || n == "time.UTC" || n == "time.Local"
		case *ast.CallExpr:
			switch f.CalleeID(x) {
			case "time.Time.Location", "time.FixedZone":
				return true
			}
		case *ast.Ident:
			v, _ := f.Info().ObjectOf(x).(*types.Var)
			if v == nil || !eng.IsLocal(v) || depth > 3 {
				return false
			}
			ds := g.ReachingDefs(v, pt)
			if len(ds) == 0 {
				return false
			}
			for _, d := range ds {
				if d.RHS == nil || !nonNil(d.RHS, d.At, depth+1) {
					return false
				}
			}
			return true
		}
		return false
	}
	for _, cl := range f.AllCalls() {
		ix, ok := argOf[f.CalleeID(cl)]
		if !ok || ix >= len(cl.Args) {
			continue
		}
		pt, _ := g.Where(cl)
		c.r.Check(id, f, "location operand of "+f.CalleeID(cl), "the *time.Location handed to "+f.CalleeID(cl)+" is provably non-nil (it panics on nil)", cl.Pos(), nonNil(cl.Args[ix], pt, 0), "the location "+types.ExprString(cl.Args[ix])+" may be nil here: time: missing Location in call")
	}
}

// goroutineEndsItsTracking (C09.24 / C06.22): a helper that registers a query in
// a table the serve loop consults (history.Handler.tracked: HandleMessage
// sends every result of a tracked query to the iterator's channel, under the
// table's lock) and starts a goroutine that waits for the end of the query:
// that goroutine withdraws the entry - and thereby closes the iterator's
// channel - on EVERY exit, also when the query was refused or timed out.
// Otherwise Iter.Next blocks for ever and a late result for the stale id
// blocks HandleMessage, i.e. Serve, inside the handler's mutex.
func goroutineEndsItsTracking(c *cx, id string) {
	f := c.fn(id, "history", "(*Handler).FetchIQ")
	if f == nil {
		return
	}
	registers := false
	for _, mu := range f.MapUpdates() {
		if cls, ok := f.FieldClass(mu.Map); ok && cls == "history.Handler.tracked" && !mu.Delete {
			registers = true
		}
	}
	c.r.Check(id, f, "query registered", "the fetch helper registers its iterator in Handler.tracked", f.Pos(), registers, "no store into Handler.tracked")
	n := 0
	var gos []*ast.GoStmt
	f.WalkBody(func(nd ast.Node) bool {
		if gs, ok := nd.(*ast.GoStmt); ok {
			gos = append(gos, gs)
		}
		return true
	})
	for _, gs := range gos {
		lit, ok := ast.Unparen(gs.Call.Fun).(*ast.FuncLit)
		if !ok {
			continue
		}
		lf := c.p.FnOfLit(lit)
		if lf == nil {
			continue
		}
		n++
		lg := lf.Graph()
		isRemove := func(q eng.Point, nd ast.Node) bool {
			return lf.ContainsCall(nd, "history.Handler.remove") != nil || lf.ContainsCall(nd, "builtin.delete") != nil
		}
		var exits []eng.Point
		for _, rs := range lg.Returns {
			if p, ok := lg.Where(rs); ok {
				exits = append(exits, p)
			}
		}
		exits = append(exits, lg.Exits()...)
		bad := ""
		for _, ex := range exits {
			if lg.Reachable(lg.Entry(), ex, nil, isRemove) {
				pos := lit.Body.Rbrace
				if ex.I < len(lg.Blocks[ex.B].Nodes) {
					pos = lg.Blocks[ex.B].Nodes[ex.I].Pos()
				}
				bad = "the exit at " + c.p.Pos(pos) + " is reachable without Handler.remove"
			}
		}
		deferred := false
		for _, d := range lg.Defers {
			if lf.ContainsCall(d, "history.Handler.remove") != nil {
				if dp, ok := lg.Where(d); ok && dp.B == 0 {
					deferred = true
				}
			}
		}
		c.r.Check(id, lf, "tracking withdrawn on every exit of the waiting goroutine", "E-res: every exit of the goroutine that waits for the end of the query passes Handler.remove (which closes the iterator's channel)", lit.Pos(), bad == "" || deferred, bad+": the iterator never ends and a late result wedges the serve loop")
	}
	c.r.Floor(id, "goroutines started by the fetch helper", n, 1)
}
