package rules

import (
	"go/ast"
	"go/token"
	"go/types"
	"reflect"
	"strings"

	"verif/checker/eng"
)

// r17ReaderHandsOnTheDecodersError (C08.27 / C10.22): the session's locked
// reader returns what the decoder returned: the only io.EOF it ever yields is
// the decoder's own (the stream-level filter above it turns </stream:stream>
// into io.EOF, nothing else does). A connection that was closed under the
// reader ("there is simply nothing left to read") is an error: mapped to
// io.EOF it ends a handler's element early and makes Serve return nil as if
// the peer had closed its stream.
func r17ReaderHandsOnTheDecodersError(c *cx, id string) {
	f := c.fn(id, "", "(*lockReadCloser).Token")
	if f == nil {
		return
	}
	bad := ""
	f.WalkBody(func(nd ast.Node) bool {
		switch x := nd.(type) {
		case *ast.ReturnStmt:
			if len(x.Results) == 2 && f.Norm(x.Results[1], nil) == "var:io.EOF" {
				bad = "returns io.EOF itself at " + f.Prog.Pos(x.Pos())
			}
		case *ast.AssignStmt:
			for _, r := range x.Rhs {
				if f.Norm(r, nil) == "var:io.EOF" {
					bad = "assigns io.EOF at " + f.Prog.Pos(x.Pos())
				}
			}
		}
		return true
	})
	c.r.Check(id, f, "io.EOF produced by the locked reader", "K: lockReadCloser.Token never manufactures io.EOF", f.Pos(), bad == "", bad)
}

// r17HashIsAppendHash (C20.27): Hash and AppendHash with an empty destination
// give the same string for every value: Hash has one return, unconditional,
// and it is string(AppendHash(nil, h)). A special case ("nothing advertised:
// return the empty string") makes the two differ for the empty value.
func r17HashIsAppendHash(c *cx, id string) {
	f := c.fn(id, "disco", "Info.Hash")
	if f == nil {
		return
	}
	g := f.Graph()
	ok := len(g.Returns) == 1
	why := ""
	if !ok {
		why = "Hash has more than one return"
	} else {
		pt, _ := g.Where(g.Returns[0])
		if len(g.FactsAt(pt)) > 0 {
			ok, why = false, "the return is conditional: "+strings.Join(g.FactsAt(pt), " ; ")
		}
		v := f.Norm(g.Returns[0].Results[0], &pt)
		if !strings.Contains(v, "disco.Info.AppendHash[recv](nil,p0)") {
			ok, why = false, "returns "+v
		}
	}
	c.r.Check(id, f, "Hash is AppendHash with an empty destination", "K: one unconditional return of string(i.AppendHash(nil, h))", f.Pos(), ok, why)
}

// r17ConfigRefreshedIntoTheSharedVariable (C12.21): the default negotiator asks
// the configuration function again in every step and keeps the answer in the
// variable the NEXT step's stream header is built from (language, addresses
// come from it): the refresh is a plain assignment to the captured
// configuration, not a := that shadows it for the rest of the step.
func r17ConfigRefreshedIntoTheSharedVariable(c *cx, id string) {
	nf := c.fn(id, "", "negotiator")
	if nf == nil {
		return
	}
	f := c.lit(id, nf, 1)
	if f == nil {
		return
	}
	n := 0
	f.WalkBody(func(nd ast.Node) bool {
		as, ok := nd.(*ast.AssignStmt)
		if !ok || len(as.Rhs) != 1 || len(as.Lhs) != 1 {
			return true
		}
		cl, ok := ast.Unparen(as.Rhs[0]).(*ast.CallExpr)
		if !ok {
			return true
		}
		if t := f.Info().TypeOf(as.Lhs[0]); t == nil || eng.TypeStr(t) != "xmpp.StreamConfig" {
			return true
		}
		if fv := rootLocal(f, cl.Fun); fv == nil {
			return true
		}
		n++
		v := rootLocal(f, as.Lhs[0])
		captured := v != nil && !(f.Lit.Pos() <= v.Pos() && v.Pos() < f.Lit.End())
		c.r.Check(id, f, "refresh of the stream configuration", "W: the answer of the configuration function is stored into the configuration the negotiator keeps between steps", as.Pos(), as.Tok == token.ASSIGN && captured, "the answer is kept in a variable of this step only: the next stream header is written from the configuration of the first call (stale xml:lang)")
		return true
	})
	c.r.Floor(id, "refreshes of the stream configuration in the negotiator", n, 1)
}

// r17BindPayloadNamespaced (C12.22): the initiator takes its bound address from
// the <bind/> child of the reply in the bind namespace, and from nothing else:
// every child-element field of the bind reply types names its namespace in the
// struct tag (a tag that lost it accepts <bind xmlns='urn:example:not-bind'>).
func r17BindPayloadNamespaced(c *cx, id string) {
	pk := c.p.Pkg("")
	if pk == nil {
		c.r.Unresolved(id, "package xmpp")
		return
	}
	n := 0
	for _, file := range pk.Syntax {
		if !strings.HasSuffix(c.p.Fset.Position(file.Pos()).Filename, "bind.go") {
			continue
		}
		ast.Inspect(file, func(nd ast.Node) bool {
			st, ok := nd.(*ast.StructType)
			if !ok || st.Fields == nil {
				return true
			}
			for _, fld := range st.Fields.List {
				if fld.Tag == nil {
					continue
				}
				tag := reflect.StructTag(strings.Trim(fld.Tag.Value, "`")).Get("xml")
				parts := strings.Split(tag, ",")
				if parts[0] == "" || tag == "-" {
					continue
				}
				isAttr := false
				for _, o := range parts[1:] {
					if o == "attr" || o == "chardata" || o == "innerxml" {
						isAttr = true
					}
				}
				if isAttr {
					continue
				}
				local := parts[0]
				if i := strings.LastIndex(local, " "); i >= 0 {
					local = local[i+1:]
				}
				if local != "bind" {
					continue
				}
				n++
				c.r.CheckNamed(id, "xmpp", "struct tag of the bind payload", "K: the bind child is selected by namespace and name", fld.Pos(), strings.Contains(parts[0], "urn:ietf:params:xml:ns:xmpp-bind "), "tag is "+tag+": a child called bind in any namespace is taken for the answer")
			}
			return true
		})
	}
	c.r.Floor(id, "bind child fields in bind.go", n, 1)
}

// r17HandleRefusesOnlyWhatItMust (C14.15): registering a top-level pattern is
// refused (panic) for a nil handler, a stanza name and a duplicate - nothing
// else: every panic of the Handle option is reached only under facts about
// those three. A further refusal (a namespace wildcard for the mux's own
// stanza namespace) takes the namespace-only level of the lookup away from a
// component's <handshake/> handler.
func r17HandleRefusesOnlyWhatItMust(c *cx, id string) {
	hf := c.fn(id, "mux", "Handle")
	if hf == nil {
		return
	}
	n := 0
	for _, f := range append([]*eng.Fn{hf}, hf.Lits...) {
		for _, cl := range f.Calls("builtin.panic") {
			n++
			pt, ok := f.Graph().Where(cl)
			if !ok {
				continue
			}
			var extra []string
			for _, a := range f.Graph().FactsAt(pt) {
				switch {
				case strings.Contains(a, "stanza.Is("), strings.Contains(a, ".patterns["), strings.Contains(a, "eq(") && strings.HasSuffix(a, ",nil)"), strings.Contains(a, "reflect."), strings.Contains(a, "Stanza") && strings.Contains(a, ".Local"):
				case strings.HasPrefix(a, "!"), strings.HasPrefix(a, "or("):
					// negations of earlier refusals
				default:
					extra = append(extra, a)
				}
			}
			c.r.Check(id, f, "refusal of a registration", "G(exact): a top-level registration is refused for a nil handler, a stanza name or a duplicate only", cl.Pos(), len(extra) == 0, "also refused when "+strings.Join(extra, " ; "))
		}
	}
	c.r.Floor(id, "refusals in mux.Handle", n, 2)
}

// r17ListenersUnderTheirOwnAddress (C15.32): an <open/> is accepted by the
// listener of the address it was sent to (or by the one registered under the
// empty address by the application); Handler.Listen stores the new listener
// under the session's own address and under nothing else. A listener that is
// also stored under "" answers opens for addresses nobody listens on, and
// survives its own Close.
func r17ListenersUnderTheirOwnAddress(c *cx, id string) {
	f := c.fn(id, "ibb", "(*Handler).Listen")
	if f == nil {
		return
	}
	n := 0
	for _, mu := range f.MapUpdates() {
		if cls, ok := f.FieldClass(mu.Map); !ok || cls != "ibb.Handler.l" || mu.Delete {
			continue
		}
		n++
		pt, _ := f.Graph().Where(mu.Node)
		k := f.Norm(mu.Key, &pt)
		c.r.Check(id, f, "key a listener is stored under", "P: the string form of the session's local address", mu.Node.Pos(), strings.Contains(k, "LocalAddr[") && strings.Contains(k, "String["), "stored under "+k)
	}
	c.r.Floor(id, "stores into Handler.l in Listen", n, 1)
}

// r17IteratorCloseReleases (C09.34 / C06.37): Close of an iterator that wraps
// another (bookmarks over pubsub, blocklist over xmlstream) closes the inner
// one whenever there is one: the call of the inner Close is skipped only on
// the edge "inner == nil". An extra reason to skip it ("a failed iterator
// holds nothing") leaves the IQ response of a failed fetch unreleased: the
// serve loop waits for it for ever.
func r17IteratorCloseReleases(c *cx, id string) int {
	n := 0
	for _, f := range c.allFns() {
		if f.Decl == nil || f.Decl.Recv == nil || f.Decl.Name.Name != "Close" || !strings.HasSuffix(f.Short, "Iter).Close") {
			continue
		}
		g := f.Graph()
		for _, cl := range f.AllCalls() {
			sel, ok := ast.Unparen(cl.Fun).(*ast.SelectorExpr)
			if !ok || sel.Sel.Name != "Close" {
				continue
			}
			inner := f.Norm(sel.X, nil)
			if !strings.HasPrefix(inner, "recv.") {
				continue
			}
			n++
			pt, _ := g.Where(cl)
			var extra []string
			for _, a := range g.FactsAt(pt) {
				if a == "!eq("+inner+",nil)" {
					continue
				}
				extra = append(extra, a)
			}
			c.r.Check(id, f, "inner iterator closed", "G(exact): the inner Close is skipped only when there is no inner iterator", cl.Pos(), len(extra) == 0, "also skipped unless "+strings.Join(extra, " ; ")+": the response behind the inner iterator is never released")
		}
	}
	return n
}

// r17NegotiatorStateOnlyFromTheNegotiator (C01.27 / C02.25): what the
// negotiator remembers between steps (its first-list indicator, the tee's
// cancel function) travels through negotiateSession untouched: the local that
// is handed to the negotiator as its state is written by the negotiator call
// itself and by nothing else. A reset on restart ("nothing remembered about
// the old stream is valid") re-arms the first-list indicator: the forced
// STARTTLS attempt is made again on a later list.
func r17NegotiatorStateOnlyFromTheNegotiator(c *cx, id string) {
	f := c.fn(id, "", "negotiateSession")
	if f == nil {
		return
	}
	g := f.Graph()
	n := 0
	for _, cl := range f.AllCalls() {
		if t := f.Info().TypeOf(cl.Fun); t == nil || eng.TypeStr(t) != "xmpp.Negotiator" || len(cl.Args) == 0 {
			continue
		}
		v := g.LocalVar(cl.Args[len(cl.Args)-1])
		if v == nil {
			c.r.Check(id, f, "negotiator state argument", "the state handed to the negotiator is a local variable", cl.Pos(), false, "argument is "+f.Norm(cl.Args[len(cl.Args)-1], nil))
			continue
		}
		for _, d := range g.DefsOf(v) {
			if d.Kind == eng.DefZero || d.Kind == eng.DefParam {
				continue
			}
			n++
			okd := d.Kind == eng.DefTuple && d.RHS != nil && ast.Unparen(d.RHS) == ast.Expr(cl)
			c.r.Check(id, f, "write of the negotiator's state variable", "W: only the negotiator call itself stores into the state it is handed back", d.Node.Pos(), okd, "written by "+f.Prog.NodeStr(d.Node)+": what the negotiator remembered (the first-list indicator) is lost between steps")
		}
	}
	c.r.Floor(id, "writes of the negotiator's state variable", n, 1)
}

// r17ParsedDataAlwaysRecorded (C03.18 / C01.28): the data a feature's Parse
// returns for THIS features list (the SASL mechanisms the receiver offers now)
// is what Negotiate gets: readStreamFeatures stores it into Session.features
// whenever it caches the feature; the store does not depend on what the map
// held before (a "keep the first" guard hands the mechanism list of an earlier
// list of the same stream to the SASL feature).
func r17ParsedDataAlwaysRecorded(c *cx, id string) {
	f := c.fn(id, "", "readStreamFeatures")
	if f == nil {
		return
	}
	g := f.Graph()
	n := 0
	for _, mu := range f.MapUpdates() {
		if cls, ok := f.FieldClass(mu.Map); !ok || cls != "xmpp.Session.features" || mu.Delete {
			continue
		}
		if mu.Value == nil || f.Norm(mu.Value, nil) == "nil" {
			continue
		}
		n++
		pt, _ := g.Where(mu.Node)
		var bad []string
		for _, a := range g.FactsAt(pt) {
			if strings.Contains(a, ".features[") && !strings.HasPrefix(a, "!commaok(") && !strings.HasPrefix(a, "commaok(") {
				bad = append(bad, a)
			}
		}
		c.r.Check(id, f, "parsed data recorded", "G: the store of Parse's data does not depend on the previous content of Session.features", mu.Node.Pos(), len(bad) == 0, "stored only if "+strings.Join(bad, " ; ")+": Negotiate gets the data of an earlier features list")
	}
	c.r.Floor(id, "stores of parsed data into Session.features", n, 1)
}

// r17RefusalTableComplete (C15.33): a data packet is refused for four reasons
// (unknown session, out of sequence, buffer overflow, undecodable data) and
// for no other: handlePayload writes exactly one stanza error per reason. A
// fifth refusal ("more than the block size") rejects what the library's own
// sender emits for block sizes 1 and 2 (whole base64 groups).
func r17RefusalTableComplete(c *cx, id string) {
	f := c.fn(id, "ibb", "handlePayload")
	if f == nil {
		return
	}
	n := len(f.CallsDeep("ibb.errorResponder.Error"))
	c.r.Check(id, f, "number of refusals", "T: four refusal replies, one per row of the table of C15.2", f.Pos(), n == 4, "handlePayload writes "+itoaPos(token.Pos(n))+" different refusals")
}

// r17FailedParseResultUnused (C07.23): when stanza.NewIQ / NewMessage /
// NewPresence report an error, the value they return is whatever had been
// filled in before the attribute that failed - its Type, ID and addresses are
// not the stanza's. On the error edge of such a call in the multiplexer the
// value is not used: a router that decides "this is a result, do not answer"
// by the Type of a half-parsed IQ answers <iq to="@@" type="result"/> with an
// error IQ.
func r17FailedParseResultUnused(c *cx, id string) int {
	n := 0
	for _, f := range c.allFns() {
		if !strings.HasPrefix(f.Short, "mux.") {
			continue
		}
		g := f.Graph()
		for _, callee := range []string{"stanza.NewIQ", "stanza.NewMessage", "stanza.NewPresence"} {
			for _, cl := range f.Calls(callee) {
				as, ok := g.Parent(cl).(*ast.AssignStmt)
				if !ok || len(as.Lhs) != 2 {
					continue
				}
				val := g.LocalVar(as.Lhs[0])
				if val == nil {
					continue
				}
				cp, _ := g.Where(cl)
				nrm := f.Norm(cl, &cp)
				for _, ce := range g.EdgesMatching("!eq(" + nrm + "#1,nil)") {
					n++
					bad := ""
					for _, nd := range g.ReachableNodes(g.EdgeTarget(ce.E), nil) {
						ast.Inspect(nd, func(x ast.Node) bool {
							if idn, ok := x.(*ast.Ident); ok && f.Info().Uses[idn] == val {
								bad = f.Prog.NodeStr(nd) + " at " + f.Prog.Pos(nd.Pos())
							}
							return bad == ""
						})
					}
					c.r.Check(id, f, "value of a failed "+callee, "G: on the error edge of the parse the half-filled stanza value is not used", cl.Pos(), bad == "", "used in "+bad)
				}
			}
		}
	}
	return n
}

// r17RuneLengthsInBytes (C17.16): token boundaries are byte offsets. A function
// of the styling package that walks the characters of its input with a range
// over a string and counts with ++ counts characters: for a non-ASCII white
// space after '>' the quote-start token then ends in the middle of a UTF-8
// sequence, and where depends on how the reads were split.
func r17RuneLengthsInBytes(c *cx, id string) int {
	n := 0
	for _, f := range c.allFns() {
		if !strings.HasPrefix(f.Short, "styling.") {
			continue
		}
		f.WalkBody(func(nd ast.Node) bool {
			rs, ok := nd.(*ast.RangeStmt)
			if !ok {
				return true
			}
			t := f.Info().TypeOf(rs.X)
			if t == nil || t.Underlying().String() != "string" {
				return true
			}
			n++
			bad := ""
			ast.Inspect(rs.Body, func(x ast.Node) bool {
				if inc, ok := x.(*ast.IncDecStmt); ok && inc.Tok == token.INC {
					bad = f.Prog.NodeStr(inc)
				}
				return true
			})
			c.r.Check(id, f, "length counted over the characters of a string", "K: lengths that become token boundaries advance by the byte size of each character", rs.Pos(), bad == "", bad+" counts characters, not bytes")
			return true
		})
	}
	return n
}

// r17NoHiddenGlobalState (C13.39 / C19.51): the codecs of the library are
// functions of their arguments: no function of the module stores into a
// package-level variable (directly, through a field or element of it, or by
// calling Store / Put / LoadOrStore on a package-level sync value). What is
// stored there by one call is read by the next - on any session, in any
// goroutine: an address cache keyed by a case-folded string hands the second
// stanza the first one's address; a pool hands out a buffer that is still
// being read. Package-level tables are initialised where they are declared.
func r17NoHiddenGlobalState(c *cx, id string) int {
	n := 0
	global := func(f *eng.Fn, e ast.Expr) string {
		for {
			switch x := ast.Unparen(e).(type) {
			case *ast.SelectorExpr:
				if v, ok := f.Info().Uses[x.Sel].(*types.Var); ok && !v.IsField() && !eng.IsLocal(v) && v.Pkg() != nil && strings.HasPrefix(v.Pkg().Path(), eng.ModPath) {
					return v.Pkg().Name() + "." + v.Name()
				}
				e = x.X
			case *ast.IndexExpr:
				e = x.X
			case *ast.StarExpr:
				e = x.X
			case *ast.Ident:
				if v, ok := f.Info().Uses[x].(*types.Var); ok && !eng.IsLocal(v) && !v.IsField() && v.Pkg() != nil && strings.HasPrefix(v.Pkg().Path(), eng.ModPath) {
					return v.Pkg().Name() + "." + v.Name()
				}
				return ""
			default:
				return ""
			}
		}
	}
	for _, f := range c.allFns() {
		n++
		bad := ""
		for _, w := range f.Writes() {
			if gname := global(f, w.LHS); gname != "" {
				bad = "stores into " + gname + " at " + f.Prog.Pos(w.Stmt.Pos())
			}
		}
		for _, cl := range f.AllCalls() {
			sel, ok := ast.Unparen(cl.Fun).(*ast.SelectorExpr)
			if !ok {
				continue
			}
			switch sel.Sel.Name {
			case "Store", "Put", "LoadOrStore", "Swap", "CompareAndSwap", "Delete":
				if gname := global(f, sel.X); gname != "" && strings.HasPrefix(f.CalleeID(cl), "sync") {
					bad = "calls " + f.CalleeID(cl) + " on " + gname + " at " + f.Prog.Pos(cl.Pos())
				}
			}
		}
		if bad != "" {
			c.r.Check(id, f, "package-level state", "W: no function of the module writes package-level state", f.Pos(), false, f.Short+" "+bad+": what one call leaves there changes the result of another")
		}
	}
	c.r.Check(id, nil, "functions scanned for stores into package-level variables", "W: no function of the module writes package-level state", token.NoPos, true, "")
	return n
}

// r17StanzaTypesAreNotMarshalers (C13.40): the three stanza types are headers:
// they are embedded in payload structs (struct{ stanza.Presence; X ... }) and
// the two encodings of such a struct - reflection by encoding/xml, and the
// module's marshal helpers - must agree. A TokenReader, WriteXML, MarshalXML
// or UnmarshalXML method on IQ, Message or Presence is promoted into every
// struct that embeds the type: the helpers then encode the bare stanza and
// silently drop the payload, while xml.Marshal keeps it. The method sets of the
// three types contain none of the marshaler methods.
func r17StanzaTypesAreNotMarshalers(c *cx, id string) {
	pk := c.p.Pkg("stanza")
	if pk == nil {
		c.r.Unresolved(id, "package stanza")
		return
	}
	n := 0
	for _, tn := range []string{"IQ", "Message", "Presence"} {
		obj := pk.Types.Scope().Lookup(tn)
		if obj == nil {
			c.r.Unresolved(id, "type stanza."+tn)
			continue
		}
		n++
		var bad []string
		for _, t := range []types.Type{obj.Type(), types.NewPointer(obj.Type())} {
			ms := types.NewMethodSet(t)
			for i := 0; i < ms.Len(); i++ {
				switch m := ms.At(i).Obj().Name(); m {
				case "TokenReader", "WriteXML", "MarshalXML", "UnmarshalXML":
					bad = append(bad, m)
				}
			}
		}
		c.r.CheckNamed(id, "stanza."+tn, "marshaler methods of the stanza type", "K: none (the type is embedded in payload structs; a promoted marshaler hides their payload)", obj.Pos(), len(bad) == 0, "has "+strings.Join(bad, ", "))
	}
	c.r.Floor(id, "stanza types examined", n, 3)
}

// r17BorrowedReaderNotClosed (C06.38): stanza.UnmarshalError / UnmarshalIQError
// read an error out of a response that their CALLER owns and closes
// (UnmarshalIQ, IterIQ, the MUC join and leave goroutines all do). They close
// nothing: xmlstream.Iter.Close closes the reader the iterator was built on,
// and a response closed twice is a close of a closed channel in the caller.
func r17BorrowedReaderNotClosed(c *cx, id string) {
	n := 0
	for _, name := range []string{"UnmarshalError", "UnmarshalIQError"} {
		f := c.fn(id, "stanza", name)
		if f == nil {
			continue
		}
		n++
		bad := ""
		for _, cl := range f.AllCalls() {
			if sel, ok := ast.Unparen(cl.Fun).(*ast.SelectorExpr); ok && sel.Sel.Name == "Close" {
				bad = f.CalleeID(cl) + " at " + f.Prog.Pos(cl.Pos())
			}
		}
		c.r.Check(id, f, "closes in a function that borrows its reader", "K: none (the caller closes the response)", f.Pos(), bad == "", "calls "+bad+": the response is closed a second time by its owner")
	}
	c.r.Floor(id, "error decoders of package stanza", n, 2)
}

// r17FoundErrorNotOverwritten (C04.17): once a negotiation step has found an
// error (the code is on a path behind `err != nil`), that error is what the
// step returns: the variable is not assigned the result of another call that
// does not take it as an argument. "Open our own stream first, so that the
// error can be delivered" written as `err = Send(...)` replaces the header
// error by the nil of a successful Send: the negotiation goes on as if the
// header had been fine.
func r17FoundErrorNotOverwritten(c *cx, id string, fns []*eng.Fn) int {
	n := 0
	for _, f := range fns {
		g := f.Graph()
		f.WalkBody(func(nd ast.Node) bool {
			as, ok := nd.(*ast.AssignStmt)
			if !ok || as.Tok != token.ASSIGN || len(as.Rhs) != 1 {
				return true
			}
			if _, isCall := ast.Unparen(as.Rhs[0]).(*ast.CallExpr); !isCall {
				return true
			}
			pt, ok := g.Where(as)
			if !ok {
				return true
			}
			for _, l := range as.Lhs {
				v := g.LocalVar(l)
				if v == nil || !isErrorType(v.Type()) {
					continue
				}
				mentions := false
				ast.Inspect(as.Rhs[0], func(x ast.Node) bool {
					if idn, ok := x.(*ast.Ident); ok && f.Info().Uses[idn] == types.Object(v) {
						mentions = true
					}
					return !mentions
				})
				if mentions {
					continue // wrapping / conversion of the error itself
				}
				n++
				cur := f.Norm(l, &pt)
				okd := true
				if !strings.HasPrefix(cur, "local:") {
					if dom, _ := g.DominatedAny(pt, []string{"!eq(" + cur + ",nil)"}); dom {
						okd = false
					}
				}
				c.r.Check(id, f, "assignment to an error variable", "G: an error variable is not given the result of another call on a path on which it is known to hold an error", as.Pos(), okd, "the error of "+cur+" is known to be non-nil here and is replaced by the result of "+f.Prog.NodeStr(as.Rhs[0])+": a failure of the step is turned into the success of the clean-up")
			}
			return true
		})
	}
	return n
}

// r17HashVocabularyAgrees (C19.52): the hash functions XEP-0300 names are
// handled by four functions of package crypto - Parse (name -> Hash), String
// (Hash -> name), Namespace and the allow-list of MarshalXMLAttr. They know
// the same set: every Hash constant that Parse can return is in the case lists
// of the other three (a function that Parse accepts but MarshalXMLAttr refuses
// decodes and cannot be encoded again; HashOutput.TokenReader panics on it).
func r17HashVocabularyAgrees(c *cx, id string) {
	sets := map[string]map[string]bool{}
	for _, a := range []struct{ key, name string }{{"Parse", "Parse"}, {"String", "Hash.String"}, {"Namespace", "Hash.Namespace"}, {"MarshalXMLAttr", "Hash.MarshalXMLAttr"}} {
		f := c.fn(id, "crypto", a.name)
		if f == nil {
			continue
		}
		set := map[string]bool{}
		f.WalkBody(func(nd ast.Node) bool {
			if idn, ok := nd.(*ast.Ident); ok {
				if k, ok := f.Info().Uses[idn].(*types.Const); ok && eng.TypeStr(k.Type()) == "crypto.Hash" {
					set[k.Name()] = true
				}
			}
			return true
		})
		sets[a.key] = set
	}
	ref := sets["Parse"]
	c.r.Floor(id, "hash functions Parse knows", len(ref), 5)
	for _, k := range []string{"String", "Namespace", "MarshalXMLAttr"} {
		var missing []string
		for name := range ref {
			if !sets[k][name] {
				missing = append(missing, name)
			}
		}
		for name := range sets[k] {
			if !ref[name] {
				missing = append(missing, "+"+name)
			}
		}
		sortStrings(missing)
		c.r.CheckNamed(id, "crypto."+k, "hash functions handled", "T: the same set of Hash constants as Parse", token.NoPos, len(missing) == 0, "differs from Parse in: "+strings.Join(missing, ", "))
	}
}

func sortStrings(s []string) {
	for i := 1; i < len(s); i++ {
		for j := i; j > 0 && s[j] < s[j-1]; j-- {
			s[j], s[j-1] = s[j-1], s[j]
		}
	}
}

// r17NegotiationWritesThroughTheTokenWriter (C04.18): during negotiation the
// connection's deadlines belong to negotiateSession's watcher, which keeps the
// expired deadline in force from the moment the context ends until the step
// returns. The transmit API of an established session (Send, Encode, SendIQ
// and their variants) arms a watcher of its own that RESETS the write deadline
// when its context ends: called from a feature's Negotiate it wipes out the
// expired deadline and the cancelled negotiation blocks in the write for
// ever. Negotiation code writes through Session.TokenWriter (or the
// connection); no function of the negotiation set calls the transmit API.
func r17NegotiationWritesThroughTheTokenWriter(c *cx, id string, fns []*eng.Fn) int {
	n := 0
	for _, f := range fns {
		n++
		bad := ""
		for _, cl := range f.AllCalls() {
			cid := f.CalleeID(cl)
			if !strings.HasPrefix(cid, "xmpp.Session.") {
				continue
			}
			m := strings.TrimPrefix(cid, "xmpp.Session.")
			if strings.HasPrefix(m, "Send") || strings.HasPrefix(m, "Encode") || strings.HasPrefix(m, "UnmarshalIQ") || strings.HasPrefix(m, "IterIQ") {
				bad = cid + " at " + f.Prog.Pos(cl.Pos())
			}
		}
		if bad != "" {
			c.r.Check(id, f, "transmit API used during negotiation", "C: negotiation code does not call Session.Send* / Encode* (their deadline watcher resets the write deadline that cancellation relies on)", f.Pos(), false, "calls "+bad)
		}
	}
	c.r.Check(id, nil, "negotiation functions scanned for calls of the transmit API", "C: negotiation code does not call Session.Send* / Encode*", token.NoPos, true, "")
	return n
}

// r17RawTokenReaderStateless (C13.41): the reader that turns the raw tokens of
// the standard marshaller's output into tokens for the session rewrites the
// xml: prefix on EVERY start element that carries it (a stanza's own xml:lang,
// a second <body xml:lang=...>, the texts of a stanza error): its Token method
// keeps nothing between tokens - it stores into no field of its receiver.
func r17RawTokenReaderStateless(c *cx, id string) {
	n := 0
	for _, f := range c.allFns() {
		if !strings.HasPrefix(f.Short, "internal/marshal.") || !strings.Contains(f.Short, "rawTokenReader") {
			continue
		}
		n++
		bad := ""
		for _, w := range f.Writes() {
			if k, isF := f.FieldClass(w.LHS); isF && strings.HasPrefix(k, "internal/marshal.rawTokenReader.") {
				bad = "stores into " + k + " at " + f.Prog.Pos(w.Stmt.Pos())
			}
		}
		c.r.Check(id, f, "state of the raw token reader", "E-eff: no method of rawTokenReader stores into the receiver", f.Pos(), bad == "", bad+": what it did for one element changes what it does for the next")
	}
	c.r.Floor(id, "methods of rawTokenReader", n, 1)
}

// r17JoinOptionsPerCall (C18.29): the options of a join (nickname, password,
// history) belong to that call: JoinPresence starts from an empty
// configuration - its local of type muc.config is defined by a composite
// literal - and applies the options it was given. A configuration kept on the
// channel from the previous join makes a Nick option stick: after a refused
// nickname a plain rejoin asks for the refused address again.
func r17JoinOptionsPerCall(c *cx, id string) {
	f := c.fn(id, "muc", "(*Channel).JoinPresence")
	if f == nil {
		return
	}
	g := f.Graph()
	n := 0
	for _, d := range g.AllDefs() {
		if eng.TypeStr(d.Var.Type()) != "muc.config" || d.Kind == eng.DefParam {
			continue
		}
		if d.Kind == eng.DefOpaque {
			continue // fields set by the options
		}
		n++
		okd := d.Kind == eng.DefZero
		if d.Kind == eng.DefPlain && d.RHS != nil {
			_, okd = ast.Unparen(d.RHS).(*ast.CompositeLit)
		}
		c.r.Check(id, f, "configuration of a join", "K: built afresh for every call (composite literal or zero value)", d.Node.Pos(), okd, "defined by "+f.Prog.NodeStr(d.Node)+": options of an earlier join are applied again")
	}
	c.r.Floor(id, "join configurations in JoinPresence", n, 1)
}
