package rules

import (
	"go/ast"
	"go/token"
	"go/types"
	"sort"
	"strconv"
	"strings"

	"golang.org/x/tools/go/callgraph"
	"golang.org/x/tools/go/ssa"
	"golang.org/x/tools/go/types/typeutil"

	"verif/checker/eng"
)

// waitAPI: the session methods that block until a correlated reply arrives
// (all of them end in Session.sendResp's select on the hand-off channel).
func isWaitAPI(name string) bool {
	if !strings.HasPrefix(name, "xmpp.(*Session).") {
		return false
	}
	m := strings.TrimPrefix(name, "xmpp.(*Session).")
	for _, p := range []string{"SendIQ", "UnmarshalIQ", "IterIQ", "EncodeIQ", "SendMessage", "SendPresence", "EncodeMessage", "EncodePresence"} {
		if strings.HasPrefix(m, p) {
			return true
		}
	}
	return false
}

// plumbing: packages outside the module through which calls are followed
// (buffered writers, encoders and formatters that call back into the writers
// and marshalers they wrap). Everything else outside the module is a leaf.
var plumbing = map[string]bool{
	"bufio": true, "io": true, "bytes": true, "strings": true, "fmt": true, "sort": true,
	"encoding/base64": true, "encoding/hex": true, "encoding/xml": true,
	"mellium.im/xmlstream": true, "mellium.im/reader": true, "golang.org/x/text/transform": true,
}

// serveWaitAllowed lists the waits that are reachable from a handler and the
// fact that must dominate each: the fact excludes the handler context.
var serveWaitAllowed = map[string]struct{ fact, why string }{
	"ibb.(*stanzaWriter).Write|xmpp.(*Session).UnmarshalIQ": {"eq(recv.t,nil)", "stanzaWriter.t is the handler's encoder (set by Conn.flush(t) before the flush that reaches Write); it is nil exactly when the write does not come from a handler"},
}

// serveWait: E-eff. No function that runs on the serve goroutine (reachable
// from a handler entry point without crossing a `go` statement) calls one of
// the session's blocking correlated waits: the reply could only be delivered
// by the goroutine that is waiting for it.
func serveWait(c *cx, id string) {
	s := c.p.SSA()
	type item struct {
		fn   *ssa.Function
		path []*callgraph.Edge
	}
	seen := map[*ssa.Function]bool{}
	var queue []item
	nroots := 0
	for _, f := range c.allFns() {
		if f.Obj == nil || f.Sig().Recv() == nil {
			continue
		}
		switch f.Obj.Name() {
		case "HandleXMPP", "HandleIQ", "HandleMessage", "HandlePresence":
		default:
			continue
		}
		sf := s.FuncOf(f)
		if sf == nil || seen[sf] {
			continue
		}
		seen[sf] = true
		nroots++
		queue = append(queue, item{sf, nil})
	}
	c.r.Floor(id, "handler entry points", nroots, 20)
	type hit struct {
		e    *callgraph.Edge
		path []*callgraph.Edge
	}
	var hits []hit
	nfn := 0
	for len(queue) > 0 {
		it := queue[0]
		queue = queue[1:]
		n := s.Graph.Nodes[it.fn]
		if n == nil {
			continue
		}
		nfn++
		out := append([]*callgraph.Edge{}, n.Out...)
		sort.Slice(out, func(i, j int) bool {
			if out[i].Pos() != out[j].Pos() {
				return out[i].Pos() < out[j].Pos()
			}
			return out[i].Callee.Func.String() < out[j].Callee.Func.String()
		})
		for _, e := range out {
			if _, isGo := e.Site.(*ssa.Go); isGo {
				continue
			}
			cf := e.Callee.Func
			if !s.InRepo(cf) {
				pk := cf.Package()
				if pk == nil && cf.Origin() != nil {
					pk = cf.Origin().Package()
				}
				if pk != nil && !plumbing[pk.Pkg.Path()] {
					continue
				}
			}
			short := ""
			if f := s.FnOfSSA(cf); f != nil {
				short = f.Short
			}
			if isWaitAPI(short) {
				hits = append(hits, hit{e, it.path})
				continue
			}
			if seen[cf] {
				continue
			}
			seen[cf] = true
			queue = append(queue, item{cf, append(append([]*callgraph.Edge{}, it.path...), e)})
		}
	}
	c.r.Note("E-eff: %d functions reachable from %d handler entry points without crossing a go statement", nfn, nroots)
	used := map[string]bool{}
	for _, h := range hits {
		var parts []string
		for _, e := range h.path {
			parts = append(parts, strings.TrimPrefix(s.Name(e.Caller.Func), eng.ModPath+"/"))
		}
		caller := s.FnOfSSA(h.e.Caller.Func)
		callee := s.FnOfSSA(h.e.Callee.Func)
		parts = append(parts, strings.TrimPrefix(s.Name(h.e.Caller.Func), eng.ModPath+"/"), callee.Short)
		pathStr := strings.Join(parts, " -> ")
		if caller == nil {
			c.r.Check(id, nil, "wait reached from a handler through "+s.Name(h.e.Caller.Func), "E-eff: no correlated wait on the serve goroutine", h.e.Pos(), false, pathStr)
			continue
		}
		key := caller.Short + "|" + callee.Short
		construct := "call of " + callee.Short + " reachable from a handler"
		al, ok := serveWaitAllowed[key]
		if !ok {
			c.r.Check(id, caller, construct, "E-eff: no function running on the serve goroutine blocks on a correlated reply (only that goroutine could deliver it)", h.e.Pos(), false, "call path: "+pathStr)
			continue
		}
		used[key] = true
		// find the call expression at this position
		g := caller.Graph()
		done := false
		for _, cl := range caller.AllCalls() {
			if cl.Lparen != h.e.Pos() && cl.Pos() != h.e.Pos() {
				continue
			}
			pt, okp := g.Where(cl)
			if !okp {
				continue
			}
			okd, whyNot := g.Dominated(pt, al.fact)
			c.r.Check(id, caller, construct, "E-eff/G: the wait is reachable from a handler ("+pathStr+") and is therefore taken only when "+al.fact+" ("+al.why+")", cl.Pos(), okd, whyNot)
			done = true
		}
		if !done {
			c.r.Check(id, caller, construct, "E-eff/G: call site located", h.e.Pos(), false, "cannot locate the call expression in the source function")
		}
	}
	c.r.Floor(id, "guarded waits reachable from handlers", len(used), len(serveWaitAllowed))
	// support of the ibb exemption: Conn.flush records the handler's encoder
	// before the flush that reaches stanzaWriter.Write
	if fl := c.fn(id, "ibb", "(*Conn).flush"); fl != nil {
		g := fl.Graph()
		n := 0
		for _, cl := range fl.Calls("bufio.Writer.Flush") {
			pt, ok := g.Where(cl)
			if !ok {
				continue
			}
			n++
			if okd, _ := g.Dominated(pt, "eq(p0,nil)"); okd {
				continue
			}
			sets := func(q eng.Point, nd ast.Node) bool {
				as, ok := nd.(*ast.AssignStmt)
				return ok && len(as.Lhs) == 1 && len(as.Rhs) == 1 && fl.Norm(as.Lhs[0], nil) == "recv.stanzaWriter.t" && fl.Norm(as.Rhs[0], nil) == "p0"
			}
			c.r.Check(id, fl, "handler encoder recorded before the flush", "O: unless t == nil, every path to writeBuf.Flush passes stanzaWriter.t = t (the mark that stanzaWriter.Write tests)", cl.Pos(), g.MustPassBefore(g.Entry(), pt, sets, nil), "a flush with a handler encoder can reach stanzaWriter.Write with t unset: the write would wait for a reply on the serve goroutine")
		}
		c.r.Floor(id, "flushes in Conn.flush", n, 2)
	}
}

// waitKey: the id under which sendResp registers the waiter is the id on the
// wire and is never empty. For each caller of sendResp: assuming the id
// attribute read from the start element is empty, only a generated id reaches
// the call, and the generated id is stored into the start element's attribute
// on every path to the call.
func waitKey(c *cx, id string) {
	n := 0
	for _, f := range c.allFns() {
		if f.Body == nil {
			continue
		}
		for _, cl := range f.Calls("xmpp.Session.sendResp") {
			if len(cl.Args) < 4 {
				continue
			}
			n++
			g := f.Graph()
			pt, ok := g.Where(cl)
			idn, isID := ast.Unparen(cl.Args[1]).(*ast.Ident)
			if !ok || !isID {
				c.r.Check(id, f, "key passed to sendResp", "the key is a local holding the stanza id", cl.Pos(), false, "key is not a plain local: "+c.p.NodeStr(cl.Args[1]))
				continue
			}
			v, _ := f.Info().ObjectOf(idn).(*types.Var)
			if v == nil {
				continue
			}
			cut := g.CutFor(`eq(xmpp.getIDTyp(*)#2,"")`)
			defs := g.ReachingDefsCut(v, pt, cut)
			okAll := len(defs) > 0
			why := ""
			for _, d := range defs {
				call, _ := d.RHS.(*ast.CallExpr)
				if d.Kind != eng.DefPlain || call == nil || f.CalleeID(call) != "internal/attr.RandomID" {
					okAll = false
					why = "with an empty id attribute the key defined at " + c.p.Pos(d.Node.Pos()) + " reaches the registration: the waiter is registered under an id that is empty or is not the one sent"
					continue
				}
				// the generated id is written into the start element
				stored := func(q eng.Point, nd ast.Node) bool {
					as, ok := nd.(*ast.AssignStmt)
					if !ok || len(as.Lhs) != 1 || len(as.Rhs) != 1 {
						return false
					}
					r, isR := ast.Unparen(as.Rhs[0]).(*ast.Ident)
					if !isR || f.Info().ObjectOf(r) != v {
						return false
					}
					return eng.Glob("*.Attr[*].Value", f.Norm(as.Lhs[0], nil))
				}
				inLit := func(q eng.Point, nd ast.Node) bool {
					// or: appended as the value of a new id attribute
					found := false
					ast.Inspect(nd, func(x ast.Node) bool {
						if kv, ok := x.(*ast.KeyValueExpr); ok {
							if k, ok := kv.Key.(*ast.Ident); ok && k.Name == "Value" {
								if r, ok := ast.Unparen(kv.Value).(*ast.Ident); ok && f.Info().ObjectOf(r) == v {
									found = true
								}
							}
						}
						return !found
					})
					return found
				}
				via := func(q eng.Point, nd ast.Node) bool { return stored(q, nd) || inLit(q, nd) }
				if !g.MustPassBefore(g.After(d.At), pt, via, nil) {
					okAll = false
					why = "the id generated at " + c.p.Pos(d.Node.Pos()) + " can reach the registration without being stored in the start element: the reply carries an id nobody waits for"
				}
			}
			if len(defs) == 0 {
				why = "no definition of the key reaches the call under the assumption of an empty id attribute (rule cannot see the id fix-up)"
			}
			c.r.Check(id, f, "key passed to sendResp", "D: assuming the id attribute is empty, only an id from attr.RandomID() reaches the registration, and it is stored into the start element before", cl.Pos(), okAll, why)
		}
	}
	c.r.Floor(id, "callers of sendResp", n, 3)
}

// handoffDrained: after a response was offered to a waiter (taken or not),
// the serve loop reads the rest of that response before it returns to read the
// next element: every success return reachable from the definition of the
// response's inner reader passes xmlstream.Copy(_, inner). Otherwise the
// response's children are parsed as top-level stanzas (and get replies).
func handoffDrained(c *cx, id string) {
	f := c.fn(id, "", "handleInputStream")
	if f == nil {
		return
	}
	g := f.Graph()
	n := 0
	for _, d := range g.AllDefs() {
		call, _ := d.RHS.(*ast.CallExpr)
		if d.Kind != eng.DefPlain || call == nil || f.CalleeID(call) != "mellium.im/xmlstream.Inner" {
			continue
		}
		// only the reader that is handed to a waiter (used in a send on a channel)
		v := d.Var
		drains := func(q eng.Point, nd ast.Node) bool {
			cl := f.ContainsCall(nd, "mellium.im/xmlstream.Copy")
			if cl == nil || len(cl.Args) != 2 {
				return false
			}
			if idn, ok := ast.Unparen(cl.Args[1]).(*ast.Ident); ok && f.Info().ObjectOf(idn) == v {
				return true
			}
			// the drain of the handler path: the rest of the element is copied to
			// the package's discard writer
			return f.Norm(cl.Args[0], &q) == "mellium.im/xmlstream.Discard()"
		}
		for _, rs := range g.Returns {
			pt, _ := g.Where(rs)
			if g.RetKindOf(rs) == eng.RetError || !g.Reachable(g.After(d.At), pt, nil, nil) {
				continue
			}
			// returns of the other branches are not reachable from this def
			n++
			c.r.Check(id, f, "response drained before the next element", "O: every non-error return after the response's inner reader was created passes xmlstream.Copy(discard, inner)", rs.Pos(), g.MustPassBefore(g.After(d.At), pt, drains, nil), "the serve loop can go on to the next element while the response has unread children: they are read as top-level stanzas")
		}
	}
	c.r.Floor(id, "returns after the hand-off", n, 1)
}

// cancelledWaiterToHandler: when the serve loop finds a waiter for a response
// but the waiter's context is done, nobody will take the response: like every
// other response nobody waits for, it goes to the handler. From the
// ctx.Done() arm of the hand-off select every path to a non-error return
// passes the handler call.
func cancelledWaiterToHandler(c *cx, id string) {
	f := c.fn(id, "", "handleInputStream")
	if f == nil {
		return
	}
	g := f.Graph()
	isHandler := func(q eng.Point, nd ast.Node) bool { return f.ContainsCall(nd, "xmpp.Handler.HandleXMPP") != nil }
	n := 0
	for _, ce := range g.EdgesMatching("selectarm(recv context.Context.Done[*]())") {
		from := g.EdgeTarget(ce.E)
		n++
		bad := ""
		for _, rs := range g.Returns {
			pt, _ := g.Where(rs)
			if g.RetKindOf(rs) == eng.RetError {
				continue
			}
			if g.Reachable(from, pt, nil, isHandler) {
				bad = "return at " + c.p.Pos(rs.Pos()) + " is reached from the cancelled arm without calling the handler: the response is delivered to nobody"
			}
		}
		c.r.Check(id, f, "response of a cancelled waiter goes to the handler", "O: from the ctx.Done() arm of the hand-off every non-error return passes Handler.HandleXMPP", f.Pos(), bad == "", bad)
	}
	c.r.Floor(id, "cancelled arms of the hand-off", n, 1)
}

// sendErrorReturnsError: Session.sendError hands back the error it was given
// (or the error of writing it) on every path: Serve returns its result, and a
// nil here makes Serve end "without error" after a stream error, a handler
// error or a broken stream.
func sendErrorReturnsError(c *cx, id string) {
	f := c.fn(id, "", "(*Session).sendError")
	if f == nil {
		return
	}
	g := f.Graph()
	n := 0
	for _, rs := range g.Returns {
		n++
		pt, _ := g.Where(rs)
		ok := false
		why := ""
		switch {
		case len(rs.Results) == 1 && f.Norm(rs.Results[0], &pt) == "p0":
			ok = true // the error it was called with
		case g.RetKindOf(rs) == eng.RetError:
			ok = true
		default:
			why = "this return can hand back nil: Serve then returns nil although the stream ended with an error"
			if len(rs.Results) == 1 {
				why = "returns " + f.Norm(rs.Results[0], &pt) + ", which is not established non-nil here: " + why
			}
		}
		c.r.Check(id, f, "sendError returns an error", "P: every return of sendError yields the error it was given or an error established non-nil", rs.Pos(), ok, why)
	}
	c.r.Floor(id, "returns of sendError", n, 3)
	// a stream error is returned as such: where the error that sendError was
	// given is a stream error (errors.As established), every return hands back
	// that error, not the error of trying to send or echo it (a received error
	// without a defined condition cannot be encoded again; the peer that sent
	// an error has usually gone)
	ns := 0
	for _, rs := range g.Returns {
		pt, _ := g.Where(rs)
		if okAs, _ := g.Dominated(pt, "errors.As(p0,*)"); !okAs {
			continue
		}
		ns++
		okr := len(rs.Results) == 1 && f.Norm(rs.Results[0], &pt) == "p0"
		c.r.Check(id, f, "a stream error is returned as such", "P: in the arm of errors.As(err, &stream.Error{}) every return yields the error that was given", rs.Pos(), okr, "returns another error in place of the stream error: Serve's caller cannot tell that the session ended with a stream error")
	}
	c.r.Floor(id, "returns in the stream error arm of sendError", ns, 1)
}

// staleNotification (C18.10/C06.12): Channel.depart is a one-slot notification
// channel that HandlePresence fills for EVERY unavailable self-presence, also
// when nobody waits for one (the occupant was removed from the room). A wait
// that would accept such a left-over token as the answer to its own request
// returns before the room has answered. In LeavePresence every path to the
// goroutine that sends the leave presence passes a non-blocking receive that
// empties the slot.
func staleNotification(c *cx, id string) {
	f := c.fn(id, "muc", "(*Channel).LeavePresence")
	if f == nil {
		return
	}
	g := f.Graph()
	isDrain := func(q eng.Point, nd ast.Node) bool {
		sel, ok := nd.(*ast.SelectStmt)
		if !ok {
			// go/cfg splits a select into its comm clauses: look at the parent
			if p, isSel := g.Parent(nd).(*ast.CommClause); isSel {
				if ss, ok := g.Parent(g.Parent(p)).(*ast.SelectStmt); ok {
					sel = ss
				}
			}
		}
		if sel == nil {
			return false
		}
		hasDef, hasRecv := false, false
		for _, cc := range sel.Body.List {
			cl := cc.(*ast.CommClause)
			if cl.Comm == nil {
				hasDef = true
				continue
			}
			ast.Inspect(cl.Comm, func(x ast.Node) bool {
				if u, ok := x.(*ast.UnaryExpr); ok && u.Op == token.ARROW && chanClass(f, u.X, 0) == "muc.Channel.depart" {
					hasRecv = true
				}
				return true
			})
		}
		return hasDef && hasRecv && len(sel.Body.List) == 2
	}
	n := 0
	for _, gs := range f.Body.List {
		_ = gs
	}
	f.WalkBody(func(nd ast.Node) bool {
		gst, ok := nd.(*ast.GoStmt)
		if !ok {
			return true
		}
		lit, ok := ast.Unparen(gst.Call.Fun).(*ast.FuncLit)
		if !ok {
			return true
		}
		sends := false
		ast.Inspect(lit.Body, func(x ast.Node) bool {
			if cl, ok := x.(*ast.CallExpr); ok && strings.HasPrefix(f.CalleeID(cl), "xmpp.Session.SendPresence") {
				sends = true
			}
			return !sends
		})
		if !sends {
			return true
		}
		n++
		pt, okp := g.Where(gst)
		c.r.Check(id, f, "departure slot emptied before the leave presence is sent", "O: every path to the goroutine that sends the leave presence passes `select { case <-c.depart: default: }`", gst.Pos(), okp && g.MustPassBefore(g.Entry(), pt, isDrain, nil), "a departure recorded earlier (nobody waited for it) is taken for the answer to this request: Leave returns before the room has answered")
		return true
	})
	c.r.Floor(id, "leave requests in LeavePresence", n, 1)
}

// serveLockAllowed: acquisitions of a wait-held lock that are reachable from a
// handler, with the fact that must dominate each (it excludes the handler
// context).
var serveLockAllowed = map[string]struct{ fact, why string }{
	"ibb.(*Conn).flush|ibb.Conn.writeLock": {"eq(p0,nil)", "flush(t) is called with the handler's encoder (non-nil) on the serve goroutine; only the application's Flush passes nil"},
}

// serveLockWait: E-eff + E-lock. A mutex that some function holds while it
// waits for a correlated reply (the must-lockset at a call from which one of
// the session's wait APIs is reachable is not empty) is never acquired on the
// serve goroutine: the holder's reply can only be delivered by the goroutine
// that would then be waiting for the holder's lock.
func serveLockWait(c *cx, id string) {
	s := c.p.SSA()
	pkgOf := func(fn *ssa.Function) string {
		pk := fn.Package()
		if pk == nil && fn.Origin() != nil {
			pk = fn.Origin().Package()
		}
		if pk == nil && fn.Parent() != nil {
			pk = fn.Parent().Package()
		}
		if pk == nil {
			return ""
		}
		return pk.Pkg.Path()
	}
	// the analysis is per package: calls are followed inside the package and
	// through bufio and encoding/base64 (a buffered writer calling back into the package's own
	// io.Writer); the correlated waits are the leaves. Across packages, and
	// through the token plumbing of xmlstream and encoding/xml, the call graph
	// is too coarse (any io.Writer may be a Conn, any TokenWriter a session).
	var pkgs []string
	seenPkg := map[string]bool{}
	for _, f := range c.allFns() {
		if f.Pkg != nil && !seenPkg[f.Pkg.PkgPath] {
			seenPkg[f.Pkg.PkgPath] = true
			pkgs = append(pkgs, f.Pkg.PkgPath)
		}
	}
	sort.Strings(pkgs)
	used := map[string]bool{}
	nsup := 0
	var allClasses []string
	for _, P := range pkgs {
		inP := func(fn *ssa.Function) bool {
			pp := pkgOf(fn)
			return pp == P || pp == "bufio" || pp == "encoding/base64"
		}
		// the package's own types that it hands to the plumbing (the writers
		// a buffered writer or base64 encoder of this package can call back)
		wrapped := map[string]bool{}
		for _, f := range c.allFns() {
			if f.Body == nil || f.Pkg == nil || f.Pkg.PkgPath != P {
				continue
			}
			for _, cl := range f.AllCalls() {
				cid := f.CalleeID(cl)
				if !strings.HasPrefix(cid, "bufio.") && !strings.HasPrefix(cid, "encoding/base64.") {
					continue
				}
				for _, a := range cl.Args {
					if t := f.Info().TypeOf(a); t != nil {
						wrapped[eng.TypeStr(t)] = true
					}
				}
			}
		}
		follow := func(e *callgraph.Edge) bool {
			if _, isGo := e.Site.(*ssa.Go); isGo {
				return false
			}
			if !inP(e.Caller.Func) {
				return false
			}
			if pkgOf(e.Caller.Func) != P && pkgOf(e.Callee.Func) == P {
				// a call back from the plumbing: only into a wrapped type
				rv := e.Callee.Func.Signature.Recv()
				return rv != nil && wrapped[eng.TypeStr(rv.Type())]
			}
			return true
		}
		isWait := func(fn *ssa.Function) bool {
			f := s.FnOfSSA(fn)
			return f != nil && isWaitAPI(f.Short)
		}
		// 1. functions of P (and plumbing) from which a wait is reachable
		reaches := map[*ssa.Function]bool{}
		var work []*ssa.Function
		for fn := range s.Graph.Nodes {
			if isWait(fn) {
				reaches[fn] = true
				work = append(work, fn)
			}
		}
		for len(work) > 0 {
			fn := work[len(work)-1]
			work = work[:len(work)-1]
			for _, e := range s.Graph.Nodes[fn].In {
				if !follow(e) || reaches[e.Caller.Func] {
					continue
				}
				reaches[e.Caller.Func] = true
				work = append(work, e.Caller.Func)
			}
		}
		// 2. locks held across such calls
		held := map[string]string{}
		for _, f := range c.allFns() {
			if f.Body == nil || f.Pkg == nil || f.Pkg.PkgPath != P {
				continue
			}
			sf := s.FuncOf(f)
			if sf == nil || s.Graph.Nodes[sf] == nil {
				continue
			}
			var li *eng.LockInfo
			for _, e := range s.Graph.Nodes[sf].Out {
				if !follow(e) || !reaches[e.Callee.Func] || !(inP(e.Callee.Func) || isWait(e.Callee.Func)) {
					continue
				}
				for _, cl := range f.AllCalls() {
					if cl.Lparen != e.Pos() && cl.Pos() != e.Pos() {
						continue
					}
					if li == nil {
						li = f.Graph().Locks(nil)
					}
					ls, ok := li.AtNode(cl)
					if !ok {
						continue
					}
					for cls := range ls {
						w := f.Short + " holds it at " + c.p.Pos(cl.Pos()) + " across a call that reaches a correlated wait through " + strings.TrimPrefix(s.Name(e.Callee.Func), eng.ModPath+"/")
						if old, have := held[cls]; !have || w < old {
							held[cls] = w
						}
					}
				}
			}
		}
		if len(held) == 0 {
			continue
		}
		for k := range held {
			allClasses = append(allClasses, k)
		}
		// 3. acquisitions reachable from the package's handlers
		seen := map[*ssa.Function]bool{}
		var queue []*ssa.Function
		for _, f := range c.allFns() {
			if f.Obj == nil || f.Sig().Recv() == nil || f.Pkg == nil || f.Pkg.PkgPath != P {
				continue
			}
			switch f.Obj.Name() {
			case "HandleXMPP", "HandleIQ", "HandleMessage", "HandlePresence":
			default:
				continue
			}
			if sf := s.FuncOf(f); sf != nil && !seen[sf] {
				seen[sf] = true
				queue = append(queue, sf)
			}
		}
		for len(queue) > 0 {
			fn := queue[0]
			queue = queue[1:]
			n := s.Graph.Nodes[fn]
			if n == nil {
				continue
			}
			for _, e := range n.Out {
				if !follow(e) || !inP(e.Callee.Func) || seen[e.Callee.Func] || isWait(e.Callee.Func) {
					continue
				}
				seen[e.Callee.Func] = true
				queue = append(queue, e.Callee.Func)
			}
		}
		for _, f := range c.allFns() {
			if f.Body == nil {
				continue
			}
			sf := s.FuncOf(f)
			if sf == nil || !seen[sf] {
				continue
			}
			g := f.Graph()
			for _, cl := range f.AllCalls() {
				op, cls, _ := f.LockOp(cl)
				if op <= 0 || held[cls] == "" {
					continue
				}
				key := f.Short + "|" + cls
				construct := "acquire of " + cls + " on the serve goroutine"
				al, ok := serveLockAllowed[key]
				if !ok {
					c.r.Check(id, f, construct, "E-eff/E-lock: a lock that is held while waiting for a correlated reply is not acquired by a function reachable from a handler of the same package", cl.Pos(), false, held[cls]+": the serve goroutine blocks on the lock and the holder's reply is never delivered")
					continue
				}
				used[key] = true
				pt, _ := g.Where(cl)
				okd, whyNot := g.Dominated(pt, al.fact)
				// support of a parameter fact: no caller on the serve goroutine
				// passes a value that makes the fact true
				if strings.HasPrefix(al.fact, "eq(p") && strings.HasSuffix(al.fact, ",nil)") {
					pi, _ := strconv.Atoi(strings.TrimSuffix(strings.TrimPrefix(al.fact, "eq(p"), ",nil)"))
					for _, cf := range c.allFns() {
						csf := s.FuncOf(cf)
						if cf.Body == nil || csf == nil || !seen[csf] {
							continue
						}
						for _, call := range cf.Calls(strings.Replace(strings.Replace(f.Short, "(*", "", 1), ")", "", 1)) {
							if pi >= len(call.Args) {
								continue
							}
							cp, _ := cf.Graph().Where(call)
							c.r.Check(id, cf, "argument of "+f.Short+" on the serve goroutine", "G: a caller that runs on the serve goroutine does not pass nil (nil selects the locking path)", call.Pos(), cf.Graph().NilnessOf(call.Args[pi], cp) != -1, "nil is passed: the callee takes the lock that a writer waiting for its acknowledgement holds")
							nsup++
						}
					}
				}
				c.r.Check(id, f, construct, "E-eff/E-lock/G: the acquisition is reachable from a handler and is therefore taken only when "+al.fact+" ("+al.why+"); "+held[cls], cl.Pos(), okd, whyNot)
			}
		}
	}
	sort.Strings(allClasses)
	c.r.Note("%s: locks held across a correlated wait (per package): %s", id, strings.Join(allClasses, ", "))
	c.r.Floor(id, "lock classes held across a correlated wait", len(allClasses), 1)
	c.r.Floor(id, "guarded acquisitions reachable from handlers", len(used), len(serveLockAllowed))
	c.r.Floor(id, "serve-goroutine call sites supporting a parameter fact", nsup, 1)
}

// callerAttrsCopied (E-alias, C06.15/C05.10): SendIQ, SendMessage and
// SendPresence take the start element from the caller's token reader; the
// token's attribute slice shares its backing array with whatever the reader
// holds (a request template used for several calls). Every write through
// X.Attr (an element assignment or an append whose first argument is X.Attr)
// is preceded on every path by X = X.Copy() (or by an assignment of a freshly
// allocated list to X.Attr). Otherwise the generated id lands in the caller's
// template and the next call that uses it is sent with the same id.
func callerAttrsCopied(c *cx, id string) {
	n := 0
	for _, name := range []string{"(*Session).SendIQ", "(*Session).SendMessage", "(*Session).SendPresence"} {
		f := c.fn(id, "", name)
		if f == nil {
			continue
		}
		g := f.Graph()
		for _, w := range f.Writes() {
			root := rootLocal(f, w.LHS)
			if root == nil || eng.TypeStr(root.Type()) != "encoding/xml.StartElement" {
				continue
			}
			lhs := types.ExprString(w.LHS)
			inPlace := false
			switch {
			case strings.Contains(lhs, ".Attr["):
				inPlace = true
			case strings.HasSuffix(lhs, ".Attr") && w.RHS != nil:
				if cl, ok := ast.Unparen(w.RHS).(*ast.CallExpr); ok && f.CalleeID(cl) == "builtin.append" && len(cl.Args) > 0 {
					if rootLocal(f, cl.Args[0]) == root && strings.HasSuffix(types.ExprString(cl.Args[0]), ".Attr") {
						inPlace = true
					}
				}
			}
			if !inPlace {
				continue
			}
			n++
			pt, _ := g.Where(w.Stmt)
			isCopy := func(q eng.Point, nd ast.Node) bool {
				as, ok := nd.(*ast.AssignStmt)
				if !ok || len(as.Lhs) != 1 || len(as.Rhs) != 1 {
					return false
				}
				if rootLocal(f, as.Lhs[0]) != root {
					return false
				}
				l := types.ExprString(as.Lhs[0])
				cl, isCall := ast.Unparen(as.Rhs[0]).(*ast.CallExpr)
				if !isCall {
					return false
				}
				cid := f.CalleeID(cl)
				if _, isId := ast.Unparen(as.Lhs[0]).(*ast.Ident); isId && cid == "encoding/xml.StartElement.Copy" {
					if sel, ok := ast.Unparen(cl.Fun).(*ast.SelectorExpr); ok && rootLocal(f, sel.X) == root {
						return true
					}
				}
				if strings.HasSuffix(l, ".Attr") && cid == "builtin.append" && len(cl.Args) > 0 {
					// append([]xml.Attr(nil), X.Attr...) / append(make(...), ...)
					if ok, _ := freshSlice(f, cl.Args[0], q, map[*eng.Def]bool{}); ok {
						return true
					}
				}
				return false
			}
			c.r.Check(id, f, "write through "+strings.Replace(lhs, root.Name(), "start", 1), "E-alias: the attribute list of the caller's start element is modified only after the element was copied (X = X.Copy()) on every path", w.Stmt.Pos(), g.MustPassBefore(g.Entry(), pt, isCopy, nil), "the write lands in the attribute array of the token that the caller's reader returned: a template used for two calls carries the first call's generated id into the second")
		}
	}
	c.r.Floor(id, "in-place attribute writes in SendIQ/SendMessage/SendPresence", n, 3)
}

// pageTurnClosesFirst (E-res ordering, C09.22/C06.17): an iterator over a
// response keeps the serve loop parked until it is closed. A method of a type
// that holds such an iterator in a field (a value with Next and Close methods)
// starts a new correlated request - a call from which one of the session's
// wait APIs is reachable - only after that field's Close was called on every
// path: fetching the next page first waits for a reply that the parked serve
// loop cannot deliver (the caller, Serve and the peer all block forever).
func pageTurnClosesFirst(c *cx, id string) {
	s := c.p.SSA()
	// functions from which a wait API is reachable (not across go statements)
	reaches := map[*ssa.Function]bool{}
	var work []*ssa.Function
	for fn := range s.Graph.Nodes {
		if f := s.FnOfSSA(fn); f != nil && isWaitAPI(f.Short) {
			reaches[fn] = true
			work = append(work, fn)
		}
	}
	for len(work) > 0 {
		fn := work[len(work)-1]
		work = work[:len(work)-1]
		for _, e := range s.Graph.Nodes[fn].In {
			if _, isGo := e.Site.(*ssa.Go); isGo {
				continue
			}
			if !s.InRepo(e.Caller.Func) || reaches[e.Caller.Func] {
				continue
			}
			reaches[e.Caller.Func] = true
			work = append(work, e.Caller.Func)
		}
	}
	n := 0
	for _, f := range c.allFns() {
		if f.Body == nil || f.Obj == nil || f.Sig() == nil || f.Sig().Recv() == nil || f.Obj.Name() == "Close" {
			continue
		}
		rt := f.Sig().Recv().Type()
		if p, ok := rt.(*types.Pointer); ok {
			rt = p.Elem()
		}
		st, ok := rt.Underlying().(*types.Struct)
		if !ok {
			continue
		}
		var iterFields []string
		for i := 0; i < st.NumFields(); i++ {
			ft := st.Field(i).Type()
			ms := types.NewMethodSet(ft)
			if ms.Lookup(nil, "Close") != nil && ms.Lookup(nil, "Next") != nil && ms.Lookup(nil, "Current") != nil {
				iterFields = append(iterFields, st.Field(i).Name())
			}
		}
		if len(iterFields) == 0 {
			continue
		}
		g := f.Graph()
		for _, cl := range f.AllCalls() {
			fo, isFn := typeutil.Callee(f.Info(), cl).(*types.Func)
			if !isFn {
				continue
			}
			callee := c.p.FnOf(fo.Origin())
			if callee == nil {
				continue
			}
			sf := s.FuncOf(callee)
			if sf == nil || !reaches[sf] {
				continue
			}
			// a recursive call of the method itself starts nothing new by itself
			if callee == f {
				continue
			}
			pt, okp := g.Where(cl)
			if !okp {
				continue
			}
			for _, fld := range iterFields {
				n++
				isClose := func(q eng.Point, nd ast.Node) bool {
					found := false
					ast.Inspect(nd, func(x ast.Node) bool {
						if cc, ok := x.(*ast.CallExpr); ok {
							if sel, ok := ast.Unparen(cc.Fun).(*ast.SelectorExpr); ok && sel.Sel.Name == "Close" && f.Norm(sel.X, nil) == "recv."+fld {
								found = true
							}
						}
						return !found
					})
					return found
				}
				c.r.Check(id, f, "new request "+callee.Short+" while recv."+fld+" may be open", "E-res (order): a method that holds a response iterator closes it on every path before it starts a request that waits for a reply", cl.Pos(), g.MustPassBefore(g.Entry(), pt, isClose, nil), "the request is sent and waited for while the serve loop is still parked on the open response of recv."+fld+": the reply can never be delivered")
			}
		}
	}
	c.r.Floor(id, "requests started by methods that hold a response iterator", n, 1)
}
