package rules

import (
	"go/ast"
	"go/token"
	"go/types"
	"strings"

	"verif/checker/eng"
)

func init() {
	Registry["C18"] = Rule{
		Meta: eng.Meta{
			Explanation: "Structural necessary conditions of 'MUC membership follows the room's presence': every access of Client.managed uses the same key derivation, the occupant's full address in string form (C18.1, key agreement), under managedM (C18.2); HandlePresence does nothing for rooms that were never joined, hands a join over only for available presence, and removes the room and notifies a pending Leave for unavailable presence, the removal being unconditional within that arm (C18.3); Channel.JoinPresence returns nil only after receiving the occupant address from the presence handler, returns the room's error or ctx.Err() otherwise, and LeavePresence returns nil only through the depart notification (C18.4); Client.JoinPresence always replaces the entry for the requested address (C18.3); there is one call site of HandleInvite, outside any loop, guarded by a decoded invitation and a non-nil callback, and HandleClient registers the handler for the muc#user x payload of available/unavailable presence and normal messages (C18.5).",
			NotDecided:  "'joined from success until unavailable' as a history predicate (the entry is created before the join completes and survives a failed join), rejoin and nick-change sequences.",
			Trusted:     trustedCommon,
		},
		Run: runC18,
	}
}

func runC18(p *eng.Prog, r *eng.Report, tier string) {
	c := &cx{p, r, tier}
	r19LeaveAlwaysAsks(c, "C18.35")
	r18RejoinAlwaysAsks(c, "C18.33")
	r18HandOffComparesWholeNames(c, "C18.32")
	r17JoinOptionsPerCall(c, "C18.29")
	// C18.28 (= C14.1, imported): presences reach the MUC client through the multiplexer's lookup, which is
	// recomputed on every call (a memo of "no handler" from before the client was registered hides it for good)
	importRules(c, "C14", []string{"C14.1"}, "C18.28")
	// C18.26 (= C14.7): a mediated invitation arrives as a message: the type a handler is looked up by is the one the type's own decoder yields (unknown values are normal)
	typedAttrsThroughOwnDecoder(c, "C18.26")
	// C18.23 (= C09.17 / C10.10): no cycle in the lock-order graph: a deadlock between a
	// writer and Close, or between the serve loop and a requester, ends every guarantee of this property
	lockOrder(c, "C18.23")
	// C18.27 (= C06.2): the room's answer to a join / leave reaches the waiting call: the hand-off depends on
	// the id, the stanza name and the reply type only
	c06HandoffAs(c, "C18.27")
	c.r.Floor("C18.25", "blocking channel operations in muc", lockHeldAcrossChannelOp(c, "C18.25", "muc."), 3)
	// C18.24 (= C06.30): a pending join taken out of Channel.join is completed, found cancelled or put back
	c.r.Floor("C18.24", "hand-off records received in muc", receivedCloserNotDropped(c, "C18.24", func(f *eng.Fn) bool { return strings.HasPrefix(f.Short, "muc.") }), 2)
	// ---- C18.9 the role/affiliation vocabularies are decoded completely (a
	// self-presence with an unknown role is dropped and Join never returns)
	c19EnumLoops(c, "C18.9", func(f *eng.Fn) bool { return strings.HasPrefix(f.Short, "muc.") })
	staleNotification(c, "C18.10")
	c18InvitationByName(c, "C18.17")
	// the muc handlers are reached through the multiplexer: a presence that
	// has another payload in front of the muc#user one is replayed to them
	c14ReplayBuffer(c, "C18.21")
	c18InvitationDecoderSetsName(c, "C18.22")
	c18LeaveAddressedToOccupant(c, "C18.19")
	jidCore(c, "C18.20")
	c18ErrorHandOffsAreErrors(c, "C18.18")
	// C18.13 the table is keyed by address strings: the addresses built from a
	// nickname are canonical (enforced bytes), so that the key under which a
	// channel is registered is the key the room's presence is looked up with
	c11NoRawPartAppended(c, "C18.13")
	jidEqualRule(c, "C18.13")
	// C18.16 check-then-act under one lock: the removal of a room acts on the
	// entry that was looked up in the SAME critical section. Between the last
	// acquisition of managedM before the delete and the delete there is a read of
	// Client.managed; a delete in a critical section of its own (lock narrowed
	// to the map operations) can remove the registration that a concurrent
	// re-join stored after the lookup.
	if hp := c.fn("C18.16", "muc", "(*Client).HandlePresence"); hp != nil {
		g := hp.Graph()
		n := 0
		for _, mu := range hp.MapUpdates() {
			if k, _ := hp.FieldClass(mu.Map); k != "muc.Client.managed" || !mu.Delete {
				continue
			}
			n++
			dp, _ := g.Where(mu.Node)
			isAcq := func(q eng.Point, nd ast.Node) bool {
				found := false
				ast.Inspect(nd, func(x ast.Node) bool {
					if cl, ok := x.(*ast.CallExpr); ok {
						if op, cls, _ := hp.LockOp(cl); op > 0 && cls == "muc.Client.managedM" {
							found = true
						}
					}
					return !found
				})
				return found
			}
			// a read of the map that reaches the delete without passing an acquisition
			okSame := false
			hp.WalkBody(func(nd ast.Node) bool {
				ix, ok := nd.(*ast.IndexExpr)
				if !ok {
					return true
				}
				if k, _ := hp.FieldClass(ix.X); k != "muc.Client.managed" {
					return true
				}
				if rp, okp := g.Where(ix); okp && g.Reachable(g.After(rp), dp, nil, isAcq) {
					okSame = true
				}
				return true
			})
			c.r.Check("C18.16", hp, "room removed in the critical section that looked it up", "L: a read of Client.managed reaches the delete without an acquisition of managedM in between (lookup and removal are one critical section)", mu.Node.Pos(), okSame, "the delete runs in a critical section of its own: a registration stored by a concurrent re-join after the lookup is removed")
		}
		c.r.Floor("C18.16", "removals in HandlePresence", n, 1)
	}
	// C18.15 channel rules restricted to the muc package: the presence handler
	// runs on the serve goroutine (and under managedM): none of its channel
	// operations can block (a plain send on the one-slot departure channel
	// blocks as soon as a second removal arrives without a Leave in between)
	{
		var scope []*eng.Fn
		why := map[*eng.Fn]string{}
		all, w := serveScope(c)
		for _, f := range all {
			if strings.HasPrefix(f.Short, "muc.") {
				scope = append(scope, f)
				why[f] = w[f]
			}
		}
		chanRulesFiltered(c, "C18.15", scope, why, "muc.")
	}
	// C18.14 the room's presences are only processed while the serve loop runs:
	// every response a join/leave obtains is released on every path (E-res)
	respRelease(c, "C18.14", 8)
	// ---- C18.1 key agreement, C18.2 locks -------------------------------------
	n := 0
	for _, f := range c.allFns() {
		g := f.Graph()
		check := func(key ast.Expr, what string) {
			n++
			pt, _ := g.Where(key)
			k := f.Norm(key, &pt)
			okk := strings.HasPrefix(k, "jid.JID.String[") && !strings.Contains(k, ".Bare[") && !strings.Contains(k, ".Domain[") && !strings.Contains(k, "WithResource")
			// the address under String() is a field or a parameter's field itself
			// (c.addr, p.To, p.From): the result of a method call is some OTHER
			// address as far as this rule can see (Channel.Addr() is the bare room
			// address)
			if okk {
				inner := strings.TrimSuffix(strings.TrimPrefix(k, "jid.JID.String["), "]()")
				if strings.HasSuffix(inner, ")") {
					okk = false
				}
			}
			c.r.Check("C18.1", f, "key of Client.managed ("+what+")", "T: every access keys the table by the occupant's full address in string form (X.String(), no Bare()/Domain())", key.Pos(), okk, "key is "+k)
		}
		for _, mu := range f.MapUpdates() {
			if k, _ := f.FieldClass(mu.Map); k == "muc.Client.managed" {
				if mu.Delete {
					check(mu.Key, "delete")
				} else {
					check(mu.Key, "store")
				}
			}
		}
		f.WalkBody(func(nd ast.Node) bool {
			ix, ok := nd.(*ast.IndexExpr)
			if !ok {
				return true
			}
			if k, _ := f.FieldClass(ix.X); k != "muc.Client.managed" {
				return true
			}
			if as, isAs := g.Parent(ix).(*ast.AssignStmt); isAs {
				for _, l := range as.Lhs {
					if l == ast.Expr(ix) {
						return true // store: handled above
					}
				}
			}
			check(ix.Index, "lookup")
			return true
		})
	}
	c.r.Floor("C18.1", "accesses of Client.managed", n, 4)
	lockDiscipline(c, "C18.2", "muc.Client.managed", "muc.Client.managedM", nil, 4)

	// ---- C18.3 HandlePresence ----------------------------------------------------
	hp := c.fn("C18.3", "muc", "(*Client).HandlePresence")
	if hp != nil {
		g := hp.Graph()
		known := "commaok(recv.managed[jid.JID.String[p0.From]()])"
		ndel := 0
		defer func() { c.r.Floor("C18.3", "removal of the room on unavailable presence", ndel, 1) }()
		for _, mu := range hp.MapUpdates() {
			if k, _ := hp.FieldClass(mu.Map); k == "muc.Client.managed" && mu.Delete {
				ndel++
				c.dom("C18.3", hp, mu.Node, "room forgotten", []string{known, "eq(p0.Type,stanza.UnavailablePresence)"})
				c.onlyFacts("C18.3", hp, mu.Node, "room forgotten", []string{known, "eq(p0.Type,stanza.UnavailablePresence)", "!eq(p0.Type,stanza.AvailablePresence)", "eq(*Decode*,nil)"})
			}
		}
		nd, nj := 0, 0
		for _, op := range chanOps(hp) {
			switch {
			case op.kind == "send" && op.class == "muc.Channel.depart":
				nd++
				c.dom("C18.3", hp, op.node, "depart notification", []string{known, "eq(p0.Type,stanza.UnavailablePresence)"})
			case op.kind == "recv" && op.class == "muc.Channel.join":
				nj++
				c.dom("C18.3", hp, op.node, "join hand-off", []string{known, "eq(p0.Type,stanza.AvailablePresence)"})
			case op.kind == "send" && strings.HasSuffix(op.class, ".j"):
				c.dom("C18.3", hp, op.node, "join completion", []string{known, "eq(p0.Type,stanza.AvailablePresence)"})
				// the address handed over is the presence's sender
				if s, ok := op.node.(*ast.SendStmt); ok {
					c.r.Check("C18.3", hp, "join completion value", "P: the waiting Join receives the occupant address the room used", s.Pos(), hp.Norm(s.Value, nil) == "p0.From", "value is "+hp.Norm(s.Value, nil))
				}
			}
		}
		c.r.Floor("C18.3", "depart notifications", nd, 1)
		c.r.Floor("C18.3", "join hand-offs", nj, 1)
		// callback only for managed rooms
		for _, cl := range hp.AllCalls() {
			if k, _ := hp.FieldClass(cl.Fun); k == "muc.Client.HandleUserPresence" {
				c.dom("C18.3", hp, cl, "user presence callback", []string{known, "!eq(recv.HandleUserPresence,nil)"})
			}
		}
		// presences for rooms never joined are ignored: nothing is read from
		// the payload and no error can come back for them
		nr := 0
		for _, rs := range g.Returns {
			if g.RetKindOf(rs) == eng.RetSuccess {
				continue
			}
			nr++
			c.dom("C18.3", hp, rs, "error return only for joined rooms", []string{known})
		}
		for _, cl := range hp.AllCalls() {
			cid := hp.CalleeID(cl)
			if strings.HasPrefix(cid, "encoding/xml.Decoder.") || strings.HasSuffix(cid, ".Token") {
				nr++
				c.dom("C18.3", hp, cl, "payload read only for joined rooms ("+cid+")", []string{known})
			}
		}
		c.r.Floor("C18.3", "error returns and payload reads of HandlePresence", nr, 2)
	}
	// Client.JoinPresence joins through the channel's own JoinPresence, which
	// registers the channel under the occupant address that is REQUESTED (the
	// Nick option may change it). A registration of its own would use the
	// address before the options were applied and leave a key nobody removes
	// (F140): Client.managed is stored into by Channel.JoinPresence only.
	cj := c.fn("C18.3", "muc", "(*Client).JoinPresence")
	if cj != nil {
		calls := cj.Calls("muc.Channel.JoinPresence")
		c.r.Floor("C18.3", "Client.JoinPresence joins through Channel.JoinPresence", len(calls), 1)
		for _, cl := range calls {
			c.onlyFacts("C18.3", cj, cl, "join through the channel", []string{})
		}
	}
	nst := 0
	for _, f := range c.allFns() {
		for _, mu := range f.MapUpdates() {
			if k, _ := f.FieldClass(mu.Map); k == "muc.Client.managed" && !mu.Delete {
				nst++
				c.r.Check("C18.30", f, "registration in Client.managed", "W: a channel is registered by (*Channel).JoinPresence only, under the occupant address it requests", mu.Node.Pos(), f.Short == "muc.(*Channel).JoinPresence", "registration in "+f.Short+": the key is not the address the options select, and nothing removes it when the room is left")
			}
		}
	}
	c.r.Floor("C18.30", "registrations in Client.managed", nst, 1)

	// ---- C18.4 join / leave results ---------------------------------------------------
	for _, k := range []struct{ fn, okArm string }{
		{"(*Channel).JoinPresence", "selectarm(recv local:*<chan jid.JID>)"},
		{"(*Channel).LeavePresence", "selectarm(recv recv.depart)"},
	} {
		f := c.fn("C18.4", "muc", k.fn)
		if f == nil {
			continue
		}
		g := f.Graph()
		n := 0
		for _, rs := range g.Returns {
			if len(rs.Results) != 1 {
				continue
			}
			pt, _ := g.Where(rs)
			res := f.Norm(rs.Results[0], &pt)
			switch {
			case res == "nil":
				n++
				c.dom("C18.4", f, rs, "success return", []string{k.okArm})
			case strings.HasPrefix(res, "context.Context.Err["):
				c.domAny("C18.4", f, rs, "context error return", []string{"selectarm(recv context.Context.Done[*]())"})
			}
		}
		c.r.Floor("C18.4", "success returns of "+k.fn, n, 1)
		// the error arm returns the received error
		for _, ce := range g.EdgesMatching("selectarm(recv local:*<chan error>)") {
			for _, nd := range g.ReachableNodes(g.EdgeTarget(ce.E), nil) {
				if rs, ok := nd.(*ast.ReturnStmt); ok {
					pt, _ := g.Where(rs)
					c.r.Check("C18.4", f, "error arm", "K: an error from the room (or from sending) is returned", rs.Pos(), len(rs.Results) == 1 && f.Norm(rs.Results[0], &pt) != "nil", "error arm returns nil")
					break
				}
			}
		}
	}

	// ---- C18.5 invitations ------------------------------------------------------------------
	ninv := 0
	for _, f := range c.allFns() {
		for _, cl := range f.AllCalls() {
			if k, _ := f.FieldClass(cl.Fun); k != "muc.Client.HandleInvite" {
				continue
			}
			ninv++
			g := f.Graph()
			c.dom("C18.5", f, cl, "invitation callback", []string{"!eq(recv.HandleInvite,nil)", "!eq(*.X.XMLName.Local,\"\")", "eq(encoding/xml.Decoder.Decode[*](*),nil)"})
			// ... and by nothing else: every muc#user payload that decoded is handed over (which
			// of its fields are filled in is the callback's business: a mediated invitation names
			// no JID of its own, a direct one no password)
			c.onlyFacts("C18.5", f, cl, "every decoded invitation is delivered", []string{"!eq(recv.HandleInvite,nil)", "!eq(nil,recv.HandleInvite)", "!eq(*.X.XMLName.Local,\"\")", "!eq(\"\",*.X.XMLName.Local)", "eq(encoding/xml.Decoder.Decode[*](*),nil)", "eq(nil,encoding/xml.Decoder.Decode[*](*))", "!eq(encoding/xml.Decoder.Decode[*](*),nil)#else"})
			// not in a loop
			pt, _ := g.Where(cl)
			c.r.Check("C18.5", f, "invitation delivered once", "the callback is not inside a loop (one call per message)", cl.Pos(), !g.Reachable(g.After(pt), pt, nil, nil), "call site can be reached again within one handler invocation")
			c.r.Check("C18.5", f, "invitation call site", "C: invitations are delivered by Client.HandleMessage", cl.Pos(), f.Short == "muc.(*Client).HandleMessage", "called from "+f.Short)
		}
	}
	c.r.Floor("C18.5", "call sites of HandleInvite", ninv, 1)
	c.r.Ceil("C18.5", "call sites of HandleInvite", ninv, 1)
	hc := c.fn("C18.5", "muc", "HandleClient")
	if hc != nil && len(hc.Lits) > 0 {
		lf := hc.Lits[0]
		reg := map[string]bool{}
		for _, cl := range lf.AllCalls() {
			id := lf.CalleeID(cl)
			if id == "mux.Presence" || id == "mux.Message" {
				pt, _ := lf.Graph().Where(cl)
				name := lf.Norm(cl.Args[1], &pt)
				if v := rootLocal(lf, cl.Args[1]); v != nil {
					if d := lf.Graph().UniqueDef(v, pt); d != nil && d.RHS != nil {
						name = lf.Norm(d.RHS, &d.At)
					}
				}
				reg[id+":"+lf.Norm(cl.Args[0], &pt)+":"+name] = true
			}
		}
		x := "encoding/xml.Name{Space:muc.NSUser,Local:\"x\"}"
		for _, w := range []string{"mux.Presence:stanza.AvailablePresence:" + x, "mux.Presence:stanza.UnavailablePresence:" + x, "mux.Message:stanza.NormalMessage:" + x} {
			c.r.Check("C18.5", lf, "registration "+w, "K: the client handler is registered for the muc#user x payload", lf.Pos(), reg[w], "missing registration; have "+strings.Join(sortedKeys(reg), " "))
		}
	}
	// C18.11 (E-trunc, decode target): the presence handler decodes the whole
	// muc#user payload with one Decode; encoding/xml fails the whole Decode when
	// a number does not fit its field. Status codes are three decimal digits
	// (100..999, XEP-0045 registry): every integer field of the decode target
	// holds at least 16 bits, otherwise a kick (307), ban (301) or room
	// shutdown (332) makes HandlePresence fail before the unavailable arm and
	// the room stays managed.
	if hp := c.fn("C18.11", "muc", "(*Client).HandlePresence"); hp != nil {
		nInt := 0
		seen := map[types.Type]bool{}
		var walk func(t types.Type, path string, pos token.Pos)
		walk = func(t types.Type, path string, pos token.Pos) {
			if seen[t] {
				return
			}
			seen[t] = true
			// a type with its own decoder is not filled in by reflection
			if _, isNamed := t.(*types.Named); isNamed {
				ms := types.NewMethodSet(types.NewPointer(t))
				for _, m := range []string{"UnmarshalXML", "UnmarshalXMLAttr", "UnmarshalText"} {
					if ms.Lookup(nil, m) != nil {
						return
					}
				}
			}
			switch u := t.Underlying().(type) {
			case *types.Pointer:
				walk(u.Elem(), path, pos)
			case *types.Slice:
				walk(u.Elem(), path+"[]", pos)
			case *types.Array:
				walk(u.Elem(), path+"[]", pos)
			case *types.Struct:
				if n, ok := t.(*types.Named); ok && n.Obj().Pkg() != nil && !strings.HasPrefix(n.Obj().Pkg().Path(), "mellium.im/xmpp") {
					return
				}
				for i := 0; i < u.NumFields(); i++ {
					fl := u.Field(i)
					if !fl.Exported() {
						continue // encoding/xml skips unexported fields
					}
					fp := pos
					if fl.Pos().IsValid() {
						fp = fl.Pos()
					}
					walk(fl.Type(), path+"."+fl.Name(), fp)
				}
			case *types.Basic:
				if u.Info()&types.IsInteger == 0 {
					return
				}
				nInt++
				wide := true
				switch u.Kind() {
				case types.Int8, types.Uint8:
					wide = false
				}
				c.r.CheckNamed("C18.11", "muc.(*Client).HandlePresence", "integer field "+path+" of the decode target", "E-trunc: an integer decoded from the room's presence holds three-digit status codes (at least 16 bits)", pos, wide, "the field is "+u.String()+": a status code above 255 (kicked 307, banned 301, shutdown 332) fails the whole Decode and the departure is never processed")
			}
		}
		for _, cl := range hp.Calls("encoding/xml.Decoder.Decode") {
			if len(cl.Args) == 1 {
				walk(hp.Info().TypeOf(cl.Args[0]), "payload", cl.Pos())
			}
		}
		c.r.Floor("C18.11", "integer fields of the presence decode target", nInt, 1)
	}
	// C18.6 a refused or cancelled join does not block the next one
	handoffWithdrawn(c, "C18.6", "muc", "(*Channel).JoinPresence", "muc.Channel.join")
	// C18.7 membership ends only where the room's unavailable presence is
	// processed: nobody else deletes from Client.managed
	n141 := 0
	// C18.34 (F141): a first join that is not confirmed (refused, cancelled,
	// timed out) leaves nothing behind in Client.managed: Joined() reports
	// membership only after a successful join
	defer func() { c.r.Floor("C18.34", "take-back of the registration of an unconfirmed join", n141, 1) }()
	for _, f := range c.allFns() {
		if f.Short == "muc.(*Client).HandlePresence" {
			continue
		}
		for _, mu := range f.MapUpdates() {
			if k, _ := f.FieldClass(mu.Map); k == "muc.Client.managed" && mu.Delete && f.Short == "muc.(*Channel).LeavePresence" {
				// an error answer to the unavailable presence: the room does not
				// count us among its occupants (any more); only there, and only
				// while the entry is still this channel
				c.dom("C18.7", f, mu.Node, "membership removed when the leave is answered with an error", []string{"selectarm(recv local:*<chan error>)", "eq(recv,recv.client.managed[*])"})
				continue
			}
			if k, _ := f.FieldClass(mu.Map); k == "muc.Client.managed" && mu.Delete && strings.HasPrefix(f.Short, "muc.(*Channel).JoinPresence$") {
				// a join that was never confirmed, by a channel that was not
				// registered before it asked: the registration this call made is
				// taken back (F141); only while the entry is still this channel
				c.dom("C18.7", f, mu.Node, "registration of an unconfirmed join taken back", []string{"eq(*,*.client.managed[*])"})
				// ... and behind two flags of the enclosing JoinPresence, whatever
				// they are called: one that is set to true only where the room's
				// self-presence arrived, one that was defined as "the entry was
				// this channel already" before the registration
				okJoined, okWas := false, false
				if pt, ok := f.Graph().Where(mu.Node); ok {
					jp := c.fn("C18.7", "muc", "(*Channel).JoinPresence")
					for _, a := range f.Graph().FactsAt(pt) {
						if !strings.HasPrefix(a, "!local:") || !strings.HasSuffix(a, "<bool>") || jp == nil {
							continue
						}
						name := strings.TrimSuffix(strings.TrimPrefix(a, "!local:"), "<bool>")
						for _, w := range jp.Writes() {
							idn, ok := ast.Unparen(w.LHS).(*ast.Ident)
							if !ok || idn.Name != name || w.RHS == nil {
								continue
							}
							if jp.Norm(w.RHS, nil) == "true" {
								wp, _ := jp.Graph().Where(w.Stmt)
								for _, fa := range jp.Graph().FactsAt(wp) {
									if strings.HasPrefix(fa, "selectarm(recv local:") && strings.Contains(fa, "chan") && strings.Contains(fa, "jid.JID") {
										okJoined = true
									}
								}
							}
							if be, ok := ast.Unparen(w.RHS).(*ast.BinaryExpr); ok && be.Op == token.EQL {
								if ix, ok := ast.Unparen(be.X).(*ast.IndexExpr); ok {
									if k, _ := jp.FieldClass(ix.X); k == "muc.Client.managed" && jp.Norm(be.Y, nil) == "recv" {
										okWas = true
									}
								}
							}
						}
					}
				}
				c.r.Check("C18.7", f, "take-back only for an unconfirmed first registration", "G: the removal is behind the flag set on the room's self-presence and the flag 'was registered before this call'", mu.Node.Pos(), okJoined && okWas, "the removal is not guarded by both flags: a confirmed join, or a channel that was a member before a failed rejoin, loses its registration")
				n141++
				continue
			}
			if k, _ := f.FieldClass(mu.Map); k == "muc.Client.managed" && mu.Delete {
				c.r.Check("C18.7", f, "delete from Client.managed", "W: a room is forgotten only when its unavailable presence is processed (HandlePresence)", mu.Node.Pos(), false, "membership removed in "+f.Short+": later presences of the room are ignored although the occupant may still be in it")
			}
		}
	}
	// every join (the first one through Client.Join and any later one through
	// Channel.Join) registers the channel under the requested occupant address
	// before the request can be answered: HandlePresence forgets the room when
	// it is left, and an unregistered channel never sees its self-presence
	c18RegisteredBeforeQueued(c, "C18.8")
	// the join presence is addressed to the occupant address the channel is
	// registered under (Client.managed is keyed by it): the address is not
	// changed before it is copied into the presence
	if jp := c.fn("C18.7", "muc", "(*Channel).JoinPresence"); jp != nil {
		g := jp.Graph()
		n := 0
		for _, w := range jp.Writes() {
			if sel, ok := ast.Unparen(w.LHS).(*ast.SelectorExpr); !ok || sel.Sel.Name != "To" || w.RHS == nil || jp.Norm(w.RHS, nil) != "recv.addr" {
				continue
			}
			n++
			tp, _ := g.Where(w.Stmt)
			bad := ""
			for _, w2 := range jp.FieldWrites("muc.Channel.addr") {
				wp, _ := g.Where(w2.Stmt)
				if g.Reachable(g.After(wp), tp, nil, nil) {
					bad = "Channel.addr is rewritten at " + c.p.Pos(w2.Stmt.Pos()) + " before it is used as the presence's address: the room answers for an address Client.managed does not know"
				}
			}
			c.r.Check("C18.7", jp, "join presence addressed to the registered occupant address", "K: p.To is the address the channel was registered under", w.Stmt.Pos(), bad == "", bad)
		}
		c.r.Floor("C18.7", "p.To = c.addr in JoinPresence", n, 1)
	}
	// C18.12 the occupant address that is requested (and under which the
	// channel waits for the room's self-presence) reflects the Nick option: the
	// options are applied before the channel is registered, and under
	// newNick != "" the presence's To is assigned the address built with
	// WithResource(newNick). (Applying the options after p.To was set asks for
	// the old nickname and reports success for the old address.)
	if jp := c.fn("C18.12", "muc", "(*Channel).JoinPresence"); jp != nil {
		g := jp.Graph()
		nreg := 0
		for _, mu := range jp.MapUpdates() {
			if k, _ := jp.FieldClass(mu.Map); k != "muc.Client.managed" || mu.Delete {
				continue
			}
			nreg++
			pt, _ := g.Where(mu.Node)
			// the option loop may run zero times: what must hold is that no path
			// reaches the registration and applies an option afterwards
			bad := ""
			for _, cl := range jp.AllCalls() {
				if t := jp.Info().TypeOf(cl.Fun); t != nil && eng.TypeStr(t) == "muc.Option" {
					cp, _ := g.Where(cl)
					if g.Reachable(g.After(pt), cp, nil, nil) {
						bad = "an option is applied at " + c.p.Pos(cl.Pos()) + " after the channel was registered: the Nick option cannot change the address that is requested"
					}
				}
			}
			c.r.Check("C18.12", jp, "options applied before the channel is registered", "O: no option is applied after the store into Client.managed", mu.Node.Pos(), bad == "", bad)
		}
		c.r.Floor("C18.12", "registrations in Channel.JoinPresence", nreg, 1)
		nnick := 0
		for _, w := range jp.Writes() {
			sel, ok := ast.Unparen(w.LHS).(*ast.SelectorExpr)
			if !ok || sel.Sel.Name != "To" || w.RHS == nil {
				continue
			}
			wp, _ := g.Where(w.Stmt)
			if okd, _ := g.Dominated(wp, "!eq(*.newNick,\"\")"); !okd {
				continue
			}
			if eng.Glob("jid.JID.WithResource[*](*.newNick)#0", jp.Norm(w.RHS, &wp)) {
				nnick++
			}
		}
		c.r.Check("C18.12", jp, "requested address carries the new nickname", "K: under newNick != \"\" the presence's To is assigned addr.WithResource(newNick)", jp.Pos(), nnick >= 1, "no assignment of WithResource(newNick) to the presence's To under the Nick option: the join asks for the old nickname")
	}
}

// c18InvitationByName (C18.17): "each mediated invitation is delivered exactly
// once" - to the mediated callback. The handler for DIRECT invitations is
// registered for the jabber:x:conference payload; it decodes an Invitation
// from the element of that name and from no other child of the message (a
// mediated invitation that also carries the direct form has the muc#user
// payload first: decoding "the first child" delivers the mediated invitation
// a second time, to the wrong callback). Every decode into an Invitation in
// inviteHandler.HandleMessage is a DecodeElement whose start element is
// established to be the direct payload's name.
func c18InvitationByName(c *cx, id string) {
	f := c.fn(id, "muc", "inviteHandler.HandleMessage")
	if f == nil {
		return
	}
	g := f.Graph()
	n := 0
	for _, cl := range f.Calls("encoding/xml.Decoder.Decode*") {
		if len(cl.Args) == 0 || !strings.Contains(eng.TypeStr(f.Info().TypeOf(cl.Args[0])), "muc.Invitation") {
			continue
		}
		n++
		pt, _ := g.Where(cl)
		okd, why := false, "the invitation is decoded with Decode: whatever element comes next is taken for the direct invitation"
		if f.CalleeID(cl) == "encoding/xml.Decoder.DecodeElement" && len(cl.Args) == 2 {
			okd, why = g.DominatedAny(pt, []string{"eq(local:*<encoding/xml.StartElement>.Name,var:muc.directName)", "eq(var:muc.directName,local:*<encoding/xml.StartElement>.Name)"})
			if !okd {
				// Space and Local tested separately
				o1, _ := g.DominatedAny(pt, []string{"eq(local:*<encoding/xml.StartElement>.Name.Space,muc.NSConf)"})
				o2, _ := g.DominatedAny(pt, []string{"eq(local:*<encoding/xml.StartElement>.Name.Local,\"x\")"})
				okd = o1 && o2
			}
		}
		c.r.Check(id, f, "direct invitation decoded from its own payload", "G: the Invitation handed to the direct-invitation callback is decoded from the child named {jabber:x:conference}x, wherever it is in the message", cl.Pos(), okd, why+": a mediated invitation that carries both payloads is delivered a second time")
	}
	c.r.Floor(id, "decodes of an Invitation in the direct-invitation handler", n, 1)
}

// c18RegisteredBeforeQueued (C18.8 / C06.24): every path of Channel.JoinPresence
// to the hand-off passes a store into Client.managed.
func c18RegisteredBeforeQueued(c *cx, rid string) {
	if jp := c.fn(rid, "muc", "(*Channel).JoinPresence"); jp != nil {
		g := jp.Graph()
		isReg := func(q eng.Point, nd ast.Node) bool {
			for _, mu := range jp.MapUpdates() {
				if mu.Node == nd && !mu.Delete {
					if k, _ := jp.FieldClass(mu.Map); k == "muc.Client.managed" {
						return true
					}
				}
			}
			return false
		}
		n := 0
		for _, op := range chanOps(jp) {
			if op.kind == "send" && op.class == "muc.Channel.join" {
				n++
				pt, _ := g.Where(op.node)
				c.r.Check(rid, jp, "channel registered before the join is queued", "O: every path of Channel.JoinPresence to the hand-off passes a store into Client.managed", op.node.Pos(), g.MustPassBefore(g.Entry(), pt, isReg, nil), "a join through Channel.Join (re-join after leaving or being removed) is never registered: the room's self-presence is ignored and Join can only end with its context's error")
			}
		}
		c.r.Floor(rid, "join hand-offs in Channel.JoinPresence", n, 1)
	}
}

// c18ErrorHandOffsAreErrors (C18.18): Join / Leave return what arrives on their
// error channel; a nil that arrives there reads as success ("the room's
// self-presence came") although it only means that the goroutine which waits
// for an error reply could not make sense of it. Every value sent on a
// chan error in the muc package is provably non-nil where it is sent: a
// variable under the fact "!= nil", or a non-pointer concrete value converted
// to error.
func c18ErrorHandOffsAreErrors(c *cx, id string) {
	n := 0
	var scan func(f *eng.Fn)
	scan = func(f *eng.Fn) {
		g := f.Graph()
		f.WalkBody(func(nd ast.Node) bool {
			ss, ok := nd.(*ast.SendStmt)
			if !ok {
				return true
			}
			ct, isChan := f.Info().TypeOf(ss.Chan).Underlying().(*types.Chan)
			if !isChan || eng.TypeStr(ct.Elem()) != "error" {
				return true
			}
			n++
			pt, _ := g.Where(ss)
			okv := false
			vt := f.Info().TypeOf(ss.Value)
			if vt != nil {
				if _, isIface := vt.Underlying().(*types.Interface); !isIface {
					if _, isPtr := vt.Underlying().(*types.Pointer); !isPtr {
						okv = true // a concrete non-pointer value converted to error
					}
				}
			}
			if !okv && g.NilnessOf(ss.Value, pt) == 1 {
				okv = true
			}
			c.r.Check(id, f, "value handed over on an error channel", "G: what is sent on a chan error is non-nil where it is sent (the receiver returns it: nil means success)", ss.Pos(), okv, "the value "+types.ExprString(ss.Value)+" may be nil here: Join / Leave report success although no self-presence / departure arrived")
			return true
		})
		for _, l := range f.Lits {
			scan(l)
		}
	}
	for _, f := range c.allFns() {
		if strings.HasPrefix(f.Short, "muc.") && f.Parent == nil {
			scan(f)
		}
	}
	c.r.Floor(id, "sends on error channels in package muc", n, 4)
}

// c18InvitationDecoderSetsName (C18.22): Client.HandleMessage delivers what
// Invitation.UnmarshalXML decoded when XMLName.Local is set ("this was an
// invitation"). Every success return of the decoder has stored XMLName:
// a decoder that returns nil early - "no addressee, so not an invitation" -
// makes the mediated invitation a room forwards (which carries from, not to)
// disappear: delivered zero times.
func c18InvitationDecoderSetsName(c *cx, id string) {
	f := c.fn(id, "muc", "(*Invitation).UnmarshalXML")
	if f == nil {
		return
	}
	g := f.Graph()
	isStore := func(q eng.Point, nd ast.Node) bool {
		as, ok := nd.(*ast.AssignStmt)
		if !ok {
			return false
		}
		for _, l := range as.Lhs {
			if k, ok := f.FieldClass(l); ok && k == "muc.Invitation.XMLName" {
				return true
			}
		}
		return false
	}
	n := 0
	for _, rs := range g.Returns {
		if g.RetKindOf(rs) == eng.RetError {
			continue
		}
		n++
		rp, _ := g.Where(rs)
		c.r.Check(id, f, "decoded invitation is marked as one", "O: every return of the decoder that may be nil has stored Invitation.XMLName (the mark by which HandleMessage recognises an invitation)", rs.Pos(), g.MustPassBefore(g.Entry(), rp, isStore, nil), "a success return leaves XMLName empty: the invitation is decoded and then dropped by HandleMessage")
	}
	c.r.Floor(id, "success returns of Invitation.UnmarshalXML", n, 1)
}

// c18LeaveAddressedToOccupant (C18.19): Leave returns when the occupant's own
// unavailable presence (or an error reply) arrives; the room sends that only
// for a presence addressed to the occupant address. Whatever To the caller's
// template carries, the presence LeavePresence sends is addressed to
// Channel.addr: every path to the send passes the store p.To = c.addr or the
// edge on which p.To already equals it.
func c18LeaveAddressedToOccupant(c *cx, id string) {
	f := c.fn(id, "muc", "(*Channel).LeavePresence")
	if f == nil {
		return
	}
	g := f.Graph()
	cut := eng.Cut{}
	for _, ce := range g.EdgesMatching("jid.JID.Equal[p2.To](recv.addr)") {
		cut[ce.E] = true
	}
	for _, ce := range g.EdgesMatching("jid.JID.Equal[recv.addr](p2.To)") {
		cut[ce.E] = true
	}
	isStore := func(q eng.Point, nd ast.Node) bool {
		as, ok := nd.(*ast.AssignStmt)
		if !ok || len(as.Lhs) != 1 || len(as.Rhs) != 1 {
			return false
		}
		return f.Norm(as.Lhs[0], nil) == "p2.To" && f.Norm(as.Rhs[0], nil) == "recv.addr"
	}
	n := 0
	var sites []ast.Node
	f.WalkBody(func(nd ast.Node) bool {
		switch x := nd.(type) {
		case *ast.GoStmt:
			sites = append(sites, x)
		case *ast.CallExpr:
			if strings.HasPrefix(f.CalleeID(x), "xmpp.Session.SendPresence") {
				sites = append(sites, x)
			}
		}
		return true
	})
	for _, st := range sites {
		pt, ok := g.Where(st)
		if !ok {
			continue
		}
		n++
		c.r.Check(id, f, "leave presence addressed to the occupant address", "O: every path to the point where the unavailable presence is sent passes `p.To = c.addr`, or the edge p.To.Equal(c.addr)", st.Pos(), g.MustPassBefore(g.Entry(), pt, isStore, cut), "a presence template with another To (the bare room address) is sent as it is: the room does not answer it with the occupant's unavailable presence and Leave ends with its context's error")
	}
	c.r.Floor(id, "send sites in LeavePresence", n, 1)
}
