package rules

import (
	"go/ast"
	"go/token"
	"go/types"
	"strings"

	"verif/checker/eng"
)

func init() {
	Registry["C10"] = Rule{
		Meta: eng.Meta{
			Explanation: "Structural necessary conditions of 'closing is idempotent, final and observable', decided on every path: closeSession writes the closing tag only behind the closed-bit test and after setting the bit, with both locks held at every call site (C10.1); every function outside negotiation that writes through the session encoder or the raw connection passes the closed-bit test (taken under stateMutex) on every path to the write, with ErrOutputStreamClosed on the other edge (C10.2); reads are guarded by the input-closed bit (C10.3); Serve's deferred shutdown closes input then output and keeps the first error, maps io.EOF to nil and any other error to sendError (C10.4); sendError writes the error then closes, both under both locks, and writes nothing when already closed (C10.5); lock discipline L(Session.state, stateMutex) and L(Session.in.ctx/cancel, stateMutex) by must-lockset dataflow (C10.6).",
			NotDecided:  "that Serve returns when the deadline passes (timing); exactly-once under all interleavings beyond what the lock/guard shape implies; behaviour of the transport after Close.",
			Trusted:     trustedCommon,
			Assumptions: []string{"locks are identified by field class (every Session has exactly one out/in/stateMutex); lockWriteCloser.m aliases Session.out by construction (checked)"},
		},
		Run: runC10,
	}
}

const (
	outClosed = "all(*.state,xmpp.OutputStreamClosed)"
	inClosed  = "all(*.state,xmpp.InputStreamClosed)"
)

// negExempt: functions of the single-goroutine negotiation phase that access
// session state without the mutex by design.
var negExempt = map[string]string{
	"xmpp.negotiateSession":    "negotiation phase (single goroutine, session not yet shared)",
	"xmpp.negotiateFeatures":   "negotiation phase",
	"xmpp.writeStreamFeatures": "negotiation phase",
	"xmpp.readStreamFeatures":  "negotiation phase",
	"xmpp.negotiator$1":        "negotiation phase",
	"xmpp.mandatoryLeft":       "negotiation phase: called by negotiateFeatures only (checked: C10.6 who-may-call)",
}

// encoderWrites lists, per function, the nodes that write through the session
// encoder (a use of Session.out.e as receiver or argument) or the raw
// connection through intstream.Close.
func encoderWrites(f *eng.Fn) []ast.Node {
	var out []ast.Node
	f.WalkBody(func(n ast.Node) bool {
		cl, ok := n.(*ast.CallExpr)
		if !ok {
			return true
		}
		var ops []ast.Expr
		ops = append(ops, cl.Args...)
		if sel, ok := ast.Unparen(cl.Fun).(*ast.SelectorExpr); ok {
			ops = append(ops, sel.X)
		}
		for _, o := range ops {
			if cls, ok := f.FieldClass(o); ok && cls == "xmpp.Session.out.e" {
				out = append(out, cl)
				return true
			}
		}
		if f.CalleeID(cl) == "internal/stream.Close" {
			out = append(out, cl)
		}
		return true
	})
	return out
}

func runC10(p *eng.Prog, r *eng.Report, tier string) {
	c := &cx{p, r, tier}
	r19ExpiredDeadlineClearedByItsSetter(c, "C10.26")
	importRules(c, "C06", []string{"C06.6"}, "C10.24")
	r19CancelledOnlyWhileWaiting(c, "C10.25")
	r18ClosingTagWrittenOnce(c, "C10.23")
	r17ReaderHandsOnTheDecodersError(c, "C10.22")
	closedErrorNotClassified(c, "C10.18")
	c10WhoClosesTheStreams(c, "C10.21")
	// C10.19 (= C04.13 / C02.14): the connection adapters perform one operation of the
	// wrapped connection per call and hand its results on: the closing tag is written once
	c04AdaptersReportEveryFault(c, "C10.19")
	// C10.20 (= C08.2): Serve ends without error only when the peer closed its stream: the filter
	// yields io.EOF for the stream's own end tag and for nothing else
	c08ReaderAs(c, "C10.20")
	// ---- C10.1 closeSession ---------------------------------------------------
	cs := c.fn("C10.1", "", "(*Session).closeSession")
	if cs != nil {
		g := cs.Graph()
		n := 0
		for _, cl := range cs.Calls("internal/stream.Close") {
			n++
			c.dom("C10.1", cs, cl, "write of the closing tag", []string{"!" + outClosed})
			// ... and by nothing else: a session that is not Ready (negotiation failed
			// after the header went out) still owes the peer its closing tag
			c.onlyFacts("C10.1", cs, cl, "write of the closing tag [no other condition]", []string{"!" + outClosed, "!all(xmpp.Session.State[*](),xmpp.OutputStreamClosed)"})
			pt, _ := g.Where(cl)
			setBit := func(q eng.Point, nd ast.Node) bool {
				as, ok := nd.(*ast.AssignStmt)
				if !ok {
					return false
				}
				for i, l := range as.Lhs {
					if k, _ := cs.FieldClass(l); k == "xmpp.Session.state" && len(as.Rhs) > i {
						if v, ok := cs.ConstInt(as.Rhs[i]); ok && v&16 != 0 {
							return true
						}
					}
				}
				return false
			}
			c.r.Check("C10.1", cs, "closed bit set before the write", "O: the OutputStreamClosed bit is set before the closing tag is written (a failed write does not allow a second attempt)", cl.Pos(), g.MustPassBefore(g.Entry(), pt, setBit, nil), "closing tag can be written before the bit is set")
			okArg := len(cl.Args) == 2 && cs.Norm(cl.Args[0], &pt) == "xmpp.Session.Conn[recv]()"
			c.r.Check("C10.1", cs, "closing tag destination", "P: the closing tag goes to the session's connection", cl.Pos(), okArg, "first argument is not s.Conn()")
		}
		c.r.Floor("C10.1", "closing-tag writes in closeSession", n, 1)
		c.r.Ceil("C10.1", "closing-tag writes in closeSession", n, 1)
		// the closed edge returns without writing
		for _, ce := range g.EdgesMatching(outClosed) {
			bad := ""
			for _, nd := range g.ReachableNodes(g.EdgeTarget(ce.E), nil) {
				if cs.ContainsCall(nd, "internal/stream.Close") != nil {
					bad = "the already-closed edge reaches a write"
				}
			}
			c.r.Check("C10.1", cs, "already-closed edge", "G: when the bit is set closeSession writes nothing", cs.Pos(), bad == "", bad)
		}
		requiresLocks(c, "C10.1", "xmpp.(*Session).closeSession")
	}
	// who writes the closing tag at all
	for _, f := range c.allFns() {
		for _, cl := range f.Calls("internal/stream.Close") {
			c.r.Check("C10.1", f, "call of internal/stream.Close", "C: only closeSession writes the closing tag", cl.Pos(), f.Short == "xmpp.(*Session).closeSession", "closing tag written outside closeSession")
		}
	}

	closedBitBeforeWrites(c, "C10.2")

	// ---- C10.3 reads ---------------------------------------------------------------
	lr := c.fn("C10.3", "", "(*lockReadCloser).Token")
	if lr != nil {
		n := 0
		for _, cl := range lr.Calls("encoding/xml.TokenReader.Token") {
			n++
			c.dom("C10.3", lr, cl, "read from the session decoder", []string{"!" + inClosed})
		}
		c.r.Floor("C10.3", "decoder reads in lockReadCloser.Token", n, 1)
		g := lr.Graph()
		for _, ce := range g.EdgesMatching(inClosed) {
			for _, nd := range g.ReachableNodes(g.EdgeTarget(ce.E), nil) {
				if rs, ok := nd.(*ast.ReturnStmt); ok {
					okRet := len(rs.Results) == 2 && lr.Norm(rs.Results[1], nil) == "var:xmpp.ErrInputStreamClosed"
					c.r.Check("C10.3", lr, "input-closed edge result", "K: reads fail with ErrInputStreamClosed once the input stream is closed", rs.Pos(), okRet, "returns "+c.p.NodeStr(rs))
					break
				}
			}
		}
	}
	// who reads the session decoder outside negotiation
	for _, u := range fieldUses(c, "xmpp.Session.in.d") {
		if _, ok := negExempt[u.fn.Short]; ok {
			continue
		}
		c.r.Check("C10.3", u.fn, "use of Session.in.d", "C: outside negotiation the decoder is read only by lockReadCloser.Token", u.expr.Pos(), u.fn.Short == "xmpp.(*lockReadCloser).Token", "decoder used in "+u.fn.Short)
	}

	sendErrorReturnsError(c, "C10.5")
	// ---- C10.8 who may touch the connection's read deadline ------------------------------
	// SetCloseDeadline puts the close deadline on the connection as its read
	// deadline; the write paths interrupt a write by expiring and then
	// clearing the WRITE deadline only. A SetDeadline / SetReadDeadline
	// anywhere else (the write-deadline watcher resetting "the deadline")
	// silently removes the close deadline and Serve never returns.
	readDL := map[string]string{
		"xmpp.setDeadline$1":               "negotiation watcher: runs before the session is served",
		"xmpp.setDeadline":                 "negotiation watcher",
		"xmpp.(*Session).SetCloseDeadline": "installs the close deadline",
		"xmpp.(*conn).SetDeadline":         "forwarding method of the connection wrapper",
		"xmpp.(*conn).SetReadDeadline":     "forwarding method of the connection wrapper",
		"xmpp.teeConn.SetDeadline":         "forwarding method of the tee connection",
		"xmpp.teeConn.SetReadDeadline":     "forwarding method of the tee connection",
	}
	nDL := 0
	for _, f := range c.allFns() {
		if f.Pkg.PkgPath != eng.ModPath || f.Body == nil {
			continue
		}
		for _, cl := range f.AllCalls() {
			sel, ok := ast.Unparen(cl.Fun).(*ast.SelectorExpr)
			if !ok || (sel.Sel.Name != "SetDeadline" && sel.Sel.Name != "SetReadDeadline") {
				continue
			}
			if t := f.Info().TypeOf(sel.X); t == nil || !hasMethod(t, "SetWriteDeadline") {
				continue
			}
			nDL++
			_, okSite := readDL[f.Short]
			c.r.Check("C10.8", f, "call of "+sel.Sel.Name, "C: the read deadline of the connection is touched only by the negotiation watcher, SetCloseDeadline and the forwarding wrappers", cl.Pos(), okSite, f.Short+" sets or clears the connection's read deadline: a close deadline installed by SetCloseDeadline is lost")
			if f.Short == "xmpp.(*Session).SetCloseDeadline" {
				// the close deadline bounds the wait for the peer's closing tag
				// (reads): our own closing tag must still be written after it passed
				c.r.Check("C10.8", f, "close deadline is a read deadline", "K: SetCloseDeadline installs the deadline with SetReadDeadline (SetDeadline would also expire the write of the closing tag that Serve's shutdown performs after the deadline)", cl.Pos(), sel.Sel.Name == "SetReadDeadline", "the close deadline is installed with "+sel.Sel.Name+": after it has passed the closing tag cannot be written although the state says closed")
			}
		}
	}
	c.r.Floor("C10.8", "read-deadline sites", nDL, 3)
	// ---- C10.7 SetCloseDeadline installs an independent deadline ------------------------
	// the new context must not descend from the one it replaces: a child keeps
	// its parent's earlier deadline (a later call could never extend it) and is
	// cancelled together with it
	if sd := c.fn("C10.7", "", "(*Session).SetCloseDeadline"); sd != nil {
		g := sd.Graph()
		nctx := 0
		for _, w := range sd.FieldWrites("xmpp.Session.in.ctx") {
			as, ok := w.Stmt.(*ast.AssignStmt)
			if !ok || len(as.Rhs) != 1 {
				continue
			}
			call, ok := ast.Unparen(as.Rhs[0]).(*ast.CallExpr)
			if !ok {
				continue
			}
			nctx++
			pt, _ := g.Where(as)
			okc := sd.CalleeID(call) == "context.WithDeadline" && len(call.Args) == 2
			why := "the context is built by " + sd.CalleeID(call)
			if okc {
				parent, dl := sd.Norm(call.Args[0], &pt), sd.Norm(call.Args[1], &pt)
				if strings.Contains(parent, ".in.ctx") || strings.Contains(parent, "recv.") {
					okc, why = false, "the new context descends from "+parent+": it inherits the earlier deadline and cancellation"
				}
				if dl != "p0" {
					okc, why = false, "the deadline is "+dl+", not the argument"
				}
			}
			c.r.Check("C10.7", sd, "context installed by SetCloseDeadline", "P: Session.in.ctx = context.WithDeadline(<a context independent of the session's current one>, t)", as.Pos(), okc, why)
		}
		c.r.Floor("C10.7", "stores of Session.in.ctx in SetCloseDeadline", nctx, 1)
	}

	// ---- C10.4 Serve ------------------------------------------------------------------
	sv := c.fn("C10.4", "", "(*Session).Serve")
	if sv != nil {
		g := sv.Graph()
		serveCtxReread(c, "C10.4", sv)
		serveCtxRootedInBackground(c, "C10.13")
		handlerWriterKeepsTheLock(c, "C10.14")
		sendErrorOnlyFromServe(c, "C10.17")
		// C10.16 a cancelled negotiation leaves no expired deadline on the
		// connection (Close would fail to write the closing tag): the watcher
		// clears what it set, both directions (= C04.4)
		c04DeadlineAs(c, "C10.16")
		// C10.15 "Serve keeps reading after a local Close": the only error of the
		// automatic reply that is tolerated is ErrOutputStreamClosed, and nobody
		// but the reply detector decides that a request was answered
		replyFlagOnlyByDetector(c, "C10.15")
		okDefer := false
		for _, d := range g.Defers {
			lit, ok := ast.Unparen(d.Call.Fun).(*ast.FuncLit)
			if !ok {
				continue
			}
			lf := c.p.FnOfLit(lit)
			lg := lf.Graph()
			ci := lf.Calls("xmpp.Session.closeInputStream")
			cc := lf.Calls("xmpp.Session.Close")
			if len(ci) == 1 && len(cc) == 1 {
				p1, _ := lg.Where(ci[0])
				p2, _ := lg.Where(cc[0])
				uncond := len(lg.FactsAt(p1)) == 0 && len(lg.FactsAt(p2)) == 0
				order := lg.MustPassBefore(lg.Entry(), p2, func(q eng.Point, nd ast.Node) bool {
					return lf.ContainsCall(nd, "xmpp.Session.closeInputStream") != nil
				}, nil)
				// first error wins: err = e only under err == nil
				first := true
				for _, w := range lf.Writes() {
					if v := rootLocal(lf, w.LHS); v != nil && v.Name() == sv.Sig().Results().At(0).Name() {
						pt, _ := lg.Where(w.Stmt)
						if ok, _ := lg.Dominated(pt, "eq(outer.r0,nil)"); !ok {
							first = false
						}
					}
				}
				okDefer = uncond && order && first
			}
			// the defer is installed before the loop: every path to handleInputStream passes it
			for _, cl := range sv.Calls("xmpp.handleInputStream") {
				pt, _ := g.Where(cl)
				if !g.MustPassBefore(g.Entry(), pt, func(q eng.Point, nd ast.Node) bool { return nd == ast.Node(d) }, nil) {
					okDefer = false
				}
			}
		}
		c.r.Check("C10.4", sv, "deferred shutdown", "O: Serve defers, before serving, an unconditional closeInputStream then Close, keeping the first error", sv.Pos(), okDefer, "no deferred closure calling closeInputStream and then Close unconditionally (first error kept)")
		for _, cl := range sv.Calls("xmpp.handleInputStream") {
			pt, _ := g.Where(cl)
			hn := sv.Norm(cl, &pt)
			for _, rs := range g.Returns {
				rp, _ := g.Where(rs)
				if !g.Reachable(g.After(pt), rp, nil, nil) || len(rs.Results) != 1 {
					continue
				}
				res := sv.Norm(rs.Results[0], &rp)
				switch {
				case res == "nil":
					c.domAny("C10.4", sv, rs, "return nil", []string{"eq(" + hn + ",var:io.EOF)"})
				case strings.HasPrefix(res, "xmpp.Session.sendError["):
					c.r.Check("C10.4", sv, "return sendError(err)", "P: any other error is sent as a stream error", rs.Pos(), res == "xmpp.Session.sendError[recv]("+hn+")", "sendError argument is not the handler error")
				}
			}
			// the loop continues only on nil
			c.r.Check("C10.4", sv, "serve loop back-edge", "G: the serve loop continues only after a nil result", cl.Pos(), g.DominatedFrom(g.After(pt), pt, []string{"eq(" + hn + ",nil)"}), "loop continues after a non-nil result")
		}
		for _, ce := range g.EdgesMatching("selectarm(recv context.Context.Done[recv.in.ctx]())") {
			for _, nd := range g.ReachableNodes(g.EdgeTarget(ce.E), nil) {
				if rs, ok := nd.(*ast.ReturnStmt); ok {
					rp, _ := g.Where(rs)
					okc := len(rs.Results) == 1 && sv.Norm(rs.Results[0], &rp) == "context.Context.Err[recv.in.ctx]()"
					c.r.Check("C10.4", sv, "close-deadline arm", "K: when the input context is done Serve returns its error", rs.Pos(), okc, "returns "+c.p.NodeStr(rs))
					break
				}
			}
		}
	}
	ci := c.fn("C10.4", "", "(*Session).closeInputStream")
	if ci != nil {
		n := 0
		for _, w := range ci.FieldWrites("xmpp.Session.state") {
			if v, ok := ci.ConstInt(w.RHS); ok && v&32 != 0 {
				n++
			}
		}
		c.r.Check("C10.4", ci, "InputStreamClosed bit", "K: closeInputStream sets the InputStreamClosed bit", ci.Pos(), n == 1, "bit not set exactly once")
		// ... and on every path: no return is reachable without the write
		cg := ci.Graph()
		setsBit := func(q eng.Point, nd ast.Node) bool {
			for _, w := range ci.FieldWrites("xmpp.Session.state") {
				if w.Stmt == nd {
					if v, ok := ci.ConstInt(w.RHS); ok && v&32 != 0 {
						return true
					}
				}
			}
			return false
		}
		all := true
		// an exit behind a test that found the bit already set is fine
		already := eng.Cut{}
		for _, ce := range cg.EdgesMatching("all(recv.state,xmpp.InputStreamClosed)") {
			already[ce.E] = true
		}
		for _, q := range cg.Exits() {
			if cg.Reachable(cg.Entry(), q, already, setsBit) {
				all = false
			}
		}
		c.r.Check("C10.4", ci, "InputStreamClosed bit on every path", "S: every path through closeInputStream marks the input closed (also when the input context has already expired)", ci.Pos(), all, "an exit is reachable without setting the bit")
		ncan := 0
		for _, cl := range ci.AllCalls() {
			if sel, ok := ast.Unparen(cl.Fun).(*ast.SelectorExpr); ok {
				if k, _ := ci.FieldClass(sel); k == "xmpp.Session.in.cancel" {
					ncan++
				}
			}
		}
		c.r.Check("C10.4", ci, "cancel of the input context", "K: closeInputStream cancels the input context", ci.Pos(), ncan == 1, "in.cancel not called exactly once")
	}

	// ---- C10.5 sendError ------------------------------------------------------------------
	se := c.fn("C10.5", "", "(*Session).sendError")
	if se != nil {
		g := se.Graph()
		li := g.Locks(nil)
		for _, cl := range se.Calls("xmpp.Session.closeSession") {
			pt, _ := g.Where(cl)
			isWrite := func(q eng.Point, nd ast.Node) bool { return se.ContainsCall(nd, "stream.Error.WriteXML") != nil }
			c.r.Check("C10.5", se, "closeSession after the error element", "O: the stream error is written before the stream is closed", cl.Pos(), g.MustPassBefore(g.Entry(), pt, isWrite, nil), "closeSession reachable without writing the stream error")
			// the closing tag bypasses the encoder (it is written to the raw
			// connection), so the buffered stream error must be flushed first
			for _, wc := range se.Calls("stream.Error.WriteXML") {
				wp, _ := g.Where(wc)
				if !g.Reachable(g.After(wp), pt, nil, nil) {
					continue
				}
				isFlush := func(q eng.Point, nd ast.Node) bool {
					fc := se.ContainsCall(nd, "*.Flush")
					if fc == nil {
						return false
					}
					sel, ok := ast.Unparen(fc.Fun).(*ast.SelectorExpr)
					if !ok {
						return false
					}
					k, _ := se.FieldClass(sel.X)
					return k == "xmpp.Session.out.e"
				}
				which := "stream error"
				if sel, ok := ast.Unparen(wc.Fun).(*ast.SelectorExpr); ok {
					which = se.Norm(sel.X, nil)
					if strings.HasPrefix(which, "local:") {
						which = "a local " + eng.TypeStr(se.Info().TypeOf(sel.X))
					}
				}
				c.r.Check("C10.5", se, "flush between WriteXML of "+which+" and the closing tag", "O: the encoder is flushed after the stream error and before closeSession writes the closing tag to the raw connection (otherwise the error never reaches the peer)", wc.Pos(), g.MustPassBefore(g.After(wp), pt, isFlush, nil), "closeSession is reachable after WriteXML without flushing the session encoder: the stream error stays in the encoder's buffer behind </stream:stream>")
			}
		}
		for _, cl := range se.Calls("stream.Error.WriteXML") {
			ls, _ := li.AtNode(cl)
			c.r.Check("C10.5", se, "stream error write", "L: the stream error is written with the output lock and stateMutex held", cl.Pos(), ls.Has("xmpp.Session.out", true) && ls.Has("xmpp.Session.stateMutex", true), "lockset "+ls.String())
			// a failed write returns that error
			pt, _ := g.Where(cl)
			wn := se.Norm(cl, &pt)
			for _, ce := range g.EdgesMatching("!eq(" + wn + "#1,nil)") {
				for _, nd := range g.ReachableNodes(g.EdgeTarget(ce.E), nil) {
					if rs, ok := nd.(*ast.ReturnStmt); ok {
						c.r.Check("C10.5", se, "failed stream error write", "G: a failed write of the stream error is reported", rs.Pos(), g.RetKindOf(rs) == eng.RetError, "not an error return")
						break
					}
				}
			}
		}
		// after a successful send the original error is returned
		for _, rs := range g.Returns {
			if len(rs.Results) == 1 && se.Norm(rs.Results[0], nil) == "nil" {
				c.r.Check("C10.5", se, "return nil", "K: sendError never reports success (the error passed in, or a newer one, is returned)", rs.Pos(), false, "sendError returns nil")
			}
		}
	}

	// ---- C10.6 lock discipline ------------------------------------------------------------------
	lockDiscipline(c, "C10.6", "xmpp.Session.state", "xmpp.Session.stateMutex", negExempt, 8)
	// a helper is exempt only as long as nothing but negotiation code calls it
	for _, f := range c.allFns() {
		for _, cl := range f.CallsDeep("xmpp.mandatoryLeft") {
			_, neg := negExempt[f.Short]
			c.r.Check("C10.6", f, "call of mandatoryLeft", "C: the helper that reads Session.state without the mutex is called by negotiation code only", cl.Pos(), neg, "called from "+f.Short+", which is not part of the single-goroutine negotiation phase")
		}
	}
	exIn := map[string]string{"xmpp.negotiateSession": "construction"}
	lockDiscipline(c, "C10.6", "xmpp.Session.in.ctx", "xmpp.Session.stateMutex", exIn, 2)
	lockDiscipline(c, "C10.6", "xmpp.Session.in.cancel", "xmpp.Session.stateMutex", exIn, 2)
	// lock pairing for the session locks
	lockPairing(c, "C10.6", []string{"xmpp.Session.stateMutex", "xmpp.Session.out", "xmpp.Session.in", "xmpp.Session.sentStanzaMutex"}, map[string]bool{"xmpp.(*Session).TokenWriter": true, "xmpp.(*Session).TokenReader": true})
	closerTypestate(c, "C10.6")
	c05DeferWriterAs(c, "C10.6")
	closerFresh(c, "C10.6")
	c10ReplyAfterClose(c, "C10.9")
	lockOrder(c, "C10.10")
	c10DeadlinePlumbing(c, "C10.11")
	c.r.Floor("C10.12", "fmt.Errorf and errors.New calls examined in package xmpp", errorsKeepIdentity(c, "C10.12", []string{""}), 20)
}

func containsNode(root, n ast.Node) bool {
	found := false
	ast.Inspect(root, func(x ast.Node) bool {
		if x == n {
			found = true
		}
		return !found
	})
	return found
}

// fieldUsesIn lists the uses of a field class inside f.
func fieldUsesIn(f *eng.Fn, cls string) []ast.Node {
	var out []ast.Node
	f.WalkBody(func(n ast.Node) bool {
		if sel, ok := n.(*ast.SelectorExpr); ok {
			if k, ok := f.FieldClass(sel); ok && k == cls {
				out = append(out, sel)
				return false
			}
		}
		return true
	})
	return out
}

// closerTypestate justifies the entry locksets of lockWriteCloser /
// lockReadCloser: their only constructors are TokenWriter / TokenReader, after
// the lock was taken, with m = the session's own locker; Close unlocks exactly
// once (guarded by the err field).
func closerTypestate(c *cx, id string) {
	for _, t := range []struct{ typ, ctor, lock, mfield string }{
		{"xmpp.lockWriteCloser", "xmpp.(*Session).TokenWriter", "xmpp.Session.out", "recv.out.Locker"},
		{"xmpp.lockReadCloser", "xmpp.(*Session).TokenReader", "xmpp.Session.in", "recv.in.Locker"},
	} {
		n := 0
		for _, f := range c.allFns() {
			f.WalkBody(func(nd ast.Node) bool {
				cl, ok := nd.(*ast.CompositeLit)
				if !ok {
					return true
				}
				if tt := f.Info().TypeOf(cl); tt == nil || eng.TypeStr(tt) != t.typ {
					return true
				}
				n++
				okc := f.Short == t.ctor
				why := "constructed outside " + t.ctor
				if okc {
					ls, _ := f.Graph().Locks(nil).AtNode(cl)
					m := structLitField(cl, "m")
					owner := structLitField(cl, "w")
					if owner == nil {
						owner = structLitField(cl, "s")
					}
					okc = ls.Has(t.lock, true) && m != nil && f.Norm(m, nil) == t.mfield && owner != nil && f.Norm(owner, nil) == "recv"
					why = "literal not built under " + t.lock + " with m = the session's locker: lockset " + ls.String()
				}
				c.r.Check(id, f, "constructor of "+t.typ, "typestate: the closer is only created holding the session lock it will release", cl.Pos(), okc, why)
				return true
			})
		}
		c.r.Floor(id, "constructors of "+t.typ, n, 1)
		c.r.Ceil(id, "constructors of "+t.typ, n, 1)
	}
	// the err field is the "lock already released" marker: Close returns
	// without unlocking when it is set. Every store of it comes after the
	// release (direct or deferred) in the same function - a store anywhere else
	// (a sticky write error, say) makes the next Close keep the session lock.
	for _, cls := range []string{"xmpp.lockWriteCloser.err", "xmpp.lockReadCloser.err"} {
		n := 0
		for _, f := range c.allFns() {
			for _, w := range f.FieldWrites(cls) {
				n++
				g := f.Graph()
				pt, _ := g.Where(w.Stmt)
				isUnlock := func(q eng.Point, nd ast.Node) bool {
					found := false
					ast.Inspect(nd, func(x ast.Node) bool {
						if cc, ok := x.(*ast.CallExpr); ok && f.CalleeID(cc) == "sync.Locker.Unlock" {
							found = true
						}
						return !found
					})
					return found
				}
				c.r.Check(id, f, "released marker "+cls+" stored", "O: the marker that makes Close return without unlocking is stored only after the session lock was released (or its release deferred) in the same call", w.Stmt.Pos(), g.MustPassBefore(g.Entry(), pt, isUnlock, nil) || unlockFollows(g, pt, isUnlock), "the marker is set while the lock is still held: the next Close returns at its guard and the session lock is never released")
			}
		}
		c.r.Floor(id, "stores to "+cls, n, 1)
	}
	// the final flush of the write closer happens while it still holds the
	// output lock: nothing is written or flushed after a direct Unlock (a
	// release "before waiting for the network" lets the next sender flush the
	// same buffer concurrently: bytes go out twice)
	if wc := c.fn(id, "", "(*lockWriteCloser).Close"); wc != nil {
		g := wc.Graph()
		for _, cl := range wc.Calls("sync.Locker.Unlock") {
			if _, isDefer := g.Parent(cl).(*ast.DeferStmt); isDefer {
				continue
			}
			up, _ := g.Where(cl)
			bad := ""
			for _, nd := range g.ReachableNodes(g.After(up), nil) {
				if wc.ContainsCall(nd, "*.Flush") != nil || wc.ContainsCall(nd, "*.EncodeToken") != nil {
					bad = "a flush or write at " + c.p.Pos(nd.Pos()) + " runs after the output lock was released"
				}
			}
			c.r.Check(id, wc, "nothing is flushed after the release", "O: in lockWriteCloser.Close the release of the output lock is the last thing that touches the encoder's path (deferred, or after the flush)", cl.Pos(), bad == "", bad)
		}
	}
	for _, name := range []string{"(*lockWriteCloser).Close", "(*lockReadCloser).Close"} {
		f := c.fn(id, "", name)
		if f == nil {
			continue
		}
		g := f.Graph()
		// Unlock (direct or deferred) only behind the err == nil guard; err set on every path after
		n := 0
		for _, cl := range f.CallsDeep("sync.Locker.Unlock") {
			n++
			c.dom(id, f, cl, "Unlock in "+name, []string{"eq(recv.err,nil)"})
		}
		c.r.Floor(id, "Unlock in "+name, n, 1)
		c.r.Ceil(id, "Unlock in "+name, n, 1)
		for _, rs := range g.Returns {
			pt, _ := g.Where(rs)
			if ok, _ := g.Dominated(pt, "!eq(recv.err,nil)"); ok {
				continue
			}
			errCls := "xmpp." + strings.Trim(strings.Split(name, ")")[0], "(*") + ".err"
			setErr := func(q eng.Point, nd ast.Node) bool {
				as, ok := nd.(*ast.AssignStmt)
				if !ok || len(as.Lhs) != len(as.Rhs) {
					return false
				}
				for i, l := range as.Lhs {
					if k, _ := f.FieldClass(l); k == errCls && g.NilnessOf(as.Rhs[i], q) == 1 {
						return true
					}
				}
				return false
			}
			isUnlock := func(q eng.Point, nd ast.Node) bool {
				found := false
				ast.Inspect(nd, func(x ast.Node) bool {
					if cc, ok := x.(*ast.CallExpr); ok && f.CalleeID(cc) == "sync.Locker.Unlock" {
						found = true
					}
					return !found
				})
				return found
			}
			c.r.Check(id, f, "closer releases the session lock", "O: every return of the first Close (past the err guard) has released, or deferred the release of, the session lock it was created with (also when the final flush fails)", rs.Pos(), g.MustPassBefore(g.Entry(), pt, isUnlock, nil), "a return past the guard is reachable without Unlock: the session lock leaks and the next writer blocks forever")
			c.r.Check(id, f, "closer marked closed", "O: every return that passed the guard stores a non-nil marker in the closer's err field (a second Close does not unlock again)", rs.Pos(), g.MustPassBefore(g.Entry(), pt, setErr, nil), "a return leaves the closer open after unlocking")
		}
	}
}

// serveCtxReread: the close-deadline context is re-read in every iteration of
// the serve loop (SetCloseDeadline installs a NEW context while Serve runs and
// cancels the old one): no cycle from the Done() wait back to itself avoids the
// read of Session.in.ctx.
func serveCtxReread(c *cx, id string, sv *eng.Fn) {
	g := sv.Graph()
	// ... and the end of a context that has been REPLACED in the meantime
	// does not end Serve: SetCloseDeadline cancels the context it replaces, and
	// it can do so between the loop's read of in.ctx and its poll. From the
	// ctx.Done() arm every return passes a comparison of the polled context
	// with the session's current one.
	isRecheck := func(q eng.Point, nd ast.Node) bool {
		found := false
		ast.Inspect(nd, func(x ast.Node) bool {
			if be, ok := x.(*ast.BinaryExpr); ok && (be.Op == token.EQL || be.Op == token.NEQ) {
				for _, side := range []ast.Expr{be.X, be.Y} {
					if k, _ := sv.FieldClass(side); k == "xmpp.Session.in.ctx" {
						found = true
					}
				}
			}
			return !found
		})
		return found
	}
	nArm := 0
	for _, ce := range g.EdgesMatching("selectarm(recv context.Context.Done[*]())") {
		from := g.EdgeTarget(ce.E)
		if !g.Reachable(from, from, nil, nil) {
			continue // not in the loop
		}
		nArm++
		bad := ""
		for _, rs := range g.Returns {
			rp, _ := g.Where(rs)
			if g.Reachable(from, rp, nil, func(q eng.Point, nd ast.Node) bool {
				return isRecheck(q, nd) || sv.ContainsCall(nd, "xmpp.handleInputStream") != nil
			}) {
				bad = "return at " + c.p.Pos(rs.Pos()) + " follows the Done() arm without asking whether the polled context is still the session's: SetCloseDeadline racing with the loop makes Serve return context.Canceled"
			}
		}
		c.r.Check(id, sv, "a replaced context does not end Serve", "O: from the ctx.Done() arm of the serve loop every return passes a comparison with the current Session.in.ctx", sv.Pos(), bad == "", bad)
	}
	c.r.Floor(id, "Done() arms in the serve loop", nArm, 1)
	// the close-deadline context is re-read in every iteration of the serve
	// loop (SetCloseDeadline installs a NEW context while Serve runs): no
	// cycle from the Done() wait back to itself avoids the read of in.ctx
	nw := 0
	for _, cl := range sv.Calls("context.Context.Done") {
		pt, ok := g.Where(cl)
		if !ok || !g.Reachable(g.After(pt), pt, nil, nil) {
			continue // not in a loop
		}
		nw++
		reads := func(q eng.Point, nd ast.Node) bool {
			found := false
			ast.Inspect(nd, func(x ast.Node) bool {
				if sel, ok := x.(*ast.SelectorExpr); ok {
					if k, _ := sv.FieldClass(sel); k == "xmpp.Session.in.ctx" {
						found = true
					}
				}
				return !found
			})
			return found
		}
		c.r.Check(id, sv, "deadline context re-read per iteration", "O: every iteration of the serve loop waits on the CURRENT Session.in.ctx (SetCloseDeadline replaces it while Serve runs)", cl.Pos(), !g.Reachable(g.After(pt), pt, nil, reads), "the loop can come back to the Done() wait without reading Session.in.ctx again: a context captured before SetCloseDeadline is cancelled by it and Serve returns early with context.Canceled")
	}
	c.r.Floor(id, "Done() waits in the serve loop", nw, 1)
}

// closerFresh (E-alias): every handle TokenWriter/TokenReader hands out is its
// own allocation. The closed state lives in the handle (err field): a handle
// stored in and returned from shared storage (a session field, a pool) is
// re-armed by the next call, so a stale holder's write after Close goes
// through under a lock it does not hold.
func closerFresh(c *cx, id string) {
	for _, typ := range []string{"xmpp.lockWriteCloser", "xmpp.lockReadCloser"} {
		n := 0
		for _, f := range c.allFns() {
			g := f.Graph()
			f.WalkBody(func(nd ast.Node) bool {
				cl, ok := nd.(*ast.CompositeLit)
				if !ok {
					return true
				}
				if tt := f.Info().TypeOf(cl); tt == nil || eng.TypeStr(tt) != typ {
					return true
				}
				n++
				okf, why := false, "the literal is neither allocated with & nor bound to a new local"
				switch p := g.Parent(cl).(type) {
				case *ast.UnaryExpr:
					okf = p.Op == token.AND
				case *ast.AssignStmt:
					for i, r := range p.Rhs {
						if ast.Unparen(r) == ast.Expr(cl) && i < len(p.Lhs) {
							if idn, isId := ast.Unparen(p.Lhs[i]).(*ast.Ident); isId {
								if v, isVar := f.Info().ObjectOf(idn).(*types.Var); isVar && !v.IsField() && v.Parent() != v.Pkg().Scope() {
									okf = true
								}
							} else {
								why = "the literal is stored into " + f.Norm(p.Lhs[i], nil) + " (shared storage)"
							}
						}
					}
				case *ast.ValueSpec:
					okf = f.Decl != nil
				}
				c.r.Check(id, f, "allocation of "+typ, "E-alias: a handle is a fresh allocation per call (its closed state is per handle)", cl.Pos(), okf, why)
				return true
			})
		}
		c.r.Floor(id, "allocations of "+typ, n, 1)
	}
}

// c10ReplyAfterClose (C10.9): after a local Close, Serve goes on until the
// peer closes its stream. What handleInputStream writes on its own account
// after the handler has returned (the automatic reply to an unanswered IQ and
// the final flush, both through the deferWriter) fails with
// ErrOutputStreamClosed then: that error is not returned (it would end Serve
// with an error and leave the peer's closing tag unread). Every return of an
// error that comes from such a write is dominated by the test that it is not
// ErrOutputStreamClosed.
func c10ReplyAfterClose(c *cx, id string) {
	f := c.fn(id, "", "handleInputStream")
	if f == nil {
		return
	}
	g := f.Graph()
	n := 0
	for _, rs := range g.Returns {
		if c.p.Enclosing(rs.Pos()) != f || len(rs.Results) != 1 {
			continue
		}
		pt, _ := g.Where(rs)
		nrm := f.Norm(rs.Results[0], &pt)
		var src string
		switch {
		case strings.HasPrefix(nrm, "mellium.im/xmlstream.Copy(local:") && strings.Contains(nrm, "<*xmpp.deferWriter>,") && strings.HasSuffix(nrm, "#1"):
			src = "the automatic reply"
		case strings.HasPrefix(nrm, "xmpp.deferWriter.Flush["):
			src = "the final flush"
		default:
			continue
		}
		n++
		okd, why := g.DominatedAny(pt, []string{"!errors.Is(" + nrm + ",var:xmpp.ErrOutputStreamClosed)", "!eq(" + nrm + ",var:xmpp.ErrOutputStreamClosed)"})
		c.r.Check(id, f, "error of "+src+" returned", "G: an error of "+src+" ends Serve only if it is not ErrOutputStreamClosed (after a local Close Serve continues until the peer closes)", rs.Pos(), okd, why)
	}
	c.r.Floor(id, "returns of write errors after the handler in handleInputStream", n, 2)
}

// c10DeadlinePlumbing (C10.11): the wrapper that the session puts around a
// non-net.Conn transport forwards deadlines by kind. The function stored in
// conn.rd is nil or the SetReadDeadline method value of the previous
// connection, conn.wd nil or its SetWriteDeadline; conn.SetReadDeadline calls
// rd and conn.SetWriteDeadline calls wd. (A copy-paste slip that stores the
// write setter in rd makes SetCloseDeadline set a write deadline: Serve stays
// blocked in its read past the close deadline.)
func c10DeadlinePlumbing(c *cx, id string) {
	n := 0
	want := map[string]string{"rd": "SetReadDeadline", "wd": "SetWriteDeadline"}
	for _, f := range c.allFns() {
		if f.Body == nil || !strings.HasPrefix(f.Short, "xmpp.") {
			continue
		}
		g := f.Graph()
		check := func(fld string, val ast.Expr, pt eng.Point, pos token.Pos) {
			n++
			bad := ""
			var walk func(e ast.Expr, pt eng.Point, depth int)
			walk = func(e ast.Expr, pt eng.Point, depth int) {
				if depth > 3 || bad != "" {
					return
				}
				switch x := ast.Unparen(e).(type) {
				case *ast.Ident:
					if x.Name == "nil" {
						return
					}
					v, _ := f.Info().ObjectOf(x).(*types.Var)
					if v == nil || !eng.IsLocal(v) {
						bad = "value is " + f.Norm(e, &pt)
						return
					}
					for _, d := range g.ReachingDefs(v, pt) {
						if d.Kind == eng.DefZero {
							continue
						}
						if d.RHS == nil {
							bad = "opaque definition of " + x.Name
							return
						}
						walk(d.RHS, d.At, depth+1)
					}
				case *ast.SelectorExpr:
					if x.Sel.Name != want[fld] {
						bad = "the " + x.Sel.Name + " method is stored in conn." + fld
					}
				default:
					bad = "value is " + f.Norm(e, &pt)
				}
			}
			walk(val, pt, 0)
			c.r.Check(id, f, "function stored in conn."+fld, "K: conn."+fld+" is nil or the "+want[fld]+" method value of the wrapped connection", pos, bad == "", bad)
		}
		for _, lit := range f.WalkLits("xmpp.conn") {
			pt, _ := g.Where(lit)
			for fld := range want {
				if v := structLitField(lit, fld); v != nil {
					check(fld, v, pt, v.Pos())
				}
			}
		}
		for fld := range want {
			for _, w := range f.FieldWrites("xmpp.conn." + fld) {
				if w.RHS != nil {
					pt, _ := g.Where(w.Stmt)
					check(fld, w.RHS, pt, w.Stmt.Pos())
				}
			}
		}
	}
	c.r.Floor(id, "stores of the deadline functions of conn", n, 2)
	for m, fld := range map[string]string{"SetReadDeadline": "rd", "SetWriteDeadline": "wd"} {
		f := c.fn(id, "", "(*conn)."+m)
		if f == nil {
			continue
		}
		calls, other := 0, ""
		for _, cl := range f.AllCalls() {
			switch f.CalleeID(cl) {
			case "field:xmpp.conn." + fld:
				calls++
			case "field:xmpp.conn.rd", "field:xmpp.conn.wd":
				other = f.CalleeID(cl)
			}
		}
		c.r.Check(id, f, "conn."+m+" forwards to conn."+fld, "K: the wrapper's "+m+" calls the stored "+fld+" function (and not the other one)", f.Pos(), calls >= 1 && other == "", "calls "+other)
	}
}

// closedBitBeforeWrites (C10.2, shared with C05): every function outside
// negotiation that writes through the session encoder tests the closed bit
// under both locks on every path to the write.
func closedBitBeforeWrites(c *cx, id string) {
	// ---- C10.2 closed bit before every write -------------------------------------
	nfun := 0
	for _, f := range c.allFns() {
		if _, ok := negExempt[f.Short]; ok || f.Pkg.PkgPath != eng.ModPath {
			continue
		}
		ws := encoderWrites(f)
		if len(ws) == 0 || f.Short == "xmpp.(*Session).closeSession" {
			continue
		}
		nfun++
		g := f.Graph()
		li := g.Locks(lockEntry[f.Short])
		for _, w := range ws {
			c.dom(id, f, w, "write through the session encoder: "+f.CalleeID(w.(*ast.CallExpr)), []string{"!" + outClosed})
		}
		// the test is taken under stateMutex and its closed edge does not write
		nt := 0
		for _, ce := range g.EdgesMatching(outClosed) {
			nt++
			blk := g.Blocks[ce.E.B]
			at := eng.Point{B: ce.E.B, I: len(blk.Nodes) - 1}
			ls := li.At(at)
			// a test through a local copy (closed := s.state&...) is located at the copy
			held := ls.Has("xmpp.Session.stateMutex", false)
			if !held {
				for _, a := range ce.Atoms {
					_ = a
				}
				for _, u := range fieldUsesIn(f, "xmpp.Session.state") {
					if l2, ok := li.AtNode(u); ok && l2.Has("xmpp.Session.stateMutex", false) {
						held = true
					} else {
						held = false
						break
					}
				}
			}
			c.r.Check(id, f, "closed-bit test", "L: the closed bit is read under stateMutex", blk.Nodes[len(blk.Nodes)-1].Pos(), held, "closed bit tested without stateMutex; lockset "+ls.String())
			// check-then-act: closeSession sets the bit with the output lock
			// held, so the test decides about the write that follows only when
			// the same lock is already held at the test.
			outHeld := true
			for _, u := range fieldUsesIn(f, "xmpp.Session.state") {
				if l2, ok := li.AtNode(u); !ok || !l2.Has("xmpp.Session.out", true) {
					outHeld = false
				}
			}
			c.r.Check(id, f, "closed-bit test under the output lock", "L: the closed bit is read with Session.out held (taken by the function or required on entry), so a close cannot slip in between the test and the write", blk.Nodes[len(blk.Nodes)-1].Pos(), outHeld, "closed bit tested before the output lock is taken; lockset "+ls.String())
			bad := ""
			for _, nd := range g.ReachableNodes(g.EdgeTarget(ce.E), nil) {
				for _, w := range ws {
					if containsNode(nd, w) {
						bad = "the closed edge reaches a write"
					}
				}
			}
			c.r.Check(id, f, "closed edge", "G: once the output stream is closed the function returns without writing", blk.Nodes[len(blk.Nodes)-1].Pos(), bad == "", bad)
			// and returns the closed error (or the original one in sendError)
			for _, nd := range g.ReachableNodes(g.EdgeTarget(ce.E), nil) {
				if rs, ok := nd.(*ast.ReturnStmt); ok {
					okRet := false
					if len(rs.Results) > 0 {
						last := f.Norm(rs.Results[len(rs.Results)-1], nil)
						okRet = last == "var:xmpp.ErrOutputStreamClosed" || (f.Short == "xmpp.(*Session).sendError" && last == "p0")
					}
					c.r.Check(id, f, "closed edge result", "K: a transmit entry point fails with ErrOutputStreamClosed once closed (sendError hands back the original error)", rs.Pos(), okRet, "closed edge returns "+c.p.NodeStr(rs))
					break
				}
			}
		}
		c.r.Floor(id, "closed-bit tests in "+f.Short, nt, 1)
	}
	c.r.Floor(id, "functions writing through the session encoder", nfun, 6)

}

// unlockFollows: every exit reachable from the point passes a node satisfying
// isUnlock on the way.
func unlockFollows(g *eng.Graph, pt eng.Point, isUnlock func(eng.Point, ast.Node) bool) bool {
	var exits []eng.Point
	for _, rs := range g.Returns {
		if p, ok := g.Where(rs); ok {
			exits = append(exits, p)
		}
	}
	exits = append(exits, g.Exits()...)
	for _, ex := range exits {
		if g.Reachable(g.After(pt), ex, nil, isUnlock) {
			return false
		}
	}
	return true
}

// serveCtxRootedInBackground (C10.13): Serve returns for the peer's end of
// stream, a stream error, or the close deadline - nothing else. The context
// its loop polls (Session.in.ctx) therefore has no parent that somebody else
// can end: every store of it is context.WithCancel / WithDeadline /
// WithTimeout of context.Background(). A context derived from the one that
// was passed to the negotiation ends Serve when the dial timeout's cancel
// function runs.
func serveCtxRootedInBackground(c *cx, id string) {
	n := 0
	for _, f := range c.allFns() {
		for _, w := range f.FieldWrites("xmpp.Session.in.ctx") {
			n++
			ok, why := false, "stored from a tuple or a non-call expression"
			var rhs ast.Expr = w.RHS
			if rhs == nil {
				if as, isAs := w.Stmt.(*ast.AssignStmt); isAs && len(as.Rhs) == 1 {
					rhs = as.Rhs[0]
				}
			}
			if cl, isCall := ast.Unparen(rhs).(*ast.CallExpr); rhs != nil && isCall {
				cid := f.CalleeID(cl)
				if (cid == "context.WithCancel" || cid == "context.WithDeadline" || cid == "context.WithTimeout") && len(cl.Args) >= 1 {
					wp, _ := f.Graph().Where(w.Stmt)
					if f.Norm(cl.Args[0], &wp) == "context.Background()" {
						ok = true
					} else {
						why = "the parent is " + types.ExprString(cl.Args[0]) + ", not context.Background()"
					}
				} else {
					why = "stored from " + cid
				}
			}
			c.r.Check(id, f, "serve context stored", "K: the context the serve loop polls is derived from context.Background() only (its end means: the close deadline passed or the session was closed)", w.Stmt.Pos(), ok, why+": Serve ends for a reason other than the peer's end of stream, a stream error or the close deadline")
		}
	}
	c.r.Floor(id, "stores to Session.in.ctx", n, 2)
}

// replyFlagOnlyByDetector (C10.15): responseChecker.wroteResp is written by the
// detector (responseChecker.EncodeToken) only. handleInputStream reads it to
// decide whether the automatic reply is due; code there that also writes it
// (to remember that the automatic reply failed after a local Close, say) turns
// a tolerated failure into a reason to end Serve.
func replyFlagOnlyByDetector(c *cx, id string) {
	n := 0
	for _, fn := range c.allFns() {
		for _, w := range fn.FieldWrites("xmpp.responseChecker.wroteResp") {
			n++
			c.r.Check(id, fn, "write to responseChecker.wroteResp", "W: only the reply detector sets the flag", w.Stmt.Pos(), fn.Short == "xmpp.(*responseChecker).EncodeToken", "written in "+fn.Short)
		}
	}
	c.r.Floor(id, "writes of the reply flag", n, 1)
}

// c10WhoClosesTheStreams (C10.21): "output closed" means "the closing tag has
// been written (or its write was attempted)": the OutputStreamClosed bit is
// set by closeSession only, the InputStreamClosed bit by closeInputStream only.
// A second writer of the bit (an error path that "accepts no further output"
// after a half-written element) makes closeSession return early: the closing
// tag is written zero times.
func c10WhoClosesTheStreams(c *cx, id string) {
	owner := map[int64]string{16: "xmpp.(*Session).closeSession", 32: "xmpp.(*Session).closeInputStream"}
	name := map[int64]string{16: "OutputStreamClosed", 32: "InputStreamClosed"}
	n := 0
	for _, f := range c.allFns() {
		for _, w := range f.FieldWrites("xmpp.Session.state") {
			if w.RHS == nil {
				continue
			}
			v, ok := f.ConstInt(w.RHS)
			if !ok {
				continue
			}
			for bit, fn := range owner {
				if v&bit == 0 {
					continue
				}
				n++
				c.r.Check(id, f, "store of the "+name[bit]+" bit", "W: the bit is set by "+fn+" only", w.Stmt.Pos(), f.Short == fn, "set in "+f.Short+": the function that owns the bit takes the stream for closed and does not do its part (the closing tag is never written)")
			}
		}
	}
	c.r.Floor(id, "stores of the closed bits", n, 2)
}
