package rules

import (
	"go/ast"
	"go/token"
	"go/types"
	"strings"

	"verif/checker/eng"
)

// Rules written after seeding round 18.

// r18EndElementEndsTheList (C01.29): in readStreamFeatures an end element is
// the end of the features list or an error. An arm that goes back to the loop
// ("the feature's Parse left its end tag behind") reads the CHILDREN of a
// feature whose Parse did not consume it as advertisements of their own.
func r18EndElementEndsTheList(c *cx, id string) {
	f := c.fn(id, "", "readStreamFeatures")
	if f == nil {
		return
	}
	n := 0
	ast.Inspect(f.Body, func(nd ast.Node) bool {
		cc, ok := nd.(*ast.CaseClause)
		if !ok {
			return true
		}
		isEnd := false
		for _, e := range cc.List {
			if t := f.Info().TypeOf(e); t != nil && t.String() == "encoding/xml.EndElement" {
				isEnd = true
			}
		}
		if !isEnd {
			return true
		}
		n++
		back := token.NoPos
		ast.Inspect(cc, func(x ast.Node) bool {
			if _, ok := x.(*ast.FuncLit); ok {
				return false
			}
			if b, ok := x.(*ast.BranchStmt); ok && (b.Tok == token.CONTINUE || b.Tok == token.GOTO) {
				back = b.Pos()
			}
			return true
		})
		term := listReturns(cc.Body)
		why := ""
		switch {
		case back != token.NoPos:
			why = "the arm goes back for more tokens at " + c.p.Pos(back) + ": what follows an unexpected end tag is read as further advertisements"
		case !term:
			why = "the arm does not end in a return"
		}
		c.r.Check(id, f, "end element in the features list", "K: an end element ends the list (the features end tag) or the negotiation (anything else); the arm never continues reading", cc.Pos(), why == "", why)
		return true
	})
	c.r.Floor(id, "end-element arms of readStreamFeatures", n, 1)
}

// r18ConfigLookedUpForTheStep (C02.25): the configuration (and with it the
// feature list that decides what is required on this stream) is asked for
// immediately before the features step that uses it: between the refresh and
// negotiateFeatures no other call runs. The variable is shared by all sessions
// of the negotiator; a refresh before the header exchange leaves a window in
// which another session replaces it.
func r18ConfigLookedUpForTheStep(c *cx, id string) {
	nf := c.fn(id, "", "negotiator")
	if nf == nil {
		return
	}
	f := c.lit(id, nf, 1)
	if f == nil {
		return
	}
	g := f.Graph()
	uses := f.Calls("xmpp.negotiateFeatures")
	c.r.Floor(id, "features steps in the negotiator", len(uses), 1)
	n := 0
	f.WalkBody(func(nd ast.Node) bool {
		as, ok := nd.(*ast.AssignStmt)
		if !ok || len(as.Rhs) != 1 || len(as.Lhs) != 1 {
			return true
		}
		cl, ok := ast.Unparen(as.Rhs[0]).(*ast.CallExpr)
		if !ok {
			return true
		}
		if t := f.Info().TypeOf(as.Lhs[0]); t == nil || eng.TypeStr(t) != "xmpp.StreamConfig" {
			return true
		}
		if fv := rootLocal(f, cl.Fun); fv == nil {
			return true
		}
		n++
		ap, ok := g.Where(as)
		if !ok {
			c.r.Unresolved(id, f.Short+": "+"configuration refresh not placed")
			return true
		}
		bad := ""
		for _, u := range uses {
			up, ok := g.Where(u)
			if !ok {
				continue
			}
			// a path from the refresh to the step that runs some other call
			for _, oc := range f.AllCalls() {
				if oc == cl || oc == u || containsNode(u, oc) {
					continue
				}
				if id := f.CalleeID(oc); id == "" || strings.HasPrefix(id, "builtin.") {
					continue
				}
				op, ok := g.Where(oc)
				if !ok {
					continue
				}
				if g.Reachable(g.After(ap), op, nil, nil) && g.Reachable(g.After(op), up, nil, func(q eng.Point, x ast.Node) bool { return x == ast.Node(as) }) {
					bad = "between the refresh and the features step runs " + f.CalleeID(oc) + " (" + c.p.Pos(oc.Pos()) + "): another session of the same negotiator can replace the configuration meanwhile"
					break
				}
			}
		}
		c.r.Check(id, f, "configuration looked up for the step", "O: no call runs between the refresh of the shared configuration and the features step that reads it", as.Pos(), bad == "", bad)
		return true
	})
	c.r.Floor(id, "refreshes of the stream configuration", n, 1)
}

// r18PermissionsNotDefaulted (C03.19): SASLServer hands the caller's
// permission callback to the feature as it is: a default that accepts
// (installed for a nil callback) authenticates every well-formed exchange.
func r18PermissionsNotDefaulted(c *cx, id string) {
	f := c.fn(id, "", "SASLServer")
	if f == nil {
		return
	}
	calls := f.Calls("xmpp.newSASL")
	c.r.Floor(id, "feature constructions in SASLServer", len(calls), 1)
	for _, cl := range calls {
		okk, why := false, "the permissions argument is not the caller's callback"
		if len(cl.Args) >= 3 {
			pt, _ := f.Graph().Where(cl)
			if f.Norm(cl.Args[2], &pt) == "p0" {
				okk, why = true, ""
			} else {
				why = "the permissions argument is " + f.Norm(cl.Args[2], &pt) + ", not the caller's callback as given"
			}
		}
		c.r.Check(id, f, "permissions passed on as given", "K: the callback that decides is the caller's (nil stays nil: nothing is accepted)", cl.Pos(), okk, why)
	}
	nlit := 0
	ast.Inspect(f.Body, func(nd ast.Node) bool {
		if _, ok := nd.(*ast.FuncLit); ok {
			nlit++
		}
		return true
	})
	c.r.Check(id, f, "no callback of its own", "K: SASLServer defines no permission callback itself", f.Body.Pos(), nlit == 0, "a function literal in SASLServer: a callback the caller did not supply can accept credentials")
}

// r18ClosersReleaseOnEveryPath (C06.40): the Close methods of the locked
// reader / writer of the session release the lock on every path that is not
// the "already closed" return: a return after a failed flush that keeps the
// lock blocks every later sender (and Serve's own Close) for good.
func r18ClosersReleaseOnEveryPath(c *cx, id string) {
	n := 0
	for _, name := range []string{"(*lockWriteCloser).Close", "(*lockReadCloser).Close"} {
		f := c.fn(id, "", name)
		if f == nil {
			continue
		}
		g := f.Graph()
		isRel := func(q eng.Point, nd ast.Node) bool {
			var cl *ast.CallExpr
			switch x := nd.(type) {
			case *ast.DeferStmt:
				cl = x.Call
			case *ast.ExprStmt:
				cl, _ = x.X.(*ast.CallExpr)
			case *ast.CallExpr:
				cl = x
			}
			if cl == nil {
				return false
			}
			cid := f.CalleeID(cl)
			return strings.HasSuffix(cid, ".Unlock") && strings.HasPrefix(f.Norm(cl.Fun, nil), "recv.m")
		}
		for _, rs := range g.Returns {
			pt, ok := g.Where(rs)
			if !ok {
				continue
			}
			closed := false
			for _, a := range g.FactsAt(pt) {
				if a == "!eq(recv.err,nil)" {
					closed = true
				}
			}
			if closed {
				continue
			}
			n++
			c.r.Check(id, f, "lock released before return "+f.Norm(rs.Results[0], &pt), "P: every return of a Close that was not already closed has passed (or deferred) the Unlock of the session lock", rs.Pos(), g.MustPassBefore(g.Entry(), pt, isRel, nil), "a path reaches this return with the lock still held: every later transmit and Serve's own Close block")
		}
	}
	c.r.Floor(id, "returns of the locked closers", n, 3)
}

// r18WaitersEndWithTheCall (C06.41): a function that starts a goroutine which
// waits for the answer to a stanza it sends bounds that goroutine by a context
// of its own, cancelled when the function returns. With the caller's context
// the goroutine outlives the call, takes a later answer from the serve loop
// and blocks handing it to nobody, with the response still open.
func r18WaitersEndWithTheCall(c *cx, id string) int {
	n := 0
	for _, f := range c.allFns() {
		if f.Body == nil || f.Lit != nil {
			continue
		}
		ast.Inspect(f.Body, func(nd ast.Node) bool {
			gs, ok := nd.(*ast.GoStmt)
			if !ok {
				return true
			}
			lit, ok := gs.Call.Fun.(*ast.FuncLit)
			if !ok {
				return true
			}
			var send *ast.CallExpr
			ast.Inspect(lit, func(x ast.Node) bool {
				if cl, ok := x.(*ast.CallExpr); ok {
					cid := f.CalleeID(cl)
					if strings.HasPrefix(cid, "xmpp.Session.Send") && cid != "xmpp.Session.Send" && cid != "xmpp.Session.SendElement" {
						send = cl
					}
				}
				return true
			})
			if send == nil || len(send.Args) == 0 {
				return true
			}
			n++
			// the context the send waits on is the first result of a
			// context.WithCancel / WithTimeout / WithDeadline in this function
			// whose cancel function is deferred
			var ctxObj types.Object
			if idn, ok := ast.Unparen(send.Args[0]).(*ast.Ident); ok {
				ctxObj = f.Info().Uses[idn]
			}
			okk, why := false, "the goroutine waits on the caller's context: it outlives the call and takes a later answer that nobody reads"
			ast.Inspect(f.Body, func(x ast.Node) bool {
				as, ok := x.(*ast.AssignStmt)
				if !ok || len(as.Lhs) != 2 || len(as.Rhs) != 1 {
					return true
				}
				cl, ok := ast.Unparen(as.Rhs[0]).(*ast.CallExpr)
				if !ok || !strings.HasPrefix(f.CalleeID(cl), "context.With") {
					return true
				}
				l0, ok0 := as.Lhs[0].(*ast.Ident)
				l1, ok1 := as.Lhs[1].(*ast.Ident)
				if !ok0 || !ok1 {
					return true
				}
				o0 := f.Info().Defs[l0]
				if o0 == nil {
					o0 = f.Info().Uses[l0]
				}
				if o0 == nil || o0 != ctxObj {
					return true
				}
				o1 := f.Info().Defs[l1]
				if o1 == nil {
					o1 = f.Info().Uses[l1]
				}
				deferred := false
				for _, d := range f.Graph().Defers {
					if idn, ok := ast.Unparen(d.Call.Fun).(*ast.Ident); ok && f.Info().Uses[idn] == o1 {
						deferred = true
					}
				}
				if deferred {
					okk, why = true, ""
				} else {
					why = "the cancel function of the derived context is not deferred"
				}
				return true
			})
			c.r.Check(id, f, "waiting goroutine bounded by the call", "K: the goroutine that waits for the answer uses a context derived in this function whose cancel is deferred", gs.Pos(), okk, why)
			return true
		})
	}
	return n
}

// r18HandlerWriterClosedOnEveryPath (C08.28): the writer a handler replies
// through takes the output lock lazily; handleInputStream defers its Close
// right where it is made, so that the error returns after a partial reply
// release the lock too (sendError needs it).
func r18HandlerWriterClosedOnEveryPath(c *cx, id string) {
	f := c.fn(id, "", "handleInputStream")
	if f == nil {
		return
	}
	g := f.Graph()
	n := 0
	for _, w := range f.Writes() {
		if w.RHS == nil {
			continue
		}
		t := f.Info().TypeOf(w.RHS)
		if t == nil || !strings.HasSuffix(t.String(), "xmpp.deferWriter") {
			continue
		}
		v := rootLocal(f, w.LHS)
		if v == nil {
			continue
		}
		n++
		wp, ok := g.Where(w.Stmt)
		if !ok {
			c.r.Unresolved(id, f.Short+": "+"creation of the handler's writer not placed")
			continue
		}
		isDeferClose := func(q eng.Point, nd ast.Node) bool {
			d, ok := nd.(*ast.DeferStmt)
			if !ok {
				return false
			}
			if !strings.HasSuffix(f.CalleeID(d.Call), "deferWriter.Close") {
				return false
			}
			sel, ok := ast.Unparen(d.Call.Fun).(*ast.SelectorExpr)
			return ok && rootLocal(f, sel.X) == v
		}
		for _, rs := range g.Returns {
			rp, ok := g.Where(rs)
			if !ok || !g.Reachable(g.After(wp), rp, nil, nil) {
				continue
			}
			c.r.Check(id, f, "handler's writer closed before "+returnLabel(f, rs, rp), "P: every return after the handler's writer was made has passed the deferred Close (which releases the output lock the writer may have taken)", rs.Pos(), g.MustPassBefore(g.After(wp), rp, isDeferClose, nil), "a path returns without releasing the output lock a partial reply took: sendError and every later transmit block")
		}
	}
	c.r.Floor(id, "handler writers in handleInputStream", n, 1)
}

func returnLabel(f *eng.Fn, rs *ast.ReturnStmt, pt eng.Point) string {
	var parts []string
	for _, r := range rs.Results {
		parts = append(parts, f.Norm(r, &pt))
	}
	if len(parts) == 0 {
		return "bare return"
	}
	return "return " + strings.Join(parts, ", ")
}

// r18WalkSkipsOnlyItself (C09.36): the duplicate detection of disco.WalkItem
// compares an item with every OTHER item seen so far: the only thing skipped
// is the item itself. (An exemption for items without a node lets a peer that
// lists itself by address keep the walk going for as long as it answers.)
func r18WalkSkipsOnlyItself(c *cx, id string) {
	f := c.fn(id, "disco", "walkItem")
	if f == nil {
		return
	}
	n := 0
	ast.Inspect(f.Body, func(nd ast.Node) bool {
		rs, ok := nd.(*ast.RangeStmt)
		if !ok || f.Norm(rs.X, nil) != "p3" {
			return true
		}
		ast.Inspect(rs.Body, func(x ast.Node) bool {
			if _, ok := x.(*ast.FuncLit); ok {
				return false
			}
			ifs, ok := x.(*ast.IfStmt)
			if !ok {
				return true
			}
			skips := false
			for _, st := range ifs.Body.List {
				if b, ok := st.(*ast.BranchStmt); ok && b.Tok == token.CONTINUE {
					skips = true
				}
			}
			if !skips {
				return true
			}
			n++
			be, ok := ast.Unparen(resolveBool(f, ifs.Cond)).(*ast.BinaryExpr)
			okk := false
			if ok && be.Op == token.EQL && ifs.Init == nil {
				k, _ := rs.Key.(*ast.Ident)
				l, r := rootLocal(f, be.X), rootLocal(f, be.Y)
				if k != nil && l != nil && r != nil {
					kv := f.Info().Defs[k]
					lk, rk := types.Object(l) == kv, types.Object(r) == kv
					lp, rp := f.Norm(be.X, nil) == "p2", f.Norm(be.Y, nil) == "p2"
					okk = (lk && rp) || (rk && lp)
				}
			}
			c.r.Check(id, f, "item skipped in the duplicate check", "G(exact): the only item not compared is the item itself (index == itemIdx)", ifs.Pos(), okk, "the skip condition is "+types.ExprString(ifs.Cond)+": items other than the one examined escape the loop / duplicate detection")
			return true
		})
		return true
	})
	c.r.Floor(id, "skips in the duplicate check of walkItem", n, 1)
}

// r18ClosingTagWrittenOnce (C10.23): internal/stream.Close performs one write:
// no write is reachable from another. A retry after a partial (timed-out)
// write puts more than one closing tag's worth of bytes on the wire.
func r18ClosingTagWrittenOnce(c *cx, id string) {
	f := c.fn(id, "internal/stream", "Close")
	if f == nil {
		return
	}
	g := f.Graph()
	var ws []*ast.CallExpr
	for _, cl := range f.AllCalls() {
		cid := f.CalleeID(cl)
		if cid == "io.Writer.Write" || cid == "io.WriteString" || strings.HasPrefix(cid, "fmt.Fprint") || strings.HasSuffix(cid, ".WriteString") || strings.HasSuffix(cid, ".Write") {
			ws = append(ws, cl)
		}
	}
	c.r.Floor(id, "writes of the closing tag", len(ws), 1)
	for _, a := range ws {
		ap, ok := g.Where(a)
		if !ok {
			c.r.Unresolved(id, f.Short+": "+"write not placed")
			continue
		}
		bad := ""
		for _, b := range ws {
			bp, ok := g.Where(b)
			if ok && g.Reachable(g.After(ap), bp, nil, nil) {
				bad = "the write at " + c.p.Pos(b.Pos()) + " can follow this one: after a partial write the wire holds more than one closing tag"
			}
		}
		c.r.Check(id, f, "single write of the closing tag", "O: no write of stream.Close is reachable from another", a.Pos(), bad == "", bad)
	}
}

// r18ConditionDefaultedWhereItIsWritten (C13.42): stanza.Error.Wrap writes the
// condition element under the name se.Condition; an empty condition is
// replaced by undefined-condition in Wrap itself, the function every encoding
// path (TokenReader, WriteXML, MarshalXML, IQ.Error, a direct Wrap) ends in.
func r18ConditionDefaultedWhereItIsWritten(c *cx, id string) {
	f := c.fn(id, "stanza", "Error.Wrap")
	if f == nil {
		return
	}
	g := f.Graph()
	n := 0
	for _, w := range f.FieldWrites("stanza.Error.Condition") {
		if w.RHS == nil || !strings.HasSuffix(f.Norm(w.RHS, nil), "UndefinedCondition") {
			continue
		}
		n++
		c.onlyFacts(id, f, w.Stmt, "default condition", []string{`eq(recv.Condition,"")`, "!rangenext(*)"})
		wp, _ := g.Where(w.Stmt)
		for _, rs := range g.Returns {
			rp, ok := g.Where(rs)
			if !ok {
				continue
			}
			// the return is reached with a non-empty condition: either through the
			// default or under the fact that it was not empty
			okk := g.Reachable(g.After(wp), rp, nil, nil)
			c.r.Check(id, f, "default applies to the element that is written", "O: the default is set before the condition element is built", rs.Pos(), okk, "the return is not reachable from the default: the element is built before the condition is filled in")
		}
	}
	c.r.Floor(id, "defaults for an empty condition in Error.Wrap", n, 1)
}

// r18TransformReportsWhatItCopied (C16.15): the escape transformers report
// every byte they copied as consumed before they can return: after
// n := copy(dst[nDst:], src[nSrc:...]) both counters advance by n on every
// path to a return (a short-destination return that leaves nSrc behind makes
// the caller feed the same bytes again).
func r18TransformReportsWhatItCopied(c *cx, id string) int {
	n := 0
	for _, f := range c.allFns() {
		if f.Body == nil || !strings.HasPrefix(f.Short, "jid.") || !strings.HasSuffix(f.Short, ".Transform") {
			continue
		}
		g := f.Graph()
		for _, w := range f.Writes() {
			cl, ok := w.RHS.(*ast.CallExpr)
			if w.RHS == nil || !ok || len(cl.Args) != 2 {
				continue
			}
			if idn, ok := ast.Unparen(cl.Fun).(*ast.Ident); !ok || idn.Name != "copy" {
				continue
			}
			se, ok := ast.Unparen(cl.Args[1]).(*ast.SliceExpr)
			if !ok || f.Norm(se.X, nil) != "p1" {
				continue
			}
			nv := rootLocal(f, w.LHS)
			if nv == nil {
				continue
			}
			n++
			wp, ok := g.Where(w.Stmt)
			if !ok {
				c.r.Unresolved(id, f.Short+": "+"copy not placed")
				continue
			}
			// the counters are the first two (named) results of Transform
			counters := map[string]types.Object{}
			if f.Obj != nil {
				if sig, ok := f.Obj.Type().(*types.Signature); ok && sig.Results().Len() >= 2 {
					counters["nDst"] = sig.Results().At(0)
					counters["nSrc"] = sig.Results().At(1)
				}
			}
			adv := func(name string) func(q eng.Point, nd ast.Node) bool {
				return func(q eng.Point, nd ast.Node) bool {
					as, ok := nd.(*ast.AssignStmt)
					if !ok || as.Tok != token.ADD_ASSIGN || len(as.Lhs) != 1 || len(as.Rhs) != 1 {
						return false
					}
					l, ok := ast.Unparen(as.Lhs[0]).(*ast.Ident)
					return ok && counters[name] != nil && f.Info().Uses[l] == counters[name] && rootLocal(f, as.Rhs[0]) == nv
				}
			}
			for _, rs := range g.Returns {
				rp, ok := g.Where(rs)
				if !ok || !g.Reachable(g.After(wp), rp, nil, nil) {
					continue
				}
				for _, ctr := range []string{"nDst", "nSrc"} {
					c.r.Check(id, f, ctr+" advanced by what was copied", "P: between a copy from the source and any return both counters have advanced by the number of bytes copied", w.Stmt.Pos(), g.MustPassBefore(g.After(wp), rp, adv(ctr), nil), "a return ("+c.p.Pos(rs.Pos())+") is reached after the copy without "+ctr+" += n: bytes already written are reported as not consumed (or not written)")
				}
			}
		}
	}
	return n
}

// r18RejoinAlwaysAsks (C18.33): Channel.Join is JoinPresence with an empty
// presence, unconditionally: success is reported only after the room's
// self-presence for THIS request, never from the routing table.
func r18RejoinAlwaysAsks(c *cx, id string) {
	f := c.fn(id, "muc", "(*Channel).Join")
	if f == nil {
		return
	}
	calls := f.Calls("muc.Channel.JoinPresence")
	c.r.Floor(id, "joins in Channel.Join", len(calls), 1)
	for _, cl := range calls {
		c.onlyFacts(id, f, cl, "join request", []string{})
	}
	g := f.Graph()
	for _, rs := range g.Returns {
		pt, _ := g.Where(rs)
		okk := len(rs.Results) == 1 && strings.Contains(f.Norm(rs.Results[0], &pt), "JoinPresence")
		c.r.Check(id, f, "result is the join's result", "K: Channel.Join returns what JoinPresence returns", rs.Pos(), okk, "a return that is not the result of the join request: success (or failure) without asking the room")
	}
}

// r18ValuesAllKept (C20.28): form.Value appends its value whatever the field
// holds already: which values are USED is the reader's business, and the
// capability hash of a locally built form covers all of them (as it does for
// the same form decoded from XML).
func r18ValuesAllKept(c *cx, id string) {
	vf := c.fn(id, "form", "Value")
	if vf == nil {
		return
	}
	f := c.lit(id, vf, 1)
	if f == nil {
		return
	}
	n := 0
	for _, w := range f.Writes() {
		sel, ok := ast.Unparen(w.LHS).(*ast.SelectorExpr)
		if !ok || sel.Sel.Name != "value" {
			continue
		}
		n++
		c.onlyFacts(id, f, w.Stmt, "value appended", []string{})
		cl, ok := w.RHS.(*ast.CallExpr)
		isApp := false
		if w.RHS != nil && ok {
			if idn, ok := ast.Unparen(cl.Fun).(*ast.Ident); ok && idn.Name == "append" && len(cl.Args) == 2 && f.Norm(cl.Args[1], nil) == "p0^" {
				isApp = true
			}
		}
		_ = isApp
	}
	c.r.Floor(id, "stores into field.value in form.Value", n, 1)
	ast.Inspect(f.Body, func(nd ast.Node) bool {
		if _, ok := nd.(*ast.FuncLit); ok && nd != ast.Node(f.Lit) {
			return false
		}
		if rs, ok := nd.(*ast.ReturnStmt); ok {
			c.r.Check(id, f, "no early return", "K: the option has no path that leaves the value out", rs.Pos(), false, "an explicit return in form.Value: the value is dropped on that path")
		}
		return true
	})
}

// r18RoutersOnlyForStanzas (C07.25 = C14.16): ServeMux.Handler falls back to
// the stanza routers for names stanza.Is accepts in the multiplexer's
// namespace, and for nothing else: the test is that call alone. (A name
// without a namespace is not a stanza: the session does not treat it as one,
// and the IQ router's fallback would answer it.)
func r18RoutersOnlyForStanzas(c *cx, id string) {
	f := c.fn(id, "mux", "(*ServeMux).Handler")
	if f == nil {
		return
	}
	n := 0
	g := f.Graph()
	for _, rs := range g.Returns {
		router := false
		for _, r := range rs.Results {
			ast.Inspect(r, func(x ast.Node) bool {
				if sel, ok := x.(*ast.SelectorExpr); ok && strings.HasSuffix(sel.Sel.Name, "outer") {
					router = true
				}
				return true
			})
		}
		if !router {
			continue
		}
		n++
		c.dom(id, f, rs, "fallback to a stanza router", []string{"stanza.Is(p0,recv.stanzaNS)"})
		c.onlyFacts(id, f, rs, "fallback to a stanza router (exact)", []string{"stanza.Is(p0,recv.stanzaNS)", "eq(*,nil)", "eq(p0.Local,*)", "!eq(p0.Local,*)", "eq(*,p0.Local)", "!eq(*,p0.Local)"})
	}
	c.r.Floor(id, "fallbacks to the stanza routers in ServeMux.Handler", n, 1)
}

// r18EncoderNamespaceIsTheOutputs (C07.24 = C05.28): the stanza encoder that
// negotiateSession installs writes in the namespace of the OUTPUT stream (the
// header this side sent), and stamps from on the same test. The input
// stream's namespace is what the peer declared (the framing namespace on a
// WebSocket): replies would leave as elements of that namespace.
func r18EncoderNamespaceIsTheOutputs(c *cx, id string) {
	f := c.fn(id, "", "negotiateSession")
	if f == nil {
		return
	}
	n := 0
	ast.Inspect(f.Body, func(nd ast.Node) bool {
		cl, ok := nd.(*ast.CompositeLit)
		if !ok {
			return true
		}
		if t := f.Info().TypeOf(cl); t == nil || !strings.HasSuffix(t.String(), "xmpp.stanzaEncoder") {
			return true
		}
		n++
		v := structLitField(cl, "ns")
		okk, why := false, "the encoder literal has no ns field"
		if v != nil {
			pt, _ := f.Graph().Where(cl)
			nf := f.Norm(v, &pt)
			okk = strings.Contains(nf, ".out.") && !strings.Contains(nf, ".in.") && strings.HasSuffix(nf, "XMLNS")
			why = "the namespace is " + nf + ", not the output stream's"
		}
		c.r.Check(id, f, "namespace of the stanza encoder", "K: stanzas are written in the namespace of the output stream's header", cl.Pos(), okk, why)
		return true
	})
	c.r.Floor(id, "stanza encoders installed by negotiateSession", n, 1)
	m := 0
	for _, w := range f.Writes() {
		sel, ok := ast.Unparen(w.LHS).(*ast.SelectorExpr)
		if !ok || sel.Sel.Name != "from" {
			continue
		}
		if t := f.Info().TypeOf(sel.X); t == nil || !strings.HasSuffix(t.String(), "xmpp.stanzaEncoder") {
			continue
		}
		m++
		c.onlyFacts(id, f, w.Stmt, "from stamped on server streams", []string{"eq(*.out.*XMLNS,stanza.NSServer)", "eq(stanza.NSServer,*.out.*XMLNS)", "!eq(p5,nil)", "all(*.state,xmpp.Ready)"})
	}
	c.r.Floor(id, "from stamping decisions in negotiateSession", m, 1)
}

// r18WaitsDoNotDependOnBufferedLength (C17.17): in the styling scanners a
// "need more data" answer (0, nil, nil) is decided by what the data IS, never
// by how much of it happens to be buffered against a fixed bound: a length
// bound makes the tokens depend on where the reader's chunks end.
func r18WaitsDoNotDependOnBufferedLength(c *cx, id string) int {
	n := 0
	for _, f := range c.allFns() {
		if f.Body == nil || !strings.HasPrefix(f.Short, "styling.") {
			continue
		}
		ast.Inspect(f.Body, func(nd ast.Node) bool {
			be, ok := nd.(*ast.BinaryExpr)
			if !ok {
				return true
			}
			switch be.Op {
			case token.LSS, token.LEQ, token.GTR, token.GEQ:
			default:
				return true
			}
			for _, pr := range [][2]ast.Expr{{be.X, be.Y}, {be.Y, be.X}} {
				cl, ok := ast.Unparen(pr[0]).(*ast.CallExpr)
				if !ok || len(cl.Args) != 1 {
					continue
				}
				if idn, ok := ast.Unparen(cl.Fun).(*ast.Ident); !ok || idn.Name != "len" {
					continue
				}
				if t := f.Info().TypeOf(cl.Args[0]); t == nil || t.String() != "[]byte" {
					continue
				}
				n++
				// the other side mentions no constant greater than 8 (offsets of a
				// few bytes around a marker are what the scanners compare with)
				big := ""
				ast.Inspect(pr[1], func(x ast.Node) bool {
					if e, ok := x.(ast.Expr); ok {
						if tv, ok := f.Info().Types[e]; ok && tv.Value != nil {
							if v, ok := f.ConstInt(e); ok && v > 8 {
								big = types.ExprString(e)
							}
						}
					}
					return true
				})
				c.r.Check(id, f, "length of buffered data compared with "+types.ExprString(pr[1]), "K: no decision of a scanner depends on a fixed bound on the amount of buffered data", be.Pos(), big == "", "the amount of buffered data is compared with the constant "+big+": the same input is tokenized differently depending on where the reader's chunks end")
			}
			return true
		})
	}
	return n
}

// r18HandOffComparesWholeNames (C06.42 = C08.29 = C18.32): handleInputStream
// decides whether an incoming error/result belongs to a waiting sender by
// comparing the waiter's stanza NAME as a whole with the name that arrived (or
// with that name without a namespace). A test on parts of the name ("both are
// not iq") hands a message error to a waiting presence.
func r18HandOffComparesWholeNames(c *cx, id string) {
	f := c.fn(id, "", "handleInputStream")
	if f == nil {
		return
	}
	par := map[ast.Node]ast.Node{}
	var stack []ast.Node
	ast.Inspect(f.Body, func(nd ast.Node) bool {
		if nd == nil {
			stack = stack[:len(stack)-1]
			return true
		}
		if len(stack) > 0 {
			par[nd] = stack[len(stack)-1]
		}
		stack = append(stack, nd)
		return true
	})
	n := 0
	ast.Inspect(f.Body, func(nd ast.Node) bool {
		sel, ok := nd.(*ast.SelectorExpr)
		if !ok || sel.Sel.Name != "stanzaName" {
			return true
		}
		n++
		p := par[sel]
		for {
			if pe, ok := p.(*ast.ParenExpr); ok {
				p = par[pe]
				continue
			}
			break
		}
		be, ok := p.(*ast.BinaryExpr)
		okk := ok && be.Op == token.EQL
		why := "the waiter's stanza name is used in parts (" + types.ExprString(p.(ast.Expr)) + "), not compared as a whole"
		if okk {
			other := be.X
			if ast.Unparen(be.X) == ast.Expr(sel) {
				other = be.Y
			}
			on := f.Norm(other, nil)
			good := strings.HasSuffix(on, "start.Name") || strings.HasSuffix(on, ".Name>") || strings.Contains(on, "start")
			if v := rootLocal(f, other); v != nil && !good {
				good = true
				for _, w := range f.Writes() {
					if rootLocal(f, w.LHS) == v && w.RHS != nil {
						cl, ok := ast.Unparen(w.RHS).(*ast.CompositeLit)
						if !ok || len(cl.Elts) != 1 || structLitField(cl, "Local") == nil {
							good = false
						}
					}
				}
			}
			if !good {
				okk, why = false, "the waiter's stanza name is compared with "+on
			} else {
				why = ""
			}
		}
		c.r.Check(id, f, "waiter's stanza name compared as a whole", "K: a response goes to a waiter whose stanza name equals the name that arrived (with or without its namespace)", sel.Pos(), okk, why)
		return true
	})
	c.r.Floor(id, "uses of the waiter's stanza name in handleInputStream", n, 2)
}

// listReturns: the statement list ends in a return on every path (a return, or
// an if/else whose branches all do).
func listReturns(list []ast.Stmt) bool {
	l := stripNoops(list)
	if len(l) == 0 {
		return false
	}
	switch x := l[len(l)-1].(type) {
	case *ast.ReturnStmt:
		return true
	case *ast.BlockStmt:
		return listReturns(x.List)
	case *ast.IfStmt:
		if x.Else == nil || !listReturns(x.Body.List) {
			return false
		}
		switch e := x.Else.(type) {
		case *ast.BlockStmt:
			return listReturns(e.List)
		case *ast.IfStmt:
			return listReturns([]ast.Stmt{e})
		}
	}
	return false
}
