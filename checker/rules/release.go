package rules

import (
	"go/ast"
	"go/token"
	"go/types"
	"reflect"
	"sort"
	"strings"

	"verif/checker/eng"
)

// respRelease (E-res): a response obtained from one of the session's blocking
// send methods must be closed before the serve loop can continue ("once the
// caller closes the response the serve loop continues with the next stanza").
// For every acquisition `r, err := s.SendIQ…/SendMessage…/SendPresence…(…)` in
// library code, every exit of the function that is reachable past the
// acquisition and not on its failure edge must be covered by one of:
//
//	(a) release on the path: r.Close() called, or deferred unconditionally
//	    (defer r.Close(), or a deferred closure whose body calls r.Close()
//	    outside any condition), on every path from the acquisition to the exit;
//	(b) transfer: the return statement hands r (or a value built from r in the
//	    return expression) to the caller, who then owns it;
//	(c) conditional deferred release: a deferred closure on every path whose
//	    body is `if V != nil { r.Close() }` and V is provably non-nil at this
//	    exit (V a named result: the returned operand; V a local: its value at
//	    the exit).
func respRelease(c *cx, id string, floor int) {
	// sources: the session's blocking send methods, and (transitively) the
	// library functions that hand such a response on to their own caller
	// (acquire wrappers: commands.Execute, ...). The value is the index of the
	// closable result.
	sources := map[*types.Func]int{}
	isSeed := func(fo *types.Func) bool {
		if fo == nil || fo.Pkg() == nil || fo.Pkg().Path() != eng.ModPath {
			return false
		}
		sig, _ := fo.Type().(*types.Signature)
		if sig == nil || sig.Recv() == nil || !strings.HasPrefix(fo.Name(), "Send") || sig.Results().Len() != 2 {
			return false
		}
		return strings.HasSuffix(eng.TypeStr(sig.Recv().Type()), "xmpp.Session") && hasMethod(sig.Results().At(0).Type(), "Close")
	}
	for changed := true; changed; {
		changed = false
		for _, f := range c.allFns() {
			if f.Body == nil || f.Obj == nil {
				continue
			}
			if _, done := sources[f.Obj]; done || isSeed(f.Obj) {
				continue
			}
			sig := f.Sig()
			if sig == nil || sig.Results().Len() < 2 || eng.TypeStr(sig.Results().At(sig.Results().Len()-1).Type()) != "error" {
				continue
			}
			for _, cl := range f.AllCalls() {
				fo := calleeFunc(f, cl)
				if fo == nil {
					continue
				}
				fo = fo.Origin()
				ri, isSrc := sources[fo]
				if !isSrc {
					if !isSeed(fo) {
						continue
					}
					ri = 0
				}
				// tail call: return source(...)
				if rs, isRet := f.Graph().Parent(cl).(*ast.ReturnStmt); isRet && len(rs.Results) == 1 {
					if csig, _ := fo.Type().(*types.Signature); csig != nil && csig.Results().Len() == sig.Results().Len() && ri < sig.Results().Len() && hasMethod(sig.Results().At(ri).Type(), "Close") {
						if _, done := sources[f.Obj]; !done {
							sources[f.Obj] = ri
							changed = true
						}
					}
					continue
				}
				as, _ := f.Graph().Parent(cl).(*ast.AssignStmt)
				if as == nil || len(as.Rhs) != 1 || ri >= len(as.Lhs) {
					continue
				}
				rid, _ := as.Lhs[ri].(*ast.Ident)
				if rid == nil || rid.Name == "_" {
					continue
				}
				rv := f.Info().ObjectOf(rid)
				for _, rs := range f.Graph().Returns {
					for k, res := range rs.Results {
						if k >= sig.Results().Len() || !hasMethod(sig.Results().At(k).Type(), "Close") {
							continue
						}
						uses := false
						ast.Inspect(res, func(x ast.Node) bool {
							if idn, ok := x.(*ast.Ident); ok && f.Info().ObjectOf(idn) == rv {
								uses = true
							}
							return !uses
						})
						if uses {
							if _, done := sources[f.Obj]; !done {
								sources[f.Obj] = k
								changed = true
							}
						}
					}
				}
			}
		}
	}
	var wrappers []string
	for fo := range sources {
		wrappers = append(wrappers, strings.TrimPrefix(eng.ObjID(fo), eng.ModPath+"/"))
	}
	sort.Strings(wrappers)
	c.r.Note("%s: acquire wrappers (hand a response on to their caller): %s", id, strings.Join(wrappers, ", "))
	n := 0
	for _, f := range c.allFns() {
		if f.Body == nil {
			continue
		}
		for _, cl := range f.AllCalls() {
			fo := calleeFunc(f, cl)
			if fo == nil {
				continue
			}
			fo = fo.Origin()
			ri, isSrc := sources[fo]
			if !isSrc {
				if !isSeed(fo) {
					continue
				}
				ri = 0
			}
			n++
			respReleaseSite(c, id, f, cl, ri)
		}
	}
	c.r.Floor(id, "responses acquired from blocking send methods", n, floor)
}

func hasMethod(t types.Type, name string) bool {
	ms := types.NewMethodSet(t)
	for i := 0; i < ms.Len(); i++ {
		if ms.At(i).Obj().Name() == name {
			return true
		}
	}
	return false
}

func respReleaseSite(c *cx, id string, f *eng.Fn, call *ast.CallExpr, ri int) {
	g := f.Graph()
	what := "response of " + f.CalleeID(call)
	as, _ := g.Parent(call).(*ast.AssignStmt)
	if as == nil {
		if _, isRet := g.Parent(call).(*ast.ReturnStmt); isRet {
			c.r.Check(id, f, what, "E-res: the response is handed to the caller", call.Pos(), true, "")
			return
		}
		c.r.Check(id, f, what, "E-res: the response of a blocking send is bound to a variable and released", call.Pos(), false, "the response is neither assigned nor returned")
		return
	}
	if len(as.Lhs) < 2 || len(as.Rhs) != 1 || ri >= len(as.Lhs) {
		c.r.Check(id, f, what, "E-res: the response of a blocking send is bound to a variable and released", call.Pos(), false, "unexpected assignment form")
		return
	}
	rid, _ := as.Lhs[ri].(*ast.Ident)
	if rid == nil || rid.Name == "_" {
		c.r.Check(id, f, what, "E-res: the response of a blocking send is bound to a variable and released", call.Pos(), false, "the response is discarded: it can never be closed and the serve loop stalls")
		return
	}
	rv, _ := f.Info().ObjectOf(rid).(*types.Var)
	if rv == nil {
		c.r.Check(id, f, what, "E-res", call.Pos(), false, "cannot resolve the response variable")
		return
	}
	apt, _ := g.Where(as)
	cn := f.Norm(call, &apt)
	failPat := "!eq(" + cn + "#" + itoa(len(as.Lhs)-1) + ",nil)"

	// aliases of r inside closures: `r := r`
	isR := func(e ast.Expr) bool {
		idn, ok := ast.Unparen(e).(*ast.Ident)
		if !ok {
			return false
		}
		o := f.Info().ObjectOf(idn)
		if o == rv {
			return true
		}
		if v, ok := o.(*types.Var); ok {
			if fn := f.Prog.Enclosing(v.Pos()); fn != nil {
				for _, d := range fn.Graph().DefsOf(v) {
					if d.RHS != nil {
						if i2, ok := ast.Unparen(d.RHS).(*ast.Ident); ok && f.Info().ObjectOf(i2) == rv && len(fn.Graph().DefsOf(v)) == 1 {
							return true
						}
					}
				}
			}
		}
		return false
	}
	closesR := func(n ast.Node) bool {
		found := false
		ast.Inspect(n, func(x ast.Node) bool {
			if cc, ok := x.(*ast.CallExpr); ok {
				if sel, ok := ast.Unparen(cc.Fun).(*ast.SelectorExpr); ok && sel.Sel.Name == "Close" && isR(sel.X) {
					found = true
				}
			}
			return !found
		})
		return found
	}
	mentionsR := func(n ast.Node) bool {
		found := false
		ast.Inspect(n, func(x ast.Node) bool {
			if e, ok := x.(ast.Expr); ok && isR(e) {
				found = true
			}
			return !found
		})
		return found
	}
	// unconditional release inside a deferred closure: a top-level statement
	// of the body (not nested in if/for/switch/select) that closes r
	uncondInLit := func(l *ast.FuncLit) bool {
		for _, st := range l.Body.List {
			// the header of a compound statement (init clause, condition, tag,
			// range operand) runs unconditionally; its body does not
			var hdr []ast.Node
			switch s := st.(type) {
			case *ast.IfStmt:
				hdr = []ast.Node{s.Init, s.Cond}
			case *ast.ForStmt:
				hdr = []ast.Node{s.Init}
			case *ast.RangeStmt:
				hdr = []ast.Node{s.X}
			case *ast.SwitchStmt:
				hdr = []ast.Node{s.Init, s.Tag}
			case *ast.TypeSwitchStmt:
				hdr = []ast.Node{s.Init, s.Assign}
			case *ast.SelectStmt:
				continue
			default:
				hdr = []ast.Node{st}
			}
			for _, h := range hdr {
				if h != nil && !reflect.ValueOf(h).IsNil() && closesR(h) {
					return true
				}
			}
		}
		return false
	}
	releases := func(q eng.Point, nd ast.Node) bool {
		if ds, ok := nd.(*ast.DeferStmt); ok {
			if l, ok := ast.Unparen(ds.Call.Fun).(*ast.FuncLit); ok {
				return uncondInLit(l)
			}
			return closesR(ds.Call)
		}
		if _, ok := nd.(*ast.GoStmt); ok {
			return false
		}
		return closesR(nd)
	}
	// conditional deferred releases: (defer stmt, guarded variable)
	type condDefer struct {
		ds *ast.DeferStmt
		v  *types.Var
		id *ast.Ident
	}
	var conds []condDefer
	for _, ds := range g.Defers {
		l, ok := ast.Unparen(ds.Call.Fun).(*ast.FuncLit)
		if !ok || uncondInLit(l) {
			continue
		}
		for _, st := range l.Body.List {
			cond, ibody, _, ok := asIfIn(f, st)
			if !ok || !closesR(&ast.BlockStmt{List: ibody}) {
				continue
			}
			var conj []ast.Expr
			var split func(e ast.Expr)
			split = func(e ast.Expr) {
				e = ast.Unparen(e)
				if be, ok := e.(*ast.BinaryExpr); ok && be.Op == token.LAND {
					split(be.X)
					split(be.Y)
					return
				}
				conj = append(conj, e)
			}
			split(cond)
			// every conjunct must be `V != nil` on an outer variable or on r itself
			var guard *ast.Ident
			okAll := true
			for _, e := range conj {
				gx, ok := nilCompare(f, e, token.NEQ)
				if !ok {
					okAll = false
					break
				}
				if isR(gx) {
					continue
				}
				idn, ok := ast.Unparen(gx).(*ast.Ident)
				if !ok || guard != nil {
					okAll = false
					break
				}
				guard = idn
			}
			if okAll && guard != nil {
				if v, ok := f.Info().ObjectOf(guard).(*types.Var); ok {
					conds = append(conds, condDefer{ds, v, guard})
				}
			}
		}
	}
	// closesLate: the deferred closure reads the response variable when it
	// RUNS (the named result itself, or a copy made inside the closure), not a
	// copy made earlier in the function body
	closesLate := func(ds *ast.DeferStmt) bool {
		l, ok := ast.Unparen(ds.Call.Fun).(*ast.FuncLit)
		if !ok {
			return false
		}
		late := false
		ast.Inspect(l.Body, func(x ast.Node) bool {
			if cc, ok := x.(*ast.CallExpr); ok {
				if sel, ok := ast.Unparen(cc.Fun).(*ast.SelectorExpr); ok && sel.Sel.Name == "Close" && isR(sel.X) {
					if idn, ok := ast.Unparen(sel.X).(*ast.Ident); ok {
						o := f.Info().ObjectOf(idn)
						if o == rv || (o != nil && l.Pos() <= o.Pos() && o.Pos() < l.End()) {
							late = true
						}
					}
				}
			}
			return true
		})
		return late
	}
	sig := f.Sig()
	resultIndex := func(v *types.Var) int {
		if sig == nil {
			return -1
		}
		for i := 0; i < sig.Results().Len(); i++ {
			if sig.Results().At(i) == v {
				return i
			}
		}
		return -1
	}

	type exit struct {
		pt  eng.Point
		ret *ast.ReturnStmt
		pos token.Pos
	}
	var exits []exit
	for _, rs := range g.Returns {
		pt, ok := g.Where(rs)
		if ok {
			exits = append(exits, exit{pt, rs, rs.Pos()})
		}
	}
	for _, ex := range g.Exits() {
		isRet := false
		for _, e := range exits {
			if e.pt.B == ex.B {
				isRet = true
			}
		}
		if !isRet {
			exits = append(exits, exit{ex, nil, f.Body.Rbrace})
		}
	}
	// a response is not handed to xmlstream.NewIter as it is: Iter.Close drains
	// its reader first and returns WITHOUT closing it when the drain fails (a
	// reply that is not well formed, or cut off by the end of the stream), and
	// a second Iter.Close does nothing: the response stays open for good
	for _, cl := range f.AllCalls() {
		if f.CalleeID(cl) == "mellium.im/xmlstream.NewIter" && len(cl.Args) == 1 && isR(cl.Args[0]) {
			c.r.Check(id, f, what+" handed to xmlstream.NewIter", "E-res: a response reaches an xmlstream.Iter only through a reader that closes it when reading fails (internal/respiter)", cl.Pos(), false, "xmlstream.Iter.Close does not close its reader when the drain fails: a malformed or truncated reply leaves the response open and the serve loop never continues")
		}
	}
	// released at most once: closing a response closes the hand-off channel,
	// which is not idempotent (the second Close panics with "close of closed
	// channel"). An unconditional deferred Close together with a direct Close
	// that is reachable after the defer statement closes twice.
	if !strings.HasPrefix(f.CalleeID(call), "xmpp.iterIQ") {
		for _, ds := range g.Defers {
			uncond := false
			if l, ok := ast.Unparen(ds.Call.Fun).(*ast.FuncLit); ok {
				uncond = uncondInLit(l)
			} else {
				uncond = closesR(ds.Call)
			}
			if !uncond {
				continue
			}
			dpt, okd := g.Where(ds)
			if !okd {
				continue
			}
			var second ast.Node
			for _, b := range g.Blocks {
				if !b.Live {
					continue
				}
				for i, nd := range b.Nodes {
					if _, isD := nd.(*ast.DeferStmt); isD {
						continue
					}
					if _, isG := nd.(*ast.GoStmt); isG {
						continue
					}
					direct := false
					ast.Inspect(nd, func(x ast.Node) bool {
						if _, isLit := x.(*ast.FuncLit); isLit {
							return false
						}
						if cc, ok := x.(*ast.CallExpr); ok {
							if sel, ok := ast.Unparen(cc.Fun).(*ast.SelectorExpr); ok && sel.Sel.Name == "Close" && isR(sel.X) {
								direct = true
							}
						}
						return !direct
					})
					if direct && g.Reachable(g.After(dpt), eng.Point{B: int(b.Index), I: i}, nil, nil) && second == nil {
						second = nd
					}
				}
			}
			why := ""
			if second != nil {
				why = "Close at " + c.p.Pos(second.Pos()) + " runs in addition to the deferred Close registered at " + c.p.Pos(ds.Pos()) + ": the hand-off channel is closed twice"
			}
			c.r.Check(id, f, what+" released once", "E-res: no direct Close of the response is reachable after an unconditional deferred Close was registered", ds.Pos(), second == nil, why)
		}
	}
	nex := 0
	for _, ex := range exits {
		if !g.Reachable(g.After(apt), ex.pt, nil, nil) {
			continue
		}
		if ok, _ := g.Dominated(ex.pt, failPat); ok {
			continue // failure edge of the acquisition: nothing was handed out
		}
		nex++
		label := what + " at exit"
		if ex.ret != nil && closesR(ex.ret) {
			c.r.Check(id, f, label, "E-res (a): released in the return statement", ex.pos, true, "")
			continue
		}
		if g.MustPassBefore(g.After(apt), ex.pt, releases, nil) {
			c.r.Check(id, f, label, "E-res (a): released (or release deferred) on every path to this exit", ex.pos, true, "")
			continue
		}
		if ex.ret != nil {
			transfer := false
			for _, res := range ex.ret.Results {
				if mentionsR(res) {
					transfer = true
				}
			}
			if len(ex.ret.Results) == 0 && resultIndex(rv) >= 0 {
				transfer = true // bare return of a named result
			}
			if transfer {
				c.r.Check(id, f, label, "E-res (b): handed to the caller", ex.pos, true, "")
				continue
			}
		}
		covered := false
		why := "no release, no hand-over and no deferred release applies on some path"
		for _, cd := range conds {
			isDefer := func(q eng.Point, nd ast.Node) bool { return nd == ast.Node(cd.ds) }
			if !g.MustPassBefore(g.After(apt), ex.pt, isDefer, nil) {
				continue
			}
			// a return statement assigns the named results BEFORE deferred
			// functions run: if r is itself a named result and this return sets
			// it to something else (nil), the closure no longer sees the response
			if ri := resultIndex(rv); ri >= 0 && ex.ret != nil && len(ex.ret.Results) == sig.Results().Len() && closesLate(cd.ds) {
				if !isR(ex.ret.Results[ri]) {
					why = "this return assigns " + f.Norm(ex.ret.Results[ri], nil) + " to the named result " + rv.Name() + " before the deferred function runs, so the deferred release sees that value instead of the response"
					continue
				}
			}
			k := 0
			if ri := resultIndex(cd.v); ri >= 0 && ex.ret != nil && len(ex.ret.Results) > 0 {
				if len(ex.ret.Results) == sig.Results().Len() {
					k = g.NilnessOf(ex.ret.Results[ri], ex.pt)
				}
			} else {
				k = g.NilnessOf(cd.id, ex.pt)
			}
			if k == 1 {
				covered = true
			} else {
				why = "the deferred release runs only if " + cd.v.Name() + " != nil, which is not established at this exit"
			}
		}
		c.r.Check(id, f, label, "E-res (c): the conditional deferred release fires at this exit", ex.pos, covered, why+": the response stays open and the serve loop never continues")
	}
	c.r.Check(id, f, what, "E-res: acquisition examined (exits past the acquisition: "+itoa(nex)+")", call.Pos(), nex > 0, "no exit reachable past the acquisition")
}

// decoderSkipTypestate (E-dec): xml.Decoder.Skip consumes up to the end tag
// matching the most recent unmatched start tag. Calling it when the token just
// read was that element's own END tag (the element was empty) consumes through
// the end of the PARENT and silently swallows the siblings that follow. For
// every Skip call: if a Token() call on the same decoder can reach it without
// another consuming call in between, every such path either identifies the
// token as something other than an end element (type-switch arm or comma-ok
// assertion) or tests for the end element and leaves by the other edge.
func decoderSkipTypestate(c *cx, id string, in func(f *eng.Fn) bool, floor int) {
	n := 0
	for _, f := range c.allFns() {
		if f.Body == nil || !in(f) {
			continue
		}
		g := f.Graph()
		consumes := func(cl *ast.CallExpr) (string, string) {
			cid := f.CalleeID(cl)
			switch cid {
			case "encoding/xml.Decoder.Token", "encoding/xml.Decoder.RawToken", "encoding/xml.Decoder.Skip", "encoding/xml.Decoder.DecodeElement", "encoding/xml.Decoder.Decode":
				if sel, ok := ast.Unparen(cl.Fun).(*ast.SelectorExpr); ok {
					return cid, f.Norm(sel.X, nil)
				}
			}
			return "", ""
		}
		var toks, skips []*ast.CallExpr
		for _, cl := range f.AllCalls() {
			switch cid, _ := consumes(cl); cid {
			case "encoding/xml.Decoder.Token", "encoding/xml.Decoder.RawToken":
				toks = append(toks, cl)
			case "encoding/xml.Decoder.Skip":
				skips = append(skips, cl)
			}
		}
		for _, sk := range skips {
			n++
			_, dec := consumes(sk)
			spt, _ := g.Where(sk)
			bad := ""
			for _, tk := range toks {
				if _, d2 := consumes(tk); d2 != dec {
					continue
				}
				tpt, _ := g.Where(tk)
				other := func(q eng.Point, nd ast.Node) bool {
					found := false
					ast.Inspect(nd, func(x ast.Node) bool {
						if cc, ok := x.(*ast.CallExpr); ok && cc != sk && cc != tk {
							if cid, d3 := consumes(cc); cid != "" && d3 == dec {
								found = true
							}
						}
						return !found
					})
					return found
				}
				if !g.Reachable(g.After(tpt), spt, nil, other) {
					continue // another consuming call always intervenes
				}
				// safe edges: the token was identified as something other than
				// an end element, or the end-element case was tested and not taken
				cut := eng.Cut{}
				for _, ce := range g.CondEdges() {
					for _, a := range ce.Atoms {
						switch {
						case eng.Glob("istype(*;*encoding/xml.EndElement*)", a.S) || eng.Glob("commaok(*.(encoding/xml.EndElement))", a.S):
							cut[eng.Edge{B: ce.E.B, S: 1 - ce.E.S}] = true
						case eng.Glob("istype(*;encoding/xml.*)", a.S) || eng.Glob("commaok(*.(encoding/xml.*))", a.S) || eng.Glob("!commaok(*.(encoding/xml.EndElement))", a.S):
							cut[ce.E] = true
						}
					}
				}
				if g.Reachable(g.After(tpt), spt, cut, other) {
					bad = "the token read at " + c.p.Pos(tk.Pos()) + " can be an end element when this Skip runs (an empty element): Skip then consumes through the END OF THE PARENT and the following siblings are lost"
				}
			}
			c.r.Check(id, f, "Skip on "+dec, "E-dec: Skip never runs right after the current element's own end tag", sk.Pos(), bad == "", bad)
		}
	}
	c.r.Floor(id, "xml.Decoder.Skip calls", n, floor)
}

// tokenDecoderUnmarshaler (E-dec2): a Decoder made by xml.NewTokenDecoder from
// a token reader that is not itself a *xml.Decoder has an EMPTY element stack
// until it has read a start element itself. DecodeElement(v, start) with a
// non-nil start obtained elsewhere and a v whose type implements
// xml.Unmarshaler calls (*Decoder).pushEOF, which walks that stack looking for
// the start element and dereferences nil: a panic on first use. (With a struct
// target the start is handled by the reflection path; with a reader that IS a
// *xml.Decoder, NewTokenDecoder returns it unchanged; a decoder that read the
// start token itself has it on its stack.) A call is reported only when a
// witness exists: a construction site that provably hands in a reader that is
// not a *xml.Decoder.
func tokenDecoderUnmarshaler(c *cx, id string, in func(f *eng.Fn) bool) int {
	n := 0
	for _, f := range c.allFns() {
		if f.Body == nil || !in(f) {
			continue
		}
		g := f.Graph()
		for _, cl := range f.Calls("encoding/xml.Decoder.DecodeElement") {
			if len(cl.Args) != 2 || f.Norm(cl.Args[1], nil) == "nil" {
				continue
			}
			tt := f.Info().TypeOf(cl.Args[0])
			if tt == nil || !hasMethod(tt, "UnmarshalXML") {
				continue
			}
			sel, ok := ast.Unparen(cl.Fun).(*ast.SelectorExpr)
			if !ok {
				continue
			}
			var mk *ast.CallExpr
			pt, _ := g.Where(cl)
			fresh := false
			switch x := ast.Unparen(sel.X).(type) {
			case *ast.CallExpr:
				mk = x
				fresh = true
			case *ast.Ident:
				if v, ok := f.Info().ObjectOf(x).(*types.Var); ok {
					if d := g.UniqueDef(v, pt); d != nil && d.RHS != nil {
						mk, _ = ast.Unparen(d.RHS).(*ast.CallExpr)
						// fresh iff no Token call on this decoder can precede
						fresh = true
						for _, tk := range f.AllCalls() {
							cid := f.CalleeID(tk)
							if cid != "encoding/xml.Decoder.Token" && cid != "encoding/xml.Decoder.RawToken" {
								continue
							}
							if ts, ok := ast.Unparen(tk.Fun).(*ast.SelectorExpr); ok {
								if ti, ok := ast.Unparen(ts.X).(*ast.Ident); ok && f.Info().ObjectOf(ti) == v {
									tp, _ := g.Where(tk)
									if g.Reachable(g.After(tp), pt, nil, nil) {
										fresh = false
									}
								}
							}
						}
					}
				}
			}
			if mk == nil || f.CalleeID(mk) != "encoding/xml.NewTokenDecoder" || len(mk.Args) != 1 {
				continue
			}
			n++
			witness := ""
			if fresh {
				mpt, _ := g.Where(mk)
				witness = nonDecoderWitness(c, f, mk.Args[0], mpt, 0, map[string]bool{})
			}
			c.r.Check(id, f, "DecodeElement into "+eng.TypeStr(tt)+" on a token decoder", "E-dec2: DecodeElement(v, start) with an xml.Unmarshaler target needs a decoder that has the start element on its stack (a fresh xml.NewTokenDecoder of a non-Decoder reader has an empty stack: pushEOF dereferences nil)", cl.Pos(), witness == "", "the decoder is fresh and its reader is not a *xml.Decoder ("+witness+"): this call panics when it is reached that way")
		}
	}
	return n
}

// nonDecoderWitness returns a description of a construction that makes the
// token reader e provably something other than a *xml.Decoder, or "".
func nonDecoderWitness(c *cx, f *eng.Fn, e ast.Expr, pt eng.Point, depth int, seen map[string]bool) string {
	if depth > 4 {
		return ""
	}
	e = ast.Unparen(e)
	if rt := f.Info().TypeOf(e); rt != nil {
		if _, isIface := rt.Underlying().(*types.Interface); !isIface && eng.TypeStr(rt) != "*encoding/xml.Decoder" {
			return "static type " + eng.TypeStr(rt) + " at " + c.p.Pos(e.Pos())
		}
	}
	switch x := e.(type) {
	case *ast.CallExpr:
		if fo := f.Prog.FnOf(calleeFunc(f, x)); fo != nil && alwaysReturnsNonDecoder(fo) {
			return fo.Short + " (called at " + c.p.Pos(x.Pos()) + ") only returns wrapper readers"
		}
	case *ast.Ident:
		v, ok := f.Info().ObjectOf(x).(*types.Var)
		if !ok {
			return ""
		}
		paramReaches := false
		for _, d := range f.Graph().ReachingDefs(v, pt) {
			if d.Kind == eng.DefParam {
				paramReaches = true
			}
		}
		// parameter: any call site with a witness
		if sig := f.Sig(); sig != nil && f.Obj != nil && paramReaches {
			for i := 0; i < sig.Params().Len(); i++ {
				if sig.Params().At(i) != v {
					continue
				}
				key := f.Short + "#" + itoa(i)
				if seen[key] {
					return ""
				}
				seen[key] = true
				for _, cf := range c.allFns() {
					for _, cc := range cf.AllCalls() {
						if calleeFunc(cf, cc) != f.Obj || i >= len(cc.Args) {
							continue
						}
						cp, _ := cf.Graph().Where(cc)
						if w := nonDecoderWitness(c, cf, cc.Args[i], cp, depth+1, seen); w != "" {
							return w
						}
					}
				}
				return ""
			}
		}
		for _, d := range f.Graph().ReachingDefs(v, pt) {
			if d.RHS != nil && d.Kind == eng.DefPlain {
				if w := nonDecoderWitness(c, f, d.RHS, d.At, depth+1, seen); w != "" {
					return w
				}
			}
		}
	case *ast.SelectorExpr:
		k, ok := f.FieldClass(x)
		if !ok || seen[k] {
			return ""
		}
		seen[k] = true
		dot := strings.LastIndex(k, ".")
		// a field that is assigned after construction holds different readers
		// over time: which one is current at this use is not decided here
		for _, wf := range c.allFns() {
			if len(wf.FieldWrites(k)) > 0 {
				return ""
			}
		}
		// set at construction only: an instance built from a non-Decoder
		// reader keeps it for life
		for _, wf := range c.allFns() {
			for _, lit := range wf.WalkLits(k[:dot]) {
				if fv := structLitField(lit, k[dot+1:]); fv != nil {
					lp, _ := wf.Graph().Where(lit)
					if s := nonDecoderWitness(c, wf, fv, lp, depth+1, seen); s != "" {
						return s
					}
				}
			}
		}
	}
	return ""
}

// alwaysReturnsNonDecoder: every return of fo yields a composite literal /
// address of a struct of the repository (a wrapper), never a *xml.Decoder.
func alwaysReturnsNonDecoder(fo *eng.Fn) bool {
	g := fo.Graph()
	if len(g.Returns) == 0 {
		return false
	}
	for _, rs := range g.Returns {
		if len(rs.Results) != 1 {
			return false
		}
		r := ast.Unparen(rs.Results[0])
		if u, ok := r.(*ast.UnaryExpr); ok && u.Op == token.AND {
			r = ast.Unparen(u.X)
		}
		if _, ok := r.(*ast.CompositeLit); ok {
			continue
		}
		if call, ok := r.(*ast.CallExpr); ok {
			if f2 := fo.Prog.FnOf(calleeFunc(fo, call)); f2 != nil && f2 != fo && alwaysReturnsNonDecoder(f2) {
				continue
			}
			if tv, ok := fo.Info().Types[call.Fun]; ok && tv.IsType() {
				continue
			}
		}
		return false
	}
	return true
}

// handoffWithdrawn (E-res for bounded hand-off queues): a caller that queues a
// hand-off record on a buffered channel that only the handler drains must take
// it back on every exit where the hand-off was not completed; otherwise the
// record stays in the queue and the next caller blocks on the send before it
// has done anything (for ever with a context that never ends). For the
// function that sends on class `queue`: every exit reachable after the send is
// either reached through the select arm that receives the completion (a
// channel stored in the queued record), or a receive from `queue` runs on the
// way out: directly, or in a deferred closure installed on every such path
// whose only early return is guarded by a boolean local that is set to true
// nowhere but in the completion arm.
func handoffWithdrawn(c *cx, id string, rel, fname, queue string) {
	f := c.fn(id, rel, fname)
	if f == nil {
		return
	}
	g := f.Graph()
	var send *chanOp
	ops := chanOps(f)
	for i := range ops {
		if ops[i].kind == "send" && ops[i].class == queue {
			send = &ops[i]
		}
	}
	if send == nil {
		c.r.Unresolved(id, "send on "+queue+" in "+f.Short)
		return
	}
	spt, _ := g.Where(send.node)
	// the caller takes back only what it queued itself: a receive from the
	// queue that can run before this call's own send discards the record of
	// another call that is still waiting for its completion (that call then
	// ends with its context's error although the room answered it)
	for i := range ops {
		if ops[i].kind != "recv" || ops[i].class != queue {
			continue
		}
		rp, ok := g.Where(ops[i].node)
		if !ok {
			continue
		}
		isSend := func(q eng.Point, nd ast.Node) bool { return nd == send.node || containsNode(nd, send.node) }
		c.r.Check(id, f, "receive from the hand-off queue", "O: the function that queues hand-off records receives from the queue only after its own send (it withdraws its own record, never a concurrent caller's)", ops[i].node.Pos(), g.MustPassBefore(g.Entry(), rp, isSend, nil), "a record queued by another call can be taken here before this call has queued its own: that call's hand-off is lost and it waits until its context ends")
	}
	// completion channels: locals of channel type mentioned in the queued value
	completion := map[string]bool{}
	if ss, ok := send.node.(*ast.SendStmt); ok {
		collect := func(e ast.Expr) {
			ast.Inspect(e, func(x ast.Node) bool {
				if idn, ok := x.(*ast.Ident); ok {
					if v, ok := f.Info().ObjectOf(idn).(*types.Var); ok {
						if _, isChan := v.Type().Underlying().(*types.Chan); isChan {
							completion[f.Norm(idn, nil)] = true
						}
					}
				}
				return true
			})
		}
		collect(ss.Value)
		if idn, ok := ast.Unparen(ss.Value).(*ast.Ident); ok {
			if v, ok := f.Info().ObjectOf(idn).(*types.Var); ok {
				if d := g.UniqueDef(v, spt); d != nil && d.RHS != nil {
					collect(d.RHS)
				}
			}
		}
	}
	completedCut := eng.Cut{}
	var pats []string
	for ch := range completion {
		pats = append(pats, "selectarm(recv "+ch+")")
		for _, ce := range g.EdgesMatching("selectarm(recv " + ch + ")") {
			completedCut[ce.E] = true
		}
	}
	c.r.Check(id, f, "completion channel of the hand-off", "the queued record carries a channel on which the handler reports completion, and the caller receives from it", send.node.Pos(), len(completedCut) > 0, "no select arm receives from a channel stored in the queued record")
	recvQueue := func(nd ast.Node) bool {
		found := false
		ast.Inspect(nd, func(x ast.Node) bool {
			if u, ok := x.(*ast.UnaryExpr); ok && u.Op == token.ARROW {
				if chanClass(f, u.X, 0) == queue {
					found = true
				}
			}
			return !found
		})
		return found
	}
	// deferred withdrawals
	type wd struct {
		ds   *ast.DeferStmt
		flag *types.Var
	}
	var wds []wd
	for _, ds := range g.Defers {
		l, ok := ast.Unparen(ds.Call.Fun).(*ast.FuncLit)
		if !ok || !recvQueue(l.Body) {
			continue
		}
		w := wd{ds: ds}
		okShape := true
		for _, st := range l.Body.List {
			if cond, ibody, els, ok := asIfIn(f, st); ok && !recvQueue(st) {
				// an early return: must be `if flag { return }`
				idn, isID := ast.Unparen(cond).(*ast.Ident)
				ret := len(ibody) == 1
				if ret {
					_, ret = ibody[0].(*ast.ReturnStmt)
				}
				if !isID || !ret || els != nil || w.flag != nil {
					okShape = false
					continue
				}
				w.flag, _ = f.Info().ObjectOf(idn).(*types.Var)
				if w.flag == nil {
					okShape = false
				}
			}
		}
		if okShape {
			wds = append(wds, w)
		}
	}
	for _, w := range wds {
		if w.flag == nil {
			continue
		}
		// the flag becomes true only in the completion arm
		for _, wr := range f.Writes() {
			if idn, ok := ast.Unparen(wr.LHS).(*ast.Ident); ok && f.Info().ObjectOf(idn) == w.flag && wr.RHS != nil {
				if cv := f.ConstVal(wr.RHS); cv != nil && cv.ExactString() == "false" {
					continue
				}
				c.domAny(id, f, wr.Stmt, "flag "+w.flag.Name()+" set only when the hand-off completed", pats)
			}
		}
	}
	n := 0
	// the point right after the record was queued
	after := g.After(spt)
	if ss, ok := send.node.(*ast.SendStmt); ok && send.inSelect {
		found := false
		for _, ce := range g.EdgesMatching("selectarm(send " + f.Norm(ss.Chan, nil) + ")") {
			after = g.EdgeTarget(ce.E)
			found = true
		}
		if !found {
			c.r.Unresolved(id, "select arm of the send on "+queue)
			return
		}
	}
	var exits []eng.Point
	for _, rs := range g.Returns {
		if pt, ok := g.Where(rs); ok {
			exits = append(exits, pt)
		}
	}
	for _, ex := range g.Exits() {
		dup := false
		for _, e := range exits {
			if e.B == ex.B {
				dup = true
			}
		}
		if !dup {
			exits = append(exits, ex)
		}
	}
	for _, ex := range exits {
		// reachable after the record was queued, not through the completion arm
		if !g.Reachable(after, ex, completedCut, nil) {
			continue
		}
		n++
		direct := func(q eng.Point, nd ast.Node) bool {
			if _, isDefer := nd.(*ast.DeferStmt); isDefer {
				return false
			}
			if _, isGo := nd.(*ast.GoStmt); isGo {
				return false
			}
			// a receive that runs HERE: not one inside a function literal that is
			// merely defined here; a call of a local closure whose body receives
			// from the queue counts
			found := false
			ast.Inspect(nd, func(x ast.Node) bool {
				if found {
					return false
				}
				switch y := x.(type) {
				case *ast.FuncLit:
					return false
				case *ast.UnaryExpr:
					if y.Op == token.ARROW && chanClass(f, y.X, 0) == queue {
						found = true
					}
				case *ast.CallExpr:
					if idn, ok := ast.Unparen(y.Fun).(*ast.Ident); ok {
						if v, ok := f.Info().ObjectOf(idn).(*types.Var); ok && eng.IsLocal(v) {
							ds := g.DefsOf(v)
							if len(ds) == 1 && ds[0].RHS != nil {
								if l, ok := ast.Unparen(ds[0].RHS).(*ast.FuncLit); ok && recvQueue(l.Body) {
									found = true
								}
							}
						}
					}
				}
				return !found
			})
			return found
		}
		ok := !g.Reachable(after, ex, completedCut, direct)
		if !ok {
			for _, w := range wds {
				isD := func(q eng.Point, nd ast.Node) bool { return nd == ast.Node(w.ds) }
				if !g.Reachable(after, ex, completedCut, isD) {
					ok = true
				}
			}
		}
		pos := f.Body.Rbrace
		if ex.I < len(g.Blocks[ex.B].Nodes) {
			pos = g.Blocks[ex.B].Nodes[ex.I].Pos()
		}
		c.r.Check(id, f, "exit with the hand-off still queued", "E-res: every exit after the hand-off record was queued, other than through its completion, takes the record back from "+queue, pos, ok, "the record stays in "+queue+" (capacity 1): the next call blocks on the send before it has sent anything")
	}
	c.r.Floor(id, "non-completion exits after the hand-off was queued", n, 1)
}

// registrationWithdrawn (E-res for waiter tables): a function that registers
// itself in a table the serve loop consults (a map field) and then waits with
// a cancellation arm removes its registration when the wait ends by
// cancellation: a deferred closure that deletes from the table, or a delete on
// every path from the cancellation arm to the exit. A registration left behind
// makes the serve loop hand a later stanza to nobody.
func registrationWithdrawn(c *cx, id string, cls string, floor int) {
	n := 0
	for _, f := range c.allFns() {
		if f.Body == nil {
			continue
		}
		stores := false
		for _, mu := range f.MapUpdates() {
			if k, _ := f.FieldClass(mu.Map); k == cls && !mu.Delete {
				stores = true
			}
		}
		if !stores {
			continue
		}
		g := f.Graph()
		isDelete := func(q eng.Point, nd ast.Node) bool {
			found := false
			ast.Inspect(nd, func(x ast.Node) bool {
				if cl, ok := x.(*ast.CallExpr); ok && f.CalleeID(cl) == "builtin.delete" && len(cl.Args) == 2 {
					if k, _ := f.FieldClass(cl.Args[0]); k == cls {
						found = true
					}
				}
				return !found
			})
			return found
		}
		deferred := false
		for _, ds := range g.Defers {
			if l, ok := ast.Unparen(ds.Call.Fun).(*ast.FuncLit); ok && isDelete(eng.Point{}, l.Body) {
				deferred = true
			}
		}
		// registered BEFORE the request is written: a reply that is handled
		// before the write call returns must already find the waiter
		isStore := func(q eng.Point, nd ast.Node) bool {
			for _, mu := range f.MapUpdates() {
				if mu.Node == nd && !mu.Delete {
					if k, _ := f.FieldClass(mu.Map); k == cls {
						return true
					}
				}
			}
			return false
		}
		for _, cl := range f.AllCalls() {
			fo := calleeFunc(f, cl)
			if fo == nil || !strings.HasPrefix(fo.Name(), "Send") {
				continue
			}
			if sig, ok := fo.Type().(*types.Signature); !ok || sig.Recv() == nil || !strings.HasSuffix(eng.TypeStr(sig.Recv().Type()), "xmpp.Session") {
				continue
			}
			sp, _ := g.Where(cl)
			c.r.Check(id, f, "registration in "+cls+" precedes "+fo.Name(), "O: the waiter is registered before the request is written (a reply handled before the write returns is not missed)", cl.Pos(), g.MustPassBefore(g.Entry(), sp, isStore, nil), "the request can be written before the waiter is in "+cls)
		}
		for _, ce := range g.EdgesMatching("selectarm(recv context.Context.Done[*]())") {
			from := g.EdgeTarget(ce.E)
			for _, rs := range returnsFrom(f, from, nil) {
				n++
				rp, _ := g.Where(rs)
				// "only if the entry is still ours": an edge whose fact talks about
				// the table's current entry for the key may skip the delete
				field := cls[strings.LastIndex(cls, ".")+1:]
				skip := eng.Cut{}
				for _, e2 := range g.CondEdges() {
					for _, a := range e2.Atoms {
						if strings.Contains(a.S, "."+field+"[") && (strings.HasPrefix(a.S, "or(!") || strings.HasPrefix(a.S, "!")) {
							skip[e2.E] = true
						}
					}
				}
				ok := deferred || !g.Reachable(from, rp, skip, isDelete)
				c.r.Check(id, f, "registration in "+cls+" withdrawn on cancellation", "E-res: a wait that ends with the context's error removes its registration from the table the serve loop consults", rs.Pos(), ok, "the entry stays in "+cls+": a later stanza for it is handed to a waiter that has gone")
			}
		}
	}
	c.r.Floor(id, "cancellation exits of functions that register in "+cls, n, floor)
}

// errFieldDropped (E-err for error-carrying results): several helpers return
// a struct that carries its own failure (`&Iter{err: err}` with every other
// field zero). Selecting another field straight off the call result
// (`Fetch(...).iter`) drops that error and hands on a zero (nil) field: the
// next method call on it dereferences nil. Reported for every selector whose
// operand is a call returning a (pointer to a) struct of this module that has
// a field of type error, when the selected field is not that error field.
func errFieldDropped(c *cx, id string, in func(f *eng.Fn) bool) int {
	n := 0
	for _, f := range c.allFns() {
		if f.Body == nil || !in(f) {
			continue
		}
		f.WalkBody(func(nd ast.Node) bool {
			sel, ok := nd.(*ast.SelectorExpr)
			if !ok {
				return true
			}
			call, ok := ast.Unparen(sel.X).(*ast.CallExpr)
			if !ok {
				return true
			}
			if s := f.Info().Selections[sel]; s == nil || s.Kind() != types.FieldVal {
				return true
			}
			t := f.Info().TypeOf(call)
			if t == nil {
				return true
			}
			if p, isPtr := t.(*types.Pointer); isPtr {
				t = p.Elem()
			}
			named, ok := t.(*types.Named)
			if !ok || named.Obj().Pkg() == nil || !strings.HasPrefix(named.Obj().Pkg().Path(), eng.ModPath) {
				return true
			}
			st, ok := named.Underlying().(*types.Struct)
			if !ok {
				return true
			}
			errField := ""
			for i := 0; i < st.NumFields(); i++ {
				if eng.TypeStr(st.Field(i).Type()) == "error" {
					errField = st.Field(i).Name()
				}
			}
			if errField == "" {
				return true
			}
			n++
			c.r.Check(id, f, "field "+sel.Sel.Name+" taken from the result of "+f.CalleeID(call), "E-err: a result that carries its own error field is not picked apart without looking at that error", sel.Pos(), sel.Sel.Name == errField, "the result's "+errField+" field is dropped; after a failure "+sel.Sel.Name+" is the zero value (nil) and the next use dereferences it")
			return true
		})
	}
	return n
}

// errCarrierInvariant (E-inv): a struct that carries its own failure next to
// the pointer its methods work on (`Iter{iter, err}`) relies on the invariant
// "the pointer is nil only if err is not": the methods test err and then use
// the pointer. Every composite literal of such a type that leaves all pointer
// fields unset must set the error field to a value that is known non-nil.
func errCarrierInvariant(c *cx, id string, in func(f *eng.Fn) bool) int {
	n := 0
	for _, f := range c.allFns() {
		if f.Body == nil || !in(f) {
			continue
		}
		g := f.Graph()
		f.WalkBody(func(nd ast.Node) bool {
			lit, ok := nd.(*ast.CompositeLit)
			if !ok {
				return true
			}
			t := f.Info().TypeOf(lit)
			named, ok := t.(*types.Named)
			if !ok || named.Obj().Pkg() == nil || !strings.HasPrefix(named.Obj().Pkg().Path(), eng.ModPath) {
				return true
			}
			st, ok := named.Underlying().(*types.Struct)
			if !ok {
				return true
			}
			errField, ptrFields := "", []string{}
			for i := 0; i < st.NumFields(); i++ {
				fl := st.Field(i)
				if eng.TypeStr(fl.Type()) == "error" {
					errField = fl.Name()
				} else if _, isPtr := fl.Type().(*types.Pointer); isPtr && fl.Name() != "session" && fl.Name() != "s" {
					ptrFields = append(ptrFields, fl.Name())
				}
			}
			if errField == "" || len(ptrFields) == 0 || !strings.HasSuffix(named.Obj().Name(), "Iter") {
				return true
			}
			ev := structLitField(lit, errField)
			setsPtr := false
			for _, pf := range ptrFields {
				if structLitField(lit, pf) != nil {
					setsPtr = true
				}
			}
			if setsPtr || len(lit.Elts) == 0 {
				return true
			}
			n++
			pt, _ := g.Where(lit)
			ok2 := ev != nil && g.NilnessOf(ev, pt) == 1
			what := "<unset>"
			if ev != nil {
				what = f.Norm(ev, nil)
			}
			c.r.Check(id, f, "iterator without an underlying iterator: "+named.Obj().Name()+"{"+errField+": "+what+"}", "E-inv: an iterator value whose inner iterator is nil carries a non-nil error (its methods test the error and then use the inner iterator)", lit.Pos(), ok2, "the error may be nil here: Next/Err then dereference the nil inner iterator")
			return true
		})
	}
	return n
}

// decoderLoopConsumes (E-dec3): a hand-written decoder that reads the children
// of its element one token at a time has to consume every child START element
// it meets (DecodeElement, Skip, or handing decoder and start to another
// decoder): a child that is merely looked at leaves its content and its end
// tag in the stream, the end tag is then taken for the END OF THE PARENT and
// everything after it is lost ("did not consume entire element").
func decoderLoopConsumes(c *cx, id string, in func(f *eng.Fn) bool) int {
	n := 0
	for _, f := range c.allFns() {
		if f.Body == nil || !in(f) {
			continue
		}
		g := f.Graph()
		for _, tk := range f.Calls("encoding/xml.Decoder.Token") {
			tp, ok := g.Where(tk)
			if !ok || !g.Reachable(g.After(tp), tp, nil, nil) {
				continue // not in a loop
			}
			ts, ok := ast.Unparen(tk.Fun).(*ast.SelectorExpr)
			if !ok {
				continue
			}
			dec := f.Norm(ts.X, nil)
			consumes := func(q eng.Point, nd ast.Node) bool {
				found := false
				ast.Inspect(nd, func(x ast.Node) bool {
					cc, ok := x.(*ast.CallExpr)
					if !ok || cc == tk {
						return !found
					}
					switch f.CalleeID(cc) {
					case "encoding/xml.Decoder.DecodeElement", "encoding/xml.Decoder.Skip", "encoding/xml.Decoder.Decode":
						if s2, ok := ast.Unparen(cc.Fun).(*ast.SelectorExpr); ok && f.Norm(s2.X, nil) == dec {
							found = true
						}
					case "encoding/xml.Encoder.EncodeToken":
						// a copy loop: every token, the child's start element
						// included, is written out again (the loop keeps its own
						// depth count to find the parent's end)
						found = true
					default:
						// the decoder handed to another function
						for _, a := range cc.Args {
							if f.Norm(a, nil) == dec {
								found = true
							}
						}
					}
					return !found
				})
				return found
			}
			// edges that establish "the token is a start element"
			for _, ce := range g.CondEdges() {
				isStart := false
				for _, a := range ce.Atoms {
					if eng.Glob("istype(*;encoding/xml.StartElement)", a.S) || eng.Glob("commaok(*.(encoding/xml.StartElement))", a.S) {
						isStart = true
					}
				}
				if !isStart || !g.Reachable(g.After(tp), eng.Point{B: ce.E.B, I: 0}, nil, nil) {
					continue
				}
				n++
				from := g.EdgeTarget(ce.E)
				bad := ""
				if g.Reachable(from, tp, nil, consumes) {
					bad = "the loop can read the next token without having consumed the child element"
				}
				for _, rs := range g.Returns {
					if g.RetKindOf(rs) == eng.RetError {
						continue
					}
					rp, _ := g.Where(rs)
					if bad == "" && g.Reachable(from, rp, nil, consumes) && !consumes(rp, rs) {
						bad = "a non-error return at " + c.p.Pos(rs.Pos()) + " leaves a child element unconsumed"
					}
				}
				c.r.Check(id, f, "child start element consumed in the token loop of "+dec, "E-dec3: every child start element met by a hand-written token loop is decoded, skipped or copied out before the next token is read", edgePos(g, f, ce.E.B), bad == "", bad)
				// E-dec6: a return that may be nil from within a child's arm has
				// consumed the child AND the rest of the parent (two consuming calls):
				// `return d.Skip()` in the arm of the last expected child skips only
				// the child, the parent's end tag stays in the stream and the caller's
				// DecodeElement fails with "did not consume entire element".
				if id2 := strings.Replace(id, ".", ".", 1); bad == "" && !isStanzaHandler(f) {
					stopIter := func(q eng.Point, nd ast.Node) bool {
						if consumes(q, nd) {
							return true
						}
						hit := false
						ast.Inspect(nd, func(x ast.Node) bool {
							if x == ast.Node(tk) {
								hit = true
							}
							return !hit
						})
						return hit
					}
					bad2 := ""
					for _, rs := range g.Returns {
						if g.RetKindOf(rs) == eng.RetError || c.p.Enclosing(rs.Pos()) != f {
							continue
						}
						rp, _ := g.Where(rs)
						if !g.Reachable(from, rp, nil, func(q eng.Point, nd ast.Node) bool { return !consumes(q, nd) && stopIter(q, nd) }) {
							continue // not in this arm's iteration
						}
						if consumes(rp, rs) {
							// the return itself consumes: one more must come before it
							if g.Reachable(from, rp, nil, stopIter) {
								bad2 = "the return at " + c.p.Pos(rs.Pos()) + " consumes the child only: the rest of the parent element, its end tag included, is left in the stream"
							}
							continue
						}
						for _, nd := range g.ReachableNodes(from, nil) {
							np, okp := g.Where(nd)
							if !okp || !consumes(np, nd) {
								continue
							}
							if g.Reachable(from, np, nil, stopIter) && g.Reachable(g.After(np), rp, nil, stopIter) {
								bad2 = "the return at " + c.p.Pos(rs.Pos()) + " follows the consumption of the child only: the rest of the parent element, its end tag included, is left in the stream"
							}
						}
					}
					c.r.Check(id2, f, "no early success return from a child's arm in the token loop of "+dec, "E-dec6: a return that may be nil inside the arm of a child start element has consumed the child and the rest of the parent", edgePos(g, f, ce.E.B), bad2 == "", bad2)
				}
			}
		}
	}
	return n
}

// respIterContract: the reader internal/respiter puts between a response and
// an xmlstream.Iter closes the response on every read error other than io.EOF,
// and its Close is idempotent (Iter.Close calls it again on the good path).
func respIterContract(c *cx, id string) {
	tk := c.fn(id, "internal/respiter", "(*response).Token")
	if tk != nil {
		g := tk.Graph()
		n := 0
		isClose := func(q eng.Point, nd ast.Node) bool {
			return tk.ContainsCall(nd, "internal/respiter.response.Close") != nil
		}
		for _, rs := range g.Returns {
			rp, _ := g.Where(rs)
			for _, ce := range g.EdgesMatching("!eq(*Token*#1,nil)") {
				from := g.EdgeTarget(ce.E)
				// paths that also establish err == io.EOF are exempt
				cut := g.CutFor("!eq(*Token*#1,var:io.EOF)")
				if !g.Reachable(from, rp, cut, nil) {
					continue
				}
				n++
				c.r.Check(id, tk, "response closed when reading it fails", "O: from the edge err != nil (and err != io.EOF) every return passes Close", rs.Pos(), !g.Reachable(from, rp, cut, isClose), "a read error can be returned without the response having been closed")
			}
		}
		c.r.Floor(id, "error returns of the response reader", n, 1)
	}
	cf := c.fn(id, "internal/respiter", "(*response).Close")
	if cf != nil {
		n := 0
		for _, cl := range cf.AllCalls() {
			if sel, ok := ast.Unparen(cl.Fun).(*ast.SelectorExpr); ok && sel.Sel.Name == "Close" {
				n++
				c.dom(id, cf, cl, "underlying Close runs once", []string{"!recv.closed"})
				// and the flag is set before
				g := cf.Graph()
				pt, _ := g.Where(cl)
				setFlag := func(q eng.Point, nd ast.Node) bool {
					as, ok := nd.(*ast.AssignStmt)
					return ok && len(as.Lhs) == 1 && cf.Norm(as.Lhs[0], nil) == "recv.closed" && cf.Norm(as.Rhs[0], nil) == "true"
				}
				c.r.Check(id, cf, "closed flag set before the underlying Close", "O: the flag is set on every path to the underlying Close", cl.Pos(), g.MustPassBefore(g.Entry(), pt, setFlag, nil) || setFlag(pt, nil), "the underlying Close can run with the flag still false: a second call closes again")
			}
		}
		c.r.Floor(id, "underlying Close calls in respiter", n, 1)
	}
}

// decoderLoopVisitsEveryChild (E-dec7): a hand-written token loop that fills a
// value from the children of an element looks at every child: inside the arm
// of a child start element there is no return whose error may be nil - the
// loop ends at the parent's end tag (or a read error), not after a particular
// child. "This child is always the last one" is a belief about the peer: the
// library's own encoders write other children after it (stream.Error writes
// its application condition before the texts), and everything behind the
// child is silently dropped from the decoded value.
func decoderLoopVisitsEveryChild(c *cx, id string, in func(f *eng.Fn) bool) int {
	n := 0
	for _, f := range c.allFns() {
		if f.Body == nil || !in(f) || isStanzaHandler(f) {
			continue
		}
		g := f.Graph()
		for _, tk := range f.Calls("encoding/xml.Decoder.Token") {
			tp, ok := g.Where(tk)
			if !ok || !g.Reachable(g.After(tp), tp, nil, nil) {
				continue // not in a loop
			}
			isTok := func(q eng.Point, nd ast.Node) bool {
				hit := false
				ast.Inspect(nd, func(x ast.Node) bool {
					if x == ast.Node(tk) {
						hit = true
					}
					return !hit
				})
				return hit
			}
			for _, ce := range g.CondEdges() {
				isStart := false
				for _, a := range ce.Atoms {
					if eng.Glob("istype(*;encoding/xml.StartElement)", a.S) || eng.Glob("commaok(*.(encoding/xml.StartElement))", a.S) {
						isStart = true
					}
				}
				if !isStart || !g.Reachable(g.After(tp), eng.Point{B: ce.E.B, I: 0}, nil, nil) {
					continue
				}
				n++
				from := g.EdgeTarget(ce.E)
				bad := ""
				for _, rs := range g.Returns {
					if g.RetKindOf(rs) == eng.RetError || c.p.Enclosing(rs.Pos()) != f {
						continue
					}
					rp, _ := g.Where(rs)
					if eof, _ := g.Dominated(rp, "eq(*,var:io.EOF)"); eof {
						continue // the input ended with this child
					}
					if g.Reachable(from, rp, nil, isTok) {
						bad = "the return at " + c.p.Pos(rs.Pos()) + " may end the loop with a nil error from inside a child's arm: the children behind it are never looked at"
					}
				}
				c.r.Check(id, f, "the token loop ends at the end tag, not after a child", "E-dec7: inside the arm of a child start element no return may yield a nil error (every child is visited)", edgePos(g, f, ce.E.B), bad == "", bad)
			}
		}
	}
	return n
}

// isStanzaHandler: the function implements a stanza handler (it is handed the
// element's tokens as an xmlstream.TokenReadEncoder). A handler may stop
// reading wherever it likes - the serve loop discards what is left of the
// element after it returns (C08.4) - so the rules about consuming a whole
// parent element (E-dec6, E-dec7) are about decoders, not about handlers.
func isStanzaHandler(f *eng.Fn) bool {
	sig := f.Sig()
	if sig == nil {
		return false
	}
	for i := 0; i < sig.Params().Len(); i++ {
		if eng.TypeStr(sig.Params().At(i).Type()) == "mellium.im/xmlstream.TokenReadEncoder" {
			return true
		}
	}
	return false
}

// edgePos gives a position for reports about an edge out of block b (the
// condition, when the block has one).
func edgePos(g *eng.Graph, f *eng.Fn, b int) token.Pos {
	if nodes := g.Blocks[b].Nodes; len(nodes) > 0 {
		return nodes[len(nodes)-1].Pos()
	}
	return f.Pos()
}
