package rules

import (
	"go/ast"
	"go/constant"
	"go/token"
	"strings"

	"verif/checker/eng"
)

func init() {
	Registry["C08"] = Rule{
		Meta: eng.Meta{
			Explanation: "Structural necessary conditions of 'handlers see one element at a time; stream-level input never reaches them', decided on every path: the reader handed to the handler is xmlstream.InnerElement over the stream-level filter over the locked session reader, and on every success path after the handler the rest of the element is discarded with the discard's error returned (C08.1); the stream-level filter internal/stream.reader.Token has arms for all six token kinds, returns a non-nil error for processing instructions, comments, directives, non-whitespace top-level text, stream-namespace start elements other than a permitted restart, returns a received stream error as the error, maps </stream:stream> to io.EOF and keeps a symmetric depth count (C08.2); handleInputStream ignores whitespace, rejects other non-start tokens (C08.3); the 'from' normalisation blanks the attribute only when the element is a stanza of the stream's namespace, the attribute is 'from' and its value equals the session's own bare address computed at that moment (C08.4); the input lock is released on every exit and when the element ends (C08.5).",
			NotDecided:  "the token-by-token boundary behaviour of xmlstream.InnerElement and encoding/xml on malformed byte sequences (trusted).",
			Trusted:     trustedCommon,
		},
		Run: runC08,
	}
}

func runC08(p *eng.Prog, r *eng.Report, tier string) {
	c := &cx{p, r, tier}
	importRules(c, "C06", []string{"C06.6"}, "C08.30")
	r18HandOffComparesWholeNames(c, "C08.29")
	r18HandlerWriterClosedOnEveryPath(c, "C08.28")
	r17ReaderHandsOnTheDecodersError(c, "C08.27")
	// C08.21 (= C09.17 / C10.10): no cycle in the lock-order graph: a deadlock between a
	// writer and Close, or between the serve loop and a requester, ends every guarantee of this property
	lockOrder(c, "C08.21")
	// C08.22 (= C04.4 / C10.16): the watcher of a transmit call expires the WRITE deadline only: a
	// cancelled Send must not make the serve loop's blocked read fail (later elements would never be handled)
	c04DeadlineAs(c, "C08.22")
	// C08.23 (= C05.2 / C10.6, E-alias): the reader a handler is given is its own allocation: a reader that a
	// handler kept from an earlier element must not be the object the current element is read through
	closerFresh(c, "C08.23")
	c07HandlerEOFIsAFailure(c, "C08.24")
	// C08.25 (= C12.16): a header that omits an attribute leaves the field alone - the session's own
	// address, against which the from of incoming stanzas is normalised, survives a header without to
	c12HeaderKeepsAbsent(c, "C08.25")
	c06WaiterIDIsTheWireID(c, "C08.26")
	c08Handle(c)
	c08Reader(c)
	// C08.10 a received stream error is returned as such: its decoder consumes
	// the whole element (E-dec3/E-dec6), otherwise Serve ends with a decoding error
	stanzaIsTable(c, "C08.12")
	serveCtxRootedInBackground(c, "C08.16")
	idTypFromOwnAttributes(c, "C08.18")
	c06WaiterWithdrawnOnEveryExit(c, "C08.19")
	// C08.20 the rest of a response offered to a waiter is read before the next
	// element: its children never count as top-level elements (= C06.2)
	handoffDrained(c, "C08.20")
	c04AdaptersReportEveryFault(c, "C08.17")
	depthCountersDoNotWrap(c, "C08.15")
	// C08.14 "once per top-level element": a response whose waiter has gone
	// (or that matches no waiter) still reaches the handler (= C06.2)
	c06HandoffAs(c, "C08.14")
	cancelledWaiterToHandler(c, "C08.14")
	// C08.13 what Serve returns for a received stream error is the error the
	// peer sent: its condition is never taken from a <text/> child
	c13StreamErrorArms(c, "C08.13")
	nDec := decoderLoopConsumes(c, "C08.10", func(f *eng.Fn) bool { return strings.HasPrefix(f.Short, "stream.") })
	c.r.Floor("C08.10", "start-element arms in the token loops of the stream package", nDec, 1)
	// C08.11 only the peer's closing tag ends Serve without an error
	c07ServeEOFAs(c, "C08.11")
	// the serve loop goes on delivering elements (and ends without an error at
	// the closing tag) after the documented shutdown sequence replaced the
	// input context
	if sv := c.fn("C08.8", "", "(*Session).Serve"); sv != nil {
		serveCtxReread(c, "C08.8", sv)
	}
	// a received stream error (or any other failure) is what Serve returns
	sendErrorReturnsError(c, "C08.9")
	closerTypestate(c, "C08.5")
	c05DeferWriterID(c, "C08.5")
	// C08.7 stream-level constructs END the session: the filter's errors are
	// final. A handler that ignores a read error (decodes "as far as it goes"
	// and returns nil) must not be able to keep the session alive after a
	// comment, a processing instruction or a received stream error inside an
	// element: the reader latches its first error.
	if rt := c.fn("C08.7", "internal/stream", "(*reader).Token"); rt != nil {
		latched := false
		for _, f := range c.allFns() {
			if !strings.HasPrefix(f.Short, "internal/stream.(*reader).") {
				continue
			}
			for _, w := range f.Writes() {
				if k, ok := f.FieldClass(w.LHS); ok && strings.HasPrefix(k, "internal/stream.reader.") {
					if t := f.Info().TypeOf(w.LHS); t != nil && eng.TypeStr(t) == "error" {
						latched = true
					}
				}
			}
		}
		c.r.Check("C08.7", rt, "errors of the stream-level filter are final", "K: the filter remembers its first error and returns it again (the offending token has been consumed from the decoder: a later read would continue behind it)", rt.Pos(), latched, "a comment, processing instruction or stream error inside an element ends the session only if the handler propagates the read error; otherwise the final discard reads on behind it and Serve dispatches the next element")
	}
	// C08.6 the input is parsed strictly: nobody relaxes the decoder (a
	// non-strict decoder invents end tags and lets a </stream:stream> in the
	// middle of an element end the session as if it were well-formed)
	nw := 0
	for _, f := range c.allFns() {
		for _, w := range f.Writes() {
			if sel, ok := ast.Unparen(w.LHS).(*ast.SelectorExpr); ok {
				if k, _ := f.FieldClass(sel); k == "encoding/xml.Decoder.Strict" || k == "encoding/xml.Decoder.AutoClose" || k == "encoding/xml.Decoder.Entity" {
					nw++
					c.r.Check("C08.6", f, "write to "+k, "W: library code never relaxes an xml.Decoder (Strict / AutoClose / Entity stay at their defaults)", w.Stmt.Pos(), false, "decoder relaxed in "+f.Short)
				}
			}
		}
	}
	c.r.CheckNamed("C08.6", "-", "decoder strictness", "W: no write to xml.Decoder.Strict/AutoClose/Entity in the library", 0, nw == 0, "")
}

func c05DeferWriterID(c *cx, id string) {
	f := c.p.Func("", "handleInputStream")
	if f == nil {
		return
	}
	g := f.Graph()
	okd := false
	for _, d := range g.Defers {
		if sel, ok := ast.Unparen(d.Call.Fun).(*ast.SelectorExpr); ok && sel.Sel.Name == "Close" {
			pt, _ := g.Where(d)
			if strings.Contains(f.Norm(sel.X, &pt), "Session.TokenReader[") {
				okd = true
				// installed before the first read
				for _, cl := range f.Calls("encoding/xml.TokenReader.Token") {
					cp, _ := g.Where(cl)
					if !g.MustPassBefore(g.Entry(), cp, func(q eng.Point, nd ast.Node) bool { return nd == ast.Node(d) }, nil) {
						okd = false
					}
				}
			}
		}
	}
	c.r.Check(id, f, "deferred Close of the session reader", "O: the input lock taken for one element is released on every exit", f.Pos(), okd, "no deferred rc.Close() before the first read")
	ec := c.fn(id, "", "earlyCloser.Token")
	if ec != nil {
		n := 0
		for _, cl := range ec.Calls("io.Closer.Close") {
			n++
			c.dom(id, ec, cl, "early release of the input lock", []string{"eq(*Token*#1,var:io.EOF)"})
		}
		c.r.Floor(id, "early Close in earlyCloser.Token", n, 1)
	}
}

const sessReader = "internal/stream.Reader(xmpp.Session.TokenReader[p0](),p0.ws)"

func c08Handle(c *cx) {
	id := "C08.1"
	f := c.fn(id, "", "handleInputStream")
	if f == nil {
		return
	}
	g := f.Graph()
	hc, ok := one(c, id, f, "call of Handler.HandleXMPP", f.Calls("xmpp.Handler.HandleXMPP"))
	if !ok {
		return
	}
	hpt, _ := g.Where(hc)
	// the reader inside the detector literal
	nlit := 0
	for _, cl := range f.WalkLits("xmpp.responseChecker") {
		nlit++
		pt, _ := g.Where(cl)
		tr := structLitField(cl, "TokenReader")
		got := ""
		okr := false
		if ec, ok := tr.(*ast.CompositeLit); ok {
			if rr := structLitField(ec, "r"); rr != nil {
				got = f.Norm(rr, &pt)
				okr = got == "mellium.im/xmlstream.InnerElement("+sessReader+")"
			}
			if cc := structLitField(ec, "c"); cc == nil || f.Norm(cc, &pt) != "xmpp.Session.TokenReader[p0]()" {
				okr = false
			}
		}
		c.r.Check(id, f, "reader handed to the handler", "P: the handler reads through xmlstream.InnerElement over the stream-level filter over the locked session reader (it cannot read past its element)", cl.Pos(), okr, "reader is "+got)
	}
	c.r.Floor(id, "responseChecker literals", nlit, 1)
	// element start: the token the handler's start element comes from is read through the same filter
	okStart := len(hc.Args) == 2 && eng.Glob("&local:*<encoding/xml.StartElement>", f.Norm(hc.Args[1], &hpt))
	c.r.Check(id, f, "start element handed to the handler", "P: the handler gets the element's own start tag", hc.Pos(), okStart, "second argument is "+f.Norm(hc.Args[1], &hpt))
	c.dom(id, f, hc, "handler invoked for start elements only", []string{"istype(encoding/xml.TokenReader.Token[" + sessReader + "]()#0;encoding/xml.StartElement)"})
	// after the handler: discard the rest and return the discard's error
	n := 0
	for _, rs := range g.Returns {
		pt, _ := g.Where(rs)
		if !g.Reachable(g.After(hpt), pt, nil, nil) || g.RetKindOf(rs) == eng.RetError {
			continue
		}
		n++
		isDiscard := func(q eng.Point, nd ast.Node) bool {
			cl := f.ContainsCall(nd, "mellium.im/xmlstream.Copy")
			return cl != nil && len(cl.Args) == 2 && f.Norm(cl.Args[0], &q) == "mellium.im/xmlstream.Discard()" && eng.TypeStr(f.Info().TypeOf(cl.Args[1])) == "*xmpp.responseChecker"
		}
		c.r.Check(id, f, "rest of the element discarded", "S: after the handler returned, every non-error path skips to the end of the element", rs.Pos(), g.MustPassBefore(g.After(hpt), pt, isDiscard, nil), "a return after the handler does not pass Copy(discard, rw)")
		res := ""
		if len(rs.Results) == 1 {
			res = f.Norm(rs.Results[0], &pt)
		}
		c.r.Check(id, f, "error of the discard returned", "E: an error met while skipping the rest (stream-level construct, stream error, I/O) is returned", rs.Pos(), eng.Glob("mellium.im/xmlstream.Copy(mellium.im/xmlstream.Discard(),*)#1", res), "returns "+res)
	}
	c.r.Floor(id, "non-error returns after the handler", n, 1)
	// correlated-reply path: the rest of the reply is discarded
	for _, ce := range g.EdgesMatching("selectarm(send *.c)") {
		from := g.EdgeTarget(ce.E)
		for _, rs := range returnsFrom(f, from, nil) {
			pt, _ := g.Where(rs)
			if g.RetKindOf(rs) == eng.RetError {
				continue
			}
			isDiscard := func(q eng.Point, nd ast.Node) bool {
				cl := f.ContainsCall(nd, "mellium.im/xmlstream.Copy")
				return cl != nil && f.Norm(cl.Args[0], &q) == "mellium.im/xmlstream.Discard()" && eng.Glob("mellium.im/xmlstream.Inner("+sessReader+")", f.Norm(cl.Args[1], &q))
			}
			c.r.Check(id, f, "rest of a correlated reply discarded", "S: after the waiting caller released the reply the rest of it is skipped", rs.Pos(), g.MustPassBefore(from, pt, isDiscard, nil), "return without Copy(discard, inner)")
		}
	}

	// ---- C08.3 ---------------------------------------------------------------
	for _, ce := range g.EdgesMatching("istype(*;encoding/xml.CharData)") {
		for _, nd := range g.ReachableNodes(g.EdgeTarget(ce.E), nil) {
			if rs, ok := nd.(*ast.ReturnStmt); ok {
				c.r.Check("C08.3", f, "whitespace keep-alive", "K: character data between elements (whitespace; anything else was rejected by the filter) is ignored", rs.Pos(), len(rs.Results) == 1 && f.Norm(rs.Results[0], nil) == "nil", "returns "+c.p.NodeStr(rs))
				break
			}
			if f.ContainsCall(nd, "xmpp.Handler.HandleXMPP") != nil {
				c.r.Check("C08.3", f, "whitespace keep-alive", "character data never reaches the handler", nd.Pos(), false, "handler reachable from the CharData arm")
			}
		}
	}
	// first token read through the filter
	for _, cl := range f.Calls("encoding/xml.TokenReader.Token") {
		pt, _ := g.Where(cl)
		sel := ast.Unparen(cl.Fun).(*ast.SelectorExpr)
		c.r.Check("C08.3", f, "top-level read goes through the stream-level filter", "P: the serve loop reads through internal/stream.Reader", cl.Pos(), f.Norm(sel.X, &pt) == sessReader, "reads from "+f.Norm(sel.X, &pt))
	}

	// ---- C08.4 from normalisation --------------------------------------------------
	n = 0
	for _, w := range f.Writes() {
		sel, ok := ast.Unparen(w.LHS).(*ast.SelectorExpr)
		if !ok || sel.Sel.Name != "Value" {
			continue
		}
		if v := rootLocal(f, w.LHS); v == nil || eng.TypeStr(v.Type()) != "encoding/xml.StartElement" {
			continue
		}
		n++
		okEmpty := false
		if s, ok := f.ConstStr(w.RHS); ok && s == "" {
			okEmpty = true
		}
		c.r.Check("C08.4", f, "from normalisation value", "K: the attribute value is only ever blanked", w.Stmt.Pos(), okEmpty, "stores "+c.p.NodeStr(w.Stmt))
		// only the stanza's own (unqualified) from attribute is looked at: a
		// namespaced x:from must neither be blanked nor end the search
		c.domAny("C08.4", f, w.Stmt, "from normalisation [unqualified attribute]", []string{"eq(rangeval(*.Attr).Name.Space,\"\")"})
		c.dom("C08.4", f, w.Stmt, "from normalisation", []string{
			"stanza.Is(*.Name,p0.in.XMLNS)",
			"eq(rangeval(*.Attr).Name.Local,\"from\")",
			"eq(jid.JID.String[jid.JID.Bare[xmpp.Session.LocalAddr[p0]()]()](),rangeval(*.Attr).Value)",
		})
		// index agreement: start.Attr[i] with i the range key of the same loop
		if ix, ok := ast.Unparen(sel.X).(*ast.IndexExpr); ok {
			pt, _ := g.Where(w.Stmt)
			c.r.Check("C08.4", f, "from normalisation index", "K: the attribute blanked is the one that was compared", w.Stmt.Pos(), eng.Glob("rangekey(*.Attr)", f.Norm(ix.Index, &pt)), "index is "+f.Norm(ix.Index, &pt))
		}
	}
	c.r.Floor("C08.4", "from normalisation stores", n, 1)
	// the search for the from attribute looks at every attribute until it has
	// found the stanza's own from: the loop is left early only on that match
	// (attributes come in any order: an exit on some other condition lets a
	// from that follows reach the handler un-normalised)
	nb := 0
	for _, w := range f.Writes() {
		sel, ok := ast.Unparen(w.LHS).(*ast.SelectorExpr)
		if !ok || sel.Sel.Name != "Value" {
			continue
		}
		if v := rootLocal(f, w.LHS); v == nil || eng.TypeStr(v.Type()) != "encoding/xml.StartElement" {
			continue
		}
		var loop *ast.RangeStmt
		for p := g.Parent(w.Stmt); p != nil && loop == nil; p = g.Parent(p) {
			if rs, ok := p.(*ast.RangeStmt); ok {
				loop = rs
			}
		}
		if loop == nil {
			continue
		}
		ast.Inspect(loop.Body, func(x ast.Node) bool {
			if _, isLit := x.(*ast.FuncLit); isLit {
				return false
			}
			br, ok := x.(*ast.BranchStmt)
			if !ok || br.Tok != token.BREAK {
				return true
			}
			// the statement this break leaves
			var target ast.Node
			for p := g.Parent(br); p != nil && target == nil; p = g.Parent(p) {
				switch p.(type) {
				case *ast.ForStmt, *ast.RangeStmt, *ast.SwitchStmt, *ast.TypeSwitchStmt, *ast.SelectStmt:
					target = p
				}
			}
			if br.Label == nil && target != ast.Node(loop) {
				return true
			}
			nb++
			bpt, okb := g.WhereBranch(br)
			if !okb {
				c.r.Check("C08.4", f, "attribute search left early", "break statement placed in the graph", br.Pos(), false, "cannot place the break statement in the control-flow graph")
				return true
			}
			c.domPt("C08.4", f, bpt, br.Pos(), "attribute search left early", []string{"eq(rangeval(*.Attr).Name.Local,\"from\")", "eq(rangeval(*.Attr).Name.Space,\"\")"})
			return true
		})
	}
	c.r.Note("C08.4: %d early exits of the from search examined", nb)
}

func c08Reader(c *cx) { c08ReaderAs(c, "C08.2") }

func c08ReaderAs(c *cx, id string) {
	f := c.fn(id, "internal/stream", "(*reader).Token")
	if f == nil {
		return
	}
	g := f.Graph()
	// arms
	arms := map[string]bool{}
	for _, ce := range g.CondEdges() {
		for _, a := range ce.Atoms {
			if strings.HasPrefix(a.S, "istype(") {
				t := a.S[strings.LastIndex(a.S, ";")+1 : len(a.S)-1]
				arms[t] = true
				// per-arm obligations
				from := g.EdgeTarget(ce.E)
				switch t {
				case "encoding/xml.ProcInst", "encoding/xml.Comment", "encoding/xml.Directive":
					bad := ""
					for _, rs := range returnsFrom(f, from, nil) {
						if g.RetKindOf(rs) != eng.RetError {
							bad = "a return in the " + t + " arm is not an error return"
						}
						break
					}
					c.r.Check(id, f, "arm "+t, "G: "+t+" tokens end the session with an error (never reach a handler)", f.Pos(), bad == "", bad)
				}
			}
		}
	}
	for _, t := range []string{"encoding/xml.CharData", "encoding/xml.StartElement", "encoding/xml.EndElement", "encoding/xml.ProcInst", "encoding/xml.Comment", "encoding/xml.Directive"} {
		c.r.Check(id, f, "type switch arm "+t, "exhaustiveness: the filter has an arm for every token kind", f.Pos(), arms[t], "no arm for "+t)
	}
	// returns that hand a token on (first result non-nil, error nil-able): only for allowed facts
	for _, rs := range g.Returns {
		if len(rs.Results) != 2 {
			continue
		}
		pt, _ := g.Where(rs)
		tokNil := g.NilnessOf(rs.Results[0], pt) == -1
		if tokNil || g.RetKindOf(rs) == eng.RetError {
			continue
		}
		// a token is handed on: must not be in a PI/comment/directive arm; in the StartElement arm
		// either namespace != stream.NS or (Local == stream and negotiating)
		for _, bad := range []string{"istype(*;encoding/xml.ProcInst)", "istype(*;encoding/xml.Comment)", "istype(*;encoding/xml.Directive)"} {
			if ok, _ := g.Dominated(pt, bad); ok {
				c.r.Check(id, f, "token handed on", "no token is handed on from a disallowed arm", rs.Pos(), false, "token returned under "+bad)
			}
		}
		if ok, _ := g.Dominated(pt, "istype(*;encoding/xml.StartElement)"); ok {
			okd, _ := g.DominatedAny(pt, []string{"!eq(*.Name.Space,stream.NS)", "recv.negotiating"})
			c.r.Check(id, f, "start element handed on", "G: a start element is handed on only if it is not in the stream namespace (or is the stream start during negotiation)", rs.Pos(), okd, "start element returned without the namespace test")
		}
		if ok, _ := g.Dominated(pt, "istype(*;encoding/xml.EndElement)"); ok {
			okd, _ := g.Dominated(pt, "!eq(*.Name.Space,stream.NS)")
			c.r.Check(id, f, "end element handed on", "G: an end element is handed on only if it is not in the stream namespace", rs.Pos(), okd, "end element returned without the namespace test")
		}
	}
	// no path hands on a token that is a processing instruction, a comment or
	// a directive, at any depth: assume the token has that type (the edges
	// that contradict it are cut) and ask whether a token-returning return
	// stays reachable. This covers a return placed before the type switch.
	for _, t := range []string{"encoding/xml.ProcInst", "encoding/xml.Comment", "encoding/xml.Directive"} {
		assume := []string{"istype(*;" + t + ")"}
		for _, o := range []string{"encoding/xml.CharData", "encoding/xml.StartElement", "encoding/xml.EndElement", "encoding/xml.ProcInst", "encoding/xml.Comment", "encoding/xml.Directive"} {
			if o != t {
				assume = append(assume, "!istype(*;"+o+")")
			}
		}
		cut := g.CutFor(assume...)
		bad := ""
		nret := 0
		for _, rs := range g.Returns {
			if len(rs.Results) != 2 {
				continue
			}
			pt, _ := g.Where(rs)
			if g.NilnessOf(rs.Results[0], pt) == -1 || g.RetKindOf(rs) == eng.RetError {
				continue
			}
			nret++
			if g.Reachable(g.Entry(), pt, cut, nil) {
				bad = "the return at " + c.p.Pos(rs.Pos()) + " hands a token on and is reachable when the token is a " + t
			}
		}
		c.r.Check(id, f, "no "+t+" is handed on", "G: on no path (whatever the depth) does a "+t+" token reach the caller: every token-returning return is unreachable under the assumption that the token has this type", f.Pos(), bad == "" && nret > 0, bad)
	}
	// top-level chardata
	nch := 0
	for _, ce := range g.EdgesMatching("!internal/stream.isWhitespace(*)") {
		nch++
		okd, _ := g.Dominated(g.EdgeTarget(ce.E), "eq(recv.depth,0)")
		bad := ""
		for _, rs := range returnsFrom(f, g.EdgeTarget(ce.E), nil) {
			if g.RetKindOf(rs) != eng.RetError {
				bad = "non-whitespace top-level text does not produce an error"
			}
			break
		}
		c.r.Check(id, f, "top-level character data", "G: non-whitespace text between elements is an error", f.Pos(), okd && bad == "", bad)
		for _, rs := range returnsFrom(f, g.EdgeTarget(ce.E), nil) {
			c.onlyFacts(id, f, rs, "top-level character data error", []string{"istype(*;encoding/xml.CharData)", "eq(recv.depth,0)", "!internal/stream.isWhitespace(*)", "eq(*Token*#1,nil)"})
			break
		}
	}
	c.r.Floor(id, "whitespace test", nch, 1)
	// T: what counts as inter-element whitespace is exactly the XML S
	// production (#x20 #x9 #xD #xA): Unicode spaces are text and end the
	// session with an error
	if wf := c.fn(id, "internal/stream", "isWhitespace"); wf != nil {
		okT := false
		why := "no Trim-family call with a constant cutset (the whitespace set could not be extracted)"
		for _, cl := range wf.AllCalls() {
			cid := wf.CalleeID(cl)
			if (cid == "bytes.TrimLeft" || cid == "bytes.Trim" || cid == "bytes.TrimRight" || cid == "strings.TrimLeft" || cid == "strings.Trim" || cid == "strings.TrimRight" || cid == "bytes.ContainsAny" || cid == "strings.ContainsAny") && len(cl.Args) == 2 {
				if cv := wf.ConstVal(cl.Args[1]); cv != nil {
					set := map[rune]bool{}
					for _, r := range constant.StringVal(cv) {
						set[r] = true
					}
					okT = len(set) == 4 && set[' '] && set['\t'] && set['\r'] && set['\n']
					why = "whitespace set is " + cv.ExactString()
				}
			}
			if strings.HasSuffix(cid, ".TrimSpace") || strings.HasPrefix(cid, "unicode.") {
				okT = false
				why = cid + " accepts Unicode white space (U+0085, U+00A0, U+2028, U+3000, ...), which is not XML whitespace"
				break
			}
		}
		c.r.Check(id, wf, "whitespace set", "T: inter-element whitespace is exactly the XML S production {space, tab, CR, LF}", wf.Pos(), okT, why)
	}
	// stream error element: decoded and returned as the error
	nerr := 0
	for _, ce := range g.EdgesMatching("eq(*.Name.Local,\"error\")") {
		nerr++
		bad := "no return"
		for _, rs := range returnsFrom(f, g.EdgeTarget(ce.E), nil) {
			pt, _ := g.Where(rs)
			if g.RetKindOf(rs) == eng.RetError && eng.TypeStr(f.Info().TypeOf(rs.Results[1])) == "stream.Error" {
				bad = ""
			}
			if g.RetKindOf(rs) != eng.RetError {
				_ = pt
				bad = "the stream error arm reaches the return at " + c.p.Pos(rs.Pos()) + " without an error: the element is handed on as a token instead of being returned as the error"
				break
			}
		}
		c.dom(id, f, g.Blocks[g.EdgeTarget(ce.E).B].Nodes[0], "stream error arm", []string{"eq(*.Name.Space,stream.NS)"})
		c.r.Check(id, f, "received stream error", "K: a received stream error is decoded and returned as the error", f.Pos(), bad == "", bad)
	}
	c.r.Floor(id, "stream error arm", nerr, 1)
	// stream restart / other stream-namespace elements
	for _, ce := range g.EdgesMatching("eq(*.Name.Local,\"stream\")") {
		if ok, _ := g.Dominated(g.EdgeTarget(ce.E), "istype(*;encoding/xml.StartElement)"); !ok {
			continue
		}
		for _, rs := range returnsFrom(f, g.EdgeTarget(ce.E), nil) {
			pt, _ := g.Where(rs)
			if g.RetKindOf(rs) == eng.RetError {
				continue
			}
			okd, _ := g.Dominated(pt, "recv.negotiating")
			c.r.Check(id, f, "stream restart", "G: a stream start element is handed on only while negotiating", rs.Pos(), okd, "restart accepted outside negotiation")
		}
	}
	// </stream:stream> -> io.EOF
	neof := 0
	for _, rs := range g.Returns {
		if len(rs.Results) == 2 && f.Norm(rs.Results[1], nil) == "var:io.EOF" {
			neof++
			c.dom(id, f, rs, "end of stream", []string{"istype(*;encoding/xml.EndElement)", "eq(*.Name.Space,stream.NS)", "eq(*.Name.Local,\"stream\")"})
		}
	}
	c.r.Floor(id, "io.EOF returns", neof, 1)
	// framing element outside negotiation
	// (the framing namespace only means something on WebSocket sessions: on a
	// TCP session an element in that namespace - a forwarded <close/> inside a
	// stanza - is payload like any other)
	nfr := 0
	for _, rs := range g.Returns {
		if len(rs.Results) != 2 || f.Norm(rs.Results[1], nil) != "var:internal/stream.ErrUnexpectedRestart" {
			continue
		}
		pt, _ := g.Where(rs)
		if okw, _ := g.Dominated(pt, "eq(*.Name.Space,internal/stream.wsNamespace)"); !okw {
			continue
		}
		nfr++
		c.dom(id, f, rs, "framing element taken for a restart", []string{"recv.ws", "!recv.negotiating"})
	}
	c.r.Floor(id, "restart errors for framing elements", nfr, 1)
	// depth bookkeeping
	inc, dec := 0, 0
	for _, w := range f.FieldWrites("internal/stream.reader.depth") {
		switch w.Tok.String() {
		case "++":
			inc++
			c.onlyFacts(id, f, w.Stmt, "depth++", []string{"istype(*;encoding/xml.StartElement)", "eq(*Token*#1,nil)"})
		case "--":
			dec++
			c.onlyFacts(id, f, w.Stmt, "depth--", []string{"istype(*;encoding/xml.EndElement)", "eq(*Token*#1,nil)"})
		default:
			c.r.Check(id, f, "write to depth", "depth only changes by ++/--", w.Stmt.Pos(), false, "")
		}
	}
	c.r.Check(id, f, "depth bookkeeping", "one depth++ per start element, one depth-- per end element", f.Pos(), inc == 1 && dec == 1, "found "+itoa(inc)+"/"+itoa(dec))
	// read error returned
	errDiscipline(c, id, []*eng.Fn{f}, nil, false)
	// Reader() constructs a non-negotiating filter
	rf := c.fn(id, "internal/stream", "Reader")
	if rf != nil {
		okc := false
		for _, cl := range rf.WalkLits("internal/stream.reader") {
			neg := structLitField(cl, "negotiating")
			ws := structLitField(cl, "ws")
			rr := structLitField(cl, "r")
			okc = neg == nil && ws != nil && rf.Norm(ws, nil) == "p1" && rr != nil && rf.Norm(rr, nil) == "p0"
		}
		c.r.Check(id, rf, "Reader constructor", "K: the serve-time filter is not in negotiating mode and wraps the given reader", rf.Pos(), okc, "reader literal not as expected")
	}
}

// fromBlankedOnlyForOwnBare (C07.9, the C08.4 guard under another property):
// the sender that the automatic reply is addressed to is the request's from
// attribute; it is blanked only when it equals the session's own BARE address
// (a request from the session's own full address, i.e. from another resource
// handling of the same account or from itself, keeps its sender and is
// answered to it).
func fromBlankedOnlyForOwnBare(c *cx, id string) {
	f := c.fn(id, "", "handleInputStream")
	if f == nil {
		return
	}
	n := 0
	for _, w := range f.Writes() {
		sel, ok := ast.Unparen(w.LHS).(*ast.SelectorExpr)
		if !ok || sel.Sel.Name != "Value" {
			continue
		}
		if v := rootLocal(f, w.LHS); v == nil || eng.TypeStr(v.Type()) != "encoding/xml.StartElement" {
			continue
		}
		n++
		c.dom(id, f, w.Stmt, "from normalisation", []string{
			"stanza.Is(*.Name,p0.in.XMLNS)",
			"eq(rangeval(*.Attr).Name.Local,\"from\")",
			"eq(jid.JID.String[jid.JID.Bare[xmpp.Session.LocalAddr[p0]()]()](),rangeval(*.Attr).Value)",
		})
	}
	c.r.Floor(id, "from normalisation stores", n, 1)
}
