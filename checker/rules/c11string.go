package rules

import (
	"fmt"
	"go/ast"
	"go/constant"
	"go/token"
	"go/types"
	"sort"
	"strings"

	"verif/checker/eng"
)

// aff is an affine form over the symbols L (locallen), D (domainlen) and
// N (len(data)) plus a constant.
type aff map[string]int

func (a aff) add(b aff, k int) aff {
	out := aff{}
	for s, v := range a {
		out[s] += v
	}
	for s, v := range b {
		out[s] += k * v
	}
	for s, v := range out {
		if v == 0 {
			delete(out, s)
		}
	}
	return out
}

func (a aff) String() string {
	var ks []string
	for k := range a {
		ks = append(ks, k)
	}
	sort.Strings(ks)
	var parts []string
	for _, k := range ks {
		parts = append(parts, fmt.Sprintf("%+d%s", a[k], k))
	}
	if len(parts) == 0 {
		return "0"
	}
	return strings.Join(parts, "")
}

func (a aff) eq(b aff) bool { return len(a.add(b, -1)) == 0 }

// c11StringLengths (C11.6, E-sym): JID.String appends "/" + resourcepart
// exactly when the buffer holds more than localpart and domainpart. A small
// abstract interpreter runs the function's statement tree (assignments, ifs,
// returns) with every int and every string LENGTH as an affine form over
// L = locallen, D = domainlen, N = len(data) (on the else-edge of
// `locallen > 0` L is 0), and requires at the guard of the resource append
// that (lhs - rhs) of the comparison is +-(L + D - N) (for !=) or exactly
// L + D - N (for <): a guard that is off by the inserted '@' drops one-byte
// resourceparts. The slice bounds of the three parts are checked on the way.
func c11StringLengths(c *cx, id string) {
	f := c.fn(id, "jid", "JID.String")
	if f == nil {
		return
	}
	target := aff{"L": 1, "D": 1, "N": -1}
	type env struct {
		ints map[string]aff
		strs map[string]aff
		zero map[string]bool // symbols known to be 0 on this path
	}
	clone := func(e env) env {
		n := env{map[string]aff{}, map[string]aff{}, map[string]bool{}}
		for k, v := range e.ints {
			n.ints[k] = v
		}
		for k, v := range e.strs {
			n.strs[k] = v
		}
		for k := range e.zero {
			n.zero[k] = true
		}
		return n
	}
	fail := ""
	subst := func(e env, a aff) aff {
		out := aff{}
		for s, v := range a {
			if !e.zero[s] {
				out[s] = v
			}
		}
		return out
	}
	var intOf func(e env, x ast.Expr) (aff, bool)
	var lenOf func(e env, x ast.Expr) (aff, bool)
	isData := func(x ast.Expr) bool { return f.Norm(x, nil) == "recv.data" }
	intOf = func(e env, x ast.Expr) (aff, bool) {
		x = ast.Unparen(x)
		if cv := f.ConstVal(x); cv != nil && cv.Kind() == constant.Int {
			v, _ := constant.Int64Val(cv)
			if v == 0 {
				return aff{}, true
			}
			return aff{"1": int(v)}, true
		}
		switch y := x.(type) {
		case *ast.Ident:
			if a, ok := e.ints[y.Name]; ok {
				return a, true
			}
		case *ast.SelectorExpr:
			switch f.Norm(y, nil) {
			case "recv.locallen":
				return aff{"L": 1}, true
			case "recv.domainlen":
				return aff{"D": 1}, true
			}
		case *ast.CallExpr:
			if f.CalleeID(y) == "builtin.len" && len(y.Args) == 1 {
				if isData(y.Args[0]) {
					return aff{"N": 1}, true
				}
				return lenOf(e, y.Args[0])
			}
		case *ast.BinaryExpr:
			a, ok1 := intOf(e, y.X)
			b, ok2 := intOf(e, y.Y)
			if ok1 && ok2 {
				switch y.Op {
				case token.ADD:
					return a.add(b, 1), true
				case token.SUB:
					return a.add(b, -1), true
				}
			}
		}
		return nil, false
	}
	nSlices := 0
	lenOf = func(e env, x ast.Expr) (aff, bool) {
		x = ast.Unparen(x)
		if cv := f.ConstVal(x); cv != nil && cv.Kind() == constant.String {
			n := len(constant.StringVal(cv))
			if n == 0 {
				return aff{}, true
			}
			return aff{"1": n}, true
		}
		switch y := x.(type) {
		case *ast.Ident:
			if a, ok := e.strs[y.Name]; ok {
				return a, true
			}
		case *ast.BinaryExpr:
			if y.Op == token.ADD {
				a, ok1 := lenOf(e, y.X)
				b, ok2 := lenOf(e, y.Y)
				if ok1 && ok2 {
					return a.add(b, 1), true
				}
			}
		case *ast.CallExpr:
			// string(data[a:b])
			if tv, ok := f.Info().Types[y.Fun]; ok && tv.IsType() && len(y.Args) == 1 {
				if sl, ok := ast.Unparen(y.Args[0]).(*ast.SliceExpr); ok && isData(sl.X) {
					lo, hi := aff{}, aff{"N": 1}
					okb := true
					if sl.Low != nil {
						lo, okb = intOf(e, sl.Low)
					}
					if okb && sl.High != nil {
						hi, okb = intOf(e, sl.High)
					}
					if okb {
						nSlices++
						return hi.add(lo, -1), true
					}
				}
			}
		}
		return nil, false
	}
	nGuards := 0
	var exec func(e env, list []ast.Stmt) (env, bool)
	exec = func(e env, list []ast.Stmt) (env, bool) {
		for _, st := range list {
			if fail != "" {
				return e, false
			}
			switch s := st.(type) {
			case *ast.DeclStmt:
				gd, ok := s.Decl.(*ast.GenDecl)
				if !ok || gd.Tok != token.VAR {
					fail = "unsupported declaration at " + c.p.Pos(s.Pos())
					return e, false
				}
				for _, sp := range gd.Specs {
					vs := sp.(*ast.ValueSpec)
					for i, nm := range vs.Names {
						if len(vs.Values) > i {
							if a, ok := intOf(e, vs.Values[i]); ok {
								e.ints[nm.Name] = a
								continue
							}
							if a, ok := lenOf(e, vs.Values[i]); ok {
								e.strs[nm.Name] = a
								continue
							}
							fail = "cannot evaluate " + c.p.NodeStr(vs.Values[i])
							return e, false
						}
						e.ints[nm.Name] = aff{}
						e.strs[nm.Name] = aff{}
					}
				}
			case *ast.AssignStmt:
				if len(s.Lhs) != len(s.Rhs) {
					fail = "unsupported assignment at " + c.p.Pos(s.Pos())
					return e, false
				}
				for i, l := range s.Lhs {
					idn, ok := l.(*ast.Ident)
					if !ok {
						fail = "unsupported assignment target " + c.p.NodeStr(l)
						return e, false
					}
					if t := f.Info().TypeOf(s.Rhs[i]); t != nil {
						if b, isB := t.Underlying().(*types.Basic); isB && b.Info()&types.IsBoolean != 0 {
							continue // a named condition: looked through at the branch
						}
					}
					if t := f.Info().TypeOf(s.Rhs[i]); t != nil && eng.TypeStr(t) == "string" {
						a, ok := lenOf(e, s.Rhs[i])
						if !ok {
							fail = "cannot evaluate the length of " + c.p.NodeStr(s.Rhs[i])
							return e, false
						}
						e.strs[idn.Name] = a
						continue
					}
					a, ok := intOf(e, s.Rhs[i])
					if !ok {
						fail = "cannot evaluate " + c.p.NodeStr(s.Rhs[i])
						return e, false
					}
					e.ints[idn.Name] = a
				}
			case *ast.IfStmt, *ast.SwitchStmt:
				cond, ibody, ielse, isIf := asIfIn(f, st)
				if !isIf {
					fail = "unsupported branch statement at " + c.p.Pos(s.Pos())
					return e, false
				}
				be, ok := ast.Unparen(cond).(*ast.BinaryExpr)
				if !ok {
					fail = "unsupported condition " + c.p.NodeStr(cond)
					return e, false
				}
				lhs, ok1 := intOf(e, be.X)
				rhs, ok2 := intOf(e, be.Y)
				if !ok1 || !ok2 {
					fail = "cannot evaluate the condition " + c.p.NodeStr(cond)
					return e, false
				}
				diff := subst(e, lhs.add(rhs, -1))
				// does the body append the resourcepart (a "/" followed by the tail of data)?
				appends := false
				bodyBlock := &ast.BlockStmt{List: ibody}
				ast.Inspect(bodyBlock, func(x ast.Node) bool {
					if cv, isE := x.(ast.Expr); isE {
						if v := f.ConstVal(cv); v != nil && v.Kind() == constant.String && constant.StringVal(v) == "/" {
							appends = true
						}
					}
					return true
				})
				te, ee := clone(e), clone(e)
				if appends {
					nGuards++
					t := subst(e, target)
					okG := false
					switch be.Op {
					case token.NEQ:
						okG = diff.eq(t) || diff.eq(aff{}.add(t, -1))
					case token.LSS:
						okG = diff.eq(t)
					case token.GTR:
						okG = diff.eq(aff{}.add(t, -1))
					}
					c.r.Check(id, f, "guard of the resourcepart", "E-sym: with string lengths evaluated symbolically (L = locallen, D = domainlen, N = len(data)) the comparison guarding the \"/\" + resourcepart append is L + D != N (or < with the operands in that order) on every path", st.Pos(), okG, "on this path the guard compares "+diff.String()+" "+be.Op.String()+" 0, which is not L + D - N: "+c.p.NodeStr(cond))
					// the appended tail starts at L + D
					ast.Inspect(bodyBlock, func(x ast.Node) bool {
						if sl, ok := x.(*ast.SliceExpr); ok && isData(sl.X) && sl.Low != nil && sl.High == nil {
							lo, okl := intOf(e, sl.Low)
							c.r.Check(id, f, "start of the resourcepart", "E-sym: the appended tail starts at L + D", sl.Pos(), okl && subst(e, lo).eq(subst(e, aff{"L": 1, "D": 1})), "tail starts at "+lo.String())
						}
						return true
					})
				} else if be.Op == token.GTR && lhs.eq(aff{"L": 1}) && len(rhs) == 0 {
					// locallen > 0: on the else edge L is 0
					ee.zero["L"] = true
				}
				te, _ = exec(te, ibody)
				if ielse != nil {
					ee, _ = exec(ee, ielse)
				}
				// continue on both outcomes
				rest := list
				for i, x := range list {
					if x == st {
						rest = list[i+1:]
					}
				}
				exec(te, rest)
				exec(ee, rest)
				return e, true
			case *ast.ReturnStmt:
				return e, true
			default:
				fail = "unsupported statement at " + c.p.Pos(st.Pos())
				return e, false
			}
		}
		return e, true
	}
	exec(env{map[string]aff{}, map[string]aff{}, map[string]bool{}}, f.Body.List)
	if fail != "" {
		c.r.Check(id, f, "String evaluated symbolically", "E-sym: every statement of JID.String is one the evaluator understands (undecided = failed)", f.Pos(), false, fail)
	}
	c.r.Floor(id, "guards of the resourcepart append reached", nGuards, 2)
	c.r.Floor(id, "slices of data evaluated", nSlices, 3)
}
