package rules

import (
	"go/ast"
	"go/constant"
	"go/token"
	"go/types"
	"reflect"
	"sort"
	"strconv"
	"strings"

	"verif/checker/eng"
)

// c19FieldCoverage (C19.3): field-level vocabulary agreement of the two
// directions of a payload struct. For every named struct type of the payload
// packages that has an encoder method (TokenReader, else WriteXML, else
// MarshalXML) the set E of its fields the encoder reads (through the receiver,
// following methods of the same type and same-package helpers that take the
// receiver) is compared with the set D of fields the decoder fills
// (UnmarshalXML: fields written through the receiver; no UnmarshalXML: the
// fields encoding/xml fills from the struct tags). A field in D \ E is decoded
// but can never be encoded (lost on a round trip); a field in E \ D is encoded
// and dropped by the decoder. Neither direction proves the equation; both are
// necessary for it.
func c19FieldCoverage(c *cx) {
	type methods map[string]*eng.Fn
	byType := map[*types.TypeName]methods{}
	var order []*types.TypeName
	for _, f := range c.allFns() {
		if !inC19(f) || f.Obj == nil || f.Decl == nil || f.Decl.Recv == nil {
			continue
		}
		tn := recvTypeName(f)
		if tn == nil {
			continue
		}
		if _, ok := tn.Type().Underlying().(*types.Struct); !ok {
			continue
		}
		if byType[tn] == nil {
			byType[tn] = methods{}
			order = append(order, tn)
		}
		byType[tn][f.Obj.Name()] = f
	}
	sort.Slice(order, func(i, j int) bool {
		return order[i].Pkg().Path()+"."+order[i].Name() < order[j].Pkg().Path()+"."+order[j].Name()
	})
	nTypes := 0
	for _, tn := range order {
		ms := byType[tn]
		var enc *eng.Fn
		for _, n := range []string{"TokenReader", "WriteXML", "MarshalXML"} {
			if ms[n] != nil {
				enc = ms[n]
				break
			}
		}
		dec := ms["UnmarshalXML"]
		if enc == nil && dec == nil {
			continue
		}
		st := tn.Type().Underlying().(*types.Struct)
		tagged := taggedFields(st)
		var E, D map[string]bool
		eAll, dAll := false, false
		if enc != nil {
			E, eAll = recvFields(c, enc, tn, false, map[*eng.Fn]bool{})
		} else {
			E = tagged
		}
		if dec != nil {
			D, dAll = recvFields(c, dec, tn, true, map[*eng.Fn]bool{})
		} else {
			D = tagged
		}
		if enc == nil {
			continue // decode-only types have no round trip to agree on
		}
		if dec == nil && (!tn.Exported() || len(tagged) == 0) {
			continue // encode-only helper: nothing can decode into it
		}
		nTypes++
		anchor := enc
		tname := strings.TrimPrefix(tn.Pkg().Path(), eng.ModPath+"/") + "." + tn.Name()
		for i := 0; i < st.NumFields(); i++ {
			fld := st.Field(i)
			name := fld.Name()
			if name == "XMLName" {
				continue
			}
			if reason, ok := c19FieldExempt[tname+"."+name]; ok {
				c.r.CheckNamed("C19.3", tname, "field "+name+" (exempt)", "field-level agreement of encoder and decoder; exempt: "+reason, fld.Pos(), true, "")
				continue
			}
			inE := E[name] || eAll
			inD := D[name] || dAll
			switch {
			case inD && !inE:
				c.r.CheckNamed("C19.3", tname, "field "+name+" decoded and encoded", "every field the decoder fills is read by the encoder ("+enc.Short+")", anchor.Pos(), false, "field "+name+" is filled when decoding but "+enc.Short+" never reads it: it is lost when the value is encoded again")
			case inE && !inD:
				what := "the struct tags"
				pos := fld.Pos()
				if dec != nil {
					what = dec.Short
					pos = dec.Pos()
				}
				c.r.CheckNamed("C19.3", tname, "field "+name+" encoded and decoded", "every field the encoder emits is filled by the decoder ("+what+")", pos, false, "field "+name+" is emitted by "+enc.Short+" but "+what+" never fills it")
			case inE && inD:
				c.r.CheckNamed("C19.3", tname, "field "+name+" decoded and encoded", "every field the decoder fills is read by the encoder ("+enc.Short+")", anchor.Pos(), true, "")
			}
		}
	}
	c.r.Floor("C19.3", "payload struct types with an encoder method", nTypes, 35)
}

// c19FieldExempt lists fields that are deliberately one-directional; each was
// confirmed by reading the code and the XEP.
var c19FieldExempt = map[string]string{}

func recvTypeName(f *eng.Fn) *types.TypeName {
	sig := f.Sig()
	if sig == nil || sig.Recv() == nil {
		return nil
	}
	t := sig.Recv().Type()
	if p, ok := t.(*types.Pointer); ok {
		t = p.Elem()
	}
	if n, ok := t.(*types.Named); ok {
		return n.Obj()
	}
	return nil
}

// taggedFields: the fields encoding/xml reads or fills by reflection.
func taggedFields(st *types.Struct) map[string]bool {
	out := map[string]bool{}
	for i := 0; i < st.NumFields(); i++ {
		f := st.Field(i)
		if !f.Exported() || f.Name() == "XMLName" {
			continue
		}
		tag := reflect.StructTag(st.Tag(i)).Get("xml")
		if tag == "-" {
			continue
		}
		out[f.Name()] = true
	}
	return out
}

// recvFields collects the top-level fields of tn that f touches through a
// value of type tn/*tn bound to `root` (the receiver, or the parameter of a
// followed helper). write=false: every mention counts (reads). write=true:
// assignments, address-taking, and pointer-receiver method calls on the field
// count. all=true when the whole value escapes to code that is not followed.
func recvFields(c *cx, f *eng.Fn, tn *types.TypeName, write bool, seen map[*eng.Fn]bool) (map[string]bool, bool) {
	out := map[string]bool{}
	if seen[f] {
		return out, false
	}
	seen[f] = true
	info := f.Info()
	isT := func(t types.Type) bool {
		if t == nil {
			return false
		}
		if p, ok := t.(*types.Pointer); ok {
			t = p.Elem()
		}
		n, ok := t.(*types.Named)
		return ok && n.Obj() == tn
	}
	all := false
	// roots: every expression of type T/*T that is an identifier (receiver,
	// parameter or local copy) — fields reached through any of them count.
	topField := func(sel *ast.SelectorExpr) (string, bool) {
		s := info.Selections[sel]
		if s == nil || s.Kind() != types.FieldVal {
			return "", false
		}
		if !isT(info.TypeOf(sel.X)) {
			return "", false
		}
		st := tn.Type().Underlying().(*types.Struct)
		return st.Field(s.Index()[0]).Name(), true
	}
	var root func(e ast.Expr) (string, bool)
	root = func(e ast.Expr) (string, bool) {
		switch x := ast.Unparen(e).(type) {
		case *ast.SelectorExpr:
			if n, ok := topField(x); ok {
				return n, true
			}
			return root(x.X)
		case *ast.IndexExpr:
			return root(x.X)
		case *ast.StarExpr:
			return root(x.X)
		case *ast.SliceExpr:
			return root(x.X)
		}
		return "", false
	}
	var body ast.Node = f.Body
	if body == nil {
		return out, false
	}
	parents := map[ast.Node]ast.Node{}
	var stack []ast.Node
	ast.Inspect(body, func(n ast.Node) bool {
		if n == nil {
			stack = stack[:len(stack)-1]
			return true
		}
		if len(stack) > 0 {
			parents[n] = stack[len(stack)-1]
		}
		stack = append(stack, n)
		return true
	})
	follow := func(call *ast.CallExpr) bool {
		fo := f.Prog.FnOf(calleeFunc(f, call))
		if fo == nil || fo.Pkg != f.Pkg {
			return false
		}
		m, a := recvFields(c, fo, tn, write, seen)
		for k := range m {
			out[k] = true
		}
		if a {
			all = true
		}
		return true
	}
	ast.Inspect(body, func(n ast.Node) bool {
		switch x := n.(type) {
		case *ast.SelectorExpr:
			name, ok := topField(x)
			if !ok {
				return true
			}
			if !write {
				out[name] = true
				return true
			}
			// write contexts for the chain that starts at this selector
			var top ast.Node = x
			for {
				p := parents[top]
				switch pp := p.(type) {
				case *ast.SelectorExpr:
					if pp.X == top {
						if s := info.Selections[pp]; s != nil && s.Kind() == types.MethodVal {
							// method call on the field: counts when the method has a pointer receiver
							if sig, ok := s.Obj().Type().(*types.Signature); ok && sig.Recv() != nil {
								if _, ptr := sig.Recv().Type().(*types.Pointer); ptr {
									out[name] = true
								}
							}
							return true
						}
						top = p
						continue
					}
				case *ast.IndexExpr:
					if pp.X == top {
						top = p
						continue
					}
				case *ast.ParenExpr, *ast.StarExpr:
					top = p
					continue
				case *ast.UnaryExpr:
					if pp.Op == token.AND {
						out[name] = true
					}
				case *ast.AssignStmt:
					for _, l := range pp.Lhs {
						if l == top {
							out[name] = true
						}
					}
				case *ast.IncDecStmt:
					out[name] = true
				case *ast.RangeStmt:
					if pp.Key == top || pp.Value == top {
						out[name] = true
					}
				}
				break
			}
			return true
		case *ast.AssignStmt:
			if !write {
				return true
			}
			// *recv = T{K: v, ...}
			for i, l := range x.Lhs {
				if !isT(info.TypeOf(l)) {
					continue
				}
				if _, isStar := ast.Unparen(l).(*ast.StarExpr); !isStar {
					continue
				}
				if i < len(x.Rhs) {
					if cl, ok := ast.Unparen(x.Rhs[i]).(*ast.CompositeLit); ok {
						for _, el := range cl.Elts {
							if kv, ok := el.(*ast.KeyValueExpr); ok {
								if id, ok := kv.Key.(*ast.Ident); ok {
									out[id.Name] = true
								}
							}
						}
						continue
					}
				}
				all = true
			}
		case *ast.CallExpr:
			// the whole value handed to other code
			if sel, ok := ast.Unparen(x.Fun).(*ast.SelectorExpr); ok && isT(info.TypeOf(sel.X)) {
				if s := info.Selections[sel]; s != nil && s.Kind() == types.MethodVal {
					if !follow(x) {
						all = true
					}
				}
			}
			for _, a := range x.Args {
				ae := ast.Unparen(a)
				if u, ok := ae.(*ast.UnaryExpr); ok && u.Op == token.AND {
					ae = ast.Unparen(u.X)
				}
				if st, ok := ae.(*ast.StarExpr); ok {
					ae = ast.Unparen(st.X)
				}
				if cv, ok := ae.(*ast.CallExpr); ok && len(cv.Args) == 1 && info.Types[cv.Fun].IsType() && isT(info.TypeOf(cv.Args[0])) {
					all = true // converted to another type and handed on
				}
				if id, ok := ae.(*ast.Ident); ok && isT(info.TypeOf(id)) {
					if _, isVar := info.ObjectOf(id).(*types.Var); isVar {
						if !follow(x) {
							all = true
						}
					}
				}
			}
		}
		return true
	})
	return out, all
}

// c19EnumLoops (C19.5): a loop that walks the members of an enum up to a
// declared member must include that member: `for i := First; i < Last; step`
// whose step sequence lands exactly on Last silently drops Last (an encoder or
// decoder then ignores one value of the vocabulary). Bounds whose name marks
// them as sentinels (max, end, count, num, len, limit) are exempt.
func c19EnumLoops(c *cx, id string, in func(f *eng.Fn) bool) {
	n := 0
	for _, f := range c.allFns() {
		if f.Body == nil || !in(f) {
			continue
		}
		f.WalkBody(func(nd ast.Node) bool {
			fs, ok := nd.(*ast.ForStmt)
			if !ok || fs.Init == nil || fs.Cond == nil || fs.Post == nil {
				return true
			}
			as, ok := fs.Init.(*ast.AssignStmt)
			if !ok || len(as.Lhs) != 1 || len(as.Rhs) != 1 {
				return true
			}
			iv, _ := as.Lhs[0].(*ast.Ident)
			be, ok := ast.Unparen(fs.Cond).(*ast.BinaryExpr)
			if iv == nil || !ok {
				return true
			}
			lid, _ := ast.Unparen(be.X).(*ast.Ident)
			if lid == nil || f.Info().ObjectOf(lid) != f.Info().ObjectOf(iv) {
				return true
			}
			var bound *types.Const
			switch b := ast.Unparen(be.Y).(type) {
			case *ast.Ident:
				bound, _ = f.Info().Uses[b].(*types.Const)
			case *ast.SelectorExpr:
				bound, _ = f.Info().Uses[b.Sel].(*types.Const)
			}
			if bound == nil {
				return true
			}
			if _, named := bound.Type().(*types.Named); !named {
				return true
			}
			start := f.ConstVal(as.Rhs[0])
			if start == nil || start.Kind() != constant.Int || bound.Val().Kind() != constant.Int {
				return true
			}
			n++
			a, _ := constant.Int64Val(start)
			b, _ := constant.Int64Val(bound.Val())
			step := ""
			switch p := fs.Post.(type) {
			case *ast.IncDecStmt:
				if p.Tok == token.INC {
					step = "++"
				}
			case *ast.AssignStmt:
				if p.Tok == token.SHL_ASSIGN && len(p.Rhs) == 1 {
					if cv := f.ConstVal(p.Rhs[0]); cv != nil && cv.ExactString() == "1" {
						step = "<<=1"
					}
				}
			}
			lands := false
			if step != "" && a <= b && a >= 0 {
				for v, k := a, 0; v <= b && k < 70; k++ {
					if v == b {
						lands = true
					}
					if step == "++" {
						v++
					} else {
						if v == 0 {
							break
						}
						v <<= 1
					}
				}
			}
			lname := strings.ToLower(bound.Name())
			sentinel := false
			for _, s := range []string{"max", "end", "count", "num", "len", "limit", "last"} {
				if strings.Contains(lname, s) && s != "last" {
					sentinel = true
				}
			}
			ok2 := !(be.Op == token.LSS && lands && !sentinel)
			c.r.Check(id, f, "loop over "+eng.TypeStr(bound.Type())+" up to "+bound.Name(), "T: a loop over the members of an enum includes the member named as its bound", fs.Pos(), ok2, "the loop runs while "+iv.Name+" < "+bound.Name()+" and its steps land exactly on "+bound.Name()+": that member is never visited")
			return true
		})
	}
	c.r.Note("%s: %d loops bounded by a declared enum constant examined", id, n)
}

// tagNamespaceAgreement (C13.4 / C19.3b): encoding/xml matches a struct tag
// without a namespace against an element of that local name in ANY namespace.
// Where the type's own encoder writes a child element under an explicit
// namespace, the decoder's tag for that local name must name the same
// namespace: otherwise a foreign element that merely shares the local name
// (an application payload called <text/>) is decoded as the child.
func tagNamespaceAgreement(c *cx, id string, in func(f *eng.Fn) bool) int {
	type methods map[string]*eng.Fn
	byType := map[*types.TypeName]methods{}
	for _, f := range c.allFns() {
		if !in(f) || f.Obj == nil || f.Decl == nil || f.Decl.Recv == nil {
			continue
		}
		if tn := recvTypeName(f); tn != nil {
			if byType[tn] == nil {
				byType[tn] = methods{}
			}
			byType[tn][f.Obj.Name()] = f
		}
	}
	n := 0
	for tn, ms := range byType {
		dec := ms["UnmarshalXML"]
		var enc *eng.Fn
		for _, nm := range []string{"TokenReader", "WriteXML", "MarshalXML"} {
			if ms[nm] != nil {
				enc = ms[nm]
				break
			}
		}
		if dec == nil || enc == nil {
			continue
		}
		// element names the encoder writes with an explicit namespace
		names := map[string]map[string]bool{} // local -> spaces
		seen := map[*eng.Fn]bool{}
		var collect func(f *eng.Fn, depth int)
		collect = func(f *eng.Fn, depth int) {
			if f == nil || seen[f] || depth > 2 || f.Body == nil {
				return
			}
			seen[f] = true
			ast.Inspect(f.Body, func(x ast.Node) bool {
				switch v := x.(type) {
				case *ast.CompositeLit:
					if eng.TypeStr(f.Info().TypeOf(v)) == "encoding/xml.Name" {
						sp, lo := structLitField(v, "Space"), structLitField(v, "Local")
						if sp != nil && lo != nil {
							cs, cl := f.ConstVal(sp), f.ConstVal(lo)
							if cs != nil && cl != nil && constant.StringVal(cs) != "" {
								l := constant.StringVal(cl)
								if names[l] == nil {
									names[l] = map[string]bool{}
								}
								names[l][constant.StringVal(cs)] = true
							}
						}
					}
				case *ast.CallExpr:
					if fo := f.Prog.FnOf(calleeFunc(f, v)); fo != nil && fo.Pkg == f.Pkg {
						collect(fo, depth+1)
					}
				}
				return true
			})
		}
		collect(enc, 0)
		if len(names) == 0 {
			continue
		}
		// struct tags of the decode structs declared in UnmarshalXML
		ast.Inspect(dec.Body, func(x ast.Node) bool {
			st, ok := x.(*ast.StructType)
			if !ok || st.Fields == nil {
				return true
			}
			for _, fld := range st.Fields.List {
				if fld.Tag == nil || len(fld.Names) == 0 || fld.Names[0].Name == "XMLName" {
					continue
				}
				raw, uerr := strconv.Unquote(fld.Tag.Value)
				if uerr != nil {
					continue
				}
				tag := reflect.StructTag(raw).Get("xml")
				name := tag
				if i := strings.Index(tag, ","); i >= 0 {
					if strings.Contains(tag[i:], "attr") || strings.Contains(tag[i:], "chardata") || strings.Contains(tag[i:], "any") || strings.Contains(tag[i:], "innerxml") {
						continue
					}
					name = tag[:i]
				}
				if name == "" || strings.Contains(name, ">") {
					continue
				}
				space, local := "", name
				if i := strings.LastIndex(name, " "); i >= 0 {
					space, local = name[:i], name[i+1:]
				}
				spaces, known := names[local]
				if !known {
					continue
				}
				n++
				ok2 := spaces[space]
				var want []string
				for s := range spaces {
					want = append(want, s)
				}
				sort.Strings(want)
				c.r.CheckNamed(id, dec.Short, "child <"+local+"> of "+tn.Name(), "T: a child element the encoder writes under an explicit namespace is decoded under that namespace (a tag without one matches the local name in ANY namespace)", fld.Pos(), ok2, "the encoder writes <"+local+"> in "+strings.Join(want, " or ")+", the decoder's tag is `"+tag+"`")
			}
			return true
		})
	}
	return n
}
