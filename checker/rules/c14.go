package rules

import (
	"fmt"
	"go/ast"
	"go/token"
	"go/types"
	"sort"
	"strings"

	"verif/checker/eng"
)

func init() {
	Registry["C14"] = Rule{
		Meta: eng.Meta{
			Explanation: "The multiplexer's tables are Go maps keyed by the full pattern, so the specificity order IS the order of the lookup keys. A small abstract evaluator (E-sym) executes IQHandler, MessageHandler, PresenceHandler and Handler symbolically over the payload name (S,L) and type T and records the key of every map lookup in order: it must be (kind,T,S,L) -> (kind,T,\"\",L) -> (kind,T,S,\"\") -> (kind,T,\"\",\"\") in the function's own table with its own kind constant, each followed by 'return on hit', ending in the documented fallback; Handler must try (S,L) -> (\"\",L) -> (S,\"\") and then map iq/message/presence of the stream's stanza namespace to the three routers (C14.1, C14.2). Routers pass the stanza's type and the child's name, every handler chosen for a child gets a replay reader over the shared buffer starting at the stanza's start, buffered tokens are copies, the empty-stanza arm looks up the zero name (C14.3); registration refuses nil handlers and duplicates, uses the option's own kind constant and is the only writer of the tables (C14.4); the fallback replies only to get/set (C14.5 = C07.4). Complete for lookup order for every pattern set because it is derived from the code, not from sampled registrations.",
			NotDecided:  "how much of the replayed stanza a handler reads; behaviour of xmlstream.Iter on malformed children.",
			Trusted:     trustedCommon,
		},
		Run: runC14,
	}
}

// ---- E-sym -------------------------------------------------------------------

type symVal struct {
	atom   string            // scalar value
	fields map[string]string // flattened struct: path -> scalar
}

func (v symVal) clone() symVal {
	o := symVal{atom: v.atom}
	if v.fields != nil {
		o.fields = map[string]string{}
		for k, x := range v.fields {
			o.fields[k] = x
		}
	}
	return o
}

type symLookup struct {
	table string
	key   string
	pos   token.Pos
	onHit bool // followed by "if h != nil { return h, true }"
}

type symEval struct {
	f       *eng.Fn
	env     map[string]symVal
	lookups []symLookup
	fail    string
	tail    []ast.Stmt // statements after the lookups (fallback part)
	hvar    string
}

func (e *symEval) scalar(x ast.Expr) (string, bool) {
	x = ast.Unparen(x)
	if s, ok := e.f.ConstStr(x); ok {
		return fmt.Sprintf("%q", s), true
	}
	switch t := x.(type) {
	case *ast.CallExpr:
		// conversion string(typ)
		if len(t.Args) == 1 && strings.HasPrefix(e.f.CalleeID(t), "conv:string") {
			return e.scalar(t.Args[0])
		}
	case *ast.Ident:
		if v, ok := e.env[t.Name]; ok && v.fields == nil {
			return v.atom, true
		}
	case *ast.SelectorExpr:
		if base, path, ok := selPath(t); ok {
			if v, ok := e.env[base]; ok && v.fields != nil {
				if s, ok := v.fields[path]; ok {
					return s, true
				}
				return `""`, true // zero value of a field never set
			}
		}
	}
	return "", false
}

func selPath(s *ast.SelectorExpr) (string, string, bool) {
	var parts []string
	var cur ast.Expr = s
	for {
		switch t := ast.Unparen(cur).(type) {
		case *ast.SelectorExpr:
			parts = append([]string{t.Sel.Name}, parts...)
			cur = t.X
		case *ast.Ident:
			return t.Name, strings.Join(parts, "."), true
		default:
			return "", "", false
		}
	}
}

// value evaluates a struct- or scalar-valued expression.
func (e *symEval) value(x ast.Expr) (symVal, bool) {
	x = ast.Unparen(x)
	if s, ok := e.scalar(x); ok {
		return symVal{atom: s}, true
	}
	switch t := x.(type) {
	case *ast.Ident:
		if v, ok := e.env[t.Name]; ok {
			return v.clone(), true
		}
	case *ast.SelectorExpr:
		if base, path, ok := selPath(t); ok {
			if v, ok := e.env[base]; ok && v.fields != nil {
				out := symVal{fields: map[string]string{}}
				for k, s := range v.fields {
					if strings.HasPrefix(k, path+".") {
						out.fields[strings.TrimPrefix(k, path+".")] = s
					}
				}
				return out, true
			}
		}
	case *ast.CompositeLit:
		out := symVal{fields: map[string]string{}}
		for _, el := range t.Elts {
			kv, ok := el.(*ast.KeyValueExpr)
			if !ok {
				return symVal{}, false
			}
			k, ok := kv.Key.(*ast.Ident)
			if !ok {
				return symVal{}, false
			}
			v, ok := e.value(kv.Value)
			if !ok {
				return symVal{}, false
			}
			if v.fields == nil {
				out.fields[k.Name] = v.atom
			} else {
				for p, s := range v.fields {
					out.fields[k.Name+"."+p] = s
				}
			}
		}
		return out, true
	}
	return symVal{}, false
}

func (v symVal) keyString() string {
	if v.fields == nil {
		return v.atom
	}
	var ks []string
	for k := range v.fields {
		ks = append(ks, k)
	}
	sort.Strings(ks)
	var parts []string
	for _, k := range ks {
		if v.fields[k] != `""` {
			parts = append(parts, k+"="+v.fields[k])
		}
	}
	return "{" + strings.Join(parts, ",") + "}"
}

func (e *symEval) assign(lhs ast.Expr, v symVal) bool {
	switch t := ast.Unparen(lhs).(type) {
	case *ast.Ident:
		e.env[t.Name] = v
		return true
	case *ast.SelectorExpr:
		base, path, ok := selPath(t)
		if !ok {
			return false
		}
		cur, ok := e.env[base]
		if !ok || cur.fields == nil {
			return false
		}
		if v.fields == nil {
			cur.fields[path] = v.atom
		} else {
			for k := range cur.fields {
				if strings.HasPrefix(k, path+".") {
					delete(cur.fields, k)
				}
			}
			for k, s := range v.fields {
				cur.fields[path+"."+k] = s
			}
		}
		return true
	}
	return false
}

// run executes the statement list; returns false when it met the tail.
func (e *symEval) run(stmts []ast.Stmt) {
	stmts = stripNoops(stmts)
	for i, st := range stmts {
		if e.fail != "" {
			return
		}
		switch s := st.(type) {
		case *ast.AssignStmt:
			if len(s.Lhs) != 1 || len(s.Rhs) != 1 {
				e.tail = stmts[i:]
				return
			}
			// a named condition (cv := h != nil): looked through at the branch
			if t := e.f.Info().TypeOf(s.Rhs[0]); t != nil {
				if b, isB := t.Underlying().(*types.Basic); isB && b.Info()&types.IsBoolean != 0 && s.Tok == token.DEFINE {
					continue
				}
			}
			// lookup?
			if ix, ok := ast.Unparen(s.Rhs[0]).(*ast.IndexExpr); ok {
				if tbl, ok := e.f.FieldClass(ix.X); ok {
					kv, ok := e.value(ix.Index)
					if !ok {
						e.fail = "cannot evaluate the lookup key " + e.f.Prog.NodeStr(ix.Index)
						return
					}
					if id, ok := s.Lhs[0].(*ast.Ident); ok {
						e.hvar = id.Name
					}
					e.lookups = append(e.lookups, symLookup{table: tbl, key: kv.keyString(), pos: s.Pos()})
					continue
				}
			}
			v, ok := e.value(s.Rhs[0])
			if !ok || !e.assign(s.Lhs[0], v) {
				e.tail = stmts[i:]
				return
			}
		case *ast.IfStmt, *ast.SwitchStmt:
			// if h != nil { return h, true }  (or the one-case switch form)
			cond, body, els, isIf := asIfIn(e.f, st)
			if !isIf {
				e.tail = stmts[i:]
				return
			}
			hx, ok := nilCompare(e.f, cond, token.NEQ)
			isHit := ok && len(body) == 1
			if isHit {
				if id, ok := ast.Unparen(hx).(*ast.Ident); !ok || id.Name != e.hvar {
					isHit = false
				}
			}
			if isHit {
				rs, ok := body[0].(*ast.ReturnStmt)
				if ok && len(rs.Results) == 2 && e.f.Norm(rs.Results[1], nil) == "true" {
					if id, ok := ast.Unparen(rs.Results[0]).(*ast.Ident); ok && id.Name == e.hvar && len(e.lookups) > 0 {
						e.lookups[len(e.lookups)-1].onHit = true
						if els != nil {
							// if h != nil { return h, true } else { rest }: the rest runs exactly when the hit did not return
							e.run(append(append([]ast.Stmt(nil), els...), stmts[i+1:]...))
							return
						}
						continue
					}
				}
			}
			e.tail = stmts[i:]
			return
		case *ast.RangeStmt:
			// unroll: for _, n := range []T{a, b, c} { ... }
			cl, ok := ast.Unparen(s.X).(*ast.CompositeLit)
			v, isId := s.Value.(*ast.Ident)
			if !ok || !isId {
				e.fail = "unsupported loop in the lookup sequence: " + e.f.Prog.NodeStr(s.X)
				return
			}
			for _, el := range cl.Elts {
				ev, ok := e.value(el)
				if !ok {
					e.fail = "cannot evaluate loop element " + e.f.Prog.NodeStr(el)
					return
				}
				e.env[v.Name] = ev
				sub := &symEval{f: e.f, env: e.env, hvar: e.hvar}
				sub.run(s.Body.List)
				e.lookups = append(e.lookups, sub.lookups...)
				e.hvar = sub.hvar
				if sub.fail != "" {
					e.fail = sub.fail
					return
				}
				if len(sub.tail) > 0 {
					e.fail = "unsupported statement in loop body: " + e.f.Prog.NodeStr(sub.tail[0])
					return
				}
			}
		case *ast.DeclStmt:
			// var n xml.Name etc.
			gd, ok := s.Decl.(*ast.GenDecl)
			if !ok {
				e.tail = stmts[i:]
				return
			}
			for _, sp := range gd.Specs {
				vs, ok := sp.(*ast.ValueSpec)
				if !ok {
					continue
				}
				for j, n := range vs.Names {
					if j < len(vs.Values) {
						v, ok := e.value(vs.Values[j])
						if !ok {
							e.fail = "cannot evaluate " + e.f.Prog.NodeStr(vs.Values[j])
							return
						}
						e.env[n.Name] = v
					} else {
						e.env[n.Name] = symVal{fields: map[string]string{}}
					}
				}
			}
		default:
			e.tail = stmts[i:]
			return
		}
	}
}

func runC14(p *eng.Prog, r *eng.Report, tier string) {
	c := &cx{p, r, tier}
	r19NothingMeansNothing(c, "C14.17")
	r18RoutersOnlyForStanzas(c, "C14.16")
	r17HandleRefusesOnlyWhatItMust(c, "C14.15")
	c14Stanza(c)
	stanzaIsTable(c, "C14.9")
	c14DispatchThroughTable(c, "C14.12")
	jidCore(c, "C14.11")
	decodedStanzaNotRewritten(c, "C14.10", []string{"mux.(*ServeMux).iqRouter", "mux.(*ServeMux).msgRouter", "mux.(*ServeMux).presenceRouter"}, 3)
	c14Handler(c)
	c14Routers(c)
	c14Options(c)
	c14OwnAttrs(c, "C14.6")
	typedAttrsThroughOwnDecoder(c, "C14.7")
	c14TrimmerFiltersEveryToken(c, "C14.8")
	c07Fallback(c)
	// ---- C14.4b the *Func options refuse nil funcs too ---------------------------------
	// a nil func converted to the handler interface is a NON-nil interface: the
	// nil test inside the option never fires, the pattern is stored and the
	// first matching stanza calls a nil function
	nfn := 0
	for _, f := range c.allFns() {
		if !strings.HasPrefix(f.Short, "mux.") || f.Obj == nil || !strings.HasSuffix(f.Obj.Name(), "Func") || f.Sig() == nil {
			continue
		}
		sig := f.Sig()
		g := f.Graph()
		for i := 0; i < sig.Params().Len(); i++ {
			pv := sig.Params().At(i)
			if _, isFunc := pv.Type().Underlying().(*types.Signature); !isFunc {
				continue
			}
			for _, cl := range f.AllCalls() {
				for _, a := range cl.Args {
					idn, ok := ast.Unparen(a).(*ast.Ident)
					if !ok || f.Info().ObjectOf(idn) != pv {
						continue
					}
					// the func value is converted to an interface parameter here
					if at := f.Info().TypeOf(cl.Fun); at != nil {
						nfn++
						c.domAny("C14.4", f, cl, "func handler converted to its interface only if non-nil", []string{"!eq(p" + itoa(i) + ",nil)"})
						_ = g
					}
				}
			}
		}
	}
	c.r.Floor("C14.4", "func-to-interface conversions in the *Func options", nfn, 4)
	c14ReplayBuffer(c, "C14.5")
}

func c14Stanza(c *cx) {
	id := "C14.1"
	kinds := []struct{ fn, table, kind, fallback string }{
		{"(*ServeMux).IQHandler", "mux.ServeMux.iqPatterns", `"iq"`, "conv:mux.IQHandlerFunc(mux.iqFallback)"},
		{"(*ServeMux).MessageHandler", "mux.ServeMux.msgPatterns", `"message"`, "mux.nopHandler{}"},
		{"(*ServeMux).PresenceHandler", "mux.ServeMux.presencePatterns", `"presence"`, "mux.nopHandler{}"},
	}
	for _, k := range kinds {
		f := c.fn(id, "mux", k.fn)
		if f == nil {
			continue
		}
		sig := f.Sig()
		ev := &symEval{f: f, env: map[string]symVal{}}
		ev.env[sig.Params().At(0).Name()] = symVal{atom: "T"}
		ev.env[sig.Params().At(1).Name()] = symVal{fields: map[string]string{"Space": "S", "Local": "L"}}
		ev.run(f.Body.List)
		want := []string{
			"{Payload.Local=L,Payload.Space=S,Stanza=" + k.kind + ",Type=T}",
			"{Payload.Local=L,Stanza=" + k.kind + ",Type=T}",
			"{Payload.Space=S,Stanza=" + k.kind + ",Type=T}",
			"{Stanza=" + k.kind + ",Type=T}",
		}
		var got []string
		okAll := ev.fail == ""
		for _, l := range ev.lookups {
			got = append(got, l.key)
			if l.table != k.table {
				okAll = false
				ev.fail = "lookup in " + l.table + " instead of " + k.table
			}
			if !l.onHit {
				okAll = false
				ev.fail = "a lookup is not followed by 'if h != nil { return h, true }'"
			}
		}
		if strings.Join(got, " -> ") != strings.Join(want, " -> ") {
			okAll = false
			if ev.fail == "" {
				ev.fail = "lookup order is " + strings.Join(got, " -> ")
			}
		}
		c.r.Check(id, f, "lookup order", "E-sym: the keys looked up, in order, are exact name, local name only, namespace only, bare type wildcard, all with this kind's constant in this kind's table, each returning on a hit: "+strings.Join(want, " -> "), f.Pos(), okAll, ev.fail)
		// fallback
		okTail := len(ev.tail) == 1
		why := "unexpected statements after the lookups"
		if okTail {
			rs, ok := ev.tail[0].(*ast.ReturnStmt)
			okTail = ok && len(rs.Results) == 2 && f.Norm(rs.Results[0], nil) == k.fallback && f.Norm(rs.Results[1], nil) == "false"
			if ok && !okTail {
				why = "fallback is " + c.p.NodeStr(rs)
			}
		}
		c.r.Check(id, f, "fallback", "K: when nothing matches the documented default is returned with ok == false", f.Pos(), okTail, why)
	}
}

// c14RoutersHandOnTheReceivedStart (C14.13): handlers replay the stanza from
// its start element: the routers hand forChildren the start element they were
// given (their own parameter), not one rebuilt from the decoded stanza - a
// rebuilt one has lost every attribute the stanza type does not model and
// turns an unknown or missing type into the default.
func c14RoutersHandOnTheReceivedStart(c *cx, id string) {
	n := 0
	for _, name := range []string{"(*ServeMux).msgRouter", "(*ServeMux).presenceRouter"} {
		f := c.fn(id, "mux", name)
		if f == nil {
			continue
		}
		for _, cl := range f.Calls("mux.forChildren") {
			if len(cl.Args) != 4 {
				continue
			}
			n++
			a := f.Norm(cl.Args[3], nil)
			c.r.Check(id, f, "start element handed to forChildren", "P: the received start element (parameter 1) itself", cl.Pos(), a == "p1", "forChildren gets "+a)
		}
	}
	c.r.Floor(id, "forChildren calls of the routers", n, 2)
}

func c14Handler(c *cx) {
	id := "C14.2"
	c14RoutersHandOnTheReceivedStart(c, "C14.13")
	c14TypeValuesExact(c, "C14.14")
	f := c.fn(id, "mux", "(*ServeMux).Handler")
	if f == nil {
		return
	}
	g := f.Graph()
	ev := &symEval{f: f, env: map[string]symVal{}}
	ev.env[f.Sig().Params().At(0).Name()] = symVal{fields: map[string]string{"Space": "S", "Local": "L"}}
	ev.run(f.Body.List)
	want := []string{"{Local=L,Space=S}", "{Local=L}", "{Space=S}"}
	var got []string
	okAll := ev.fail == ""
	for _, l := range ev.lookups {
		got = append(got, l.key)
		if l.table != "mux.ServeMux.patterns" || !l.onHit {
			okAll = false
			if ev.fail == "" {
				ev.fail = "lookup in " + l.table + " or without return-on-hit"
			}
		}
	}
	if strings.Join(got, " -> ") != strings.Join(want, " -> ") {
		okAll = false
		if ev.fail == "" {
			ev.fail = "lookup order is " + strings.Join(got, " -> ")
		}
	}
	c.r.Check(id, f, "lookup order", "E-sym: top-level elements are matched by exact name, then local name only, then namespace only: "+strings.Join(want, " -> "), f.Pos(), okAll, ev.fail)
	// ... and by nothing else: the evaluated sequence is every look-up of the
	// pattern table in the function (a look-up of the zero name after the
	// routers makes a handler registered only to advertise features a
	// catch-all for every element nothing else matches)
	nIdx := 0
	f.WalkBody(func(nd ast.Node) bool {
		if ix, ok := nd.(*ast.IndexExpr); ok {
			if k, _ := f.FieldClass(ix.X); k == "mux.ServeMux.patterns" {
				nIdx++
			}
		}
		return true
	})
	c.r.Check(id, f, "look-ups of the pattern table", "K: the three look-ups of the evaluated sequence are the only ones in Handler", f.Pos(), nIdx == len(ev.lookups), fmt.Sprintf("%d look-ups of ServeMux.patterns in the function, %d in the evaluated sequence: an element that matches no pattern is still given to a handler", nIdx, len(ev.lookups)))
	// routers for stanzas of the stream's namespace
	routes := map[string]string{"mux.iqStanza": "iqRouter", "mux.msgStanza": "msgRouter", "mux.presStanza": "presenceRouter"}
	seen := map[string]bool{}
	for _, rs := range g.Returns {
		if len(rs.Results) != 2 {
			continue
		}
		pt, _ := g.Where(rs)
		res := f.Norm(rs.Results[0], &pt)
		for k, router := range routes {
			if res == "conv:xmpp.HandlerFunc(recv."+router+")" {
				seen[router] = true
				c.dom(id, f, rs, "route to "+router, []string{"stanza.Is(p0,recv.stanzaNS)", "eq(p0.Local," + k + ")"})
				c.r.Check(id, f, "route to "+router+" reports ok", "K: stanza routers are returned with ok == true", rs.Pos(), f.Norm(rs.Results[1], nil) == "true", "")
				// ... whenever the element is that stanza and no top-level pattern took
				// it: no further condition (a flag computed from the patterns present
				// when the mux was built goes stale with the next registration)
				c.onlyFacts(id, f, rs, "route to "+router+" [no other condition]", []string{"stanza.Is(p0,recv.stanzaNS)", "eq(p0.Local," + k + ")", "!eq(p0.Local,mux.*Stanza)", "eq(recv.patterns[*],nil)", "eq(*,nil)"})
			}
		}
		if res == "mux.nopHandler{}" {
			c.r.Check(id, f, "default", "K: unmatched top-level elements get the no-op handler with ok == false", rs.Pos(), f.Norm(rs.Results[1], nil) == "false", "")
		}
	}
	for _, router := range routes {
		c.r.Check(id, f, "router "+router+" reachable", "each stanza kind is routed to its router", f.Pos(), seen[router], "no return of HandlerFunc(m."+router+")")
	}
	// stanza kind constants
	for _, k := range []struct{ name, val string }{{"iqStanza", "iq"}, {"msgStanza", "message"}, {"presStanza", "presence"}} {
		o := f.Pkg.Types.Scope().Lookup(k.name)
		okc := false
		if cst, ok := o.(*types.Const); ok {
			okc = cst.Val().ExactString() == fmt.Sprintf("%q", k.val)
		}
		c.r.Check(id, f, "constant "+k.name, "K: the kind constant is "+k.val, f.Pos(), okc, "constant is "+fmt.Sprint(o))
	}
}

func c14Routers(c *cx) {
	id := "C14.3"
	ir := c.fn(id, "mux", "(*ServeMux).iqRouter")
	if ir != nil {
		g := ir.Graph()
		for _, cl := range ir.Calls("mux.ServeMux.IQHandler") {
			pt, _ := g.Where(cl)
			okArgs := len(cl.Args) == 2 && eng.Glob("stanza.NewIQ(*p1)#0.Type", ir.Norm(cl.Args[0], &pt)) && eng.Glob("*<encoding/xml.StartElement>.Name", ir.Norm(cl.Args[1], &pt))
			c.r.Check(id, ir, "IQ lookup arguments", "P: the IQ handler is chosen by the IQ's own type and the payload's name", cl.Pos(), okArgs, "arguments are "+ir.Norm(cl.Args[0], &pt)+", "+ir.Norm(cl.Args[1], &pt))
		}
		for _, cl := range ir.Calls("mux.IQHandler.HandleIQ") {
			pt, _ := g.Where(cl)
			okArgs := len(cl.Args) == 3 && eng.Glob("stanza.NewIQ(*p1)#0", ir.Norm(cl.Args[0], &pt)) && strings.HasPrefix(ir.Norm(cl.Args[2], &pt), "&")
			c.r.Check(id, ir, "IQ handler arguments", "P: the handler gets the parsed IQ and the payload's start element", cl.Pos(), okArgs, "")
		}
		c.r.Floor(id, "IQHandler lookups in iqRouter", len(ir.Calls("mux.ServeMux.IQHandler")), 1)
		// an IQ without a payload is an empty stanza: result AND error IQs may
		// be empty and go to their type wildcard (get/set without payload are
		// refused); the lookup is reached with io.EOF exactly for these two
		for _, cl := range ir.Calls("mux.ServeMux.IQHandler") {
			pt, _ := g.Where(cl)
			okd, why := g.DominatedAny(pt, []string{
				"or(and(eq(*#1,var:io.EOF) & or(eq(*.Type,stanza.ErrorIQ) | eq(*.Type,stanza.ResultIQ))) | eq(*#1,nil))",
				"or(eq(*#1,nil) | and(eq(*#1,var:io.EOF) & or(eq(*.Type,stanza.ErrorIQ) | eq(*.Type,stanza.ResultIQ))))",
			})
			c.r.Check(id, ir, "empty IQs that reach the lookup", "G: the handler lookup is reached after a successful read of the payload start, or at the end of an empty result or error IQ (both kinds may come without a payload and go to the type wildcard)", cl.Pos(), okd, why)
		}
	}
	fc := c.fn(id, "mux", "forChildren")
	if fc != nil {
		g := fc.Graph()
		n := 0
		for _, k := range []struct{ lookup, handle, typ string }{
			{"mux.ServeMux.PresenceHandler", "mux.PresenceHandler.HandlePresence", "stanza.Presence"},
			{"mux.ServeMux.MessageHandler", "mux.MessageHandler.HandleMessage", "stanza.Message"},
		} {
			for _, cl := range fc.Calls(k.lookup) {
				n++
				pt, _ := g.Where(cl)
				a0, a1 := fc.Norm(cl.Args[0], &pt), fc.Norm(cl.Args[1], &pt)
				perChild := eng.Glob("*Iter.Current[*]()#0.Name", a1)
				empty := a1 == "encoding/xml.Name{}"
				c.r.Check(id, fc, "lookup for "+k.typ, "P: handlers are chosen by the stanza's own type and the child's name (the zero name for an empty stanza)", cl.Pos(), strings.HasSuffix(a0, ".Type") && (perChild || empty), "arguments are "+a0+", "+a1)
				if empty {
					c.dom(id, fc, cl, "empty-stanza lookup", []string{"istype(p1;" + k.typ + ")"})
				} else {
					c.dom(id, fc, cl, "per-child lookup", []string{"!eq(*Iter.Current[*]()#0,nil)", "istype(p1;" + k.typ + ")"})
					// converse: nothing else decides whether a child is dispatched
					c.onlyFacts(id, fc, cl, "every child is dispatched", []string{"mellium.im/xmlstream.Iter.Next[*]()", "!eq(*Iter.Current[*]()#0,nil)", "istype(p1;*)", "!istype(p1;*)"})
				}
			}
		}
		c.r.Floor(id, "handler lookups in forChildren", n, 4)
		// the payload loop runs to the end: one payload's handler failing (its
		// error is collected) does not keep the payloads after it from their
		// handlers. No return and no break leaves the iterator loop.
		fc.WalkBody(func(nd ast.Node) bool {
			fs, ok := nd.(*ast.ForStmt)
			if !ok || fs.Cond == nil || fc.ContainsCall(fs.Cond, "mellium.im/xmlstream.Iter.Next") == nil {
				return true
			}
			var early ast.Node
			ast.Inspect(fs.Body, func(x ast.Node) bool {
				switch y := x.(type) {
				case *ast.FuncLit:
					return false
				case *ast.ReturnStmt:
					if early == nil {
						early = y
					}
				case *ast.BranchStmt:
					if y.Tok == token.BREAK || y.Tok == token.GOTO {
						// a break that leaves this loop (not an inner switch/select/loop)
						var target ast.Node
						for p := g.Parent(y); p != nil && target == nil; p = g.Parent(p) {
							switch p.(type) {
							case *ast.ForStmt, *ast.RangeStmt, *ast.SwitchStmt, *ast.TypeSwitchStmt, *ast.SelectStmt:
								target = p
							}
						}
						if (y.Label != nil || target == ast.Node(fs)) && early == nil {
							early = y
						}
					}
				}
				return true
			})
			why := ""
			if early != nil {
				why = "the statement at " + c.p.Pos(early.Pos()) + " leaves the payload loop: the payloads after this one are not dispatched"
			}
			c.r.Check(id, fc, "payload loop runs to the end", "O: no return, break or goto leaves the loop over the stanza's child elements", fs.Pos(), early == nil, why)
			return true
		})
		// every stanza reaches a handler lookup: a stanza without child
		// elements (no children at all, or only white space between the tags of
		// formatted XML) goes to the type wildcard. For each stanza kind, every
		// non-error return passes a lookup of that kind.
		for _, k := range []struct{ lookup, typ string }{
			{"mux.ServeMux.PresenceHandler", "stanza.Presence"},
			{"mux.ServeMux.MessageHandler", "stanza.Message"},
		} {
			cut := g.CutFor("istype(p1;" + k.typ + ")")
			isLookup := func(q eng.Point, nd ast.Node) bool {
				return fc.ContainsCall(nd, "mux.ServeMux.PresenceHandler") != nil || fc.ContainsCall(nd, "mux.ServeMux.MessageHandler") != nil
			}
			for _, rs := range g.Returns {
				rp, _ := g.Where(rs)
				if g.RetKindOf(rs) == eng.RetError || !g.Reachable(g.Entry(), rp, cut, nil) {
					continue
				}
				// returns that hand on the iterator's or a handler's error are not "nobody was asked"
				if len(rs.Results) == 1 {
					if _, isCall := ast.Unparen(rs.Results[0]).(*ast.CallExpr); isCall {
						if fc.ContainsCall(rs, k.lookup) == nil && fc.ContainsCall(rs, strings.Replace(k.lookup, "ServeMux.", "", 1)+".Handle"+strings.TrimPrefix(k.typ, "stanza.")) == nil {
							continue
						}
					}
				}
				c.r.Check(id, fc, "every "+k.typ+" reaches a handler lookup", "O: no non-error return of forChildren is reached without a handler lookup (per child, or the zero name for a stanza without child elements)", rs.Pos(), g.MustPassBefore(g.Entry(), rp, isLookup, cut), "a stanza can be processed without any handler being looked up (e.g. one that holds only white space: it has no child element, yet the empty-stanza arm is not taken)")
			}
		}
		// replay readers
		nb := 0
		for _, cl := range fc.WalkLits("mux.bufReader") {
			pt, _ := g.Where(cl)
			rr, buf, off := structLitField(cl, "r"), structLitField(cl, "buf"), structLitField(cl, "offset")
			if ok, _ := g.Dominated(pt, "mellium.im/xmlstream.Iter.Next[*]()"); !ok {
				// the outer reader: starts after the stanza start it was given
				okOuter := rr != nil && fc.Norm(rr, nil) == "p2" && off != nil && fc.Norm(off, nil) == "1"
				c.r.Check(id, fc, "outer replay buffer", "K: the iterator's reader buffers every token, starting after the start element that is pushed first", cl.Pos(), okOuter, "")
				continue
			}
			nb++
			okr := rr != nil && fc.Norm(rr, nil) == "p2" && buf != nil && eng.Glob("*.buf", fc.Norm(buf, &pt)) && off == nil
			c.r.Check(id, fc, "per-handler replay reader", "K: each chosen handler reads a replay of the shared buffer from offset zero (the complete stanza from its start element), continuing on the live stream", cl.Pos(), okr, "reader literal is "+fc.Norm(cl, &pt))
		}
		c.r.Floor(id, "per-handler replay readers", nb, 2)
		// the buffer grown by a handler is kept: r.buf = br.buf after each handler call
		for _, hc := range append(fc.Calls("mux.PresenceHandler.HandlePresence"), fc.Calls("mux.MessageHandler.HandleMessage")...) {
			hp, _ := g.Where(hc)
			if ok, _ := g.Dominated(hp, "mellium.im/xmlstream.Iter.Next[*]()"); !ok {
				continue
			}
			isKeep := func(q eng.Point, nd ast.Node) bool {
				as, ok := nd.(*ast.AssignStmt)
				if !ok || len(as.Lhs) != 1 {
					return false
				}
				k, _ := fc.FieldClass(as.Lhs[0])
				return k == "mux.bufReader.buf" && eng.Glob("*.buf", fc.Norm(as.Rhs[0], nil))
			}
			// every path from the call to the next loop iteration passes the store
			okk := true
			for _, b := range g.Blocks {
				if b.Live && b.Kind.String() == "ForLoop" {
					if g.Reachable(g.After(hp), eng.Point{B: int(b.Index), I: 0}, nil, isKeep) {
						okk = false
					}
				}
			}
			c.r.Check(id, fc, "buffer kept after a handler", "O: tokens a handler pulled from the live stream stay in the shared buffer for the handlers after it", hc.Pos(), okk, "loop continues without r.buf = br.buf")
		}
		// the first buffered token is the stanza's start element
		okStart := false
		for _, w := range fc.FieldWrites("mux.bufReader.buf") {
			if w.RHS != nil && eng.Glob("builtin.append(*.buf,*p3)", fc.Norm(w.RHS, nil)) {
				okStart = true
			}
		}
		c.r.Check(id, fc, "buffer starts with the stanza start", "K: the stanza's start element is the first buffered token", fc.Pos(), okStart, "no r.buf = append(r.buf, *start)")
		// offset reset for the empty-stanza arm
		for _, w := range fc.FieldWrites("mux.bufReader.offset") {
			_ = g
			v, _ := fc.ConstInt(w.RHS)
			// ... on every path into the empty-stanza lookups
			okd := true
			for _, lk := range []string{"mux.ServeMux.PresenceHandler", "mux.ServeMux.MessageHandler"} {
				for _, cl := range fc.Calls(lk) {
					if len(cl.Args) == 2 && fc.Norm(cl.Args[1], nil) == "encoding/xml.Name{}" {
						lp, _ := g.Where(cl)
						if !g.MustPassBefore(g.Entry(), lp, func(q eng.Point, nd ast.Node) bool { return nd == ast.Node(w.Stmt) }, nil) {
							okd = false
						}
					}
				}
			}
			c.r.Check(id, fc, "replay from the start for the type wildcard", "K: the wildcard handler of an empty stanza replays from offset zero (the reset precedes every empty-stanza lookup)", w.Stmt.Pos(), v == 0 && okd, "")
		}
	}
	// bufReader.Token: buffered tokens are copies; replay before live
	bt := c.fn(id, "mux", "(*bufReader).Token")
	if bt != nil {
		g := bt.Graph()
		n := 0
		for _, w := range bt.FieldWrites("mux.bufReader.buf") {
			call, ok := ast.Unparen(w.RHS).(*ast.CallExpr)
			if !ok || bt.CalleeID(call) != "builtin.append" || len(call.Args) != 2 {
				continue
			}
			n++
			pt, _ := g.Where(w.Stmt)
			okc := eng.Glob("encoding/xml.CopyToken(*)", bt.Norm(call.Args[1], &pt))
			c.r.Check(id, bt, "buffered token is a copy", "K: every token put into the replay buffer went through xml.CopyToken on every path (the decoder reuses its buffers)", w.Stmt.Pos(), okc, "buffered value is "+bt.Norm(call.Args[1], &pt))
		}
		c.r.Floor(id, "appends in bufReader.Token", n, 1)
		for _, cl := range bt.Calls("encoding/xml.TokenReader.Token") {
			c.dom(id, bt, cl, "live read after the replay", []string{"!lt(recv.offset,conv:uint(builtin.len(recv.buf)))"})
		}
	}
}

func c14Options(c *cx) {
	id := "C14.4"
	tables := map[string]struct{ opt, kind string }{
		"mux.ServeMux.iqPatterns":       {"mux.IQ", "mux.iqStanza"},
		"mux.ServeMux.msgPatterns":      {"mux.Message", "mux.msgStanza"},
		"mux.ServeMux.presencePatterns": {"mux.Presence", "mux.presStanza"},
		"mux.ServeMux.patterns":         {"mux.Handle", ""},
	}
	n := 0
	for _, f := range c.allFns() {
		for _, mu := range f.MapUpdates() {
			cls, _ := f.FieldClass(mu.Map)
			t, ok := tables[cls]
			if !ok {
				continue
			}
			n++
			okOwner := f.Parent != nil && f.Parent.Short == t.opt
			if !c.r.Check(id, f, "write to "+cls, "W: a pattern table is written only by its registration option", mu.Node.Pos(), okOwner && !mu.Delete, "table written in "+f.Short) {
				continue
			}
			g := f.Graph()
			pt, _ := g.Where(mu.Node)
			key := f.Norm(mu.Key, &pt)
			keyLit := key
			if kv := rootLocal(f, mu.Key); kv != nil {
				if d := g.UniqueDef(kv, pt); d != nil && d.RHS != nil {
					keyLit = f.Norm(d.RHS, &d.At)
				}
			}
			if kv := rootLocal(f, mu.Key); kv != nil {
				// the key that was tested for duplicates is the key stored: no
				// (field) write to the key variable after it was built
				mod := ""
				for _, w := range f.Writes() {
					if rootLocal(f, w.LHS) != kv {
						continue
					}
					if _, isID := ast.Unparen(w.LHS).(*ast.Ident); isID && w.Tok == token.DEFINE {
						continue
					}
					wp, _ := g.Where(w.Stmt)
					if g.Reachable(g.After(wp), pt, nil, nil) {
						mod = "the key is modified at " + c.p.Pos(w.Stmt.Pos()) + " before it is stored: the duplicate test and the stored key can disagree"
					}
				}
				c.r.Check(id, f, "key unchanged between duplicate test and store", "K: the key tested for duplicates is the key stored", mu.Node.Pos(), mod == "", mod)
			}
			c.domAny(id, f, mu.Node, "registration refuses nil handlers", []string{"!eq(outer.p2,nil)", "!eq(outer.p1,nil)"})
			// ... and nil funcs converted to the handler interface by the caller
			// (IQHandlerFunc(nil) is not a nil interface, but calling it panics in
			// the serve loop and the pattern stays occupied)
			c.domAny(id, f, mu.Node, "registration refuses nil func handlers", []string{
				"or(*!commaok(outer.p*.(*))*!eq(outer.p*.(*),nil)*)", "or(*!eq(outer.p*.(*),nil)*!commaok(outer.p*.(*))*)",
				"and(*commaok(outer.p*.(*))*!eq(outer.p*.(*),nil)*)", "!istype(outer.p*;*Func)"})
			c.dom(id, f, mu.Node, "registration refuses duplicates", []string{"!commaok(p0." + cls[strings.LastIndex(cls, ".")+1:] + "[" + key + "])"})
			if t.kind != "" {
				okKey := eng.Glob("mux.pattern{Stanza:"+t.kind+",Payload:outer.p1,Type:*outer.p0*}", keyLit)
				c.r.Check(id, f, "registered key", "K: the key is built from this option's own kind constant and its arguments", mu.Node.Pos(), okKey, "key is "+keyLit)
			} else {
				c.r.Check(id, f, "registered key", "K: the key is the given name", mu.Node.Pos(), key == "outer.p0", "key is "+key)
				c.dom(id, f, mu.Node, "Handle refuses stanza names", []string{"!stanza.Is(outer.p0,\"\")"})
			}
			okVal := mu.Value != nil && eng.Glob("outer.p?", strings.Replace(f.Norm(mu.Value, &pt), "outer.p", "outer.p", 1)) || (mu.Value != nil && strings.HasPrefix(f.Norm(mu.Value, &pt), "outer.p"))
			c.r.Check(id, f, "registered handler", "K: the handler stored is the one given", mu.Node.Pos(), okVal, "")
		}
	}
	c.r.Floor(id, "registrations", n, 4)
}

// c14OwnAttrs: the stanza values the routers dispatch on (type, id, to, from)
// are taken from the stanza's own attributes only: in stanza.NewIQ, NewMessage
// and NewPresence every assignment to one of these fields inside the attribute
// loop is dominated by "the attribute is unqualified or in the stanza's own
// namespace" (a foreign x:type must not select the handler).
func c14OwnAttrs(c *cx, id string) {
	n := 0
	for _, name := range []string{"NewIQ", "NewMessage", "NewPresence"} {
		f := c.fn(id, "stanza", name)
		if f == nil {
			continue
		}
		g := f.Graph()
		type fieldSet struct {
			stmt ast.Node
			lhs  ast.Expr
		}
		var sets []fieldSet
		for _, w := range f.Writes() {
			sets = append(sets, fieldSet{w.Stmt, w.LHS})
		}
		// (&v.Type).UnmarshalXMLAttr(attr) sets the field too
		for _, cl := range f.AllCalls() {
			if fs, ok := ast.Unparen(cl.Fun).(*ast.SelectorExpr); ok && strings.HasPrefix(fs.Sel.Name, "Unmarshal") {
				x := ast.Unparen(fs.X)
				if u, ok := x.(*ast.UnaryExpr); ok && u.Op == token.AND {
					x = ast.Unparen(u.X)
				}
				sets = append(sets, fieldSet{cl, x})
			}
		}
		for _, w := range sets {
			sel, ok := ast.Unparen(w.lhs).(*ast.SelectorExpr)
			if !ok {
				continue
			}
			switch sel.Sel.Name {
			case "ID", "To", "From", "Type":
			default:
				continue
			}
			// inside the loop over the start element's attributes
			inLoop := false
			for p := g.Parent(w.stmt); p != nil; p = g.Parent(p) {
				if rs, ok := p.(*ast.RangeStmt); ok && f.Norm(rs.X, nil) == "p0.Attr" {
					inLoop = true
				}
			}
			if !inLoop {
				continue
			}
			n++
			pt, ok := g.Where(w.stmt)
			if !ok {
				c.r.Check(id, f, "stanza field "+sel.Sel.Name+" taken from an attribute", "site located", w.stmt.Pos(), false, "statement not in the graph")
				continue
			}
			// an attribute qualified with the element's namespace (c:type with
			// xmlns:c="jabber:client") is NOT the unprefixed attribute: attributes
			// do not inherit the default namespace. The session reads the
			// unqualified id/type/from only (getIDTyp, attr.Own); a parser that
			// also accepts the qualified form disagrees with it (a result IQ with
			// c:type="get" is answered by the multiplexer's fallback).
			pats := []string{
				`eq(rangeval(p0.Attr).Name.Space,"")`,
			}
			okd, why := g.DominatedAny(pt, pats)
			c.r.Check(id, f, "stanza field "+sel.Sel.Name+" taken from an attribute", "G: the assignment is dominated by 'the attribute is unqualified' (x:type of any namespace, the element's own included, is not the stanza's type)", w.stmt.Pos(), okd, why)
		}
	}
	c.r.Floor(id, "attribute-derived stanza fields", n, 12)
}

// typedAttrsThroughOwnDecoder (C14.7/C13.18, sibling agreement): the
// multiplexer routes on the stanza value that stanza.New{IQ,Message,Presence}
// build by hand from the start element, the rest of the library on values that
// encoding/xml decodes. Where the type of a field has its own UnmarshalXMLAttr
// (MessageType maps every undefined value to "normal"), the hand-written
// constructor sets the field through that method, never by a plain conversion
// of the attribute value: otherwise <message type="bogus"/> is routed as type
// "bogus" by the mux and as "normal" by everything that decodes it.
func typedAttrsThroughOwnDecoder(c *cx, id string) {
	n := 0
	for _, name := range []string{"NewIQ", "NewMessage", "NewPresence"} {
		f := c.fn(id, "stanza", name)
		if f == nil {
			continue
		}
		hasDecoder := func(t types.Type) bool {
			return t != nil && types.NewMethodSet(types.NewPointer(t)).Lookup(nil, "UnmarshalXMLAttr") != nil
		}
		// fields of the result type with a decoder of their own
		need := map[string]bool{}
		if res := f.Sig().Results(); res.Len() > 0 {
			if st, ok := res.At(0).Type().Underlying().(*types.Struct); ok {
				for i := 0; i < st.NumFields(); i++ {
					if fl := st.Field(i); hasDecoder(fl.Type()) {
						if _, isNamedBasic := fl.Type().Underlying().(*types.Basic); isNamedBasic {
							need[fl.Name()] = true
						}
					}
				}
			}
		}
		for _, w := range f.Writes() {
			sel, ok := ast.Unparen(w.LHS).(*ast.SelectorExpr)
			if !ok || !need[sel.Sel.Name] || w.RHS == nil {
				continue
			}
			// the literal default (Type: "normal") is a constant
			if f.ConstVal(w.RHS) != nil {
				continue
			}
			n++
			c.r.Check(id, f, "field "+sel.Sel.Name+" assigned from an attribute", "sibling agreement: a field whose type has its own UnmarshalXMLAttr is set through it", w.Stmt.Pos(), false, "assigned "+f.Norm(w.RHS, nil)+" directly: undefined values are not normalised as encoding/xml would")
		}
		for fld := range need {
			calls := 0
			for _, cl := range f.AllCalls() {
				if strings.HasSuffix(f.CalleeID(cl), ".UnmarshalXMLAttr") {
					if sel, ok := ast.Unparen(cl.Fun).(*ast.SelectorExpr); ok && strings.HasSuffix(strings.TrimSuffix(types.ExprString(sel.X), ")"), "."+fld) {
						calls++
					}
				}
			}
			n++
			c.r.Check(id, f, "field "+fld+" decoded through its own UnmarshalXMLAttr", "sibling agreement: the hand-written constructor calls the field type's attribute decoder", f.Pos(), calls >= 1, "no call of "+fld+"'s UnmarshalXMLAttr in "+name)
		}
	}
	c.r.Floor(id, "typed attribute fields with a decoder of their own", n, 1)
}

// c14TrimmerFiltersEveryToken (C14.8): mux.iqRouter finds an IQ's payload
// through decl.TrimLeftSpace, which drops EVERY whitespace-only character data
// token in front of the first start element (white space may arrive in several
// tokens: a CDATA section, a chunked source). In (*trimmer).Token every token
// that is handed on was read at the single read site at the top of the filter
// (the whitespace arm continues by calling Token again or by looping back to
// that site): a second, direct read of the wrapped reader returns its token
// unfiltered.
func c14TrimmerFiltersEveryToken(c *cx, id string) {
	f := c.fn(id, "internal/decl", "(*trimmer).Token")
	if f == nil {
		return
	}
	n := 0
	for _, cl := range f.AllCalls() {
		sel, ok := ast.Unparen(cl.Fun).(*ast.SelectorExpr)
		if !ok || sel.Sel.Name != "Token" {
			continue
		}
		if f.Norm(sel.X, nil) == "recv.r" {
			n++
		}
	}
	c.r.Check(id, f, "single read site of the wrapped reader", "O: the filter reads the wrapped reader at one site; skipping continues through the filter itself (recursion or a loop back to that site)", f.Pos(), n == 1, itoa(n)+" direct reads of the wrapped reader: a token read at a second site is handed on without the whitespace test")
	// the whitespace arm does not hand the skipped token on: from the point where
	// all characters were found to be white space, no return of the read token
	g := f.Graph()
	for _, rs := range g.Returns {
		if len(rs.Results) != 2 {
			continue
		}
		pt, _ := g.Where(rs)
		if ok, _ := g.Dominated(pt, "!rangenext(*)"); ok {
			// after the character loop ran to its end: the token is white space only
			nrm := f.Norm(rs.Results[0], &pt)
			okr := nrm == "nil" || strings.Contains(nrm, "decl.trimmer.Token[recv]()")
			c.r.Check(id, f, "white space is not handed on", "O: after the character loop found only white space the filter returns nil with an error or continues with the next token through itself", rs.Pos(), okr, "returns "+nrm)
		}
	}
}

// c14ReplayBuffer (C14.5, also C18.21): the buffer from which the handlers of
// the later children of one stanza replay what earlier handlers read.
func c14ReplayBuffer(c *cx, rid string) {
	// ---- C14.5 the replay buffer -----------------------------------------------------
	// (a) every token handed out is in the replay buffer (a later handler of
	// the same stanza replays exactly what the earlier one read, including a
	// token that arrives together with io.EOF);
	if bt := c.fn(rid, "mux", "(*bufReader).Token"); bt != nil {
		g := bt.Graph()
		isApp := func(q eng.Point, nd ast.Node) bool {
			for _, w := range bt.FieldWrites("mux.bufReader.buf") {
				if w.Stmt == nd {
					return true
				}
			}
			return false
		}
		n := 0
		for _, cl := range bt.Calls("encoding/xml.TokenReader.Token") {
			tp, _ := g.Where(cl)
			cn := bt.Norm(cl, &tp)
			for _, rs := range g.Returns {
				rp, _ := g.Where(rs)
				if !g.Reachable(g.After(tp), rp, nil, nil) || len(rs.Results) != 2 {
					continue
				}
				n++
				// the token may be non-nil at this return unless tok == nil was established
				if ok, _ := g.Dominated(rp, "eq("+cn+"#0,nil)"); ok {
					continue
				}
				nilCut := eng.Cut{}
				for _, ce := range g.EdgesMatching("eq(" + cn + "#0,nil)") {
					nilCut[ce.E] = true
				}
				c.r.Check(rid, bt, "token recorded before it is returned", "S: every token read from the underlying reader is appended to the replay buffer before it is handed out (also when it arrives together with an error)", rs.Pos(), !g.Reachable(g.After(tp), rp, nilCut, isApp), "a non-nil token can be returned without being recorded: the next handler of the same stanza replays a truncated element")
			}
		}
		c.r.Floor(rid, "returns after the underlying read in bufReader.Token", n, 1)
	}
	// (b) the replay buffer belongs to one dispatch: it is allocated per stanza
	// and the multiplexer keeps no per-dispatch state (its fields are written
	// by registration options only)
	nlit := 0
	for _, f := range c.allFns() {
		if !strings.HasPrefix(f.Short, "mux.") {
			continue
		}
		g := f.Graph()
		for _, lit := range f.WalkLits("mux.bufReader") {
			if bv := structLitField(lit, "buf"); bv != nil {
				nlit++
				pt, _ := g.Where(lit)
				okf, why := freshSlice(f, bv, pt, map[*eng.Def]bool{})
				if !okf {
					// a replay reader over the buffer of THIS dispatch's reader
					if sel, ok := ast.Unparen(bv).(*ast.SelectorExpr); ok && sel.Sel.Name == "buf" {
						if k, _ := f.FieldClass(sel); k == "mux.bufReader.buf" {
							if v := rootLocal(f, sel.X); v != nil {
								okf, why = true, ""
							}
						}
					}
				}
				c.r.Check(rid, f, "replay buffer allocated per stanza", "E-alias: the replay buffer of a dispatch is freshly allocated (a buffer kept on the multiplexer is overwritten by a nested or concurrent dispatch)", lit.Pos(), okf, why)
			}
		}
		// registration options: closures of type func(*ServeMux)
		isOpt := false
		if f.Lit != nil {
			if sig := f.Sig(); sig != nil && sig.Params().Len() == 1 && sig.Results().Len() == 0 && eng.TypeStr(sig.Params().At(0).Type()) == "*mux.ServeMux" {
				isOpt = true
			}
		}
		if isOpt || f.Short == "mux.New" {
			continue
		}
		for _, w := range f.Writes() {
			if k, ok := f.FieldClass(w.LHS); ok && strings.HasPrefix(k, "mux.ServeMux.") {
				c.r.Check(rid, f, "write to "+k, "W: routing never writes the multiplexer's fields (they are configured by the registration options only)", w.Stmt.Pos(), false, "per-dispatch state kept on the shared multiplexer in "+f.Short)
			}
		}
	}
	c.r.Floor(rid, "bufReader literals", nlit, 1)
}

// c14DispatchThroughTable (C14.12): ServeMux.HandleXMPP asks ServeMux.Handler -
// whose lookup order C14.2 decides - for every element, stanzas included, and
// calls what it returns: each return of HandleXMPP is HandleXMPP of the handler
// obtained from recv.Handler(start.Name). A "fast path" for stanzas in front
// of it bypasses the top-level patterns (a namespace-only pattern for the
// stanza namespace is the most specific match for a stanza).
func c14DispatchThroughTable(c *cx, id string) {
	f := c.fn(id, "mux", "(*ServeMux).HandleXMPP")
	if f == nil {
		return
	}
	g := f.Graph()
	n := 0
	for _, rs := range g.Returns {
		n++
		rp, _ := g.Where(rs)
		got := ""
		if res := retResults(f, rs); len(res) == 1 {
			got = f.Norm(res[0], &rp)
		}
		c.r.Check(id, f, "dispatch", "K: every return of ServeMux.HandleXMPP is the HandleXMPP of the handler that ServeMux.Handler(start.Name) returned", rs.Pos(), eng.Glob("*HandleXMPP[mux.ServeMux.Handler[recv](p1.Name)#0](p0,p1)", got), "returns "+got)
	}
	c.r.Floor(id, "returns of ServeMux.HandleXMPP", n, 1)
}

// c14TypeValuesExact (C14.14): the type a stanza is dispatched on is the value
// of its type attribute, compared as it was written: RFC 6121 defines the
// values in lower case and says that anything else is treated as the default
// (type="Chat" is a normal message). The attribute decoders of the stanza type
// enumerations switch on the attribute value itself - not on a lower-cased or
// trimmed copy, which would route a message to the handlers of a type it does
// not have.
func c14TypeValuesExact(c *cx, id string) {
	n := 0
	for _, f := range c.allFns() {
		if f.Decl == nil || f.Decl.Recv == nil || f.Decl.Name.Name != "UnmarshalXMLAttr" || !strings.HasPrefix(f.Short, "stanza.") {
			continue
		}
		f.WalkBody(func(nd ast.Node) bool {
			sw, ok := nd.(*ast.SwitchStmt)
			if !ok || sw.Tag == nil {
				return true
			}
			tag := f.Norm(sw.Tag, nil)
			if !strings.Contains(tag, "p0.Value") {
				return true
			}
			n++
			c.r.Check(id, f, "value the type is decided on", "P: the switch is over the attribute value itself", sw.Pos(), tag == "p0.Value", "the switch is over "+tag)
			return true
		})
		// the same decision written as a chain of comparisons
		f.WalkBody(func(nd ast.Node) bool {
			be, ok := nd.(*ast.BinaryExpr)
			if !ok || (be.Op != token.EQL && be.Op != token.NEQ) {
				return true
			}
			for _, side := range []ast.Expr{be.X, be.Y} {
				if _, isConst := f.ConstStr(side); isConst {
					continue
				}
				v := f.Norm(side, nil)
				if !strings.Contains(v, "p0.Value") {
					continue
				}
				n++
				c.r.Check(id, f, "value the type is decided on", "P: the comparison is with the attribute value itself", be.Pos(), v == "p0.Value", "the comparison is with "+v)
			}
			return true
		})
	}
	c.r.Floor(id, "type attribute decoders in package stanza", n, 1)
}
