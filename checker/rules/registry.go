// Package rules holds the per-property obligation tables.
package rules

import "verif/checker/eng"

// Rule is one property check.
type Rule struct {
	Meta eng.Meta
	Run  func(p *eng.Prog, r *eng.Report, tier string)
}

// Registry maps property ids to their checks.
var Registry = map[string]Rule{}

var trustedCommon = []string{
	"go/packages, go/types, go/cfg, go/ssa, callgraph/vta of golang.org/x/tools v0.29.0 and the Go 1.23.5 type checker",
	"call contracts (not internals) of encoding/xml, crypto/tls, mellium.im/sasl, mellium.im/xmlstream, golang.org/x/text, golang.org/x/net/idna",
	"the obligation tables in /verif/checker/rules (each names the structural necessary condition it checks)",
}
