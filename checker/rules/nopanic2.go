package rules

import (
	"go/ast"
	"go/token"
	"go/types"
	"strings"

	"verif/checker/eng"
)

// divisorsNotZero (C09.30): an integer division or remainder panics when the
// divisor is zero. Every `/`, `%`, `/=`, `%=` on integers in the module has a
// divisor that is a non-zero constant or is dominated by a test that excludes
// zero (x != 0, 0 < x, x > 0, x >= 1). A block size, count or limit that a
// peer supplies (<open block-size="0"/>) is such a divisor.
func divisorsNotZero(c *cx, id string) int {
	n := 0
	for _, f := range c.allFns() {
		g := f.Graph()
		check := func(pos ast.Node, div ast.Expr) {
			t := f.Info().TypeOf(div)
			if t == nil {
				return
			}
			b, ok := t.Underlying().(*types.Basic)
			if !ok || b.Info()&types.IsInteger == 0 {
				return
			}
			if v, ok := f.ConstInt(div); ok {
				if v != 0 {
					return
				}
			}
			n++
			// the statement that holds the operation
			var stmt ast.Node = pos
			for stmt != nil {
				if _, placed := g.Where(stmt); placed {
					break
				}
				stmt = g.Parent(stmt)
			}
			pt, ok := g.Where(stmt)
			if !ok {
				return
			}
			d := f.Norm(div, &pt)
			okd, _ := g.DominatedAny(pt, []string{"!eq(" + d + ",0)", "lt(0," + d + ")", "!lt(" + d + ",1)", "le(1," + d + ")"})
			if !okd {
				// through the unexpanded spelling as well
				d2 := f.Norm(div, nil)
				okd, _ = g.DominatedAny(pt, []string{"!eq(" + d2 + ",0)", "lt(0," + d2 + ")", "!lt(" + d2 + ",1)"})
			}
			c.r.Check(id, f, "divisor "+f.Prog.NodeStr(div), "G: an integer divisor is a non-zero constant or is tested against zero on every path", pos.Pos(), okd, "no dominating test excludes "+d+" == 0: the division panics")
		}
		f.WalkBody(func(nd ast.Node) bool {
			switch x := nd.(type) {
			case *ast.BinaryExpr:
				if x.Op == token.QUO || x.Op == token.REM {
					check(x, x.Y)
				}
			case *ast.AssignStmt:
				if (x.Tok == token.QUO_ASSIGN || x.Tok == token.REM_ASSIGN) && len(x.Rhs) == 1 {
					check(x, x.Rhs[0])
				}
			}
			return true
		})
	}
	return n
}

// optionalPointersTested (C09.31): a field of pointer-to-scalar type (*uint64,
// *int, *bool, *string) is how the decoders of the module spell "optional": it
// is nil when the peer left the attribute or element out. Every dereference
// of such a field is dominated by a test that it is not nil.
func optionalPointersTested(c *cx, id string) int {
	n := 0
	for _, f := range c.allFns() {
		g := f.Graph()
		f.WalkBody(func(nd ast.Node) bool {
			st, ok := nd.(*ast.StarExpr)
			if !ok {
				return true
			}
			sel, ok := ast.Unparen(st.X).(*ast.SelectorExpr)
			if !ok {
				return true
			}
			fo, ok := f.Info().Uses[sel.Sel].(*types.Var)
			if !ok || !fo.IsField() {
				return true
			}
			pt, ok := fo.Type().Underlying().(*types.Pointer)
			if !ok {
				return true
			}
			if _, isBasic := pt.Elem().Underlying().(*types.Basic); !isBasic {
				return true
			}
			if tv, ok := f.Info().Types[st]; ok && tv.IsType() {
				return true
			}
			var stmt ast.Node = st
			for stmt != nil {
				if _, placed := g.Where(stmt); placed {
					break
				}
				stmt = g.Parent(stmt)
			}
			p, okp := g.Where(stmt)
			if !okp {
				return true
			}
			// a store through the pointer (*x.f = v) needs the test as well
			n++
			e := f.Norm(sel, &p)
			okd, _ := g.DominatedAny(p, []string{"!eq(" + e + ",nil)"})
			if !okd {
				okd, _ = g.DominatedAny(p, []string{"!eq(" + f.Norm(sel, nil) + ",nil)"})
			}
			// the test may sit in the same short-circuit expression:
			// x != nil && *x == 0
			if !okd {
				for anc := g.Parent(st); anc != nil && !okd; anc = g.Parent(anc) {
					be, isB := anc.(*ast.BinaryExpr)
					if !isB || be.Op != token.LAND || !containsNode(be.Y, st) {
						continue
					}
					want := f.Norm(sel, nil)
					var implies func(e ast.Expr, pol bool) bool
					implies = func(e ast.Expr, pol bool) bool {
						e = ast.Unparen(e)
						switch y := e.(type) {
						case *ast.UnaryExpr:
							if y.Op == token.NOT {
								return implies(y.X, !pol)
							}
						case *ast.BinaryExpr:
							switch y.Op {
							case token.NEQ, token.EQL:
								var other ast.Expr
								if isNilIdent(f, y.Y) {
									other = y.X
								} else if isNilIdent(f, y.X) {
									other = y.Y
								}
								if other != nil && f.Norm(other, nil) == want {
									return (y.Op == token.NEQ) == pol
								}
							case token.LAND:
								if pol {
									return implies(y.X, true) || implies(y.Y, true)
								}
							case token.LOR:
								if !pol {
									return implies(y.X, false) || implies(y.Y, false)
								}
							}
						}
						return false
					}
					if implies(be.X, true) {
						okd = true
					}
				}
			}
			c.r.Check(id, f, "dereference of optional "+strings.TrimPrefix(e, "local:"), "G: an optional (pointer-to-scalar) field is dereferenced only behind a test that it is not nil", st.Pos(), okd, "no dominating test "+e+" != nil: a reply that leaves the value out panics the caller")
			return true
		})
	}
	return n
}

// mapFieldsAllocatedBeforeStores (C09.32): a store into a nil map panics. A
// map-typed field of a receiver or local struct that the function itself
// allocates lazily is stored into (m[k] = v, or the http.Header / url.Values
// methods that do so) only where it cannot be nil: every path from the entry
// passes a make / literal store into the field or an edge field != nil.
func mapFieldsAllocatedBeforeStores(c *cx, id string) int {
	n := 0
	for _, f := range c.allFns() {
		g := f.Graph()
		// only fields the function allocates somewhere (lazy initialisation)
		alloc := map[string][]ast.Node{}
		for _, w := range f.Writes() {
			k, isF := f.FieldClass(w.LHS)
			if !isF || w.RHS == nil {
				continue
			}
			if _, isMap := f.Info().TypeOf(w.LHS).Underlying().(*types.Map); !isMap {
				continue
			}
			p, _ := g.Where(w.Stmt)
			if g.NilnessOf(w.RHS, p) == 1 || isMakeCall(f, w.RHS) {
				alloc[k+"|"+f.Norm(w.LHS, nil)] = append(alloc[k+"|"+f.Norm(w.LHS, nil)], w.Stmt)
			}
		}
		if len(alloc) == 0 {
			continue
		}
		site := func(nd ast.Node, m ast.Expr) {
			k, isF := f.FieldClass(m)
			if !isF {
				return
			}
			key := k + "|" + f.Norm(m, nil)
			stores, ok := alloc[key]
			if !ok {
				return
			}
			var stmt ast.Node = nd
			for stmt != nil {
				if _, placed := g.Where(stmt); placed {
					break
				}
				stmt = g.Parent(stmt)
			}
			p, okp := g.Where(stmt)
			if !okp {
				return
			}
			n++
			e := f.Norm(m, nil)
			cut := eng.Cut{}
			for _, ce := range g.CondEdges() {
				for _, a := range ce.Atoms {
					if a.S == "!eq("+e+",nil)" {
						cut[ce.E] = true
					}
				}
			}
			isAlloc := func(q eng.Point, x ast.Node) bool {
				for _, s := range stores {
					if s == x {
						return true
					}
				}
				return false
			}
			c.r.Check(id, f, "store into map "+e, "G: a lazily allocated map field is stored into only after its allocation or a test that it is not nil, on every path", nd.Pos(), !g.Reachable(g.Entry(), p, cut, isAlloc), "a path reaches the store with "+e+" possibly nil: assignment to entry in nil map")
		}
		for _, mu := range f.MapUpdates() {
			if !mu.Delete {
				site(mu.Node, mu.Map)
			}
		}
		for _, cl := range f.AllCalls() {
			switch f.CalleeID(cl) {
			case "net/http.Header.Add", "net/http.Header.Set", "net/url.Values.Add", "net/url.Values.Set":
				if sel, ok := ast.Unparen(cl.Fun).(*ast.SelectorExpr); ok {
					site(cl, sel.X)
				}
			}
		}
	}
	return n
}

func isMakeCall(f *eng.Fn, e ast.Expr) bool {
	cl, ok := ast.Unparen(e).(*ast.CallExpr)
	return ok && f.CalleeID(cl) == "builtin.make"
}
