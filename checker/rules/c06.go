package rules

import (
	"go/ast"
	"sort"
	"strings"

	"verif/checker/eng"
)

func init() {
	Registry["C06"] = Rule{
		Meta: eng.Meta{
			Explanation: "Protocol lints for the correlated-wait hand-off (structural preconditions of 'every correlated wait ends exactly once', not the schedule-quantified property itself): sendResp registers the waiter before sending and removes it on every exit, all accesses of the waiter tables are under their mutex (C06.1, must-lockset dataflow); both hand-off selects have an escape arm, the hand-off is dominated by the table hit and the stanza-name test, and an unmatched reply falls through to the handler (C06.2); every channel operation reachable from the serve loop or a handler has an escape arm or is provably non-blocking (C06.3); for every channel class a send and a close run under one common lock, and a channel notified with a non-blocking send has capacity >= 1 (C06.4); the blocking helpers of MUC/IBB/receipts select on ctx.Done() and return ctx.Err() (C06.5).",
			NotDecided:  "at-most-one delivery, wrong-kind replies, ordering of answers and cancellation placement under all interleavings: these quantify over schedules and have no sound static counterpart here; only the lock/guard/escape shape they need is decided.",
			Trusted:     trustedCommon,
		},
		Run: runC06,
	}
}

// handlerScope: functions reachable from the serve loop and the handlers.
func handlerScope(c *cx) ([]*eng.Fn, map[*eng.Fn]string) {
	all, why := serveScope(c)
	return all, why
}

func runC06(p *eng.Prog, r *eng.Report, tier string) {
	c := &cx{p, r, tier}
	r18HandOffComparesWholeNames(c, "C06.42")
	r18ClosersReleaseOnEveryPath(c, "C06.40")
	c.r.Floor("C06.41", "goroutines that wait for the answer to a stanza they send", r18WaitersEndWithTheCall(c, "C06.41"), 2)
	c.r.Floor("C06.39", "returns with a deferred release pending", deferredReleaseFindsTheLockHeld(c, "C06.39", ""), 20)
	r17BorrowedReaderNotClosed(c, "C06.38")
	// C06.32 (= C09.17 / C10.10): no cycle in the lock-order graph: a deadlock between a
	// writer and Close, or between the serve loop and a requester, ends every guarantee of this property
	lockOrder(c, "C06.32")
	c06SendResp(c)
	c15HandlerEncoderStays(c, "C06.33")
	c15OpenIsASetRequest(c, "C06.34")
	c06ReceiptRegistrations(c, "C06.35")
	c06WaiterIDIsTheWireID(c, "C06.36")
	c.r.Floor("C06.31", "blocking channel operations", lockHeldAcrossChannelOp(c, "C06.31", ""), 8)
	c.r.Floor("C06.30", "closers received from a channel", receivedCloserNotDropped(c, "C06.30", func(f *eng.Fn) bool { return true }), 3)
	c06Handoff(c)
	scope, why := handlerScope(c)
	chanRules(c, "C06.3", scope, why)
	c06Waiters(c)
	c06JoinCtx(c)
	serveWait(c, "C06.9")
	serveLockWait(c, "C06.14")
	callerAttrsCopied(c, "C06.15")
	waitBoundedByDeadline(c, "C06.21", "ibb", 1)
	idTypFromOwnAttributes(c, "C06.16")
	pageTurnClosesFirst(c, "C06.17")
	c.r.Floor("C06.20", "children of a stanza picked by local name in the handlers", iterChildSelectedByNamespace(c, "C06.20", func(f *eng.Fn) bool { return strings.HasPrefix(f.Short, "receipts.") }), 2)
	c15ExpectOwnEntryAs(c, "C06.18")
	deadlineWatchersArmedAtOnce(c, "C06.19")
	waitKey(c, "C06.10")
	handoffDrained(c, "C06.2")
	cancelledWaiterToHandler(c, "C06.2")
	staleNotification(c, "C06.12")
	// C06.13 (= C15.6) the bytestream close paths: one outcome per Read, no
	// reader left blocked however Close ends
	c15CloseAs(c, "C06.13")
	// C06.11 the receipt id that selects the waiter is the element's own id
	ownAttrLookups(c, "C06.11", func(f *eng.Fn) bool { return strings.HasPrefix(f.Short, "receipts.") })
	// C06.6 the library's own helpers release every response they obtain
	respRelease(c, "C06.6", 8)
	respIterContract(c, "C06.6")
	// C06.8 waiter-table registrations are withdrawn when the wait is cancelled
	registrationWithdrawn(c, "C06.8", "xmpp.Session.sentStanzas", 1)
	registrationWithdrawn(c, "C06.8", "receipts.Handler.sent", 1)
	registrationWithdrawn(c, "C06.8", "ibb.Listener.expected", 1)
	goroutineEndsItsTracking(c, "C06.22")
	c18RegisteredBeforeQueued(c, "C06.24")
	c15OnlyOwnRouteWithdrawn(c, "C06.25")
	c15WakeUpOnlyOpenReaders(c, "C06.26")
	c06LateSelfPresenceToHandler(c, "C06.27")
	c06WaiterWithdrawnOnEveryExit(c, "C06.28")
	// C06.29 "once the caller closes the response the serve loop continues with
	// the next stanza": the element reader is bounded to its element (= C08.2)
	c08ReaderAs(c, "C06.29")
	attrGetNotUsed(c, "C06.23")
	// C06.7 a hand-off record queued for the handler is taken back when the call fails
	handoffWithdrawn(c, "C06.7", "muc", "(*Channel).JoinPresence", "muc.Channel.join")
	// lock discipline of the waiter tables
	lockDiscipline(c, "C06.1", "xmpp.Session.sentStanzas", "xmpp.Session.sentStanzaMutex", map[string]string{"xmpp.negotiateSession": "construction"}, 3)
	lockDiscipline(c, "C06.1", "receipts.Handler.sent", "receipts.Handler.m", nil, 4)
	lockDiscipline(c, "C06.1", "history.Handler.tracked", "history.Handler.trackedM", map[string]string{"history.NewHandler": "construction"}, 3)
	lockDiscipline(c, "C06.1", "muc.Client.managed", "muc.Client.managedM", nil, 4)
}

func c06SendResp(c *cx) {
	id := "C06.1"
	f := c.fn(id, "", "(*Session).sendResp")
	if f == nil {
		return
	}
	g := f.Graph()
	send, ok := one(c, id, f, "call of SendElement", f.Calls("xmpp.Session.SendElement"))
	if !ok {
		return
	}
	spt, _ := g.Where(send)
	isReg := func(q eng.Point, nd ast.Node) bool {
		as, ok := nd.(*ast.AssignStmt)
		if !ok {
			return false
		}
		for _, l := range as.Lhs {
			if ix, ok := ast.Unparen(l).(*ast.IndexExpr); ok {
				if k, _ := f.FieldClass(ix.X); k == "xmpp.Session.sentStanzas" && f.Norm(ix.Index, nil) == "p1" {
					return true
				}
			}
		}
		return false
	}
	c.r.Check(id, f, "registration before send", "O: the waiter is registered under its id before the request is written (a fast reply cannot be missed)", send.Pos(), g.MustPassBefore(g.Entry(), spt, isReg, nil), "SendElement reachable before sentStanzas[id] is set")
	// deferred removal of the same key, installed before the send
	okDefer := false
	for _, d := range g.Defers {
		lit, ok := ast.Unparen(d.Call.Fun).(*ast.FuncLit)
		if !ok {
			continue
		}
		lf := c.p.FnOfLit(lit)
		for _, mu := range lf.MapUpdates() {
			if k, _ := lf.FieldClass(mu.Map); k == "xmpp.Session.sentStanzas" && mu.Delete && lf.Norm(mu.Key, nil) == "outer.p1" {
				ls, _ := lf.Graph().Locks(nil).AtNode(mu.Node)
				if ls.Has("xmpp.Session.sentStanzaMutex", true) && g.MustPassBefore(g.Entry(), spt, func(q eng.Point, nd ast.Node) bool { return nd == ast.Node(d) }, nil) {
					okDefer = true
				}
			}
		}
	}
	c.r.Check(id, f, "deferred removal of the waiter", "O: a deferred closure (installed before the send) deletes sentStanzas[id] under the mutex on every exit: late replies then go to the handler", f.Pos(), okDefer, "no deferred delete(sentStanzas, id) under sentStanzaMutex before SendElement")
	// the registered entry carries the channel, the request name and the context
	for _, cl := range f.WalkLits("xmpp.tokenReadChan") {
		pt, _ := g.Where(cl)
		get := func(n string) string {
			if v := structLitField(cl, n); v != nil {
				return f.Norm(v, &pt)
			}
			return ""
		}
		okl := get("stanzaName") == "p3.Name" && get("ctx") == "p0" && eng.Glob("local:*<chan *", get("c"))
		c.r.Check(id, f, "waiter entry", "K: the entry records the request's stanza name, a fresh channel and the caller's context", cl.Pos(), okl, "entry is "+get("stanzaName")+", "+get("c")+", "+get("ctx"))
	}
	// the wait: select {rr := <-c ; <-ctx.Done()}
	n := 0
	for _, ce := range g.EdgesMatching("selectarm(recv context.Context.Done[p0]())") {
		n++
		for _, nd := range g.ReachableNodes(g.EdgeTarget(ce.E), nil) {
			if rs, ok := nd.(*ast.ReturnStmt); ok {
				okr := len(rs.Results) == 2 && f.Norm(rs.Results[0], nil) == "nil" && f.Norm(rs.Results[1], nil) == "context.Context.Err[p0]()"
				c.r.Check("C06.2", f, "cancelled wait", "K: when the context ends first the call returns (nil, ctx.Err())", rs.Pos(), okr, "returns "+c.p.NodeStr(rs))
				break
			}
		}
	}
	c.r.Floor("C06.2", "ctx.Done() arm in sendResp", n, 1)
	for _, ce := range g.EdgesMatching("selectarm(recv *)") {
		isDone := false
		for _, a := range ce.Atoms {
			if strings.Contains(a.S, "Done[") {
				isDone = true
			}
		}
		if isDone {
			continue
		}
		for _, nd := range g.ReachableNodes(g.EdgeTarget(ce.E), nil) {
			if rs, ok := nd.(*ast.ReturnStmt); ok {
				c.r.Check("C06.2", f, "reply arm", "K: the reply arm returns the received response with a nil error", rs.Pos(), len(rs.Results) == 2 && f.Norm(rs.Results[1], nil) == "nil", "returns "+c.p.NodeStr(rs))
				break
			}
		}
	}
}

func c06Handoff(c *cx) { c06HandoffAs(c, "C06.2") }

func c06HandoffAs(c *cx, id string) {
	f := c.fn(id, "", "handleInputStream")
	if f == nil {
		return
	}
	g := f.Graph()
	n := 0
	for _, ce := range g.EdgesMatching("selectarm(send *.c)") {
		n++
		src := eng.Point{B: ce.E.B, I: len(g.Blocks[ce.E.B].Nodes)}
		// (until F132 the condition was `ok && exact || localOnly`; the rule
		// demanded that shape. It demands the two facts now.)
		okd, why := g.DominatedAny(src, []string{"commaok(p0.sentStanzas[*])"})
		var nameFacts []string
		if okd {
			nameFacts = g.DominatingAtoms(src, "*.stanzaName*")
			if len(nameFacts) == 0 {
				okd, why = false, "no dominating comparison with the request's stanza name"
			}
		}
		c.r.Check(id, f, "hand-off guarded by the table hit and the stanza name", "G: a reply is handed to a waiter only if one is registered under its id and the element name matches the request's", f.Pos(), okd, why)
		// F132: a request sent under an unqualified name ({"" iq}) is matched
		// by local name - but only against an element of a stanza namespace.
		// Every way the name test can hold is the exact name, or the local
		// name together with a test of the element's namespace.
		for _, nf := range nameFacts {
			djs := []string{nf}
			if strings.HasPrefix(nf, "or(") {
				djs = splitTop(nf[3:len(nf)-1], " | ")
			}
			bad := ""
			for _, dj := range djs {
				switch {
				case eng.Glob("eq(*.Name,*.stanzaName)", dj) || eng.Glob("eq(*.stanzaName,*.Name)", dj):
				case strings.HasPrefix(dj, "and(") && strings.Contains(dj, ".stanzaName") && strings.Contains(dj, ".Name.Space,"):
				default:
					bad = dj
				}
			}
			c.r.Check(id, f, "stanza name test of the hand-off", "G: the name matches exactly, or by local name for an element of a stanza namespace", f.Pos(), bad == "", "the hand-off is also taken when "+bad+": an element that is merely called iq in a foreign namespace is delivered as the response and never reaches the handler")
		}
		// ... and by nothing else: a reply of the right kind, name and id is the
		// answer, whoever's spelling of the address it carries (a raw comparison
		// of from with the request's to refuses room@Example.NET/me for
		// room@example.net/me: the waiter gets its context's error instead of
		// the room's answer, and the answer goes to the handler)
		{
			var extra []string
			for _, a := range g.FactsAt(src) {
				switch {
				case eng.Glob("commaok(p0.sentStanzas[*])", a), strings.Contains(a, ".stanzaName"),
					eng.Glob("or(eq(xmpp.getIDTyp(*)#3,*) | eq(xmpp.getIDTyp(*)#3,*))", a) && !strings.Contains(a, "sentStanzas"), eng.Glob("eq(xmpp.getIDTyp(*)#3,*)", a) && !strings.Contains(a, "sentStanzas"),
					strings.HasPrefix(a, "istype("), strings.HasPrefix(a, "!istype("), strings.HasPrefix(a, "eq(") && strings.HasSuffix(a, ",nil)"):
				default:
					extra = append(extra, a)
				}
			}
			c.r.Check(id, f, "hand-off [no other condition]", "G(exact): the hand-off depends on the table hit, the stanza name and the reply type only", f.Pos(), len(extra) == 0, "additional conditions: "+strings.Join(extra, " ; "))
		}
		okt, why2 := g.DominatedAny(src, []string{"or(eq(xmpp.getIDTyp(*)#3,\"error\") | eq(xmpp.getIDTyp(*)#3,\"result\"))"})
		c.r.Check(id, f, "hand-off only for replies", "G: only stanzas of type result or error are correlated", f.Pos(), okt, why2)
	}
	c.r.Floor(id, "hand-off select", n, 1)
	// once the reply was handed over, the serve loop waits (without any escape)
	// until the caller closes it: the caller owns the stream until then
	for _, ce := range g.EdgesMatching("selectarm(send *.c)") {
		from := g.EdgeTarget(ce.E)
		isPlainWait := func(q eng.Point, nd ast.Node) bool {
			es, ok := nd.(*ast.ExprStmt)
			if !ok {
				return false
			}
			u, ok := ast.Unparen(es.X).(*ast.UnaryExpr)
			if !ok || u.Op.String() != "<-" {
				return false
			}
			if cc, inSel := g.Parent(es).(*ast.CommClause); inSel && cc.Comm == ast.Stmt(es) {
				return false
			}
			return strings.HasSuffix(f.Norm(u.X, &q), ".c")
		}
		for _, cl := range f.Calls("mellium.im/xmlstream.Copy") {
			cp, _ := g.Where(cl)
			if !g.Reachable(from, cp, nil, nil) {
				continue
			}
			c.r.Check(id, f, "serve loop waits for the caller's Close", "O: after the hand-off every path to the discard of the rest passes an unconditional receive on the waiter's channel (closed by the caller's Close): the response belongs to the caller until then", cl.Pos(), g.MustPassBefore(from, cp, isPlainWait, nil), "the serve loop can go on (and consume the caller's response) without waiting for Close")
		}
	}
	// the select has a ctx.Done() escape arm of the waiter's context
	esc := g.EdgesMatching("selectarm(recv context.Context.Done[p0.sentStanzas[*].ctx]())")
	c.r.Check(id, f, "hand-off escape arm", "the serve loop does not wait for a caller whose context has ended", f.Pos(), len(esc) >= 1, "no ctx.Done() arm of the registered waiter's context")
	// unmatched replies reach the handler
	hcs := f.Calls("xmpp.Handler.HandleXMPP")
	if len(hcs) == 1 {
		hp, _ := g.Where(hcs[0])
		for _, ce := range g.EdgesMatching("or(!commaok(p0.sentStanzas[*]) | *") {
			c.r.Check(id, f, "unmatched reply falls through", "G: a reply nobody waits for (late, duplicate, unknown id, other stanza kind) goes to the handler", f.Pos(), g.Reachable(g.EdgeTarget(ce.E), hp, nil, nil), "handler not reachable from the no-waiter edge")
		}
	}
	// the table lookup is under the mutex
	for _, u := range fieldUsesIn(f, "xmpp.Session.sentStanzas") {
		ls, _ := g.Locks(nil).AtNode(u)
		c.r.Check("C06.1", f, "lookup of the waiter", "L: sentStanzas is read under sentStanzaMutex", u.Pos(), ls.Has("xmpp.Session.sentStanzaMutex", false), "lockset "+ls.String())
	}
}

// c06JoinCtx: the escape channel that the MUC join hand-off relies on must
// fire when Join returns: it is the Done() of a context derived in the same
// function whose cancel is deferred.
func c06JoinCtx(c *cx) {
	id := "C06.5"
	f := c.fn(id, "muc", "(*Channel).JoinPresence")
	if f == nil {
		return
	}
	g := f.Graph()
	n := 0
	for _, cl := range f.WalkLits("muc.joinCtx") {
		n++
		pt, _ := g.Where(cl)
		done := structLitField(cl, "done")
		got := ""
		if done != nil {
			got = f.Norm(done, &pt)
		}
		okd := eng.Glob("context.Context.Done[context.WithCancel(*)#0]()", got)
		// the cancel func of that context is deferred
		okDefer := false
		for _, d := range g.Defers {
			dp, _ := g.Where(d)
			if eng.Glob("context.WithCancel(*)#1", f.Norm(d.Call.Fun, &dp)) {
				okDefer = true
			}
		}
		c.r.Check(id, f, "escape channel of the join hand-off", "P: the done channel handed to the presence handler is Done() of a context derived here whose cancel is deferred (it fires when Join returns, so a stale hand-off never blocks the serve loop)", cl.Pos(), okd && okDefer, "done is "+got)
	}
	c.r.Floor(id, "joinCtx literals", n, 1)
}

// c06Waiters: blocking selects of the extension helpers have a ctx.Done() arm
// that returns ctx.Err().
func c06Waiters(c *cx) {
	id := "C06.5"
	for _, k := range [][2]string{
		{"muc", "(*Channel).JoinPresence"}, {"muc", "(*Channel).LeavePresence"},
		{"receipts", "(*Handler).SendMessageElement"}, {"ibb", "(*Listener).Expect"},
	} {
		f := c.fn(id, k[0], k[1])
		if f == nil {
			continue
		}
		var fns []*eng.Fn
		fns = append(fns, f)
		fns = append(fns, f.Lits...)
		n := 0
		for _, fn := range fns {
			for _, op := range chanOps(fn) {
				if op.kind != "send" && op.kind != "recv" {
					continue
				}
				if e, isExpr := op.node.(ast.Expr); isExpr && isDoneRecv(fn, e) {
					continue
				}
				n++
				if op.inSelect && op.hasDef {
					// a select with a default arm never blocks
					c.r.Check(id, fn, op.kind+" "+op.class+" (non-blocking)", "every blocking channel operation of the helper sits in a select with a ctx.Done() arm", op.node.Pos(), true, "")
					continue
				}
				c.r.Check(id, fn, op.kind+" "+op.class, "every blocking channel operation of the helper sits in a select with a ctx.Done() arm", op.node.Pos(), op.inSelect && op.escape, "blocking "+op.kind+" without a ctx.Done() arm")
			}
		}
		c.r.Floor(id, "channel operations in "+f.Short, n, 1)
		g := f.Graph()
		for _, ce := range g.EdgesMatching("selectarm(recv context.Context.Done[*]())") {
			for _, nd := range g.ReachableNodes(g.EdgeTarget(ce.E), nil) {
				if rs, ok := nd.(*ast.ReturnStmt); ok {
					pt, _ := g.Where(rs)
					last := f.Norm(rs.Results[len(rs.Results)-1], &pt)
					c.r.Check(id, f, "ctx.Done() arm result", "K: the cancelled arm returns the context's error", rs.Pos(), strings.HasPrefix(last, "context.Context.Err["), "returns "+last)
					break
				}
			}
		}
	}
}

// c06LateSelfPresenceToHandler (C06.27): a reply nobody waits for goes to the
// handler - for the MUC join hand-off: when the serve loop has taken a join
// record whose caller has given up (the done arm), the presence is not
// swallowed: every return reachable from that arm passes the dispatch to the
// user presence handler (the test of HandleUserPresence), or the loop goes
// back to look for another waiter.
func c06LateSelfPresenceToHandler(c *cx, id string) {
	f := c.fn(id, "muc", "(*Client).HandlePresence")
	if f == nil {
		return
	}
	g := f.Graph()
	isDispatch := func(q eng.Point, nd ast.Node) bool {
		found := false
		ast.Inspect(nd, func(x ast.Node) bool {
			if sel, ok := x.(*ast.SelectorExpr); ok && sel.Sel.Name == "HandleUserPresence" {
				found = true
			}
			return !found
		})
		return found
	}
	n := 0
	// a hand-off to ANOTHER waiting join completes the presence's journey as well
	handed := eng.Cut{}
	for _, ce := range g.EdgesMatching("selectarm(send *)") {
		handed[ce.E] = true
	}
	for _, ce := range g.EdgesMatching("selectarm(recv *.done)") {
		n++
		from := g.EdgeTarget(ce.E)
		bad := ""
		for _, rs := range g.Returns {
			rp, _ := g.Where(rs)
			if g.RetKindOf(rs) == eng.RetError {
				continue
			}
			if g.Reachable(from, rp, handed, isDispatch) {
				bad = "the return at " + c.p.Pos(rs.Pos()) + " is reached from the arm of a join that has given up without offering the presence to HandleUserPresence"
			}
		}
		c.r.Check(id, f, "presence for a join that has given up", "O: from the done arm of the join hand-off every non-error return passes the dispatch to the user presence handler", f.Pos(), bad == "", bad)
	}
	c.r.Floor(id, "done arms of the join hand-off", n, 1)
}

// c06WaiterWithdrawnOnEveryExit (C06.28 / C08.19): sendResp registers its waiter
// in Session.sentStanzas and then sends: whatever happens afterwards - also a
// failed send - the entry is removed when the call returns. Every return after
// the registration is preceded by the defer statement that deletes the entry
// (or by the delete itself): an entry left behind by a failed send makes the
// serve loop offer a later stanza with that id to nobody, for ever.
func c06WaiterWithdrawnOnEveryExit(c *cx, id string) {
	f := c.fn(id, "", "(*Session).sendResp")
	if f == nil {
		return
	}
	g := f.Graph()
	var reg *eng.MapUpdate
	mus := f.MapUpdates()
	for i := range mus {
		if k, _ := f.FieldClass(mus[i].Map); k == "xmpp.Session.sentStanzas" && !mus[i].Delete {
			reg = &mus[i]
		}
	}
	if reg == nil {
		c.r.Unresolved(id, "registration in Session.sentStanzas")
		return
	}
	rp0, _ := g.Where(reg.Node)
	isWithdraw := func(q eng.Point, nd ast.Node) bool {
		if ds, ok := nd.(*ast.DeferStmt); ok {
			if l, ok := ast.Unparen(ds.Call.Fun).(*ast.FuncLit); ok {
				if lf := c.p.FnOfLit(l); lf != nil {
					for _, mu := range lf.MapUpdates() {
						if k, _ := lf.FieldClass(mu.Map); k == "xmpp.Session.sentStanzas" && mu.Delete {
							return true
						}
					}
				}
			}
			return false
		}
		for _, mu := range mus {
			if mu.Delete && mu.Node == nd {
				if k, _ := f.FieldClass(mu.Map); k == "xmpp.Session.sentStanzas" {
					return true
				}
			}
		}
		return false
	}
	n := 0
	for _, rs := range g.Returns {
		rp, _ := g.Where(rs)
		if !g.Reachable(g.After(rp0), rp, nil, nil) {
			continue
		}
		n++
		c.r.Check(id, f, "waiter entry withdrawn", "E-res: every return after the registration in Session.sentStanzas has passed the (deferred) removal of the entry", rs.Pos(), g.MustPassBefore(g.After(rp0), rp, isWithdraw, nil), "this return leaves the entry behind (a failed send): the serve loop blocks offering a later stanza with this id to a waiter that does not exist")
	}
	c.r.Floor(id, "returns of sendResp after the registration", n, 2)
}

// c06ReceiptRegistrations (C06.35): a call that waits for a delivery receipt
// ends when the <received/> for its id arrives - in a message of any type,
// type error included (the peer's bounce of a message that carries the receipt
// is how a manually sent receipt comes back); requests are answered for every
// type except error. receipts.Handle registers exactly that table: received
// for the five message types, request for the four that are not error.
func c06ReceiptRegistrations(c *cx, id string) {
	f := c.fn(id, "receipts", "Handle")
	if f == nil {
		return
	}
	want := map[string]bool{}
	for _, t := range []string{"NormalMessage", "ChatMessage", "HeadlineMessage", "GroupChatMessage", "ErrorMessage"} {
		want["stanza."+t+"|received"] = true
		if t != "ErrorMessage" {
			want["stanza."+t+"|request"] = true
		}
	}
	got := map[string]bool{}
	var fns []*eng.Fn
	fns = append(fns, f)
	fns = append(fns, f.Lits...)
	undecided := ""
	for _, fn := range fns {
		for _, cl := range fn.Calls("mux.Message") {
			if len(cl.Args) < 2 {
				continue
			}
			typ := fn.Norm(cl.Args[0], nil)
			// the payload name: the Local field of the xml.Name the argument denotes
			// (a literal, or a local defined by one - whatever the local is called)
			name := ""
			nameExpr := ast.Unparen(cl.Args[1])
			if v := fn.Graph().LocalVar(nameExpr); v != nil {
				owner := fn
				if enc := fn.Prog.Enclosing(v.Pos()); enc != nil {
					owner = enc
				}
				for _, d := range owner.Graph().DefsOf(v) {
					if d.Kind == eng.DefPlain && d.RHS != nil {
						nameExpr = ast.Unparen(d.RHS)
					}
				}
			}
			if lit, ok := nameExpr.(*ast.CompositeLit); ok {
				if lv := structLitField(lit, "Local"); lv != nil {
					name, _ = fn.ConstStr(lv)
				}
			}
			if !strings.HasPrefix(typ, "stanza.") || name == "" {
				undecided = "registration with a computed type or name: " + fn.Prog.NodeStr(cl)
				continue
			}
			got[typ+"|"+name] = true
		}
	}
	var missing, extra []string
	for k := range want {
		if !got[k] {
			missing = append(missing, k)
		}
	}
	for k := range got {
		if !want[k] {
			extra = append(extra, k)
		}
	}
	sort.Strings(missing)
	sort.Strings(extra)
	why := undecided
	if len(missing)+len(extra) > 0 {
		why = "missing " + strings.Join(missing, ", ") + "; extra " + strings.Join(extra, ", ") + " " + undecided
	}
	c.r.Check(id, f, "registrations of the receipt handler", "T: received for all five message types, request for the four that are not error", f.Pos(), why == "", why)
}

// c06WaiterIDIsTheWireID (C06.36 / C08.26): the tracked senders register their
// waiter under the id the stanza goes out with. When the caller's start
// element has no id, or an empty one, an id is generated and written into the
// element, and that same id is handed to sendResp: no path reaches the
// sendResp call with the id variable possibly empty (every path crosses the
// edge id != "" or the generation). A sender that generates an id only when
// the attribute is MISSING registers an explicit id="" under the empty key:
// any id-less error stanza of the peer is then delivered to that waiter
// instead of the handler.
func c06WaiterIDIsTheWireID(c *cx, id string) {
	n := 0
	for _, name := range []string{"(*Session).SendIQ", "(*Session).SendMessage", "(*Session).SendPresence"} {
		f := c.fn(id, "", name)
		if f == nil {
			continue
		}
		g := f.Graph()
		cut := eng.Cut{}
		for _, ce := range g.EdgesMatching("!eq(xmpp.getIDTyp(*)#2,\"\")") {
			cut[ce.E] = true
		}
		generated := func(q eng.Point, nd ast.Node) bool {
			as, ok := nd.(*ast.AssignStmt)
			if !ok {
				return false
			}
			for _, r := range as.Rhs {
				if cl, ok := ast.Unparen(r).(*ast.CallExpr); ok && strings.HasPrefix(f.CalleeID(cl), "internal/attr.Random") {
					return true
				}
			}
			return false
		}
		for _, cl := range f.Calls("xmpp.Session.sendResp") {
			n++
			pt, _ := g.Where(cl)
			c.r.Check(id, f, "id the waiter is registered under", "G: every path to sendResp crosses id != \"\" or generates the id", cl.Pos(), !g.Reachable(g.Entry(), pt, cut, generated), "sendResp can be reached with an empty id: the waiter is registered under \"\" while the wire carries a generated id")
		}
	}
	c.r.Floor(id, "sendResp calls of the tracked senders", n, 3)
}
