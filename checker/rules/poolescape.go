package rules

import (
	"go/ast"
	"strings"
)

// pooledStorageDoesNotEscape (C05.23): a buffer that goes back to a sync.Pool
// when the function returns belongs to the next caller of Get from then on.
// Nothing the function returns (and nothing it stores into a field or sends on
// a channel) is derived from a value that the function hands to Pool.Put,
// directly or in a defer: a decoder over b.Bytes() that is read after the
// return - the transmit functions read their token reader after waiting for
// the output lock - sees what the next marshal call wrote into the buffer, and
// concurrent senders put each other's content on the wire.
//
// Returns the number of Pool.Put calls examined.
func pooledStorageDoesNotEscape(c *cx, id string) int {
	n := 0
	for _, f := range c.allFns() {
		puts := f.CallsDeep("sync.Pool.Put")
		if len(puts) == 0 {
			continue
		}
		g := f.Graph()
		for _, put := range puts {
			if len(put.Args) != 1 {
				continue
			}
			n++
			v := g.LocalVar(put.Args[0])
			if v == nil {
				// a closure of f: look the variable up in f as well
				v = rootLocal(f, put.Args[0])
			}
			if v == nil {
				c.r.Check(id, f, "value handed to Pool.Put", "the pooled value is a local variable", put.Pos(), false, "cannot follow "+f.Norm(put.Args[0], nil))
				continue
			}
			mentions := func(e ast.Node) bool {
				found := false
				ast.Inspect(e, func(x ast.Node) bool {
					if idn, ok := x.(*ast.Ident); ok && f.Info().Uses[idn] == v {
						found = true
					}
					return !found
				})
				return found
			}
			// locals derived from the pooled value (one level of definitions, to a fixed point)
			derived := map[interface{}]bool{v: true}
			for changed := true; changed; {
				changed = false
				for _, d := range g.AllDefs() {
					if derived[d.Var] || d.RHS == nil {
						continue
					}
					dep := false
					ast.Inspect(d.RHS, func(x ast.Node) bool {
						if idn, ok := x.(*ast.Ident); ok {
							if o := f.Info().Uses[idn]; o != nil && derived[o] {
								dep = true
							}
						}
						return !dep
					})
					if dep {
						derived[d.Var] = true
						changed = true
					}
				}
			}
			escapes := ""
			for _, rs := range g.Returns {
				for _, r := range rs.Results {
					bad := false
					ast.Inspect(r, func(x ast.Node) bool {
						if idn, ok := x.(*ast.Ident); ok {
							if o := f.Info().Uses[idn]; o != nil && derived[o] {
								// a plain number or bool computed from it (a length) is a copy
								if t := f.Info().TypeOf(r); t != nil && isScalar(t) {
									return true
								}
								bad = true
							}
						}
						return !bad
					})
					if bad {
						escapes = "returned at " + f.Prog.Pos(rs.Pos()) + ": " + f.Prog.NodeStr(r)
					}
				}
			}
			_ = mentions
			c.r.Check(id, f, "value handed to Pool.Put", "E-alias: nothing the function returns is derived from a value it puts back into a sync.Pool", put.Pos(), escapes == "", "storage of the pooled value is "+escapes+": the next Get hands the same storage to another caller while this result is still being read")
		}
	}
	return n
}

func isScalar(t interface{ String() string }) bool {
	s := t.String()
	switch {
	case s == "bool", s == "string", strings.HasPrefix(s, "int"), strings.HasPrefix(s, "uint"), strings.HasPrefix(s, "float"), s == "error":
		return true
	}
	return false
}
