package rules

import (
	"go/ast"
	"go/token"
	"go/types"

	"verif/checker/eng"
)

// iteratorsKeepTheirErrors (C19.45): an iterator reports failure through
// Next() == false together with Err(). A Next method of a type with an err
// field that finds a local error non-nil stores it into the field before it
// gives up: from the non-nil edge of a test of a local error variable, no
// return is reached without a store into the receiver's err field (or the
// error being handed to a call). A decode helper whose error is tested and
// then dropped ends the iteration with Err() == nil: the caller gets neither
// the item nor an error.
//
// Returns the number of error tests examined.
func iteratorsKeepTheirErrors(c *cx, id string) int {
	n := 0
	for _, f := range c.allFns() {
		if f.Decl == nil || f.Decl.Recv == nil || f.Decl.Name.Name != "Next" {
			continue
		}
		recv := f.Sig().Recv()
		rt := recv.Type()
		if p, ok := rt.(*types.Pointer); ok {
			rt = p.Elem()
		}
		st, ok := rt.Underlying().(*types.Struct)
		if !ok {
			continue
		}
		hasErr := false
		for i := 0; i < st.NumFields(); i++ {
			if st.Field(i).Name() == "err" && types.Identical(st.Field(i).Type(), types.Universe.Lookup("error").Type()) {
				hasErr = true
			}
		}
		if !hasErr {
			continue
		}
		g := f.Graph()
		for _, b := range g.Blocks {
			if !b.Live || len(b.Succs) != 2 || len(b.Nodes) == 0 {
				continue
			}
			cond, ok := b.Nodes[len(b.Nodes)-1].(ast.Expr)
			if !ok {
				continue
			}
			// (a named condition `failed := err != nil; if failed {` stands for its expression)
			be, ok := ast.Unparen(resolveBool(f, cond)).(*ast.BinaryExpr)
			if !ok || (be.Op != token.NEQ && be.Op != token.EQL) {
				continue
			}
			var v *types.Var
			if isNilIdent(f, be.Y) {
				v = g.LocalVar(be.X)
			} else if isNilIdent(f, be.X) {
				v = g.LocalVar(be.Y)
			}
			if v == nil || !types.Identical(v.Type(), types.Universe.Lookup("error").Type()) {
				continue
			}
			n++
			si := 0
			if be.Op == token.EQL {
				si = 1
			}
			from := eng.Point{B: int(b.Succs[si].Index), I: 0}
			kept := func(q eng.Point, nd ast.Node) bool {
				found := false
				ast.Inspect(nd, func(x ast.Node) bool {
					switch y := x.(type) {
					case *ast.AssignStmt:
						for i, l := range y.Lhs {
							if k, isF := f.FieldClass(l); isF && len(k) > 4 && k[len(k)-4:] == ".err" && i < len(y.Rhs) {
								found = true
							}
						}
					case *ast.CallExpr:
						for _, a := range y.Args {
							if g.LocalVar(a) == v {
								found = true
							}
						}
					case *ast.ReturnStmt:
						for _, r := range y.Results {
							if g.LocalVar(r) == v {
								found = true
							}
						}
					}
					return !found
				})
				return found
			}
			bad := token.NoPos
			for _, rs := range g.Returns {
				rp, ok := g.Where(rs)
				if !ok || kept(rp, rs) {
					continue
				}
				if g.Reachable(from, rp, nil, kept) {
					bad = rs.Pos()
					break
				}
			}
			c.r.Check(id, f, "failed step of the iterator ("+v.Name()+")", "O: an iterator that gives up on an error records it for Err()", cond.Pos(), bad == token.NoPos, "the return at "+f.Prog.Pos(bad)+" is reached from the failure without a store into the err field: the iteration ends and Err() is nil")
		}
	}
	return n
}
