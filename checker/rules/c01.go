package rules

import (
	"fmt"
	"go/ast"
	"go/token"
	"go/types"
	"sort"
	"strings"

	"golang.org/x/tools/go/cfg"

	"verif/checker/eng"
)

func init() {
	Registry["C01"] = Rule{
		Meta: eng.Meta{
			Explanation: "Static guard/order rules over the negotiation functions (negotiateFeatures, readStreamFeatures, writeStreamFeatures, negotiateSession, the negotiator closure): each mechanism that makes 'features are negotiated only when allowed, in order, at most once' true is shown to be present on EVERY path by edge-dominance over the go/cfg graph with branch facts in a rename-stable normal form (C01.1-C01.14, DESIGN.md section 2). Holds for every advertisement order, map iteration order and feature set because it is a fact about all paths of the code, not about a transcript.",
			NotDecided:  "the values of Necessary/Prohibited masks of third-party features; what a feature's own Negotiate does; WebSocket framing beyond the ws flag; that distinct dominance facts are jointly satisfiable at run time.",
			Trusted:     trustedCommon,
			Assumptions: []string{"negotiation runs on a single goroutine (by design of negotiateSession)", "Go maps keyed by namespace behave as maps"},
		},
		Run: runC01,
	}
}

const (
	recvRole = "all(*.state,xmpp.Received)"
	initRole = "!all(*.state,xmpp.Received)"
	negPat   = "field:xmpp.StreamFeature.Negotiate"
)

// negotiateSite resolves, by role, the function of the root package that calls
// StreamFeature.Negotiate and that call.
func negotiateSite(c *cx, id string) (*eng.Fn, *ast.CallExpr) {
	var hits []*eng.Fn
	var calls []*ast.CallExpr
	for _, f := range c.allFns() {
		if f.Pkg.PkgPath != eng.ModPath {
			continue
		}
		cs := f.Calls(negPat)
		if len(cs) > 0 {
			hits = append(hits, f)
			calls = append(calls, cs...)
		}
	}
	if len(hits) != 1 || len(calls) != 1 {
		c.r.CheckNamed(id, "-", "anchor:call of StreamFeature.Negotiate", "anchor resolution (exactly one call site)", token.NoPos, false,
			fmt.Sprintf("expected exactly one call of %s in package xmpp, found %d in %d functions", negPat, len(calls), len(hits)))
		return nil, nil
	}
	return hits[0], calls[0]
}

// rootLocal returns the local variable at the root of a selector chain.
func rootLocal(f *eng.Fn, e ast.Expr) *types.Var {
	for {
		switch x := ast.Unparen(e).(type) {
		case *ast.SelectorExpr:
			e = x.X
		case *ast.IndexExpr:
			e = x.X
		case *ast.StarExpr:
			e = x.X
		case *ast.Ident:
			o := f.Info().Uses[x]
			if o == nil {
				o = f.Info().Defs[x]
			}
			if v, ok := o.(*types.Var); ok && eng.IsLocal(v) {
				return v
			}
			return nil
		default:
			return nil
		}
	}
}

func runC01(p *eng.Prog, r *eng.Report, tier string) {
	c := &cx{p, r, tier}
	r18EndElementEndsTheList(c, "C01.29")
	r17NegotiatorStateOnlyFromTheNegotiator(c, "C01.27")
	r17ParsedDataAlwaysRecorded(c, "C01.28")
	c.r.Floor("C01.26", "reads of the prerequisite masks", prerequisitesOnlyTested(c, "C01.26"), 6)
	c.r.Floor("C01.25", "deferred releases of a mutex", deferredReleaseNotInLoop(c, "C01.25"), 20)
	negotiatorMaskFromFeatures(c, "C01.23")
	newLayerOnlyAtRestart(c, "C01.24")
	callerSlicesNotRewritten(c, "C01.16", negSet(c, "C01.16"))
	depthCountersDoNotWrap(c, "C01.20")
	// C01.21 "a restart always begins with a fresh stream header": what Expect
	// accepts as the header is the stream element of the stream namespace (C12.2)
	c12ExpectAs(c, "C01.21")
	c01CachedMandatoryFlag(c, "C01.17")
	c01FeaturesConfiguredPerStep(c, "C01.18")
	c01FeatureMatchedByName(c, "C01.19")
	nf, call := negotiateSite(c, "C01.1")
	firstParam := ""
	if nf != nil {
		firstParam = c01NegotiateFeatures(c, nf, call)
	}
	// C01.15: "the sole exception is STARTTLS on the FIRST features list" —
	// the indicator handed to negotiateFeatures is true exactly until a list
	// has been consumed (same rule as C02.2)
	c02First(c, "C01.15", nf, firstParam)
	c01StateWrites(c)
	c01Read(c)
	c01Write(c)
	c01Session(c)
	c01Negotiator(c)
}

// c01NegotiateFeatures returns the name (p<i>) of the first-list indicator
// parameter, if it could be identified.
func c01NegotiateFeatures(c *cx, nf *eng.Fn, call *ast.CallExpr) (firstParam string) {
	g := nf.Graph()
	callPt, ok := c.site("C01.1", nf, call, "call "+negPat)
	if !ok {
		return
	}
	sel := ast.Unparen(call.Fun).(*ast.SelectorExpr) // data.feature.Negotiate
	dataVar := rootLocal(nf, sel.X)
	if dataVar == nil {
		c.r.Check("C01.1", nf, "call "+negPat, "receiver of the call is rooted in a local (the selected feature)", call.Pos(), false, "receiver is not a local-rooted selector")
		return
	}
	dataStr := "local:" + dataVar.Name() + "<" + eng.TypeStr(dataVar.Type()) + ">"
	callNorm := nf.Norm(call, &callPt)

	// ---- C01.1 receiver refusal ------------------------------------------
	recvCut := g.CutFor(recvRole)
	defs := g.ReachingDefsCut(dataVar, callPt, recvCut)
	var key string
	okDefs := len(defs) == 1 && defs[0].Kind == eng.DefCommaOk && defs[0].Index == 0
	why := ""
	if okDefs {
		ix, isIx := ast.Unparen(defs[0].RHS).(*ast.IndexExpr)
		if !isIx {
			okDefs, why = false, "definition is not a map lookup"
		} else if cls, _ := nf.FieldClass(ix.X); cls != "xmpp.streamFeaturesList.cache" {
			okDefs, why = false, "looked-up map is "+cls+", want xmpp.streamFeaturesList.cache"
		} else {
			key = nf.Norm(ix.Index, &defs[0].At)
		}
	} else {
		why = fmt.Sprintf("%d definitions reach the call on the receiver path", len(defs))
	}
	c.r.Check("C01.1", nf, "selected feature (receiver)", "on the receiver path the negotiated feature is exactly the comma-ok lookup of the advertised-features cache", call.Pos(), okDefs, why)
	if okDefs {
		cachePat := "commaok(*.cache[" + key + "])"
		c.dom("C01.1", nf, call, "call "+negPat+" [advertised]", []string{cachePat}, recvRole)
		c.dom("C01.1", nf, call, "call "+negPat+" [not yet negotiated]", []string{"!commaok(*.negotiated[" + key + "])"}, recvRole)
		c.dom("C01.1", nf, call, "call "+negPat+" [negotiable]", []string{"!eq(*.cache[" + key + "].feature.Negotiate,nil)"}, recvRole)
		c.dom("C01.1", nf, call, "call "+negPat+" [prerequisites hold now]", []string{"all(*.state,*.cache[" + key + "].feature.Necessary)", "none(*.state,*.cache[" + key + "].feature.Prohibited)"}, recvRole)
		// refusal edges: siblings of the edges that establish the three facts
		nref := 0
		for _, pat := range []string{cachePat, "!commaok(*.negotiated[" + key + "])", "!eq(*.cache[" + key + "].feature.Negotiate,nil)"} {
			for _, ce := range g.EdgesMatching(pat) {
				sib := eng.Edge{B: ce.E.B, S: 1 - ce.E.S}
				tgt := g.EdgeTarget(sib)
				bad := ""
				for _, n := range g.ReachableNodes(tgt, nil) {
					if cc := nf.ContainsCall(n, negPat); cc != nil {
						bad = "the refusal edge can reach a call of Negotiate"
					}
					if rs, ok := n.(*ast.ReturnStmt); ok && g.RetKindOf(rs) != eng.RetError {
						bad = "the refusal edge reaches a return that is not an error return at " + c.p.Pos(rs.Pos())
					}
				}
				nref++
				c.r.Check("C01.1", nf, "refusal edge of "+pat, "refusal returns a non-nil error and never runs the feature", edgePos(g, nf, ce.E.B), bad == "", bad)
			}
		}
		c.r.Floor("C01.1", "refusal edges", nref, 1)
	}

	// ---- C01.2 / C01.4: initiator selection -----------------------------------
	initCut := g.CutFor(initRole)
	idefs := g.ReachingDefsCut(dataVar, callPt, initCut)
	nSel, nForced := 0, 0
	var forcedAtoms []string
	for _, d := range idefs {
		switch {
		case d.Kind == eng.DefZero:
			// zero value: must be excluded by the "no candidate" test (C01.9 licence 2)
			c.dom("C01.2", nf, call, "call "+negPat+" [a candidate was selected]", []string{"!eq(" + dataStr + ".feature.Name.Local,\"\")"}, initRole)
		case d.Kind == eng.DefPlain && d.RHS != nil:
			rhs := ast.Unparen(d.RHS)
			if cl, ok := rhs.(*ast.CompositeLit); ok {
				// forced STARTTLS selection
				nForced++
				var feat ast.Expr
				req := false
				for _, el := range cl.Elts {
					if kv, ok := el.(*ast.KeyValueExpr); ok {
						if k, ok := kv.Key.(*ast.Ident); ok {
							switch k.Name {
							case "feature":
								feat = kv.Value
							case "req":
								if v := nf.ConstVal(kv.Value); v != nil && v.ExactString() == "true" {
									req = true
								}
							}
						}
					}
				}
				c.r.Check("C01.4", nf, "forced selection literal", "the forced selection is mandatory (req: true) and names a feature", cl.Pos(), req && feat != nil, "literal lacks req:true or feature")
				pats := []string{"!commaok(*.cache[internal/ns.StartTLS])", "xmpp.containsStartTLS(*)#1", "eq(*.Name.Space,internal/ns.StartTLS)"}
				c.dom("C01.4", nf, d.Node, "forced STARTTLS selection", pats, initRole)
				// not secure: through State() or the state field
				sec := g.DominatingAtoms(d.At, "!all(*,xmpp.Secure)", initRole)
				c.r.Check("C01.4", nf, "forced STARTTLS selection [not secure]", "G: dominated by Secure bit clear", d.Node.Pos(), len(sec) > 0, "no dominating test that the Secure bit is clear")
				// a bool parameter (the first-list indicator)
				var params []string
				for _, a := range g.DominatingAtoms(d.At, "p*", initRole) {
					if len(a) == 2 {
						params = append(params, a)
					}
				}
				if len(params) == 1 {
					firstParam = params[0]
				}
				c.r.Check("C01.4", nf, "forced STARTTLS selection [first list]", "G: dominated by exactly one boolean parameter (the first-features-list indicator)", d.Node.Pos(), len(params) == 1, fmt.Sprintf("dominating boolean parameters: %v", params))
				// the exemption covers "was advertised" only: the forced attempt is
				// still subject to the feature's own prerequisites and must be
				// negotiable at all (a configured STARTTLS-namespace feature with
				// Necessary bits, or an informational one with a nil Negotiate)
				if feat != nil {
					fn := nf.Norm(feat, &d.At)
					c.dom("C01.4", nf, d.Node, "forced STARTTLS selection [negotiable]", []string{"!eq(" + fn + ".Negotiate,nil)"}, initRole)
					c.dom("C01.4", nf, d.Node, "forced STARTTLS selection [prerequisites hold now]", []string{"all(*.state," + fn + ".Necessary)", "none(*.state," + fn + ".Prohibited)"}, initRole)
				}
				// ... and to nothing else: the attempt is the protection against a
				// peer (or a man in the middle) that leaves STARTTLS out of its
				// list. One more precondition - the framing, a version, a
				// configuration flag - is a way to switch it off (C02.19).
				c.onlyFacts("C01.4", nf, d.Node, "forced STARTTLS selection [no other precondition]", []string{
					"!commaok(*.cache[internal/ns.StartTLS])", "xmpp.containsStartTLS(*)#1", "eq(*.Name.Space,internal/ns.StartTLS)",
					"!all(*,xmpp.Secure)", "!eq(*.Negotiate,nil)", "all(*.state,*.Necessary)", "none(*.state,*.Prohibited)",
					"!all(*.state,xmpp.Received)", "!all(xmpp.Session.State[*](),xmpp.Received)", "eq(*#1,nil)", "eq(*,nil)", "istype(*)", "commaok(*Token[*]()#0.(encoding/xml.StartElement))", firstParam,
				}, initRole)
				forcedAtoms = append([]string{}, pats[:2]...)
				forcedAtoms = append(forcedAtoms, sec...)
				forcedAtoms = append(forcedAtoms, params...)
			} else if id, ok := rhs.(*ast.Ident); ok {
				// data = v with v ranging over the cache
				v := rootLocal(nf, id)
				var vd *eng.Def
				if v != nil {
					vd = g.UniqueDef(v, d.At)
				}
				isRange := vd != nil && vd.Kind == eng.DefRange && vd.Index == 1
				if isRange {
					cls, _ := nf.FieldClass(vd.RHS)
					isRange = cls == "xmpp.streamFeaturesList.cache"
				}
				if !c.r.Check("C01.2", nf, "initiator selection source", "candidates range over the advertised-features cache only", d.Node.Pos(), isRange, "selected value is not a range value over streamFeaturesList.cache") {
					continue
				}
				nSel++
				c.dom("C01.2", nf, d.Node, "initiator selection", []string{
					"!commaok(*.negotiated[rangeval(*.cache).feature.Name.Space])",
					"!eq(rangeval(*.cache).feature.Negotiate,nil)"}, initRole)
				// ... and only while the CURRENT state satisfies its prerequisites
				// (a feature negotiated earlier from the same list may have
				// changed the state since the list was read)
				c.dom("C01.2", nf, d.Node, "initiator selection [prerequisites hold now]", []string{
					"all(*.state,rangeval(*.cache).feature.Necessary)",
					"none(*.state,rangeval(*.cache).feature.Prohibited)"}, initRole)
			} else {
				c.r.Check("C01.2", nf, "initiator selection source", "selection is a cache entry or the forced STARTTLS literal", d.Node.Pos(), false, "unexpected definition of the selected feature: "+c.p.NodeStr(d.Node))
			}
		default:
			c.r.Check("C01.2", nf, "initiator selection source", "selection is a cache entry or the forced STARTTLS literal", d.Node.Pos(), false, "unexpected definition of the selected feature: "+c.p.NodeStr(d.Node))
		}
	}
	c.r.Floor("C01.2", "initiator selections from the cache", nSel, 1)
	c.r.Floor("C01.4", "forced STARTTLS selection", nForced, 1)
	c.r.Ceil("C01.4", "forced STARTTLS selection", nForced, 1)

	// ---- C01.3 voluntary first -----------------------------------------------
	nBreak := 0
	for _, b := range g.Blocks {
		if !b.Live || b.Kind != cfg.KindRangeDone {
			continue
		}
		rs := b.Stmt.(*ast.RangeStmt)
		if cls, _ := nf.FieldClass(rs.X); cls != "xmpp.streamFeaturesList.cache" {
			continue
		}
		// predecessors of the done block other than the loop head are breaks
		for _, pb := range g.Blocks {
			if !pb.Live || pb.Kind == cfg.KindRangeLoop {
				continue
			}
			for _, s := range pb.Succs {
				if s == b {
					nBreak++
					end := eng.Point{B: int(pb.Index), I: len(pb.Nodes)}
					pos := rs.Pos()
					if len(pb.Nodes) > 0 {
						pos = pb.Nodes[len(pb.Nodes)-1].Pos()
					}
					c.domPt("C01.3", nf, end, pos, "break out of the candidate loop", []string{"!rangeval(*.cache).req"}, initRole)
				}
			}
		}
		// a mandatory candidate is only tentatively selected: the search goes on
		for _, d := range idefs {
			if d.Kind != eng.DefPlain || d.RHS == nil {
				continue
			}
			if _, isId := ast.Unparen(d.RHS).(*ast.Ident); !isId {
				continue
			}
			if ok, _ := g.Dominated(d.At, "!rangeval(*.cache).req", initRole); ok {
				continue
			}
			// cut the loop head's out-edges: the done block must then be unreachable
			cut := eng.Cut{}
			for _, hb := range g.Blocks {
				if hb.Kind == cfg.KindRangeLoop && hb.Stmt == rs {
					cut[eng.Edge{B: int(hb.Index), S: 0}] = true
					cut[eng.Edge{B: int(hb.Index), S: 1}] = true
				}
			}
			leaves := g.Reachable(g.After(d.At), eng.Point{B: int(b.Index), I: 0}, cut, nil)
			c.r.Check("C01.3", nf, "tentative selection of a mandatory feature", "after selecting a mandatory candidate the search continues (no break)", d.Node.Pos(), !leaves, "selection of a mandatory feature leaves the loop directly")
		}
	}
	c.r.Floor("C01.3", "breaks guarded by !req", nBreak, 1)

	// ---- C01.5 negotiated recorded --------------------------------------------
	isMark := func(pt eng.Point, n ast.Node) bool {
		as, ok := n.(*ast.AssignStmt)
		if !ok {
			return false
		}
		for _, l := range as.Lhs {
			ix, ok := ast.Unparen(l).(*ast.IndexExpr)
			if !ok {
				continue
			}
			if cls, _ := nf.FieldClass(ix.X); cls == "xmpp.Session.negotiated" {
				if nf.Norm(ix.Index, &pt) == dataStr+".feature.Name.Space" {
					return true
				}
			}
		}
		return false
	}
	bad := ""
	// paths on which the step is known to have failed end the negotiation with
	// that error (C04.1) and are exempt: the negotiated set is not used again
	failCut := eng.Cut{}
	for _, ce := range g.EdgesMatching("!eq(" + callNorm + "#2,nil)") {
		failCut[ce.E] = true
	}
	if g.Reachable(g.After(callPt), callPt, failCut, isMark) {
		bad = "the loop can come back to Negotiate without recording the feature as negotiated"
	}
	for _, rs := range g.Returns {
		pt, _ := g.Where(rs)
		if g.Reachable(g.After(callPt), pt, failCut, isMark) {
			bad = "return at " + c.p.Pos(rs.Pos()) + " reachable after a successful Negotiate without recording the feature as negotiated"
		}
	}
	c.r.Check("C01.5", nf, "store into Session.negotiated", "O: after Negotiate every path to the back-edge, and every path to an exit on which the step did not fail, records the feature's namespace in Session.negotiated", call.Pos(), bad == "", bad)

	// ---- C01.6 stop after a mandatory feature or a restart -----------------------
	reenter := g.Reachable(g.After(callPt), callPt, nil, nil)
	if reenter {
		// every way back to Negotiate crosses an edge establishing rw == nil and
		// an edge establishing !data.req (checked separately: the two tests may
		// sit on different edges, e.g. the cases of a switch)
		pat1 := "eq(" + callNorm + "#1,nil)"
		pat2 := "!" + dataStr + ".req"
		okBoth := true
		for _, pat := range []string{pat1, pat2} {
			if !g.DominatedFrom(g.After(callPt), callPt, []string{pat}) {
				okBoth = false
			}
		}
		c.r.Check("C01.6", nf, "loop back-edge after Negotiate", "G: the loop continues only if no new stream layer was returned and the feature was voluntary", call.Pos(), okBoth,
			"Negotiate can be reached again without passing the tests rw == nil and !req")
	} else {
		c.r.Check("C01.6", nf, "loop back-edge after Negotiate", "G: (no back-edge: at most one feature per call)", call.Pos(), true, "")
	}

	// ---- C01.7 mask applied only on success -------------------------------------
	nw := 0
	for _, w := range nf.FieldWrites("xmpp.Session.state") {
		nw++
		c.dom("C01.7", nf, w.Stmt, "s.state |= mask", []string{"eq(" + callNorm + "#2,nil)"})
	}
	c.r.Floor("C01.7", "state writes in "+nf.Short, nw, 1)

	// ---- C01.9 no Ready together with a restart ------------------------------------
	// a feature may report the end of the negotiation through its mask (resource
	// binding does), but not together with a new stream layer: the features of
	// the restarted stream, possibly mandatory ones, have not been read and the
	// restart itself would be skipped. On every path from Negotiate to a use of
	// its mask that does not establish rw == nil the Ready bit is cleared first.
	if as, ok := g.Parent(call).(*ast.AssignStmt); ok && len(as.Lhs) == 3 {
		if mid, ok := as.Lhs[0].(*ast.Ident); ok {
			mv := nf.Info().ObjectOf(mid)
			isClear := func(q eng.Point, n ast.Node) bool {
				a, ok := n.(*ast.AssignStmt)
				if !ok || len(a.Lhs) != 1 || len(a.Rhs) != 1 {
					return false
				}
				l, ok := ast.Unparen(a.Lhs[0]).(*ast.Ident)
				if !ok || nf.Info().ObjectOf(l) != mv {
					return false
				}
				switch a.Tok {
				case token.AND_NOT_ASSIGN:
					v, okc := nf.ConstInt(a.Rhs[0])
					return okc && v&4 != 0
				case token.ASSIGN:
					be, ok := ast.Unparen(a.Rhs[0]).(*ast.BinaryExpr)
					if !ok || be.Op != token.AND_NOT {
						return false
					}
					x, okx := ast.Unparen(be.X).(*ast.Ident)
					v, okc := nf.ConstInt(be.Y)
					return okx && nf.Info().ObjectOf(x) == mv && okc && v&4 != 0
				}
				return false
			}
			mentions := func(n ast.Node) bool {
				found := false
				ast.Inspect(n, func(x ast.Node) bool {
					if idn, ok := x.(*ast.Ident); ok && nf.Info().ObjectOf(idn) == mv {
						found = true
					}
					return !found
				})
				return found
			}
			// paths that establish "no new stream layer" are exempt
			nilCut := eng.Cut{}
			for _, pat := range []string{"eq(" + callNorm + "#1,nil)", "eq(local:*<io.ReadWriter>,nil)", "eq(r1,nil)"} {
				for _, ce := range g.EdgesMatching(pat) {
					nilCut[ce.E] = true
				}
			}
			nUse := 0
			for _, w := range nf.FieldWrites("xmpp.Session.state") {
				if w.RHS == nil || !mentions(w.RHS) {
					continue
				}
				wpt, okw := g.Where(w.Stmt)
				if !okw || !g.Reachable(g.After(callPt), wpt, nil, nil) {
					continue
				}
				nUse++
				c.r.Check("C01.9", nf, "feature mask applied to the state: no Ready with a restart", "O: on every path from Negotiate to s.state |= mask that does not establish rw == nil the Ready bit is cleared from the mask", w.Stmt.Pos(), g.MustPassBefore(g.After(callPt), wpt, isClear, nilCut), "a feature that returns Ready together with a new stream layer sets the session's Ready bit: negotiation ends without the restart and with the restarted stream's features unread")
			}
			for _, rs := range g.Returns {
				rpt, _ := g.Where(rs)
				if len(rs.Results) == 0 || !mentions(rs.Results[0]) || g.RetKindOf(rs) == eng.RetError || !g.Reachable(g.After(callPt), rpt, nil, nil) {
					continue
				}
				nUse++
				c.r.Check("C01.9", nf, "feature mask returned: no Ready with a restart", "O: on every path from Negotiate to the return of its mask that does not establish rw == nil the Ready bit is cleared", rs.Pos(), g.MustPassBefore(g.After(callPt), rpt, isClear, nilCut), "a feature that returns Ready together with a new stream layer makes the negotiator report the session established")
			}
			c.r.Floor("C01.9", "uses of the feature's mask", nUse, 2)
			// the converse: without a restart the feature's Ready bit is kept.
			// Resource binding ends the negotiation through its mask; clearing
			// the bit unconditionally leaves every session waiting for a
			// features list that never comes.
			// (C01.22: the bit is withheld while another eligible mandatory feature
			// of the same advertisement is left; that licence is assumed away here)
			keepCut := g.CutFor("eq("+callNorm+"#1,nil)", "eq(r1,nil)", "!xmpp.mandatoryLeft(*)")
			stripped := ""
			for _, b := range g.Blocks {
				if !b.Live {
					continue
				}
				for i, n := range b.Nodes {
					q := eng.Point{B: int(b.Index), I: i}
					if isClear(q, n) && g.Reachable(g.After(callPt), q, keepCut, nil) {
						stripped = "the statement at " + c.p.Pos(n.Pos()) + " clears Ready also when no new stream layer was returned: a session never becomes ready after resource binding"
					}
				}
			}
			c.r.Check("C01.9", nf, "Ready of a feature that does not restart the stream is kept", "O: assuming rw == nil no statement that clears Ready from the feature's mask is reachable from Negotiate", call.Pos(), stripped == "", stripped)
			// ---- C01.22 a feature's Ready does not end the negotiation while an
			// eligible mandatory feature of the same advertisement is left ---------
			leftCut := g.CutFor("eq("+callNorm+"#2,nil)", "all(*,xmpp.Ready)", "xmpp.mandatoryLeft(*)")
			nLeft := 0
			for _, rs := range g.Returns {
				rpt, _ := g.Where(rs)
				if len(rs.Results) == 0 || !mentions(rs.Results[0]) || g.RetKindOf(rs) == eng.RetError || !g.Reachable(g.After(callPt), rpt, nil, nil) {
					continue
				}
				nLeft++
				c.r.Check("C01.22", nf, "feature mask returned: no Ready with an eligible mandatory feature left", "O: on every path from Negotiate to the return of its mask on which the mask carries Ready and mandatoryLeft holds, the Ready bit is cleared", rs.Pos(), g.MustPassBefore(g.After(callPt), rpt, isClear, leftCut), "a mandatory feature that reports Ready (as resource binding does) ends the negotiation although another mandatory feature of the same advertisement is eligible and has not been negotiated")
			}
			c.r.Floor("C01.22", "returns of the feature's mask", nLeft, 1)
			c01MandatoryLeft(c, "C01.22")
		}
	}

	// ---- C01.9 Ready licences -----------------------------------------------------
	notForced := ""
	if len(forcedAtoms) > 0 {
		var neg []string
		for _, a := range forcedAtoms {
			neg = append(neg, eng.Negate(a))
		}
		sort.Strings(neg)
		notForced = "or(" + strings.Join(neg, " | ") + ")"
	}
	nReady := 0
	nf.WalkBody(func(n ast.Node) bool {
		e, ok := n.(ast.Expr)
		if !ok {
			return true
		}
		tv, ok := nf.Info().Types[e]
		if !ok || tv.Value == nil || eng.TypeStr(tv.Type) != "xmpp.SessionState" {
			return true
		}
		v, _ := nf.ConstInt(e)
		if v&4 == 0 {
			return true
		}
		// e produces the Ready bit; find the statement
		st := stmtOf(nf, e)
		// ... unless it is the operand that is cleared (x &^ Ready, x &^= Ready)
		if a, ok := st.(*ast.AssignStmt); ok && a.Tok == token.AND_NOT_ASSIGN {
			return true
		}
		if be, ok := g.Parent(e).(*ast.BinaryExpr); ok && be.Op == token.AND_NOT && be.Y == e {
			return true
		}
		// ... or an operand of a test of the bit (x&Ready == Ready): a mask
		// ANDed with Ready gains nothing, a comparison produces a boolean
		if be, ok := g.Parent(e).(*ast.BinaryExpr); ok && (be.Op == token.AND || be.Op == token.EQL || be.Op == token.NEQ) {
			return true
		}
		pt, okp := g.Where(st)
		if !okp {
			return false
		}
		nReady++
		lic := [][]string{
			{"eq(*.total,0)", notForced},
			{"eq(" + dataStr + ".feature.Name.Local,\"\")"},
			{"!local:*<*xmpp.streamFeaturesList>.req"},
		}
		okAny := false
		var tried []string
		for _, l := range lic {
			all := true
			for _, pat := range l {
				if pat == "" {
					all = false
					break
				}
				if ok, _ := g.Dominated(pt, pat); !ok {
					// a disjunction is also established by any single disjunct
					one := false
					if pat == notForced {
						for _, a := range forcedAtoms {
							if ok, _ := g.Dominated(pt, eng.Negate(a)); ok {
								one = true
							}
						}
					}
					if !one {
						all = false
					}
				}
			}
			tried = append(tried, "{"+strings.Join(l, " ; ")+"}")
			if all {
				okAny = true
			}
		}
		// a mask that gains Ready AFTER a feature was negotiated (not one of the
		// `return Ready, nil, nil` exits) is returned together with rw: no
		// restart may be pending, the features of the restarted stream have not
		// been seen yet
		if as, isAssign := st.(*ast.AssignStmt); isAssign && as.Tok == token.OR_ASSIGN {
			okr, whyr := g.DominatedAny(pt, []string{"eq(local:*<io.ReadWriter>,nil)", "eq(r1,nil)", "eq(*Negotiate*#1,nil)"})
			c.r.Check("C01.9", nf, "Ready only without a pending restart: "+c.p.NodeStr(st), "G: Ready is not reported together with a new stream layer (the restarted stream's features, possibly mandatory ones, have not been read)", e.Pos(), okr, whyr)
		}
		c.r.Check("C01.9", nf, "Ready produced: "+c.p.NodeStr(st), "G: the Ready bit is produced only under one of the licences (empty list and no forced STARTTLS; no candidate left; no mandatory feature advertised)", e.Pos(), okAny, "not dominated by any licence of "+strings.Join(tried, " or "))
		return false
	})
	c.r.Floor("C01.9", "Ready-producing expressions", nReady, 2)
	if firstParam != "" {
		c.r.Note("first-list indicator of %s is parameter %s", nf.Short, firstParam)
	}
	return firstParam
}

// C01.8: state bits only ever get added.
func c01StateWrites(c *cx) {
	n := 0
	for _, f := range c.allFns() {
		for _, w := range f.FieldWrites("xmpp.Session.state") {
			n++
			c.r.Check("C01.8", f, "write to Session.state", "W: every assignment to Session.state is |= (bits only added)", w.Stmt.Pos(), w.Tok == token.OR_ASSIGN, "state is written with "+w.Tok.String())
		}
		// composite literals of Session
		f.WalkBody(func(nd ast.Node) bool {
			cl, ok := nd.(*ast.CompositeLit)
			if !ok {
				return true
			}
			if t := f.Info().TypeOf(cl); t != nil && eng.TypeStr(t) == "xmpp.Session" {
				c.r.Check("C01.14", f, "Session literal", "C: a Session value is created only in negotiateSession", cl.Pos(), f.Short == "xmpp.negotiateSession", "Session constructed outside negotiateSession")
			}
			return true
		})
	}
	c.r.Floor("C01.8", "writes to Session.state", n, 5)
}

func c01Read(c *cx) {
	f := c.fn("C01.10", "", "readStreamFeatures")
	if f == nil {
		return
	}
	nCache, nFeat, nTotal := 0, 0, 0
	for _, mu := range f.MapUpdates() {
		cls, _ := f.FieldClass(mu.Map)
		pt, _ := f.Graph().Where(mu.Node)
		switch cls {
		case "xmpp.streamFeaturesList.cache":
			nCache++
			// the feature stored
			feat := ""
			if cl, ok := ast.Unparen(mu.Value).(*ast.CompositeLit); ok {
				for _, el := range cl.Elts {
					if kv, ok := el.(*ast.KeyValueExpr); ok {
						if k, ok := kv.Key.(*ast.Ident); ok && k.Name == "feature" {
							feat = f.Norm(kv.Value, &pt)
						}
					}
				}
			}
			if !c.r.Check("C01.10", f, "cache entry literal", "the cached entry names the feature whose prerequisites were tested", mu.Node.Pos(), feat != "", "cache value is not an sfData literal with a feature") {
				continue
			}
			c.dom("C01.10", f, mu.Node, "store into streamFeaturesList.cache", []string{"all(*.state," + feat + ".Necessary)", "none(*.state," + feat + ".Prohibited)"})
		case "xmpp.Session.features":
			if mu.Value != nil && f.Graph().NilnessOf(mu.Value, pt) == -1 {
				// s.features[ns] = nil : unconditional per start element
				c.onlyFacts("C01.10", f, mu.Node, "s.features[ns] = nil", []string{"eq(*Token*#1,nil)", "istype(*;encoding/xml.StartElement)", "eq(p2.Name.*", "!commaok(p1.features[*])"})
				// the table is keyed by namespace alone: the "nothing parsed"
				// entry must not replace what an earlier element of the same
				// namespace stored (a second, unknown element in the SASL namespace
				// would hand nil to Negotiate, which asserts []string)
				c.dom("C01.10", f, mu.Node, "s.features[ns] = nil only for a namespace not seen yet", []string{"!commaok(p1.features[*.Name.Space])"})
				continue
			}
			nFeat++
			c.dom("C01.10", f, mu.Node, "store of Parse data into Session.features", []string{"all(*.state,*.Necessary)", "none(*.state,*.Prohibited)", "eq(field:xmpp.StreamFeature.Parse[*](*)#2,nil)"})
		}
	}
	for _, w := range f.FieldWrites("xmpp.streamFeaturesList.total") {
		nTotal++
		c.onlyFacts("C01.10", f, w.Stmt, "sf.total++", []string{"eq(*Token*#1,nil)", "istype(*;encoding/xml.StartElement)", "eq(p2.Name.*"})
	}
	c.r.Floor("C01.10", "cache stores", nCache, 1)
	c.r.Floor("C01.10", "Parse data stores", nFeat, 1)
	c.r.Floor("C01.10", "total++", nTotal, 1)
}

func c01Write(c *cx) {
	f := c.fn("C01.11", "", "writeStreamFeatures")
	if f == nil {
		return
	}
	g := f.Graph()
	calls := f.Calls("field:xmpp.StreamFeature.List")
	call, ok := one(c, "C01.11", f, "call of StreamFeature.List", calls)
	if !ok {
		return
	}
	pt, _ := g.Where(call)
	recv := f.Norm(ast.Unparen(call.Fun).(*ast.SelectorExpr).X, &pt)
	guard := []string{"all(*.state," + recv + ".Necessary)", "none(*.state," + recv + ".Prohibited)"}
	c.dom("C01.11", f, call, "call of StreamFeature.List", guard)
	allowed := append([]string{"rangenext(*)", "eq(*EncodeToken*,nil)"}, guard...)
	c.onlyFacts("C01.11", f, call, "call of StreamFeature.List", allowed)
	n := 0
	for _, mu := range f.MapUpdates() {
		if cls, _ := f.FieldClass(mu.Map); cls == "xmpp.streamFeaturesList.cache" {
			n++
			c.dom("C01.11", f, mu.Node, "store into streamFeaturesList.cache", append([]string{"eq(field:xmpp.StreamFeature.List[" + recv + "](*)#1,nil)"}, guard...))
			c.onlyFacts("C01.11", f, mu.Node, "store into streamFeaturesList.cache", append(allowed, "eq(field:xmpp.StreamFeature.List[*](*)#1,nil)"))
		}
	}
	c.r.Floor("C01.11", "cache stores", n, 1)
	nreq := 0
	for _, w := range f.FieldWrites("xmpp.streamFeaturesList.req") {
		nreq++
		c.dom("C01.11", f, w.Stmt, "list.req = true", []string{"field:xmpp.StreamFeature.List[" + recv + "](*)#0"})
	}
	c.r.Floor("C01.11", "list.req writes", nreq, 1)
	// total counted per listed feature
	for _, w := range f.FieldWrites("xmpp.streamFeaturesList.total") {
		c.dom("C01.11", f, w.Stmt, "list.total++", guard)
	}
}

func c01Session(c *cx) {
	f := c.fn("C01.12", "", "negotiateSession")
	if f == nil {
		return
	}
	g := f.Graph()
	// the negotiator invocation: a call of the Negotiator-typed parameter
	var negCall *ast.CallExpr
	for _, cl := range f.AllCalls() {
		if t := f.Info().TypeOf(cl.Fun); t != nil && eng.TypeStr(t) == "xmpp.Negotiator" {
			if negCall != nil {
				c.r.Check("C01.12", f, "anchor:negotiator call", "exactly one invocation of the Negotiator", cl.Pos(), false, "more than one invocation")
				return
			}
			negCall = cl
		}
	}
	if negCall == nil {
		c.r.Unresolved("C01.12", "call of the Negotiator in negotiateSession")
		return
	}
	ncPt, _ := g.Where(negCall)
	nc := f.Norm(negCall, &ncPt)
	errNil := "eq(" + nc + "#3,nil)"
	rwSet := "!eq(" + nc + "#1,nil)"
	// C01.7 (session part): s.state |= mask after the error test
	nw := 0
	for _, w := range f.FieldWrites("xmpp.Session.state") {
		pt, _ := g.Where(w.Stmt)
		if !g.Reachable(g.After(ncPt), pt, nil, nil) {
			continue // before the loop (Secure for pre-secured connections: C02.8)
		}
		nw++
		c.dom("C01.7", f, w.Stmt, "s.state |= mask", []string{errNil})
		// the mask is the negotiator's first result
		okMask := false
		if w.RHS != nil {
			okMask = f.Norm(w.RHS, &pt) == nc+"#0"
		}
		c.r.Check("C01.7", f, "s.state |= mask [operand]", "P: the bits added are the mask returned by the negotiator", w.Stmt.Pos(), okMask, "operand is not the negotiator's mask result")

		// C01.12 (complement): the reset is skipped only when NO new stream layer
		// was returned: every path from the negotiator call to this write either
		// crosses an edge that establishes rw == nil or passes the reset (a test
		// such as `rw != nil && rw != s.conn` lets a restart on the same
		// connection keep the negotiated set)
		{
			nilCut := eng.Cut{}
			for _, ce := range g.EdgesMatching(strings.TrimPrefix(rwSet, "!")) {
				nilCut[ce.E] = true
			}
			clr := rangeDelete(f, "xmpp.Session.negotiated")
			c.r.Check("C01.12", f, "restart: reset skipped only without a new stream layer", "O: between the negotiator call and the next step the negotiated set is cleared unless rw == nil was established", negCall.Pos(), !g.Reachable(g.After(ncPt), pt, nilCut, clr), "a path on which rw may be non-nil reaches the next step without clearing Session.negotiated")
		}
		// C01.12: every path from rw != nil to this write resets the per-stream state
		for _, ce := range g.EdgesMatching(rwSet) {
			if !g.Reachable(g.After(ncPt), eng.Point{B: ce.E.B, I: 0}, nil, nil) {
				continue
			}
			from := g.EdgeTarget(ce.E)
			need := map[string]func(pt eng.Point, n ast.Node) bool{
				"clear Session.features (range-delete)":   rangeDelete(f, "xmpp.Session.features"),
				"clear Session.negotiated (range-delete)": rangeDelete(f, "xmpp.Session.negotiated"),
				"store new connection into Session.conn":  fieldStore(f, "xmpp.Session.conn", ""),
				"fresh xml.Decoder on Session.in.d":       fieldStore(f, "xmpp.Session.in.d", "encoding/xml.NewDecoder(*.conn)"),
				"fresh xml.Encoder on Session.out.e":      fieldStore(f, "xmpp.Session.out.e", "encoding/xml.NewEncoder(*.conn)"),
			}
			for _, what := range sortedFuncKeys(need) {
				pass := g.MustPassBefore(from, pt, need[what], nil)
				c.r.Check("C01.12", f, "restart: "+what, "O: after a step that returned a new stream layer every path to the next step passes "+what, negCall.Pos(), pass, "a path from rw != nil to the next step skips: "+what)
			}
			// order: the conn store precedes both fresh coders
			connStore := fieldStore(f, "xmpp.Session.conn", "")
			for _, cls := range []string{"xmpp.Session.in.d", "xmpp.Session.out.e"} {
				for _, w2 := range f.FieldWrites(cls) {
					p2, _ := g.Where(w2.Stmt)
					if !g.Reachable(from, p2, nil, nil) || !g.Reachable(g.After(ncPt), p2, nil, nil) {
						continue
					}
					c.r.Check("C01.12", f, "restart: "+cls+" after conn", "O: the new coder is created after the new connection is stored", w2.Stmt.Pos(), g.MustPassBefore(from, p2, connStore, nil), "coder may be created over the old connection")
				}
			}
		}
	}
	c.r.Floor("C01.7", "state writes after the negotiator call", nw, 1)
	// error return before the mask is applied
	for _, ce := range g.EdgesMatching("!" + errNil[0:]) {
		_ = ce
	}
	for _, ce := range g.EdgesMatching(eng.Negate(errNil)) {
		bad := ""
		for _, n := range g.ReachableNodes(g.EdgeTarget(ce.E), nil) {
			if as, ok := n.(*ast.AssignStmt); ok {
				for _, l := range as.Lhs {
					if cls, _ := f.FieldClass(l); cls == "xmpp.Session.state" {
						bad = "state written on the error edge"
					}
				}
			}
			if rs, ok := n.(*ast.ReturnStmt); ok && g.RetKindOf(rs) != eng.RetError {
				bad = "non-error return on the error edge"
			}
		}
		c.r.Check("C04.3", f, "error edge of the negotiator call", "G: a failed step returns the error without applying state bits", negCall.Pos(), bad == "", bad)
	}
	// C01.14 success return only with Ready
	ns := 0
	for _, rs := range g.Returns {
		if g.RetKindOf(rs) == eng.RetError {
			continue
		}
		ns++
		c.dom("C01.14", f, rs, "success return", []string{"all(*.state,xmpp.Ready)"})
	}
	c.r.Floor("C01.14", "success returns of negotiateSession", ns, 1)
}

func sortedFuncKeys(m map[string]func(eng.Point, ast.Node) bool) []string {
	var ks []string
	for k := range m {
		ks = append(ks, k)
	}
	sort.Strings(ks)
	return ks
}

// rangeDelete matches the evaluation of the range operand X of a loop
// "for k := range X { delete(X, k) }" with X of field class cls. (The range
// operand node is on every path into the loop, the delete only when non-empty.)
func rangeDelete(f *eng.Fn, cls string) func(eng.Point, ast.Node) bool {
	g := f.Graph()
	return func(pt eng.Point, n ast.Node) bool {
		e, ok := n.(ast.Expr)
		if !ok {
			return false
		}
		rs, ok := g.Parent(e).(*ast.RangeStmt)
		if !ok || rs.X != e {
			return false
		}
		if c, _ := f.FieldClass(e); c != cls {
			return false
		}
		// body deletes the key from the same map
		found := false
		ast.Inspect(rs.Body, func(x ast.Node) bool {
			if call, ok := x.(*ast.CallExpr); ok && f.CalleeID(call) == "builtin.delete" && len(call.Args) == 2 {
				if c2, _ := f.FieldClass(call.Args[0]); c2 == cls {
					if k, ok := ast.Unparen(call.Args[1]).(*ast.Ident); ok {
						if rk, ok := rs.Key.(*ast.Ident); ok && f.Info().Uses[k] == f.Info().Defs[rk] {
							found = true
						}
					}
				}
			}
			return true
		})
		return found
	}
}

// fieldStore matches an assignment to a field of class cls whose RHS normal
// form matches rhsPat ("" = any).
func fieldStore(f *eng.Fn, cls, rhsPat string) func(eng.Point, ast.Node) bool {
	return func(pt eng.Point, n ast.Node) bool {
		as, ok := n.(*ast.AssignStmt)
		if !ok || as.Tok != token.ASSIGN {
			return false
		}
		for i, l := range as.Lhs {
			if c, _ := f.FieldClass(l); c == cls {
				if rhsPat == "" {
					return true
				}
				if len(as.Lhs) == len(as.Rhs) && eng.Glob(rhsPat, f.Norm(as.Rhs[i], nil)) {
					return true
				}
			}
		}
		return false
	}
}

func c01Negotiator(c *cx) {
	nf := c.fn("C01.13", "", "negotiator")
	if nf == nil {
		return
	}
	f := c.lit("C01.13", nf, 1)
	if f == nil {
		return
	}
	g := f.Graph()
	call, ok := one(c, "C01.13", f, "call of negotiateFeatures", f.Calls("xmpp.negotiateFeatures"))
	if !ok {
		return
	}
	callPt, _ := g.Where(call)
	edges := g.EdgesMatching("*.doRestart")
	n := 0
	for _, ce := range edges {
		hit := false
		for _, a := range ce.Atoms {
			if eng.Glob("*.doRestart", a.S) && !strings.HasPrefix(a.S, "!") {
				hit = true
			}
		}
		if !hit {
			continue
		}
		n++
		from := g.EdgeTarget(ce.E)
		for _, role := range []string{recvRole, initRole} {
			cut := g.CutFor(role)
			send := func(pt eng.Point, nd ast.Node) bool { return f.ContainsCall(nd, "internal/stream.Send") != nil }
			expect := func(pt eng.Point, nd ast.Node) bool { return f.ContainsCall(nd, "internal/stream.Expect") != nil }
			c.r.Check("C01.13", f, "restart sends a fresh header ["+role+"]", "O: on the restart edge every path to negotiateFeatures passes internal/stream.Send", call.Pos(), g.MustPassBefore(from, callPt, send, cut), "a path reaches negotiateFeatures without sending a stream header")
			c.r.Check("C01.13", f, "restart expects a fresh header ["+role+"]", "O: on the restart edge every path to negotiateFeatures passes internal/stream.Expect", call.Pos(), g.MustPassBefore(from, callPt, expect, cut), "a path reaches negotiateFeatures without reading the peer's stream header")
			// order by role
			var firstCalls, secondPat string
			if role == recvRole {
				firstCalls, secondPat = "internal/stream.Expect", "internal/stream.Send"
			} else {
				firstCalls, secondPat = "internal/stream.Send", "internal/stream.Expect"
			}
			for _, sc := range f.Calls(secondPat) {
				sp, _ := g.Where(sc)
				if !g.Reachable(from, sp, cut, nil) {
					continue
				}
				first := func(pt eng.Point, nd ast.Node) bool { return f.ContainsCall(nd, firstCalls) != nil }
				c.r.Check("C01.13", f, "header order ["+role+"]", "O: "+firstCalls+" precedes "+secondPat+" for this role", sc.Pos(), g.MustPassBefore(from, sp, first, cut), secondPat+" reachable before "+firstCalls)
			}
		}
	}
	c.r.Floor("C01.13", "restart edges", n, 1)
	// doRestart := rw != nil after negotiateFeatures; default true
	cn := f.Norm(call, &callPt)
	nd := 0
	for _, w := range f.FieldWrites("xmpp.negotiatorState.doRestart") {
		pt, _ := g.Where(w.Stmt)
		if !g.Reachable(g.After(callPt), pt, nil, nil) {
			continue
		}
		nd++
		okv := w.RHS != nil && f.Graph().Formula(w.RHS, true, pt).String() == "!eq("+cn+"#1,nil)"
		c.r.Check("C01.13", f, "doRestart after negotiateFeatures", "K: restart is required exactly when the step returned a new stream layer (rw != nil)", w.Stmt.Pos(), okv, "doRestart is not set to rw != nil of the negotiateFeatures call")
	}
	c.r.Floor("C01.13", "doRestart update after negotiateFeatures", nd, 1)
	// every success return after the call passes the update
	for _, rs := range g.Returns {
		pt, _ := g.Where(rs)
		if !g.Reachable(g.After(callPt), pt, nil, nil) {
			continue
		}
		upd := fieldStore(f, "xmpp.negotiatorState.doRestart", "")
		c.r.Check("C01.13", f, "return after negotiateFeatures", "O: the restart flag is updated before the closure returns", rs.Pos(), g.MustPassBefore(g.After(callPt), pt, upd, nil), "return without updating doRestart")
	}
	// default initialiser
	okDefault := false
	f.WalkBody(func(n ast.Node) bool {
		cl, ok := n.(*ast.CompositeLit)
		if !ok {
			return true
		}
		if t := f.Info().TypeOf(cl); t == nil || eng.TypeStr(t) != "xmpp.negotiatorState" {
			return true
		}
		for _, el := range cl.Elts {
			if kv, ok := el.(*ast.KeyValueExpr); ok {
				if k, ok := kv.Key.(*ast.Ident); ok && k.Name == "doRestart" {
					if v := f.ConstVal(kv.Value); v != nil && v.ExactString() == "true" {
						pt, _ := g.Where(cl)
						if ok, _ := g.Dominated(pt, "!commaok(p4.(xmpp.negotiatorState))"); ok {
							okDefault = true
						}
					}
				}
			}
		}
		return true
	})
	c.r.Check("C01.13", f, "default negotiatorState", "K: when no state was passed in (first call) doRestart defaults to true", f.Pos(), okDefault, "no negotiatorState{doRestart: true} literal under the !ok edge of the state assertion")
}

// c01CachedMandatoryFlag (C01.17): an entry of the advertised-features cache
// records whether THAT feature is mandatory: the `req` field of every sfData
// literal stored in a streamFeaturesList is the first result of the feature's
// own Parse (initiator) or List (receiver) call of the same iteration, or the
// constant true of the forced STARTTLS attempt. The list-wide flag ("some
// mandatory feature was seen") in its place makes every voluntary feature that
// is advertised after a mandatory one mandatory as well, and the selection
// order then depends on the order of the advertisement and of the map.
func c01CachedMandatoryFlag(c *cx, id string) {
	n := 0
	for _, name := range []string{"readStreamFeatures", "writeStreamFeatures", "negotiateFeatures"} {
		f := c.fn(id, "", name)
		if f == nil {
			continue
		}
		g := f.Graph()
		for _, cl := range f.WalkLits("xmpp.sfData") {
			req := structLitField(cl, "req")
			feat := structLitField(cl, "feature")
			if req == nil || feat == nil {
				if len(cl.Elts) == 0 {
					continue // zero value
				}
				c.r.Check(id, f, "sfData literal", "K: the cache entry names its feature and its mandatory flag", cl.Pos(), false, "req or feature missing")
				continue
			}
			n++
			pt, _ := g.Where(cl)
			rn := f.Norm(req, &pt)
			fn := f.Norm(feat, &pt)
			ok := rn == "true" ||
				eng.Glob("field:xmpp.StreamFeature.Parse[*](*)#0", rn) || eng.Glob("field:xmpp.StreamFeature.List[*](*)#0", rn) ||
				eng.Glob("field:xmpp.StreamFeature.Parse(*)#0", rn) || eng.Glob("field:xmpp.StreamFeature.List(*)#0", rn)
			why := "the flag is " + rn
			if ok && rn != "true" {
				// the call is made on the feature that is cached
				if !strings.Contains(rn, fn) {
					ok = false
					why = "the flag comes from a call on another feature value than the one cached (" + fn + "): " + rn
				}
			}
			c.r.Check(id, f, "mandatory flag of the cached feature", "K: sfData.req is the first result of the cached feature's own Parse/List call (or the constant true of the forced STARTTLS attempt), not list-wide state", cl.Pos(), ok, why)
		}
	}
	c.r.Floor(id, "sfData literals", n, 3)
}

// c01FeaturesConfiguredPerStep (C01.18): the variable that holds the stream
// configuration is captured by the Negotiator closure and therefore shared by
// every step and every session that uses that Negotiator. The feature list
// that a step negotiates is the one configured for THIS session in THIS step:
// every path from the closure's entry to the negotiateFeatures call passes
// the assignment of the configuration function's result to that variable
// (refreshing it only on a restart lets a step of session A advertise what a
// stream start of session B left there).
func c01FeaturesConfiguredPerStep(c *cx, id string) {
	outer := c.fn(id, "", "negotiator")
	if outer == nil {
		return
	}
	n := 0
	for _, l := range outer.Lits {
		g := l.Graph()
		for _, cl := range l.Calls("xmpp.negotiateFeatures") {
			if len(cl.Args) < 5 {
				continue
			}
			sel, ok := ast.Unparen(cl.Args[4]).(*ast.SelectorExpr)
			if !ok {
				continue
			}
			idn, ok := ast.Unparen(sel.X).(*ast.Ident)
			if !ok {
				continue
			}
			cfgVar, _ := l.Info().ObjectOf(idn).(*types.Var)
			if cfgVar == nil {
				continue
			}
			n++
			pt, _ := g.Where(cl)
			isCfg := func(q eng.Point, nd ast.Node) bool {
				as, ok := nd.(*ast.AssignStmt)
				if !ok || len(as.Lhs) != 1 || len(as.Rhs) != 1 {
					return false
				}
				li, ok := ast.Unparen(as.Lhs[0]).(*ast.Ident)
				if !ok || l.Info().ObjectOf(li) != types.Object(cfgVar) {
					return false
				}
				call, ok := ast.Unparen(as.Rhs[0]).(*ast.CallExpr)
				if !ok {
					return false
				}
				// a call of the configuration function (a func-typed parameter of the outer function)
				fi, ok := ast.Unparen(call.Fun).(*ast.Ident)
				if !ok {
					return false
				}
				fv, _ := l.Info().ObjectOf(fi).(*types.Var)
				if fv == nil {
					return false
				}
				ps := outer.Sig().Params()
				for i := 0; i < ps.Len(); i++ {
					if ps.At(i) == fv {
						return true
					}
				}
				return false
			}
			c.r.Check(id, l, "feature list configured in the step that negotiates it", "O: every path from the Negotiator's entry to negotiateFeatures passes `cfg = f(session, &cfg)` (the captured configuration is shared between steps and sessions)", cl.Pos(), g.MustPassBefore(g.Entry(), pt, isCfg, nil), "a step can negotiate with the configuration that an earlier step - possibly of another session using the same Negotiator - left in the shared variable")
		}
	}
	c.r.Floor(id, "negotiateFeatures calls in the Negotiator closure", n, 1)
}

// c01FeatureMatchedByName (C01.19): an advertised element names the feature
// it stands for by its full name: getFeature returns a configured feature
// only on the edge where the feature's Name (namespace AND local name) equals
// the element's name. Matching the namespace alone lets <b xmlns='urn:a'/>
// stand for the feature {urn:a}a: it is parsed, cached and negotiated although
// it was never advertised.
func c01FeatureMatchedByName(c *cx, id string) {
	f := c.fn(id, "", "getFeature")
	if f == nil {
		return
	}
	g := f.Graph()
	n := 0
	for _, rs := range g.Returns {
		if len(rs.Results) != 2 {
			continue
		}
		if cv := f.ConstVal(rs.Results[1]); cv == nil || cv.ExactString() != "true" {
			continue
		}
		n++
		c.domAny(id, f, rs, "feature found", []string{"eq(rangeval(p1).Name,p0)", "eq(p0,rangeval(p1).Name)", "and(*eq(rangeval(p1).Name.Space,p0.Space)*eq(rangeval(p1).Name.Local,p0.Local)*)", "and(*eq(rangeval(p1).Name.Local,p0.Local)*eq(rangeval(p1).Name.Space,p0.Space)*)"})
	}
	c.r.Floor(id, "positive returns of getFeature", n, 1)
}

// c01MandatoryLeft (C01.22): mandatoryLeft answers true for every cache entry
// that is mandatory, negotiable, not negotiated yet and whose prerequisites
// hold in the current state: an iteration goes on to the next entry only over
// an edge that contradicts one of these, and false is returned only when the
// cache is exhausted.
func c01MandatoryLeft(c *cx, id string) {
	f := c.fn(id, "", "mandatoryLeft")
	if f == nil {
		return
	}
	g := f.Graph()
	isTrue := func(q eng.Point, n ast.Node) bool {
		rs, ok := n.(*ast.ReturnStmt)
		if !ok || len(rs.Results) != 1 {
			return false
		}
		tv, ok := f.Info().Types[resolveBool(f, rs.Results[0])]
		return ok && tv.Value != nil && tv.Value.String() == "true"
	}
	n := 0
	f.WalkBody(func(nd ast.Node) bool {
		rs, ok := nd.(*ast.RangeStmt)
		if !ok {
			return true
		}
		if cls, _ := f.FieldClass(rs.X); cls != "xmpp.streamFeaturesList.cache" {
			return true
		}
		body, head, _, okp := g.LoopPoints(rs)
		if !okp {
			return true
		}
		n++
		cut := g.CutFor(
			"!commaok(*.negotiated[rangeval(*.cache).feature.Name.Space])",
			"rangeval(*.cache).req",
			"!eq(rangeval(*.cache).feature.Negotiate,nil)",
			"all(*.state,rangeval(*.cache).feature.Necessary)",
			"none(*.state,rangeval(*.cache).feature.Prohibited)")
		bad := ""
		if g.Reachable(body, head, cut, isTrue) {
			bad = "an entry that is mandatory, negotiable, not negotiated and eligible is passed over"
		}
		for _, r := range g.Returns {
			rp, _ := g.Where(r)
			if !isTrue(rp, r) && g.Reachable(body, rp, cut, isTrue) {
				bad = "false is returned from inside the loop for an eligible mandatory entry (" + c.p.Pos(r.Pos()) + ")"
			}
		}
		c.r.Check(id, f, "scan of the advertised features", "O: an iteration of the scan reaches the next entry or a false return only over an edge that contradicts {not negotiated, mandatory, negotiable, prerequisites hold now}", rs.Pos(), bad == "", bad)
		return true
	})
	for _, r := range g.Returns {
		rp, _ := g.Where(r)
		if isTrue(rp, r) {
			continue
		}
		n++
		c.dom(id, f, r, "not-left answer", []string{"!rangenext(*.cache)"})
	}
	c.r.Floor(id, "scan loop and false returns of mandatoryLeft", n, 2)
}
