package rules

import (
	"go/ast"
	"go/token"
	"go/types"
	"strings"

	"verif/checker/eng"
)

// optionClosuresKeepNoState (C20.24 / C19.50): a form field option
// (form.Text(...), form.ListMulti(...)) is a value that can be applied to any
// number of forms: the closure an option constructor returns builds its field
// afresh on every call. It neither assigns to nor takes the address of a
// variable of the constructor that made it: a field struct hoisted out of the
// closure collects the options again on every use, so the second form built
// with the same Field value gets every value twice and hashes differently.
func optionClosuresKeepNoState(c *cx, id, pkgPrefix string) int {
	n := 0
	for _, f := range c.allFns() {
		if f.Parent == nil || f.Parent.Body == nil || f.Lit == nil || !strings.HasPrefix(f.Short, pkgPrefix) {
			continue
		}
		// closures that are returned by their parent
		returned := false
		for _, rs := range f.Parent.Graph().Returns {
			for _, r := range rs.Results {
				if ast.Unparen(r) == ast.Expr(f.Lit) {
					returned = true
				}
			}
		}
		if !returned {
			continue
		}
		n++
		outer := func(e ast.Expr) *types.Var {
			idn, ok := ast.Unparen(e).(*ast.Ident)
			if !ok {
				return nil
			}
			v, ok := f.Info().Uses[idn].(*types.Var)
			if !ok || !eng.IsLocal(v) {
				return nil
			}
			if f.Lit.Pos() <= v.Pos() && v.Pos() < f.Lit.End() {
				return nil // the closure's own variable
			}
			return v
		}
		bad := ""
		f.WalkBody(func(nd ast.Node) bool {
			switch x := nd.(type) {
			case *ast.AssignStmt:
				for _, l := range x.Lhs {
					if v := rootLocal(f, l); v != nil && !(f.Lit.Pos() <= v.Pos() && v.Pos() < f.Lit.End()) {
						if _, isPtr := v.Type().Underlying().(*types.Pointer); !isPtr {
							bad = "assigns to " + v.Name() + " of " + f.Parent.Short
						}
					}
				}
			case *ast.UnaryExpr:
				if x.Op == token.AND {
					if v := outer(x.X); v != nil {
						bad = "takes the address of " + v.Name() + " of " + f.Parent.Short
					}
				}
			case *ast.IncDecStmt:
				if v := outer(x.X); v != nil {
					bad = "changes " + v.Name() + " of " + f.Parent.Short
				}
			}
			return true
		})
		c.r.Check(id, f, "state of a returned closure", "E-eff: a closure that a constructor returns writes no variable of the constructor (it may be called any number of times)", f.Pos(), bad == "", "the closure "+bad+": what one call leaves behind changes the next")
	}
	return n
}
