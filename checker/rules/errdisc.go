package rules

import (
	"go/ast"

	"verif/checker/eng"
)

// accept is one reasoned exception of the error-discipline rule.
type accept struct {
	Fn, Callee, Reason string // globs
}

// Accepted everywhere in the negotiation functions.
var acceptNEG = []accept{
	{"*", "defer io.Closer.Close[*TokenReader*]", "lockReadCloser.Close only releases the input lock and returns nil"},
	{"*", "defer io.Closer.Close[*TokenWriter*]", "deferred Close of the locked writer: accepted because every success return is preceded by an explicit, checked Flush (checked separately by rule S)"},
}

func accepted(list []accept, fn, callee string) (string, bool) {
	for _, a := range list {
		if eng.Glob(a.Fn, fn) && eng.Glob(a.Callee, callee) {
			return a.Reason, true
		}
	}
	return "", false
}

// errDiscipline runs the pending-error analysis (E-err) over fns.
func errDiscipline(c *cx, id string, fns []*eng.Fn, acc []accept, ruleS bool) {
	for _, f := range fns {
		if f == nil {
			c.r.Unresolved(id, "function for error discipline")
			continue
		}
		res := eng.PendingErrors(f)
		c.r.Check(id, f, "error flow ("+itoa(res.Sources)+" error-producing calls)", "E: no path lets a non-nil error assigned from a call die unconsumed", f.Pos(), true, "")
		for _, d := range res.Dropped {
			if _, ok := accepted(acc, f.Short, d.Callee); ok {
				continue
			}
			if neverFails(c, d.Callee) {
				c.r.Check(id, f, "error of "+d.Callee+" (callee has no error path)", "E: callee's every return yields a nil error (checked)", d.Pos, true, "")
				continue
			}
			c.r.Check(id, f, "error of "+d.Callee, "E: no path lets a non-nil error assigned from a call die unconsumed", d.Pos, false, d.Why)
		}
		for _, u := range res.Unassigned {
			if why, ok := accepted(acc, f.Short, u.Callee); ok {
				c.r.Check(id, f, "unassigned error of "+u.Callee, "E: unassigned error results are in the accept table ("+why+")", u.Pos, true, "")
				continue
			}
			c.r.Check(id, f, "unassigned error of "+u.Callee, "E: every error result is assigned and handled, or listed with a reason", u.Pos, false, "error result of "+u.Callee+" is discarded")
		}
		if ruleS {
			flushBeforeSuccess(c, id, f)
		}
	}
}

// neverFails: the callee is a repository function all of whose returns yield a
// literal/known nil error.
func neverFails(c *cx, callee string) bool {
	for _, f := range c.allFns() {
		if eng.ObjID0(f) != callee {
			continue
		}
		g := f.Graph()
		if f.ErrResultIndex() < 0 || len(g.Returns) == 0 {
			return false
		}
		for _, rs := range g.Returns {
			if g.RetKindOf(rs) != eng.RetSuccess {
				return false
			}
		}
		return true
	}
	return false
}

// flushBeforeSuccess (rule S): a function that defers Close of the session's
// locked token writer must pass an explicit Flush of that writer on every path
// to a success return; otherwise a write error surfaces only in the ignored
// deferred Close.
func flushBeforeSuccess(c *cx, id string, f *eng.Fn) {
	g := f.Graph()
	for _, d := range g.Defers {
		sel, ok := ast.Unparen(d.Call.Fun).(*ast.SelectorExpr)
		if !ok || sel.Sel.Name != "Close" {
			continue
		}
		pt, _ := g.Where(d)
		w := f.Norm(sel.X, &pt)
		if !eng.Glob("*Session.TokenWriter[*]()", w) {
			continue
		}
		// did the function write anything through w?
		wv := rootLocal(f, sel.X)
		if wv == nil {
			continue
		}
		uses := func(n ast.Node) bool {
			found := false
			ast.Inspect(n, func(x ast.Node) bool {
				if id, ok := x.(*ast.Ident); ok && f.Info().Uses[id] == wv {
					found = true
				}
				return !found
			})
			return found
		}
		isFlush := func(q eng.Point, n ast.Node) bool {
			cl := f.ContainsCall(n, "*.Flush")
			if cl == nil {
				return false
			}
			s2, ok := ast.Unparen(cl.Fun).(*ast.SelectorExpr)
			return ok && rootLocal(f, s2.X) == wv
		}
		for _, rs := range g.Returns {
			if g.RetKindOf(rs) == eng.RetError {
				continue
			}
			rpt, _ := g.Where(rs)
			// paths on which w was used for writing after the defer
			bad := false
			// a return whose error operand is the result of a write through w
			// (return w.EncodeToken(...)) can be nil although the bytes are still
			// in the buffer: nothing after it can flush
			if g.RetKindOf(rs) != eng.RetSuccess {
				if !uses(rs) || isFlush(rpt, rs) {
					continue
				}
				bad = true
			}
			for _, b := range g.Blocks {
				if !b.Live {
					continue
				}
				for i, n := range b.Nodes {
					if n == ast.Node(d) || !uses(n) {
						continue
					}
					if _, isRet := n.(*ast.ReturnStmt); isRet {
						continue
					}
					if isFlush(eng.Point{}, n) {
						continue
					}
					wp := eng.Point{B: int(b.Index), I: i}
					if g.Reachable(g.After(wp), rpt, nil, isFlush) && !isFlush(rpt, rs) {
						bad = true
					}
				}
			}
			c.r.Check(id, f, "success return after writing through the deferred-Close writer", "S: every success return that follows a write is preceded by an explicit Flush of the same writer (its error checked by E)", rs.Pos(), !bad, "a success return is reachable after a write without an explicit Flush: a write error would surface only in the ignored deferred Close")
		}
	}
}

func itoa(i int) string {
	if i == 0 {
		return "0"
	}
	s := ""
	for i > 0 {
		s = string(rune('0'+i%10)) + s
		i /= 10
	}
	return s
}
