package rules

import (
	"fmt"
	"go/ast"
	"go/token"
	"go/types"
	"sort"
	"strings"

	"golang.org/x/tools/go/types/typeutil"

	"verif/checker/eng"
)

// cx bundles program and report for rule code.
type cx struct {
	p    *eng.Prog
	r    *eng.Report
	tier string
}

// fn resolves a function anchor; a missing anchor is a failure.
func (c *cx) fn(id, rel, name string) *eng.Fn {
	f := c.p.Func(rel, name)
	if f == nil {
		pk := rel
		if pk == "" {
			pk = "xmpp"
		}
		c.r.Unresolved(id, "func "+pk+"."+name)
	}
	return f
}

// lit returns the n-th (1-based) nested literal of f.
func (c *cx) lit(id string, f *eng.Fn, n int) *eng.Fn {
	if f == nil {
		return nil
	}
	if n-1 < len(f.Lits) {
		return f.Lits[n-1]
	}
	c.r.Unresolved(id, fmt.Sprintf("literal %d of %s", n, f.Short))
	return nil
}

// site returns the graph point of node n in f.
func (c *cx) site(id string, f *eng.Fn, n ast.Node, what string) (eng.Point, bool) {
	p, ok := f.Graph().Where(n)
	if !ok || !f.Graph().Live(p) {
		c.r.Check(id, f, what, "site is reachable code", n.Pos(), false, "site not placed in the control-flow graph (dead code?)")
		return p, false
	}
	return p, true
}

// dom records one obligation: site must be dominated by every pattern.
func (c *cx) dom(id string, f *eng.Fn, n ast.Node, construct string, pats []string, assume ...string) bool {
	pt, ok := c.site(id, f, n, construct)
	if !ok {
		return false
	}
	g := f.Graph()
	var missing []string
	for _, pat := range pats {
		if ok, why := g.Dominated(pt, pat, assume...); !ok {
			missing = append(missing, pat+" ("+why+")")
		}
	}
	rule := "G: site dominated by edges establishing {" + strings.Join(pats, " ; ") + "}"
	if len(assume) > 0 {
		rule += " assuming {" + strings.Join(assume, " ; ") + "}"
	}
	return c.r.Check(id, f, construct, rule, n.Pos(), len(missing) == 0, "not dominated by: "+strings.Join(missing, " ; "))
}

// domPt is dom for a raw point.
func (c *cx) domPt(id string, f *eng.Fn, pt eng.Point, pos token.Pos, construct string, pats []string, assume ...string) bool {
	g := f.Graph()
	var missing []string
	for _, pat := range pats {
		if ok, why := g.Dominated(pt, pat, assume...); !ok {
			missing = append(missing, pat+" ("+why+")")
		}
	}
	rule := "G: point dominated by edges establishing {" + strings.Join(pats, " ; ") + "}"
	if len(assume) > 0 {
		rule += " assuming {" + strings.Join(assume, " ; ") + "}"
	}
	return c.r.Check(id, f, construct, rule, pos, len(missing) == 0, "not dominated by: "+strings.Join(missing, " ; "))
}

// onlyFacts checks that every fact dominating site matches one of allowed.
func (c *cx) onlyFacts(id string, f *eng.Fn, n ast.Node, construct string, allowed []string, assume ...string) bool {
	pt, ok := c.site(id, f, n, construct)
	if !ok {
		return false
	}
	var extra []string
	for _, a := range f.Graph().FactsAt(pt, assume...) {
		// "not one of the earlier cases of the type switch" restricts nothing
		// beyond the case's own type
		if strings.HasPrefix(a, "!istype(") {
			continue
		}
		okk := false
		for _, al := range allowed {
			if eng.Glob(al, a) {
				okk = true
				break
			}
		}
		if !okk {
			extra = append(extra, a)
		}
	}
	return c.r.Check(id, f, construct, "G(exact): no guard other than {"+strings.Join(allowed, " ; ")+"}", n.Pos(), len(extra) == 0, "additional guards: "+strings.Join(extra, " ; "))
}

// one expects exactly one element.
func one[T any](c *cx, id string, f *eng.Fn, what string, xs []T) (T, bool) {
	var zero T
	if len(xs) != 1 {
		fname := "-"
		if f != nil {
			fname = f.Short
		}
		c.r.CheckNamed(id, fname, "anchor:"+what, "anchor resolution (exactly one)", token.NoPos, false, fmt.Sprintf("expected exactly one %s, found %d", what, len(xs)))
		return zero, false
	}
	return xs[0], true
}

// stmtOf returns the innermost statement containing n that is a CFG node.
func stmtOf(f *eng.Fn, n ast.Node) ast.Node {
	g := f.Graph()
	cur := n
	for cur != nil {
		if _, ok := cur.(ast.Stmt); ok {
			if _, ok := g.Where(cur); ok {
				return cur
			}
		}
		cur = g.Parent(cur)
	}
	return n
}

// between extracts the text between the first occurrence of open and the
// matching bracket close.
func between(s, open string) (string, bool) {
	i := strings.Index(s, open)
	if i < 0 {
		return "", false
	}
	j := i + len(open)
	depth := 1
	ob, cb := open[len(open)-1], byte(']')
	switch ob {
	case '(':
		cb = ')'
	case '[':
		cb = ']'
	}
	for k := j; k < len(s); k++ {
		switch s[k] {
		case ob:
			depth++
		case cb:
			depth--
			if depth == 0 {
				return s[j:k], true
			}
		}
	}
	return "", false
}

func sortedKeys(m map[string]bool) []string {
	var out []string
	for k := range m {
		out = append(out, k)
	}
	sort.Strings(out)
	return out
}

// allFns iterates over the in-scope functions with bodies.
func (c *cx) allFns() []*eng.Fn {
	var out []*eng.Fn
	for _, f := range c.p.Fns {
		if f.Body != nil {
			out = append(out, f)
		}
	}
	return out
}

// returnsFrom lists the return statements reachable from pt (inclusive).
func returnsFrom(f *eng.Fn, pt eng.Point, cut eng.Cut) []*ast.ReturnStmt {
	var out []*ast.ReturnStmt
	for _, n := range f.Graph().ReachableNodes(pt, cut) {
		if r, ok := n.(*ast.ReturnStmt); ok {
			out = append(out, r)
		}
	}
	return out
}

// domAny records one obligation: site must be dominated by the disjunction of
// the patterns.
func (c *cx) domAny(id string, f *eng.Fn, n ast.Node, construct string, pats []string, assume ...string) bool {
	pt, ok := c.site(id, f, n, construct)
	if !ok {
		return false
	}
	okd, why := f.Graph().DominatedAny(pt, pats, assume...)
	return c.r.Check(id, f, construct, "G: every path to the site crosses an edge establishing one of {"+strings.Join(pats, " | ")+"}", n.Pos(), okd, why)
}

// calleeFunc returns the statically resolved callee function of call.
func calleeFunc(f *eng.Fn, call *ast.CallExpr) *types.Func {
	if o := typeutil.Callee(f.Info(), call); o != nil {
		if fn, ok := o.(*types.Func); ok {
			return fn
		}
	}
	return nil
}

// constOf returns the integer value of a constant object.
func constOf(o types.Object, dst *int64) int64 {
	if c, ok := o.(*types.Const); ok {
		if v, ok := constantInt(c); ok {
			return v
		}
	}
	return 0
}

// nilCompare returns the non-nil operand of `x OP nil` / `nil OP x` for the
// given operator, in either operand order.
func nilCompare(f *eng.Fn, e ast.Expr, op token.Token) (ast.Expr, bool) {
	be, ok := ast.Unparen(e).(*ast.BinaryExpr)
	if !ok || be.Op != op {
		return nil, false
	}
	if f.Norm(be.Y, nil) == "nil" {
		return be.X, true
	}
	if f.Norm(be.X, nil) == "nil" {
		return be.Y, true
	}
	return nil, false
}

// unNot strips !( ... ) wrappers, returning the inner expression and whether
// an odd number of negations was removed.
func unNot(e ast.Expr) (ast.Expr, bool) {
	neg := false
	for {
		e = ast.Unparen(e)
		u, ok := e.(*ast.UnaryExpr)
		if !ok || u.Op != token.NOT {
			return e, neg
		}
		neg = !neg
		e = u.X
	}
}

// asIf views a statement as `if cond { body } [else { els }]`: a plain if
// statement without an init clause, or the equivalent tagless switch with one
// conditional case (and an optional default).
func asIf(st ast.Stmt) (cond ast.Expr, body, els []ast.Stmt, ok bool) {
	defer func() { body, els = stripNoops(body), stripNoops(els) }()
	switch s := st.(type) {
	case *ast.IfStmt:
		if s.Init != nil {
			return nil, nil, nil, false
		}
		switch e := s.Else.(type) {
		case nil:
		case *ast.BlockStmt:
			els = e.List
		default:
			els = []ast.Stmt{s.Else}
		}
		return s.Cond, s.Body.List, els, true
	case *ast.SwitchStmt:
		if s.Init != nil || s.Tag != nil || len(s.Body.List) == 0 || len(s.Body.List) > 2 {
			return nil, nil, nil, false
		}
		first := s.Body.List[0].(*ast.CaseClause)
		if len(first.List) != 1 {
			return nil, nil, nil, false
		}
		if len(s.Body.List) == 2 {
			second := s.Body.List[1].(*ast.CaseClause)
			if second.List != nil {
				return nil, nil, nil, false
			}
			els = second.Body
		}
		return first.List[0], first.Body, els, true
	}
	return nil, nil, nil, false
}

// isNoop reports a statement without any effect: the empty statement, or an
// assignment of call-free, receive-free expressions to blank identifiers only.
func isNoop(st ast.Stmt) bool {
	switch s := st.(type) {
	case *ast.EmptyStmt:
		return true
	case *ast.AssignStmt:
		if s.Tok != token.ASSIGN {
			return false
		}
		for _, l := range s.Lhs {
			if id, ok := l.(*ast.Ident); !ok || id.Name != "_" {
				return false
			}
		}
		pure := true
		for _, r := range s.Rhs {
			ast.Inspect(r, func(x ast.Node) bool {
				switch y := x.(type) {
				case *ast.CallExpr, *ast.FuncLit, *ast.IndexExpr, *ast.SliceExpr, *ast.StarExpr, *ast.TypeAssertExpr, *ast.SelectorExpr:
					pure = false
				case *ast.UnaryExpr:
					if y.Op == token.ARROW {
						pure = false
					}
				case *ast.BinaryExpr:
					if y.Op == token.QUO || y.Op == token.REM {
						pure = false
					}
				}
				return pure
			})
		}
		return pure
	}
	return false
}

// stripNoops returns list without its no-op statements (the list itself when
// it has none).
func stripNoops(list []ast.Stmt) []ast.Stmt {
	n := 0
	for _, st := range list {
		if isNoop(st) {
			n++
		}
	}
	if n == 0 {
		return list
	}
	out := make([]ast.Stmt, 0, len(list)-n)
	for _, st := range list {
		if !isNoop(st) {
			out = append(out, st)
		}
	}
	return out
}

// resolveBool looks through a named condition: a boolean local with exactly
// one definition `cv := <expr>` stands for that expression (`cv := x != nil;
// if cv {…}` is `if x != nil {…}`). Definitions are searched in f and in the
// functions enclosing it.
func resolveBool(f *eng.Fn, e ast.Expr) ast.Expr {
	for depth := 0; depth < 4; depth++ {
		idn, ok := ast.Unparen(e).(*ast.Ident)
		if !ok {
			return e
		}
		v, ok := f.Info().ObjectOf(idn).(*types.Var)
		if !ok || !eng.IsLocal(v) {
			return e
		}
		if b, ok := v.Type().Underlying().(*types.Basic); !ok || b.Kind() != types.Bool {
			return e
		}
		var rhs ast.Expr
		n := 0
		start := f
		if enc := f.Prog.Enclosing(v.Pos()); enc != nil {
			start = enc // the variable may live in a closure nested in f
		}
		for df := start; df != nil; df = df.Parent {
			for _, d := range df.Graph().DefsOf(v) {
				if d.Kind == eng.DefParam {
					continue
				}
				n++
				if d.Kind == eng.DefPlain {
					rhs = d.RHS
				}
			}
		}
		if n != 1 || rhs == nil {
			return e
		}
		e = rhs
	}
	return e
}

// asIfIn is asIf with the condition looked through resolveBool.
func asIfIn(f *eng.Fn, st ast.Stmt) (cond ast.Expr, body, els []ast.Stmt, ok bool) {
	cond, body, els, ok = asIf(st)
	if ok {
		cond = resolveBool(f, cond)
	}
	return
}

// nodeContains reports whether sub is root or one of its descendants.
func nodeContains(root, sub ast.Node) bool {
	found := false
	ast.Inspect(root, func(x ast.Node) bool {
		if x == sub {
			found = true
		}
		return !found
	})
	return found
}

// loopEarlyExit returns the first return, break or goto that leaves loop
// (a *ast.ForStmt or *ast.RangeStmt) from inside its body, or nil.
func loopEarlyExit(f *eng.Fn, loop ast.Stmt) ast.Node {
	g := f.Graph()
	var body *ast.BlockStmt
	switch l := loop.(type) {
	case *ast.ForStmt:
		body = l.Body
	case *ast.RangeStmt:
		body = l.Body
	default:
		return nil
	}
	var early ast.Node
	ast.Inspect(body, func(x ast.Node) bool {
		switch y := x.(type) {
		case *ast.FuncLit:
			return false
		case *ast.ReturnStmt:
			if early == nil {
				early = y
			}
		case *ast.BranchStmt:
			if y.Tok == token.BREAK || y.Tok == token.GOTO {
				var target ast.Node
				for p := g.Parent(y); p != nil && target == nil; p = g.Parent(p) {
					switch p.(type) {
					case *ast.ForStmt, *ast.RangeStmt, *ast.SwitchStmt, *ast.TypeSwitchStmt, *ast.SelectStmt:
						target = p
					}
				}
				if (y.Label != nil || target == ast.Node(loop)) && early == nil {
					early = y
				}
			}
		}
		return true
	})
	return early
}

// retResults returns the operands of a return statement with a named call
// looked through: `a, b := f(x); return a, b` is `return f(x)` when a and b are
// locals whose only reaching definition at the return is that one statement
// (result i of the call bound to operand i). Rules that ask "what does this
// return hand back" see the same thing for both spellings.
func retResults(f *eng.Fn, rs *ast.ReturnStmt) []ast.Expr {
	if len(rs.Results) == 0 {
		return rs.Results
	}
	g := f.Graph()
	rp, ok := g.Where(rs)
	if !ok {
		return rs.Results
	}
	var call *ast.CallExpr
	var def ast.Node
	for i, r := range rs.Results {
		idn, ok := ast.Unparen(r).(*ast.Ident)
		if !ok {
			return rs.Results
		}
		v, ok := f.Info().ObjectOf(idn).(*types.Var)
		if !ok || !eng.IsLocal(v) {
			return rs.Results
		}
		d := g.UniqueDef(v, rp)
		if d == nil || d.RHS == nil || d.Index != i {
			return rs.Results
		}
		cl, ok := ast.Unparen(d.RHS).(*ast.CallExpr)
		if !ok {
			return rs.Results
		}
		if call == nil {
			call, def = cl, d.Node
		} else if call != cl || def != d.Node {
			return rs.Results
		}
	}
	if call == nil {
		return rs.Results
	}
	// all results of the call are returned, in order
	n := 1
	if tup, ok := f.Info().TypeOf(call).(*types.Tuple); ok {
		n = tup.Len()
	}
	if n != len(rs.Results) {
		return rs.Results
	}
	return []ast.Expr{call}
}

// retContainsCall: ContainsCall over the looked-through operands of a return.
func retContainsCall(f *eng.Fn, rs *ast.ReturnStmt, pat string) *ast.CallExpr {
	if cl := f.ContainsCall(rs, pat); cl != nil {
		return cl
	}
	for _, e := range retResults(f, rs) {
		if cl := f.ContainsCall(e, pat); cl != nil {
			return cl
		}
	}
	return nil
}

// optFloor returns the floor a caller passed, or the default of the rule.
func optFloor(f []int, def int) int {
	if len(f) > 0 {
		return f[0]
	}
	return def
}

// sameExpr: two expressions are the same variable or field path.
func sameExpr(a, b ast.Expr) bool {
	return types.ExprString(ast.Unparen(a)) == types.ExprString(ast.Unparen(b))
}

// importRules cross-registers rule groups of another property: it runs that
// property's check into a scratch report and copies the obligations of the
// picked rule ids into this report under the id `as` (one obligation per
// original obligation, function and construct kept, the original id in the
// construct). Used where a rule that is a necessary condition of this property
// too lives inline in the other property's run function.
func importRules(c *cx, src string, pick []string, as string) int {
	r, ok := Registry[src]
	if !ok {
		c.r.Unresolved(as, "property "+src)
		return 0
	}
	tmp := eng.NewReport(c.p, src, c.tier)
	r.Run(c.p, tmp, c.tier)
	n := 0
	for _, o := range tmp.Obls {
		for _, id := range pick {
			if o.ID != id {
				continue
			}
			n++
			key := as + "|" + o.Func + "|" + o.Construct + " (" + o.ID + ")"
			no := *o
			no.ID = as
			no.Construct = o.Construct + " (" + o.ID + ")"
			no.Key = key
			for i := 2; ; i++ {
				dup := false
				for _, e := range c.r.Obls {
					if e.Key == no.Key {
						dup = true
					}
				}
				if !dup {
					break
				}
				no.Key = fmt.Sprintf("%s#%d", key, i)
			}
			c.r.Obls = append(c.r.Obls, &no)
		}
	}
	c.r.Floor(as, "obligations imported from "+src+" "+strings.Join(pick, ","), n, 1)
	return n
}
