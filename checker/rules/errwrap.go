package rules

import (
	"go/ast"
	"go/types"
	"strings"

	"verif/checker/eng"
)

var errorIface = types.Universe.Lookup("error").Type().Underlying().(*types.Interface)

// formatVerbs returns, per operand index, the verb that formats it
// ('*' for a width/precision operand). ok=false when the format uses
// something this parser does not model.
func formatVerbs(format string, nargs int) (map[int]byte, bool) {
	out := map[int]byte{}
	arg := 0
	for i := 0; i < len(format); i++ {
		if format[i] != '%' {
			continue
		}
		i++
		if i >= len(format) {
			return out, false
		}
		if format[i] == '%' {
			continue
		}
		// flags
		for i < len(format) && strings.IndexByte("+-# 0", format[i]) >= 0 {
			i++
		}
		readIndex := func() bool {
			if i < len(format) && format[i] == '[' {
				j := strings.IndexByte(format[i:], ']')
				if j < 0 {
					return false
				}
				n := 0
				for _, ch := range format[i+1 : i+j] {
					if ch < '0' || ch > '9' {
						return false
					}
					n = n*10 + int(ch-'0')
				}
				arg = n - 1
				i += j + 1
			}
			return true
		}
		if !readIndex() {
			return out, false
		}
		// width
		if i < len(format) && format[i] == '*' {
			out[arg] = '*'
			arg++
			i++
		} else {
			for i < len(format) && format[i] >= '0' && format[i] <= '9' {
				i++
			}
		}
		if i < len(format) && format[i] == '.' {
			i++
			if !readIndex() {
				return out, false
			}
			if i < len(format) && format[i] == '*' {
				out[arg] = '*'
				arg++
				i++
			} else {
				for i < len(format) && format[i] >= '0' && format[i] <= '9' {
					i++
				}
			}
		}
		if !readIndex() {
			return out, false
		}
		if i >= len(format) {
			return out, false
		}
		if _, seen := out[arg]; !seen || format[i] == 'w' {
			out[arg] = format[i]
		}
		arg++
	}
	return out, true
}

// errorsKeepIdentity: inside the given packages an error that is folded into a
// new error keeps its identity: fmt.Errorf formats every operand that is an
// error with %w, and no error is rebuilt from another one's text
// (errors.New(err.Error())). Callers of the library — and the library itself
// in Serve's shutdown, the negotiation loop and the stream error paths —
// recognise ErrOutputStreamClosed, io.EOF, stream.Error and stanza.Error with
// errors.Is / errors.As; flattening one to text makes those tests fail.
// Returns the number of fmt.Errorf / errors.New calls examined.
func errorsKeepIdentity(c *cx, id string, pkgs []string) int {
	n := 0
	in := map[string]bool{}
	for _, p := range pkgs {
		in[p] = true
	}
	isErr := func(t types.Type) bool {
		if t == nil {
			return false
		}
		if b, ok := t.Underlying().(*types.Basic); ok && b.Kind() == types.UntypedNil {
			return false
		}
		return types.Implements(t, errorIface)
	}
	for _, f := range c.allFns() {
		if !strings.HasPrefix(f.Pkg.PkgPath, eng.ModPath) {
			continue
		}
		rel := strings.TrimPrefix(strings.TrimPrefix(f.Pkg.PkgPath, eng.ModPath), "/")
		if !in[rel] {
			continue
		}
		f.WalkBody(func(nd ast.Node) bool {
			call, ok := nd.(*ast.CallExpr)
			if !ok {
				return true
			}
			switch f.CalleeID(call) {
			case "fmt.Errorf":
				if len(call.Args) == 0 {
					return true
				}
				format, isConst := f.ConstStr(call.Args[0])
				var verbs map[int]byte
				parsed := false
				if isConst {
					verbs, parsed = formatVerbs(format, len(call.Args)-1)
				}
				n++
				for i, a := range call.Args[1:] {
					if !isErr(f.Info().TypeOf(a)) {
						continue
					}
					ok := parsed && verbs[i] == 'w'
					why := "the format is not a constant this rule can read"
					if parsed {
						why = "operand " + types.ExprString(a) + " is an error formatted with %" + string(verbs[i]) + ": errors.Is / errors.As no longer see it"
					}
					c.r.Check(id, f, "error operand of fmt.Errorf", "E-taint: an error folded into a new error is wrapped with %w so that its identity survives", a.Pos(), ok, why)
				}
			case "errors.New":
				n++
				for _, a := range call.Args {
					ast.Inspect(a, func(x ast.Node) bool {
						inner, ok := x.(*ast.CallExpr)
						if !ok {
							return true
						}
						if sel, ok := ast.Unparen(inner.Fun).(*ast.SelectorExpr); ok && sel.Sel.Name == "Error" && len(inner.Args) == 0 && isErr(f.Info().TypeOf(sel.X)) {
							c.r.Check(id, f, "errors.New of another error's text", "E-taint: an error folded into a new error is wrapped with %w so that its identity survives", inner.Pos(), false, "error rebuilt from the text of "+types.ExprString(sel.X))
						}
						return true
					})
				}
			}
			return true
		})
	}
	return n
}
