package rules

import (
	"go/ast"
	"go/token"
	"sort"
	"strings"

	"verif/checker/eng"
)

// E-fin: exact decision tables for pure predicates. A function that touches
// its string inputs only through == / != (against constants or against each
// other), combines the results with && || ! and if / switch / return, denotes
// a finite table: its value depends only on which of the compared constants
// (or none of them) each input equals, and on which inputs equal each other.
// predTable enumerates one representative per class - the constants the rule
// knows plus fresh values - and evaluates the function's syntax tree on each
// combination; anything outside the fragment (a call, an index, arithmetic, an
// assignment) makes the table undecided, which fails the rule. Nothing of
// /repo is executed: the evaluator below is the whole semantics used.
type predCase map[string]string // term in normal form ("p0.Local", "p1") -> value

type predEval struct {
	f   *eng.Fn
	env predCase
	why string
}

func (e *predEval) str(x ast.Expr) (string, bool) {
	x = ast.Unparen(x)
	if s, ok := e.f.ConstStr(x); ok {
		return s, true
	}
	switch x.(type) {
	case *ast.Ident, *ast.SelectorExpr:
		t := e.f.Norm(x, nil)
		if v, ok := e.env[t]; ok {
			return v, true
		}
		e.why = "term " + t + " is not an input of the table"
		return "", false
	}
	e.why = "unsupported string expression " + e.f.Prog.NodeStr(x)
	return "", false
}

func (e *predEval) boolean(x ast.Expr) (bool, bool) {
	x = ast.Unparen(x)
	if cv := e.f.ConstVal(x); cv != nil {
		switch cv.ExactString() {
		case "true":
			return true, true
		case "false":
			return false, true
		}
	}
	switch y := x.(type) {
	case *ast.UnaryExpr:
		if y.Op == token.NOT {
			v, ok := e.boolean(y.X)
			return !v, ok
		}
	case *ast.BinaryExpr:
		// len(s) == 0 and friends: the emptiness test of a string input
		if str, empty, ok := eng.StrLenTest(e.f, y); ok {
			v, ok := e.str(str)
			return (v == "") == empty, ok
		}
		switch y.Op {
		case token.LAND:
			a, ok := e.boolean(y.X)
			if !ok || !a {
				return false, ok
			}
			return e.boolean(y.Y)
		case token.LOR:
			a, ok := e.boolean(y.X)
			if !ok || a {
				return a, ok
			}
			return e.boolean(y.Y)
		case token.EQL, token.NEQ:
			a, ok1 := e.str(y.X)
			b, ok2 := e.str(y.Y)
			if !ok1 || !ok2 {
				return false, false
			}
			return (a == b) == (y.Op == token.EQL), true
		}
	case *ast.Ident:
		// a named condition
		if r := resolveBool(e.f, y); r != ast.Expr(y) {
			return e.boolean(r)
		}
	}
	if e.why == "" {
		e.why = "unsupported condition " + e.f.Prog.NodeStr(x)
	}
	return false, false
}

// exec runs a statement list: (returned, value, ok).
func (e *predEval) exec(list []ast.Stmt) (bool, bool, bool) {
	for _, st := range stripNoops(list) {
		switch s := st.(type) {
		case *ast.ReturnStmt:
			if len(s.Results) != 1 {
				e.why = "return without a single result"
				return false, false, false
			}
			v, ok := e.boolean(s.Results[0])
			return true, v, ok
		case *ast.BlockStmt:
			if r, v, ok := e.exec(s.List); !ok || r {
				return r, v, ok
			}
		case *ast.AssignStmt:
			// cv := <condition>: looked through where it is used
			if s.Tok == token.DEFINE && len(s.Lhs) == 1 && len(s.Rhs) == 1 {
				if _, ok := e.boolean(s.Rhs[0]); ok {
					continue
				}
			}
			e.why = "assignment " + e.f.Prog.NodeStr(s)
			return false, false, false
		case *ast.IfStmt:
			if s.Init != nil {
				e.why = "if with an init clause"
				return false, false, false
			}
			cv, ok := e.boolean(s.Cond)
			if !ok {
				return false, false, false
			}
			var branch []ast.Stmt
			if cv {
				branch = s.Body.List
			} else if s.Else != nil {
				branch = []ast.Stmt{s.Else}
			}
			if r, v, ok := e.exec(branch); !ok || r {
				return r, v, ok
			}
		case *ast.SwitchStmt:
			if s.Init != nil {
				e.why = "switch with an init clause"
				return false, false, false
			}
			var tag string
			if s.Tag != nil {
				var ok bool
				if tag, ok = e.str(s.Tag); !ok {
					return false, false, false
				}
			}
			var chosen, def *ast.CaseClause
			for _, cc := range s.Body.List {
				cl := cc.(*ast.CaseClause)
				if cl.List == nil {
					def = cl
					continue
				}
				for _, ce := range cl.List {
					hit := false
					if s.Tag != nil {
						v, ok := e.str(ce)
						if !ok {
							return false, false, false
						}
						hit = v == tag
					} else {
						v, ok := e.boolean(ce)
						if !ok {
							return false, false, false
						}
						hit = v
					}
					if hit && chosen == nil {
						chosen = cl
					}
				}
				if chosen != nil {
					break
				}
			}
			if chosen == nil {
				chosen = def
			}
			if chosen != nil {
				for _, b := range chosen.Body {
					if br, ok := b.(*ast.BranchStmt); ok {
						e.why = "branch statement " + br.Tok.String() + " in a switch"
						return false, false, false
					}
				}
				if r, v, ok := e.exec(chosen.Body); !ok || r {
					return r, v, ok
				}
			}
		default:
			e.why = "unsupported statement " + e.f.Prog.NodeStr(st)
			return false, false, false
		}
	}
	return false, false, true
}

// predTable checks that f computes want on every combination of the domains
// (term -> representative values). It reports one obligation.
func predTable(c *cx, id string, f *eng.Fn, what string, domains map[string][]string, want func(predCase) bool, spec string) {
	terms := make([]string, 0, len(domains))
	for t := range domains {
		terms = append(terms, t)
	}
	sort.Strings(terms)
	bad, ncase := "", 0
	var rec func(i int, env predCase)
	rec = func(i int, env predCase) {
		if bad != "" {
			return
		}
		if i == len(terms) {
			ncase++
			ev := &predEval{f: f, env: env}
			r, v, ok := ev.exec(f.Body.List)
			var desc []string
			for _, t := range terms {
				desc = append(desc, t+"="+strconvQuote(env[t]))
			}
			switch {
			case !ok:
				bad = "undecided (" + ev.why + ")"
			case !r:
				bad = "no return for " + strings.Join(desc, ", ")
			case v != want(env):
				bad = "for " + strings.Join(desc, ", ") + " the function yields " + boolStr(v) + ", the table says " + boolStr(!v)
			}
			return
		}
		for _, v := range domains[terms[i]] {
			env2 := predCase{}
			for k, x := range env {
				env2[k] = x
			}
			env2[terms[i]] = v
			rec(i+1, env2)
		}
	}
	rec(0, predCase{})
	c.r.Check(id, f, what, "E-fin: the predicate's decision table over the classes of its inputs (one representative per compared constant, plus fresh values) is exactly: "+spec+" ["+itoa(ncase)+" cases]", f.Pos(), bad == "", bad)
}

func boolStr(b bool) string {
	if b {
		return "true"
	}
	return "false"
}

func strconvQuote(s string) string { return "\"" + s + "\"" }

// stanzaIsTable: stanza.Is(name, ns) holds exactly for the three stanza names
// in namespace ns, any namespace when ns is empty. In particular a name
// without a namespace is NOT a stanza of a concrete namespace.
func stanzaIsTable(c *cx, id string) {
	f := c.fn(id, "stanza", "Is")
	if f == nil {
		return
	}
	predTable(c, id, f, "stanza.Is decision table", map[string][]string{
		"p0.Local": {"iq", "message", "presence", "", "other"},
		"p0.Space": {"", "jabber:client", "jabber:server", "other:ns"},
		"p1":       {"", "jabber:client", "jabber:server", "other:ns"},
	}, func(e predCase) bool {
		return (e["p0.Local"] == "iq" || e["p0.Local"] == "message" || e["p0.Local"] == "presence") && (e["p1"] == "" || e["p0.Space"] == e["p1"])
	}, "Local in {iq, message, presence} and (ns == \"\" or Space == ns)")
}
