package rules

import (
	"go/ast"
	"regexp"
	"sort"
	"strings"

	"verif/checker/eng"
)

// lockHeldAcrossChannelOp (C09.28 / C15.25 / C06.31): a goroutine that blocks
// in a channel operation while it holds a mutex makes every other goroutine
// that needs the mutex wait for the channel's other side. When the other side
// of the channel (or whoever would close it) needs that mutex, nothing moves
// again: a handler that keeps the listener table locked while it hands a
// stream to Accept blocks Listen and Listener.Close, and with them the accept
// loop that would have taken the stream. For every blocking channel operation
// of the module (a send or receive that is not in a select with a default arm)
// the must-lockset at the operation holds only the locks of the table below,
// each with the reason why the other side never needs it.
var localNameRE = regexp.MustCompile(`local:[A-Za-z_][A-Za-z_0-9]*<`)

var lockChanAllowed = map[string]string{
	"xmpp.Session.in|xmpp.tokenReadChan.c":                                        "the serve loop owns the input stream for the whole element; the requester reads the response through the reader that was handed to it and closes it without taking the input lock",
	"xmpp.Session.in|expr:context.Context.Done[local:<xmpp.tokenReadChan>.ctx]()": "the other arm of the hand-off select: the requester's own context, which ends without any lock of the session",
	"muc.Client.managedM|muc.joinCtx.j":                                           "the joiner waits for the address in a select with its context and holds no lock of the client while it does; if it has gone, the done arm of the same select fires",
	"muc.Client.managedM|muc.joinCtx.done":                                        "the joiner's context channel: closed without any lock of the client",
	"ibb.Listener.eLock|ibb.expected.c":                                           "the expectation's channel has capacity 1 and gets one send: the entry is deleted under eLock before the send (C15.9), so the send never blocks",
}

func lockHeldAcrossChannelOp(c *cx, id string, pkgPrefix string) int {
	allowed := lockChanAllowed
	n := 0
	for _, f := range c.allFns() {
		if pkgPrefix != "" && !strings.HasPrefix(f.Short, pkgPrefix) {
			continue
		}
		ops := chanOps(f)
		if len(ops) == 0 {
			continue
		}
		li := f.Graph().Locks(nil)
		for _, op := range ops {
			if op.kind != "send" && op.kind != "recv" {
				continue
			}
			if op.inSelect && op.hasDef {
				continue // not blocking
			}
			// (a select with a context arm is bounded by that context, but
			// until it ends everybody who needs the mutex waits with it: such
			// sites are table entries with a reason, not exempt)
			n++
			// (table keys do not depend on what a local variable is called)
			op.class = localNameRE.ReplaceAllString(op.class, "local:<")
			ls, ok := li.AtNode(op.node)
			if !ok {
				// comm statements of a select: the lockset of the select
				continue
			}
			var held []string
			for cls := range ls {
				held = append(held, cls)
			}
			sort.Strings(held)
			for _, cls := range held {
				why, ok := allowed[cls+"|"+op.class]
				if !ok {
					why = "whoever needs the lock waits until the other side of the channel is served; if the other side needs it, for ever"
				}
				c.r.Check(id, f, op.kind+" on "+op.class+" holding "+cls, "L: no mutex outside the table is held across a blocking channel operation", op.node.Pos(), ok, why)
			}
			if len(held) == 0 {
				c.r.Check(id, f, op.kind+" on "+op.class+" holding no lock", "L: no mutex outside the table is held across a blocking channel operation", op.node.Pos(), true, "")
			}
		}
	}
	return n
}

// deferredReleaseNotInLoop (C09.29 / C04.16 / C01.25): a deferred Unlock runs
// when the FUNCTION returns. Inside a loop body it keeps the mutex held for
// the rest of the function: the next iteration's Lock - or the next call of an
// accessor that takes the lock (Session.State in the feature loop) - waits for
// a release that only this goroutine can perform. The must-lockset analysis
// does not see it (at the loop head "held" and "not held" merge to "not
// held"), so the shape is ruled out directly: no defer statement that
// releases a mutex lies on a cycle of the function's control-flow graph.
func deferredReleaseNotInLoop(c *cx, id string) int {
	n := 0
	for _, f := range c.allFns() {
		g := f.Graph()
		for _, d := range g.Defers {
			op, cls, _ := f.LockOp(d.Call)
			if op != -1 {
				continue
			}
			n++
			pt, ok := g.Where(d)
			if !ok {
				continue
			}
			c.r.Check(id, f, "deferred release of "+cls, "O: a deferred Unlock is not inside a loop (it would hold the mutex across iterations, until the function returns)", d.Pos(), !g.Reachable(g.After(pt), pt, nil, nil), "the defer statement lies in a loop: after the first iteration the mutex stays held, and the next Lock or locking accessor of this goroutine blocks for ever")
		}
	}
	return n
}

// deferredReleaseFindsTheLockHeld (C09.35 / C06.39 / C15.34): a deferred
// Unlock runs at every return after the defer statement. A function that
// releases the mutex in between (around a wait) and takes it again holds it at
// every such return: the must-lockset at the return contains the class of
// every deferred release that precedes it. A new exit from the middle of the
// unlocked region ("the read deadline has passed") returns with the mutex not
// held: the deferred Unlock then panics (sync: unlock of unlocked mutex) or
// releases the lock another goroutine has just taken.
func deferredReleaseFindsTheLockHeld(c *cx, id, pkgPrefix string) int {
	n := 0
	for _, f := range c.allFns() {
		if pkgPrefix != "" && !strings.HasPrefix(f.Short, pkgPrefix) {
			continue
		}
		// the closer types hold their lock from construction (TokenWriter /
		// TokenReader take it): their Close releases what the handle holds (C05.2)
		if f.Short == "xmpp.(*lockWriteCloser).Close" || f.Short == "xmpp.(*lockReadCloser).Close" {
			continue
		}
		g := f.Graph()
		var li interface {
			AtNode(n ast.Node) (eng.LockSet, bool)
		}
		for _, d := range g.Defers {
			op, cls, _ := f.LockOp(d.Call)
			if op != -1 {
				continue
			}
			dp, ok := g.Where(d)
			if !ok {
				continue
			}
			if li == nil {
				li = g.Locks(nil)
			}
			for _, rs := range g.Returns {
				rp, ok := g.Where(rs)
				if !ok || !g.Reachable(g.After(dp), rp, nil, nil) {
					continue
				}
				n++
				ls, ok := li.AtNode(rs)
				held := ok && ls.Has(cls, false)
				c.r.Check(id, f, "return with a deferred release of "+cls+" pending", "L: the mutex a deferred Unlock will release is held at the return", rs.Pos(), held, "the return is reached with "+cls+" possibly not held: the deferred Unlock hits an unlocked mutex (or another goroutine's critical section)")
			}
		}
	}
	return n
}
