package rules

import (
	"go/ast"
	"go/types"

	"verif/checker/eng"
)

// indexedFillAdvances (C19.43 / E-idx f): a slice filled by index through a
// counter (`out[n] = v; n++`) gets one slot per iteration only if the counter
// moves between two executions of the store. A store `a[n] = …` inside a loop,
// where n is a local that the function changes somewhere and that is not the
// loop's own variable, is followed on every path back to itself by a change of
// n; otherwise every iteration overwrites the same slot and the elements after
// it stay zero (all but the last data form of a disco#info result are lost).
//
// Returns the number of such stores examined.
func indexedFillAdvances(c *cx, id string, inScope func(f *eng.Fn) bool) int {
	n := 0
	for _, f := range c.allFns() {
		if !inScope(f) {
			continue
		}
		g := f.Graph()
		for _, w := range f.Writes() {
			ix, ok := ast.Unparen(w.LHS).(*ast.IndexExpr)
			if !ok {
				continue
			}
			if _, isMap := f.Info().TypeOf(ix.X).Underlying().(*types.Map); isMap {
				continue
			}
			v := g.LocalVar(ix.Index)
			if v == nil {
				continue
			}
			changed, loopVar := false, false
			for _, d := range g.DefsOf(v) {
				switch d.Kind {
				case eng.DefOpaque:
					changed = true
				case eng.DefRange:
					loopVar = true
				case eng.DefPlain:
					if _, isFor := g.Parent(d.Node).(*ast.ForStmt); isFor {
						loopVar = true
					}
				}
			}
			if !changed || loopVar {
				continue
			}
			sp, ok := g.Where(w.Stmt)
			if !ok || !g.Reachable(g.After(sp), sp, nil, nil) {
				continue // not in a loop
			}
			n++
			moves := func(q eng.Point, nd ast.Node) bool {
				for _, d := range g.DefsAtNode(nd) {
					if d.Var == v {
						return true
					}
				}
				return false
			}
			c.r.Check(id, f, "indexed store through "+v.Name(), "O: between two executions of a[n] = … the counter n changes", w.Stmt.Pos(), g.MustPassBefore(g.After(sp), sp, moves, nil), "the store is reached again with the same "+v.Name()+": every iteration overwrites one slot and the rest stays empty")
		}
	}
	return n
}
