package rules

import (
	"go/ast"
	"go/constant"
	"go/token"
	"go/types"
	"sort"
	"strings"

	"verif/checker/eng"
)

func init() {
	Registry["C13"] = Rule{
		Meta: eng.Meta{
			Explanation: "STRUCTURAL PART ONLY of 'core stanzas and errors encode consistently and round-trip' (decode(encode(v)) == v and agreement of the two encoding paths on values are not decided). Decided: the reply helpers IQ.Result, IQ.Error, Message.Error, Presence.Error contain the parallel swap of To/From, set their reply type constant and wrap the payload / the error's token reader (C13.1, sibling agreement); StartElement and New{IQ,Message,Presence} use the same attribute vocabulary {type,to,from,id,xml:lang}, each attribute value taken from / stored into the like-named field, and force the element's local name to the stanza kind (C13.2); encoding discipline: every fmt.Fprint*/Write/WriteString call of the library goes to a destination on the whitelist (strings.Builder, hash.Hash, bytes.Buffer, the stream-header writer, the raw-connection sites of C02.7), i.e. markup and text reach the wire only as encoding/xml tokens, so well-formedness for arbitrary text reduces to encoding/xml's escaping (C13.3); enumeration exhaustiveness: a method of a string-enum type that mentions one of the type's constants mentions all of them (C13.7); a start element handed to the lazy xmlstream.Wrap inside a loop is not a variable that the loop mutates (C13.6); stanza.Error.Wrap sorts the languages before emitting texts (C13.5).",
			NotDecided:  "decode(encode(v)) equivalence, agreement of MarshalXML and TokenReader on values, behaviour of encoding/xml on invalid UTF-8.",
			Trusted:     trustedCommon,
		},
		Run: runC13,
	}
}

func runC13(p *eng.Prog, r *eng.Report, tier string) {
	c := &cx{p, r, tier}
	r19WrapPassesThePayloadOn(c, "C13.44")
	r19FromIndependentOfTo(c, "C13.45")
	r19FirstConditionWins(c, "C13.43")
	r18ConditionDefaultedWhereItIsWritten(c, "C13.42")
	r17RawTokenReaderStateless(c, "C13.41")
	r17StanzaTypesAreNotMarshalers(c, "C13.40")
	c.r.Floor("C13.39", "functions scanned for package-level state", r17NoHiddenGlobalState(c, "C13.39"), 500)
	// C13.36 (= C14.7): the hand-written constructors agree with the struct decoders on typed attributes
	typedAttrsThroughOwnDecoder(c, "C13.36")
	c11SplitString(c, "C13.33")
	// C13.37 (= C11.4 / C11.10): the domainpart of an address attribute is a fixed point of the mapping
	// (what a stanza carries as to / from / by parses back to the same address)
	importRules(c, "C11", []string{"C11.4", "C11.10"}, "C13.37")
	// C13.38 (= C05.23): the standard-marshaller path hands out no storage that goes back to a pool
	c.r.Note("C13.38: %d Pool.Put calls", pooledStorageDoesNotEscape(c, "C13.38"))
	c11EncodersEmitString(c, "C13.35")
	c13ErrorIsDirectChild(c, "C13.34")
	// ---- C13.10 encoders emit field values verbatim --------------------------------
	nLossy := lossyEmission(c, "C13.10", func(f *eng.Fn) bool { return strings.HasPrefix(f.Short, "stanza.") })
	c.r.Floor("C13.10", "emitted texts in the stanza encoders", nLossy, 8)
	nGate := emissionGatedBySibling(c, "C13.13", func(f *eng.Fn) bool {
		return strings.HasPrefix(f.Short, "stanza.") || strings.HasPrefix(f.Short, "stream.")
	})
	c.r.Floor("C13.13", "uses of receiver fields in the stanza and stream encoders", nGate, 10)
	nNm := qualifiedNamesStructured(c, "C13.12", func(f *eng.Fn) bool {
		return strings.HasPrefix(f.Short, "stanza.") || strings.HasPrefix(f.Short, "stream.")
	})
	c.r.Floor("C13.12", "xml.Name literals in the stanza and stream packages", nNm, 10)
	nTg := tagsStructured(c, "C13.12", []string{"stanza.", "stream."})
	c.r.Floor("C13.12", "xml struct tags in the stanza and stream packages", nTg, 20)
	nNsD := namespacedDecodeTargets(c, "C13.14", func(f *eng.Fn) bool {
		return strings.HasPrefix(f.Short, "stanza.") || strings.HasPrefix(f.Short, "stream.")
	})
	c.r.Floor("C13.14", "children decoded into namespaced targets", nNsD, 2)
	nLD := lossyDecodeStores(c, "C13.17", func(f *eng.Fn) bool {
		return strings.HasPrefix(f.Short, "stanza.") || strings.HasPrefix(f.Short, "stream.")
	})
	c.r.Floor("C13.17", "stores of the stanza and stream decoders", nLD, 5)
	c.r.Floor("C13.18", "append calls examined in stanza, internal/attr, internal/marshal and the root package", sharedBackingNotAppended(c, "C13.18", []string{"stanza", "", "internal/attr", "internal/marshal", "internal/stream", "stream"}), 20)
	c14OwnAttrs(c, "C13.19")
	rawTokensResolveXMLPrefix(c, "C13.15")
	nSel := childSelectedByNamespace(c, "C13.16", func(f *eng.Fn) bool {
		return strings.HasPrefix(f.Short, "stanza.") || strings.HasPrefix(f.Short, "stream.")
	})
	c.r.Floor("C13.16", "children selected by local name and decoded", nSel, 1)
	// ---- C13.11 one list entry per decoded element (stanza and stream errors)
	nApp := decodedEntryAppended(c, "C13.11", func(f *eng.Fn) bool {
		return strings.HasPrefix(f.Short, "stanza.") || strings.HasPrefix(f.Short, "stream.")
	})
	c.r.Floor("C13.11", "decoders that append decoded entries", nApp, 1)
	// ---- C13.1 reply helpers -------------------------------------------------------
	for _, k := range []struct{ fn, typ, wrap string }{
		{"IQ.Result", "stanza.ResultIQ", "stanza.IQ.Wrap[recv](p0)"},
		{"IQ.Error", "stanza.ErrorIQ", "stanza.IQ.Wrap[recv](stanza.Error.TokenReader[p0]())"},
		{"Message.Error", "stanza.ErrorMessage", "stanza.Message.Wrap[recv](stanza.Error.TokenReader[p0]())"},
		{"Presence.Error", "stanza.ErrorPresence", "stanza.Presence.Wrap[recv](stanza.Error.TokenReader[p0]())"},
	} {
		f := c.fn("C13.1", "stanza", k.fn)
		if f == nil {
			continue
		}
		swap, typ := false, false
		for _, w := range f.Writes() {
			as := w.Stmt.(*ast.AssignStmt)
			if len(as.Lhs) == 2 && len(as.Rhs) == 2 {
				l0, l1, r0, r1 := f.Norm(as.Lhs[0], nil), f.Norm(as.Lhs[1], nil), f.Norm(as.Rhs[0], nil), f.Norm(as.Rhs[1], nil)
				if (l0 == "recv.From" && l1 == "recv.To" && r0 == "recv.To" && r1 == "recv.From") || (l0 == "recv.To" && l1 == "recv.From" && r0 == "recv.From" && r1 == "recv.To") {
					swap = true
				}
			}
			if len(as.Lhs) == 1 && f.Norm(as.Lhs[0], nil) == "recv.Type" && f.Norm(as.Rhs[0], nil) == k.typ {
				typ = true
			}
		}
		ret := ""
		for _, rs := range f.Graph().Returns {
			rp, _ := f.Graph().Where(rs)
			ret = f.Norm(retResults(f, rs)[0], &rp)
		}
		c.r.Check("C13.1", f, "address swap", "K: replies swap To and From (parallel assignment)", f.Pos(), swap, "no From, To = To, From")
		c.r.Check("C13.1", f, "reply type", "K: the reply type is "+k.typ, f.Pos(), typ, "type not set to "+k.typ)
		c.r.Check("C13.1", f, "payload", "P: the reply wraps the given payload / the error's token reader", f.Pos(), ret == k.wrap, "returns "+ret)
	}

	// ---- C13.2 attribute vocabularies ---------------------------------------------------
	for _, kind := range []struct{ typ, local, ctor string }{{"IQ", "iq", "NewIQ"}, {"Message", "message", "NewMessage"}, {"Presence", "presence", "NewPresence"}} {
		se := c.fn("C13.2", "stanza", kind.typ+".StartElement")
		nw := c.fn("C13.2", "stanza", kind.ctor)
		if se == nil || nw == nil {
			continue
		}
		// written: attr name -> value field
		written := map[string]string{}
		for _, cl := range se.WalkLits("encoding/xml.Attr") {
			nameLit, _ := structLitField(cl, "Name").(*ast.CompositeLit)
			if nameLit == nil {
				continue
			}
			local, _ := se.ConstStr(structLitField(nameLit, "Local"))
			if sp := structLitField(nameLit, "Space"); sp != nil {
				local = se.Norm(sp, nil) + ":" + local
			}
			written[local] = se.Norm(structLitField(cl, "Value"), nil)
		}
		wantW := map[string]string{"type": "conv:string(recv.Type)", "to": "jid.JID.String[recv.To]()", "from": "jid.JID.String[recv.From]()", "id": "recv.ID", "internal/ns.XML:lang": "recv.Lang"}
		for a, v := range wantW {
			c.r.Check("C13.2", se, "attribute "+a+" written", "T: StartElement writes "+a+" from the like-named field", se.Pos(), written[a] == v, "value is "+written[a])
		}
		for a := range written {
			if _, ok := wantW[a]; !ok {
				c.r.Check("C13.2", se, "attribute "+a+" written", "T: StartElement writes only type,to,from,id,xml:lang", se.Pos(), false, "unexpected attribute "+a)
			}
		}
		// element name forced
		okName := false
		for _, w := range se.Writes() {
			if sel, ok := ast.Unparen(w.LHS).(*ast.SelectorExpr); ok && sel.Sel.Name == "Local" {
				if s, _ := se.ConstStr(w.RHS); s == kind.local {
					okName = true
				}
			}
		}
		c.r.Check("C13.2", se, "element name", "K: the element's local name is forced to "+kind.local, se.Pos(), okName, "")
		// parsed: case labels in the constructor and the field stored
		g := nw.Graph()
		parsed := map[string]bool{}
		for _, ce := range g.CondEdges() {
			for _, a := range ce.Atoms {
				for _, an := range []string{"id", "to", "from", "type", "lang"} {
					if eng.Glob("eq(rangeval(p0.Attr).Name.Local,\""+an+"\")", a.S) {
						// the arm stores into the like-named field
						fld := map[string]string{"id": "ID", "to": "To", "from": "From", "type": "Type", "lang": "Lang"}[an]
						for _, nd := range g.ReachableNodes(g.EdgeTarget(ce.E), nil) {
							if _, isRet := nd.(*ast.ReturnStmt); !isRet {
								ast.Inspect(nd, func(x ast.Node) bool {
									if sel, ok := x.(*ast.SelectorExpr); ok && sel.Sel.Name == fld {
										if k, _ := nw.FieldClass(sel); strings.HasSuffix(k, "."+fld) {
											parsed[an] = true
										}
									}
									return true
								})
							}
							if e, isExpr := nd.(ast.Expr); isExpr {
								if _, isRange := g.Parent(e).(*ast.RangeStmt); isRange {
									break
								}
							}
						}
					}
				}
			}
		}
		for _, an := range []string{"id", "to", "from", "type", "lang"} {
			c.r.Check("C13.2", nw, "attribute "+an+" parsed", "T: "+kind.ctor+" stores the "+an+" attribute into the like-named field", nw.Pos(), parsed[an], "no arm for "+an)
		}
	}

	// ---- C13.3 encoding discipline -----------------------------------------------------------
	c13Discipline(c, "C13.3", nil)
	// ---- C13.5 ---------------------------------------------------------------------------------
	ew := c.fn("C13.5", "stanza", "Error.Wrap")
	if ew != nil {
		g := ew.Graph()
		n := 0
		ew.WalkBody(func(nd ast.Node) bool {
			rs, ok := nd.(*ast.RangeStmt)
			if !ok {
				return true
			}
			xs := ew.Norm(rs.X, nil)
			if !strings.Contains(xs, "local:") {
				return true
			}
			n++
			xp, _ := g.Where(rs.X)
			isSort := func(q eng.Point, x ast.Node) bool {
				cl := ew.ContainsCall(x, "sort.Strings")
				return cl != nil && ew.Norm(cl.Args[0], nil) == xs
			}
			c.r.Check("C13.5", ew, "texts emitted in sorted language order", "O: the languages are sorted before the texts are emitted (deterministic output)", rs.Pos(), g.MustPassBefore(g.Entry(), xp, isSort, nil), "loop over "+xs+" reachable without sort.Strings")
			return true
		})
		c.r.Floor("C13.5", "language loops in Error.Wrap", n, 1)
	}
	// ---- C13.6 / C13.7 over the core packages ----------------------------------------------------
	wrapAliasing(c, "C13.6", []string{"stanza.", "stream."})
	c.r.Floor("C13.7", "enumeration methods examined", enumExhaustive(c, "C13.7", []string{"stanza", "stream"}), 1)
	// C13.4 namespace agreement of decoder tags with the encoder's element names
	nt := tagNamespaceAgreement(c, "C13.4", func(f *eng.Fn) bool {
		return strings.HasPrefix(f.Short, "stanza.") || strings.HasPrefix(f.Short, "stream.")
	})
	r.Note("C13.4: %d decoder tags with an encoder counterpart examined", nt)
	// C13.2b New{IQ,Message,Presence} look at EVERY attribute of the start
	// element: no break leaves the attribute loop
	for _, name := range []string{"NewIQ", "NewMessage", "NewPresence"} {
		nf := c.fn("C13.2", "stanza", name)
		if nf == nil {
			continue
		}
		nl := 0
		ast.Inspect(nf.Body, func(x ast.Node) bool {
			rs, ok := x.(*ast.RangeStmt)
			if !ok || !strings.HasSuffix(nf.Norm(rs.X, nil), ".Attr") {
				return true
			}
			nl++
			bad := ""
			var walk func(n ast.Node, inner bool)
			walk = func(n ast.Node, inner bool) {
				ast.Inspect(n, func(y ast.Node) bool {
					switch v := y.(type) {
					case *ast.BranchStmt:
						if v.Tok == token.BREAK && v.Label == nil && !inner {
							bad = "break at " + c.p.Pos(v.Pos()) + " ends the attribute loop: the attributes after it are never read"
						}
					case *ast.SwitchStmt, *ast.TypeSwitchStmt, *ast.SelectStmt, *ast.ForStmt, *ast.RangeStmt:
						if y != n {
							walk(y, true)
							return false
						}
					case *ast.FuncLit:
						return false
					}
					return true
				})
			}
			walk(rs.Body, false)
			c.r.Check("C13.2", nf, "every attribute is examined", "K: the loop over the start element's attributes is never left early", rs.Pos(), bad == "", bad)
			return true
		})
		c.r.Floor("C13.2", "attribute loops in "+name, nl, 1)
	}
	// C13.9 hand-written token loops consume every child element
	nl := decoderLoopConsumes(c, "C13.9", func(f *eng.Fn) bool {
		return strings.HasPrefix(f.Short, "stanza.") || strings.HasPrefix(f.Short, "stream.") || strings.HasPrefix(f.Short, "internal/saslerr.")
	})
	r.Note("C13.9: %d start-element edges in token loops examined", nl)
	c13StreamErrorArms(c, "C13.21")
	xmlLangTagsNamespaced(c, "C13.27")
	noLossyInDecoders(c, "C13.28", func(f *eng.Fn) bool {
		return strings.HasPrefix(f.Short, "stanza.") || strings.HasPrefix(f.Short, "stream.") || strings.HasPrefix(f.Short, "internal/saslerr.")
	}, 5)
	jidCore(c, "C13.26")
	inCore := func(f *eng.Fn) bool {
		return strings.HasPrefix(f.Short, "stanza.") || strings.HasPrefix(f.Short, "stream.") || strings.HasPrefix(f.Short, "internal/saslerr.")
	}
	decodeTargetsAreFresh(c, "C13.30", inCore, 4)
	encoderLoopsDoNotFilter(c, "C13.31", inCore, 2)
	decodersKeepEveryElement(c, "C13.32", inCore, 4)
	decodedStanzaNotRewritten(c, "C13.25", []string{"stanza.UnmarshalIQError"}, 1)
	c13EveryTextWritten(c, "C13.24")
	attrGetNotUsed(c, "C13.23")
	noManualEscaping(c, "C13.22", func(f *eng.Fn) bool {
		return strings.HasPrefix(f.Short, "stanza.") || strings.HasPrefix(f.Short, "stream.") || strings.HasPrefix(f.Short, "internal/saslerr.")
	})
	nv := decoderLoopVisitsEveryChild(c, "C13.20", func(f *eng.Fn) bool {
		return strings.HasPrefix(f.Short, "stanza.") || strings.HasPrefix(f.Short, "stream.") || strings.HasPrefix(f.Short, "internal/saslerr.")
	})
	c.r.Floor("C13.20", "start-element edges in the token loops of the core decoders", nv, 1)
	// C13.8 decoder typestate in the core stanza / stream error decoders
	decoderSkipTypestate(c, "C13.8", func(f *eng.Fn) bool {
		return strings.HasPrefix(f.Short, "stanza.") || strings.HasPrefix(f.Short, "stream.") || strings.HasPrefix(f.Short, "internal/saslerr.")
	}, 3)
}

// c13Discipline: every formatted/raw write goes to a whitelisted destination.
func c13Discipline(c *cx, id string, pkgPrefix []string) {
	rawOK := map[string]bool{
		"xmpp.StartTLS$3": true, "component.Negotiator$1": true, "internal/stream.Send": true, "internal/stream.Close": true,
	}
	n := 0
	for _, f := range c.allFns() {
		if len(pkgPrefix) > 0 {
			okp := false
			for _, p := range pkgPrefix {
				if strings.HasPrefix(f.Short, p) {
					okp = true
				}
			}
			if !okp {
				continue
			}
		}
		for _, cl := range f.AllCalls() {
			cid := f.CalleeID(cl)
			var dst ast.Expr
			switch {
			case strings.HasPrefix(cid, "fmt.Fprint"):
				dst = cl.Args[0]
			case cid == "io.WriteString":
				dst = cl.Args[0]
			case strings.HasSuffix(cid, ".WriteString") || strings.HasSuffix(cid, ".Write") || strings.HasSuffix(cid, ".WriteByte") || strings.HasSuffix(cid, ".WriteRune"):
				if sel, ok := ast.Unparen(cl.Fun).(*ast.SelectorExpr); ok {
					dst = sel.X
				}
			default:
				continue
			}
			if dst == nil {
				continue
			}
			t := eng.TypeStr(f.Info().TypeOf(dst))
			t = strings.TrimPrefix(t, "*")
			n++
			okd := false
			switch t {
			case "strings.Builder", "bytes.Buffer", "hash.Hash", "bufio.Writer", "crypto/sha1.digest", "text/tabwriter.Writer":
				okd = t != "bufio.Writer" || rawOK[f.Short]
			}
			if rawOK[f.Short] {
				okd = true
			}
			// writers that are themselves io.Writer implementations forwarding bytes (conn wrappers, tee)
			if strings.HasSuffix(cid, ".Write") && (strings.Contains(f.Short, "onn).Write") || strings.Contains(f.Short, "onn.Write") || strings.Contains(f.Short, "Writer).Write")) {
				okd = true
			}
			c.r.Check(id, f, "raw write "+cid+" to "+t, "C: formatted/raw writes go only to in-memory builders, hashes, the stream-header writer or the listed raw-connection sites (everything that reaches the wire as XML goes through encoding/xml tokens)", cl.Pos(), okd, "write of possibly unescaped text to a "+t)
		}
	}
	c.r.Floor(id, "raw writes examined", n, 10)
}

// wrapAliasing: xmlstream.Wrap is lazy; a start element variable declared
// outside a loop and mutated inside it must not be handed to Wrap in the loop.
func wrapAliasing(c *cx, id string, prefixes []string) {
	n := 0
	for _, f := range c.allFns() {
		okp := len(prefixes) == 0
		for _, p := range prefixes {
			if strings.HasPrefix(f.Short, p) {
				okp = true
			}
		}
		if !okp {
			continue
		}
		f.WalkBody(func(nd ast.Node) bool {
			var body *ast.BlockStmt
			switch l := nd.(type) {
			case *ast.RangeStmt:
				body = l.Body
			case *ast.ForStmt:
				body = l.Body
			default:
				return true
			}
			ast.Inspect(body, func(x ast.Node) bool {
				cl, ok := x.(*ast.CallExpr)
				if !ok || f.CalleeID(cl) != "mellium.im/xmlstream.Wrap" || len(cl.Args) != 2 {
					return true
				}
				v := rootLocal(f, cl.Args[1])
				if v == nil {
					return true
				}
				n++
				declaredOutside := !(body.Pos() <= v.Pos() && v.Pos() < body.End())
				mutated := false
				ast.Inspect(body, func(y ast.Node) bool {
					if as, ok := y.(*ast.AssignStmt); ok {
						for _, l := range as.Lhs {
							if rootLocal(f, l) == v {
								mutated = true
							}
						}
					}
					return true
				})
				c.r.Check(id, f, "start element handed to the lazy Wrap in a loop", "a start element variable that outlives the loop iteration and is mutated by it is not captured by xmlstream.Wrap (its Attr slice would be shared by all iterations)", cl.Pos(), !(declaredOutside && mutated), "variable "+v.Name()+" is declared outside the loop, mutated inside it and captured by the lazy Wrap")
				return true
			})
			return true
		})
	}
	c.r.Note("%s: %d Wrap calls in loops with a local start element examined", id, n)
}

// enumExhaustive: for every named string type with >= 2 constants, a method of
// that type which mentions one of its constants (by name or by value) mentions
// all of them.
func enumExhaustive(c *cx, id string, rels []string) int {
	n := 0
	for _, rel := range rels {
		pk := c.p.Pkg(rel)
		if pk == nil {
			continue
		}
		consts := map[*types.TypeName][]*types.Const{}
		sc := pk.Types.Scope()
		for _, name := range sc.Names() {
			cst, ok := sc.Lookup(name).(*types.Const)
			if !ok {
				continue
			}
			nt, ok := cst.Type().(*types.Named)
			if !ok || cst.Val().Kind() != constant.String {
				continue
			}
			consts[nt.Obj()] = append(consts[nt.Obj()], cst)
		}
		for tn, cs := range consts {
			if len(cs) < 2 {
				continue
			}
			for _, f := range c.allFns() {
				if f.Obj == nil || f.Pkg != pk {
					continue
				}
				recv := f.Sig().Recv()
				if recv == nil {
					continue
				}
				rt := recv.Type()
				if pt, ok := rt.(*types.Pointer); ok {
					rt = pt.Elem()
				}
				if nt, ok := rt.(*types.Named); !ok || nt.Obj() != tn {
					continue
				}
				mention := map[*types.Const]bool{}
				f.WalkBody(func(nd ast.Node) bool {
					switch x := nd.(type) {
					case *ast.Ident:
						if o, ok := f.Info().Uses[x].(*types.Const); ok {
							for _, k := range cs {
								if o == k {
									mention[k] = true
								}
							}
						}
					case *ast.BasicLit:
						if v := f.ConstVal(x); v != nil && v.Kind() == constant.String {
							for _, k := range cs {
								if constant.StringVal(k.Val()) == constant.StringVal(v) {
									mention[k] = true
								}
							}
						}
					}
					return true
				})
				if len(mention) < 2 {
					continue // a single constant is a default value, not an enumeration
				}
				n++
				var missing []string
				for _, k := range cs {
					if !mention[k] {
						missing = append(missing, k.Name())
					}
				}
				sort.Strings(missing)
				c.r.Check(id, f, "enumeration over "+tn.Name(), "exhaustiveness: a method of an enumeration type that distinguishes two or more of its constants handles all of them", f.Pos(), len(missing) == 0, "constants not handled: "+strings.Join(missing, ", "))
			}
		}
	}
	return n
}

// c13StreamErrorArms (C13.21): which child of <stream:error/> ends up where,
// decided by case analysis over the child's name with the contradicting edges
// cut (whatever the order or shape of the tests): a <text/> in the stream
// error namespace is a text and never the condition - also when it comes
// first; any other element of that namespace is the condition and never a
// text; an element of another namespace (an application condition) is neither.
func c13StreamErrorArms(c *cx, id string) {
	f := c.fn(id, "stream", "(*Error).UnmarshalXML")
	if f == nil {
		return
	}
	g := f.Graph()
	type site struct {
		pt  eng.Point
		pos token.Pos
	}
	var errStores, textStores []site
	for _, w := range f.Writes() {
		cls, _ := f.FieldClass(w.LHS)
		pt, ok := g.Where(w.Stmt)
		if !ok {
			continue
		}
		switch cls {
		case "stream.Error.Err":
			errStores = append(errStores, site{pt, w.Stmt.Pos()})
		case "stream.Error.Text":
			textStores = append(textStores, site{pt, w.Stmt.Pos()})
		}
	}
	c.r.Floor(id, "stores to Error.Err in the decoder", len(errStores), 1)
	c.r.Floor(id, "stores to Error.Text in the decoder", len(textStores), 1)
	reach := func(ss []site, cut eng.Cut) (bool, token.Pos) {
		for _, s := range ss {
			if g.Reachable(g.Entry(), s.pt, cut, nil) {
				return true, s.pos
			}
		}
		return false, f.Pos()
	}
	cases := []struct {
		name            string
		assume          []string
		wantErr, wantTx bool
	}{
		{"<text/> in the stream error namespace", []string{`eq(*.Name.Local,"text")`, `eq(*.Name.Space,stream.NSError)`, `!eq(*.Name.Local,"see-other-host")`}, false, true},
		{"<see-other-host/> in the stream error namespace", []string{`eq(*.Name.Local,"see-other-host")`, `eq(*.Name.Space,stream.NSError)`, `!eq(*.Name.Local,"text")`}, true, false},
		{"another element of the stream error namespace", []string{`!eq(*.Name.Local,"text")`, `!eq(*.Name.Local,"see-other-host")`, `eq(*.Name.Space,stream.NSError)`}, true, false},
		{"an element of another namespace", []string{`!eq(*.Name.Space,stream.NSError)`}, false, false},
	}
	for _, k := range cases {
		cut := g.CutFor(k.assume...)
		gotErr, pe := reach(errStores, cut)
		gotTx, ptx := reach(textStores, cut)
		pos := pe
		if gotTx != k.wantTx {
			pos = ptx
		}
		c.r.Check(id, f, "child "+k.name, "E-fin: for this class of child the condition is stored: "+boolStr(k.wantErr)+", a text is appended: "+boolStr(k.wantTx)+" (edges contradicting the class are cut, then the stores are tested for reachability)", pos, gotErr == k.wantErr && gotTx == k.wantTx, "condition stored: "+boolStr(gotErr)+", text appended: "+boolStr(gotTx))
	}
}

// decodedStanzaNotRewritten (C13.25 / C14.10): a stanza value that stanza.NewIQ /
// NewMessage / NewPresence built from a start element is what the element
// said: the function that obtained it does not assign to any of its fields
// afterwards. Filling in "the obvious" - a missing sender from the error's by
// attribute, a missing type as get - makes the decoded value differ from the
// encoded one, and makes the multiplexer look the stanza up under a type it
// does not have.
func decodedStanzaNotRewritten(c *cx, id string, fns []string, floor int) {
	n := 0
	for _, name := range fns {
		i := strings.Index(name, ".")
		f := c.fn(id, name[:i], name[i+1:])
		if f == nil {
			continue
		}
		g := f.Graph()
		decoded := map[*types.Var]bool{}
		for _, d := range g.AllDefs() {
			if d.RHS == nil || d.Var == nil {
				continue
			}
			if cl, ok := ast.Unparen(d.RHS).(*ast.CallExpr); ok {
				switch f.CalleeID(cl) {
				case "stanza.NewIQ", "stanza.NewMessage", "stanza.NewPresence":
					if d.Index == 0 {
						decoded[d.Var] = true
					}
				}
			}
		}
		n += len(decoded)
		for _, w := range f.Writes() {
			sel, ok := ast.Unparen(w.LHS).(*ast.SelectorExpr)
			if !ok {
				continue
			}
			if v := rootLocal(f, sel); v != nil && decoded[v] {
				c.r.Check(id, f, "field of the decoded stanza assigned", "W: the value built from the start element is not edited by the function that decoded it", w.Stmt.Pos(), false, types.ExprString(w.LHS)+" is overwritten after decoding: the value no longer says what the element said")
			}
		}
		c.r.Check(id, f, "decoded stanza left as decoded", "W: no field of a value obtained from stanza.New* is assigned in "+f.Short, f.Pos(), true, "")
	}
	c.r.Floor(id, "stanza values decoded from a start element", n, floor)
}

// c13EveryTextWritten (C13.24): stream.Error.TokenReader writes one <text/> for
// every entry of Error.Text: each iteration of its loop over the texts reaches
// the next one only through the statement that adds the element to the output
// (no entry is filtered out: the decoder appends every <text/> it meets, and
// two texts may share a language - or have none).
func c13EveryTextWritten(c *cx, id string) {
	f := c.fn(id, "stream", "Error.TokenReader")
	if f == nil {
		return
	}
	g := f.Graph()
	n := 0
	f.WalkBody(func(nd ast.Node) bool {
		rs, ok := nd.(*ast.RangeStmt)
		if !ok || !strings.HasSuffix(f.Norm(rs.X, nil), ".Text") {
			return true
		}
		vid, _ := rs.Value.(*ast.Ident)
		body, head, done, okp := g.LoopPoints(rs)
		if !okp || vid == nil {
			c.r.Unresolved(id, "loop over Error.Text")
			return true
		}
		n++
		vo := f.Info().ObjectOf(vid)
		// the emitting statement: an append / MultiReader / Wrap whose operands mention the loop variable's Value
		isEmit := func(q eng.Point, x ast.Node) bool {
			found := false
			ast.Inspect(x, func(y ast.Node) bool {
				cl, ok := y.(*ast.CallExpr)
				if !ok {
					return !found
				}
				cid := f.CalleeID(cl)
				if cid != "builtin.append" && !strings.HasPrefix(cid, "mellium.im/xmlstream.") {
					return !found
				}
				ast.Inspect(cl, func(z ast.Node) bool {
					if sel, ok := z.(*ast.SelectorExpr); ok && sel.Sel.Name == "Value" {
						if idn, ok := ast.Unparen(sel.X).(*ast.Ident); ok && f.Info().ObjectOf(idn) == vo {
							found = true
						}
					}
					return !found
				})
				return !found
			})
			return found
		}
		okw := g.MustPassBefore(body, head, isEmit, nil) && g.MustPassBefore(body, done, isEmit, nil)
		c.r.Check(id, f, "every text entry is written", "O: each iteration of the loop over Error.Text adds that entry's element to the output before the next iteration", rs.Pos(), okw, "an iteration can go on without writing its text: the encoded error has fewer texts than the value")
		return true
	})
	c.r.Floor(id, "loops over Error.Text in the encoder", n, 1)
}

// noLossyInDecoders (C13.28 / C20.15): what a decoder stores is what the
// element said. No UnmarshalXML / UnmarshalXMLAttr / UnmarshalText method in
// scope - and no accessor listed by the caller - calls a string-rewriting
// function (trim, case folding, replace): "servers pretty-print" is not a
// reason to drop the white space an error text or a form value was sent with;
// the encoders write the text as it is, so the decoded value would differ
// from the encoded one.
func noLossyInDecoders(c *cx, id string, in func(f *eng.Fn) bool, floor int) {
	n := 0
	for _, f := range c.allFns() {
		if f.Body == nil || !in(f) {
			continue
		}
		isDec := false
		for x := f; x != nil; x = x.Parent {
			if x.Obj != nil {
				switch x.Obj.Name() {
				case "UnmarshalXML", "UnmarshalXMLAttr", "UnmarshalText", "GetString", "GetStrings", "Get", "Raw", "ForFields":
					isDec = true
				}
				break
			}
		}
		if !isDec {
			continue
		}
		n++
		for _, cl := range f.AllCalls() {
			if cid := f.CalleeID(cl); lossyFuncs[cid] {
				c.r.Check(id, f, "call of "+cid, "E-taint: decoders and accessors hand on the text as it was sent", cl.Pos(), false, "the decoded value differs from what was encoded (white space, case)")
			}
		}
	}
	c.r.Floor(id, "decoders and accessors scanned", n, floor)
}

// c13ErrorIsDirectChild (C13.34): the error of an error stanza is the child
// called error in the stanza's namespace - a DIRECT child. An error reply
// echoes the request, and the echoed payload may itself contain an element
// called error (a forwarded bounce, a pubsub item): UnmarshalError decodes the
// element that an iterator over the stanza's own children (xmlstream.Iter over
// the reader it was given) reports, behind the test of that element's local
// name, and decodes from that iterator's reader for the child. A walk over the
// raw tokens with a depth counter that is consulted only for the end of the
// stanza finds the nested element first.
func c13ErrorIsDirectChild(c *cx, id string) {
	f := c.fn(id, "stanza", "UnmarshalError")
	if f == nil {
		return
	}
	g := f.Graph()
	n := 0
	for _, cl := range f.Calls("encoding/xml.Decoder.Decode") {
		n++
		c.dom(id, f, cl, "decode of the error payload", []string{"eq(*xmlstream.Iter.Current[*xmlstream.NewIter(p0)]()#0.Name.Local,\"error\")"})
		pt, _ := g.Where(cl)
		src := f.Norm(cl, &pt)
		c.r.Check(id, f, "source of the error payload", "P: the decoder reads the child the iterator reported (its start element and its reader)", cl.Pos(), strings.Contains(src, "xmlstream.Iter.Current[") && strings.Contains(src, "#1"), "decoder source is "+src)
	}
	c.r.Floor(id, "decodes in UnmarshalError", n, 1)
}
