package rules

import (
	"go/ast"
	"reflect"
	"strings"
)

// noInnerXMLTargets (C19.47): encoding/xml fills a field tagged `,innerxml`
// only when the decoder reads raw bytes. Everything a session receives is
// decoded from a token stream (xml.NewTokenDecoder over the handler's
// reader): such a field stays empty, without an error, so the value decoded
// from the tokens of TokenReader() differs from the one decoded from the bytes
// of MarshalXML (F136: trust messages lost every key id, fetched bookmarks
// their extensions). No struct type of the library has an innerxml field.
//
// Returns the number of tagged struct fields examined.
func noInnerXMLTargets(c *cx, id string) int {
	n := 0
	for _, pk := range c.p.Pkgs {
		for _, file := range pk.Syntax {
			ast.Inspect(file, func(nd ast.Node) bool {
				st, ok := nd.(*ast.StructType)
				if !ok || st.Fields == nil {
					return true
				}
				for _, fld := range st.Fields.List {
					if fld.Tag == nil {
						continue
					}
					tag := reflect.StructTag(strings.Trim(fld.Tag.Value, "`")).Get("xml")
					if tag == "" {
						continue
					}
					n++
					isInner := false
					for _, opt := range strings.Split(tag, ",")[1:] {
						if opt == "innerxml" {
							isInner = true
						}
					}
					if isInner {
						name := "field"
						if len(fld.Names) > 0 {
							name = fld.Names[0].Name
						}
						c.r.CheckNamed(id, strings.TrimPrefix(pk.PkgPath, "mellium.im/xmpp/"), "innerxml field "+name, "K: no decode target has a field tagged innerxml (it stays empty when the value is decoded from a token stream)", fld.Pos(), false, "the field is filled from raw bytes only: the same element decoded from tokens yields an empty value and no error")
					}
				}
				return true
			})
		}
	}
	return n
}
