package rules

import (
	"go/ast"
	"go/types"
	"reflect"
	"strings"

	"verif/checker/eng"
)

// noInnerXMLTargets (C19.47): encoding/xml fills a field tagged `,innerxml`
// only when the decoder reads raw bytes. Everything a session receives is
// decoded from a token stream (xml.NewTokenDecoder over the handler's
// reader): such a field stays empty, without an error, so the value decoded
// from the tokens of TokenReader() differs from the one decoded from the bytes
// of MarshalXML (F136: trust messages lost every key id, fetched bookmarks
// their extensions). No struct type of the library has an innerxml field.
//
// Returns the number of tagged struct fields examined.
func noInnerXMLTargets(c *cx, id string) int {
	n := 0
	for _, pk := range c.p.Pkgs {
		for _, file := range pk.Syntax {
			ast.Inspect(file, func(nd ast.Node) bool {
				st, ok := nd.(*ast.StructType)
				if !ok || st.Fields == nil {
					return true
				}
				for _, fld := range st.Fields.List {
					if fld.Tag == nil {
						continue
					}
					tag := reflect.StructTag(strings.Trim(fld.Tag.Value, "`")).Get("xml")
					if tag == "" {
						continue
					}
					n++
					isInner := false
					for _, opt := range strings.Split(tag, ",")[1:] {
						if opt == "innerxml" {
							isInner = true
						}
					}
					if isInner {
						name := "field"
						if len(fld.Names) > 0 {
							name = fld.Names[0].Name
						}
						c.r.CheckNamed(id, strings.TrimPrefix(pk.PkgPath, "mellium.im/xmpp/"), "innerxml field "+name, "K: no decode target has a field tagged innerxml (it stays empty when the value is decoded from a token stream)", fld.Pos(), false, "the field is filled from raw bytes only: the same element decoded from tokens yields an empty value and no error")
					}
				}
				return true
			})
		}
	}
	return n
}

// reencodedTokensDropDeclarations (C19.53): a decoder that writes the tokens
// it reads to an encoder of its own (to keep the content of an element as
// text) gets every namespace twice from encoding/xml: in the names and as
// xmlns / xmlns:p attributes. The encoder declares the ones of the names
// again, so a loop that passes the attributes on grows the text by one
// declaration per element on every decode (F137: bookmark extensions). Such a
// function tests attribute names against "xmlns" in both positions (the
// unprefixed declaration: Name.Local; the prefixed ones: Name.Space) and
// stores the filtered list.
//
// Returns the number of re-encoding functions examined.
func reencodedTokensDropDeclarations(c *cx, id string, in func(*eng.Fn) bool) int {
	n := 0
	for _, f := range c.allFns() {
		if !in(f) || f.Body == nil {
			continue
		}
		if len(f.Calls("encoding/xml.NewEncoder")) == 0 || len(f.Calls("encoding/xml.Encoder.EncodeToken")) == 0 {
			continue
		}
		reads := len(f.Calls("encoding/xml.Decoder.Token")) + len(f.Calls("encoding/xml.TokenReader.Token"))
		if reads == 0 {
			continue
		}
		n++
		local, space, store := false, false, false
		ast.Inspect(f.Body, func(nd ast.Node) bool {
			switch x := nd.(type) {
			case *ast.BinaryExpr:
				if x.Op.String() != "==" && x.Op.String() != "!=" {
					return true
				}
				for _, pr := range [][2]ast.Expr{{x.X, x.Y}, {x.Y, x.X}} {
					if s, ok := f.ConstStr(pr[1]); ok && s == "xmlns" {
						if sel, ok := ast.Unparen(pr[0]).(*ast.SelectorExpr); ok {
							if in, ok := ast.Unparen(sel.X).(*ast.SelectorExpr); ok && in.Sel.Name == "Name" {
								switch sel.Sel.Name {
								case "Local":
									local = true
								case "Space":
									space = true
								}
							}
						}
					}
				}
			case *ast.AssignStmt:
				for _, l := range x.Lhs {
					if sel, ok := ast.Unparen(l).(*ast.SelectorExpr); ok && sel.Sel.Name == "Attr" {
						store = true
					}
				}
			}
			return true
		})
		why := ""
		switch {
		case !local:
			why = "no attribute is tested for the name xmlns: the declaration the decoder reports is written next to the one the encoder adds"
		case !space:
			why = "no attribute is tested for the xmlns prefix: prefixed declarations are written as attributes of a namespace called xmlns, one more on every decode"
		case !store:
			why = "the filtered attribute list is not stored back into the start element"
		}
		c.r.Check(id, f, "namespace declarations of re-encoded tokens", "K: a function that copies decoder tokens to its own encoder drops xmlns and xmlns:p attributes (the encoder declares the namespaces of the names itself)", f.Body.Pos(), why == "", why)
	}
	return n
}

// stanzaWrappersDecodeTheirPayloadAttrs (C19.54): a struct that embeds a
// stanza type and has fields tagged `,attr` beside it asks encoding/xml for
// attributes of the STANZA element; the encoders of such types write their
// own attributes on the payload child (F138: commands.Response wrote node,
// sessionid and status on <command/>, and decoding its own output gave an
// empty response without an error). Such a type has an UnmarshalXML of its
// own; a struct type without a name cannot have one and must not have the
// shape.
//
// Returns the number of structs embedding a stanza type examined.
func stanzaWrappersDecodeTheirPayloadAttrs(c *cx, id string) int {
	n := 0
	for _, pk := range c.p.Pkgs {
		for _, file := range pk.Syntax {
			named := map[*ast.StructType]*ast.TypeSpec{}
			ast.Inspect(file, func(nd ast.Node) bool {
				if ts, ok := nd.(*ast.TypeSpec); ok {
					if st, ok := ts.Type.(*ast.StructType); ok {
						named[st] = ts
					}
				}
				return true
			})
			ast.Inspect(file, func(nd ast.Node) bool {
				st, ok := nd.(*ast.StructType)
				if !ok || st.Fields == nil {
					return true
				}
				embeds, attr := "", ""
				for _, fld := range st.Fields.List {
					if len(fld.Names) == 0 {
						if tv, ok := pk.TypesInfo.Types[fld.Type]; ok {
							switch t := tv.Type.String(); t {
							case "mellium.im/xmpp/stanza.IQ", "mellium.im/xmpp/stanza.Message", "mellium.im/xmpp/stanza.Presence":
								embeds = t
							}
						}
						continue
					}
					if fld.Tag == nil {
						continue
					}
					tag := reflect.StructTag(strings.Trim(fld.Tag.Value, "`")).Get("xml")
					for _, opt := range strings.Split(tag, ",")[1:] {
						if opt == "attr" && attr == "" {
							attr = fld.Names[0].Name
						}
					}
				}
				if embeds == "" {
					return true
				}
				n++
				if attr == "" {
					return true
				}
				name, ok2, why := "unnamed struct with field "+attr, false, "a struct type without a name cannot have an UnmarshalXML: field "+attr+" is read from the attributes of the stanza element, not of the payload"
				if ts := named[st]; ts != nil {
					name = ts.Name.Name
					why = "type " + name + " has no UnmarshalXML of its own: encoding/xml looks for " + attr + " among the attributes of the stanza element, where the type's encoder does not write it"
					if obj := pk.Types.Scope().Lookup(ts.Name.Name); obj != nil {
						if nt, ok := obj.Type().(*types.Named); ok {
							for i := 0; i < nt.NumMethods(); i++ {
								if nt.Method(i).Name() == "UnmarshalXML" {
									ok2, why = true, ""
								}
							}
						}
					}
				}
				c.r.CheckNamed(id, strings.TrimPrefix(pk.PkgPath, "mellium.im/xmpp/"), "payload attributes of "+name, "K: a struct that embeds a stanza type and declares attribute fields beside it decodes them itself (UnmarshalXML on the type)", st.Pos(), ok2, why)
				return true
			})
		}
	}
	return n
}

// elementNamesNotFromXMLName (C19.55): the XMLName field of a payload type is
// what the DECODER found; a value built by the program has the zero name. An
// encoder that takes the name of an element it writes from that field writes
// an element without a name for every such value (F139:
// muc.Invitation.MarshalDirect). The start elements an encoder builds are
// named by the encoder.
//
// Returns the number of xml.StartElement literals examined.
func elementNamesNotFromXMLName(c *cx, id string) int {
	n := 0
	for _, f := range c.allFns() {
		if f.Body == nil {
			continue
		}
		ast.Inspect(f.Body, func(nd ast.Node) bool {
			cl, ok := nd.(*ast.CompositeLit)
			if !ok {
				return true
			}
			tv, ok := f.Pkg.TypesInfo.Types[cl]
			if !ok || tv.Type.String() != "encoding/xml.StartElement" {
				return true
			}
			n++
			for i, el := range cl.Elts {
				var v ast.Expr
				if kv, ok := el.(*ast.KeyValueExpr); ok {
					if k, ok := kv.Key.(*ast.Ident); !ok || k.Name != "Name" {
						continue
					}
					v = kv.Value
				} else if i == 0 {
					v = el
				}
				if v == nil {
					continue
				}
				if sel, ok := ast.Unparen(v).(*ast.SelectorExpr); ok && sel.Sel.Name == "XMLName" {
					c.r.Check(id, f, "element named by "+types.ExprString(sel), "K: an encoder names the elements it writes itself (XMLName is zero unless the value was decoded)", cl.Pos(), false, "the element gets its name from an XMLName field: a value that was not decoded is written as an element without a name")
				}
			}
			return true
		})
	}
	return n
}
